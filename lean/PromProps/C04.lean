import PromModel.Tsdb.Damage
import PromModel.Suites.DamageSuite
import PromProofs.Damage
import PromProofs.DamageReplay
import PromModel.Tsdb.OooMarkers
import PromProofs.OooMarkers
/-
  C04 — Damaged on-disk data never yields wrong samples.
  Property theorems only.  Model: PromModel/Tsdb/Damage.lean on top of the WAL framing model of C13
  (PromModel/Tsdb/WalFrame.lean); helper lemmas: PromProofs/Damage.lean (+ the C13 lemmas).

  Page sizes: `8 ≤ ps ≤ 65542` (Go: 32768); `crc` is an arbitrary function except where a detection
  hypothesis is stated explicitly (`CrcDetects1`).
-/
namespace Prom.C04
open Prom.Wal Prom.Damage

def WF (ps : Nat) : Prop := 8 ≤ ps ∧ ps ≤ 65542
example : WF 32768 := by unfold WF; omega

/-- The byte stream of a closed log (all segment files, which are page aligned). -/
def stream (ps pps : Nat) (crc : Crc) (batches : List (List Bytes)) : Bytes :=
  segStream ps (segments ps (logAll ps pps crc batches))

theorem stream_reads (ps pps : Nat) (crc : Crc) (hps : WF ps) (batches : List (List Bytes)) :
    (rloop ps crc RState.init (stream ps pps crc batches)).1 = batches.flatten := by
  obtain ⟨sr, hseg, hsr, hrecs⟩ := (Inv.logAll pps hps.1 hps.2 batches (crc := crc)).segments
  unfold stream
  rw [hseg, segStream_aligned sr hsr, (Reads.flatten sr hsr).rloop_eq, hrecs]

/-! ### Truncation -/

/-- **Truncation, any stream.** The plain `Reader` (no zero padding: `NewReader(file)` as used by `Repair`,
    by the LiveReader-less tools and by `rawtrunc` of the suite) on the first `n` bytes of ANY byte stream,
    from any reader state, returns a prefix of the records it returns on the whole stream.  Unconditional:
    every checksum function, every page size, well-formed stream or not. -/
theorem truncate_prefix_any_stream (ps : Nat) (crc : Crc) (s : Bytes) (st : RState) (n : Nat) :
    (rloop ps crc st (s.take n)).1 <+: (rloop ps crc st s).1 :=
  rloop_take_prefix ps crc s.length s (Nat.le_refl _) st n

/-- **Truncation of a log at any byte offset** yields a prefix of the records written, whole records
    only, never a mangled one (plain reader). Unconditional in `crc`, `pps`, the batches and `n`. -/
theorem truncate_prefix (ps pps : Nat) (crc : Crc) (hps : WF ps) (batches : List (List Bytes)) (n : Nat) :
    (rloop ps crc RState.init ((stream ps pps crc batches).take n)).1 <+: batches.flatten := by
  have h := truncate_prefix_any_stream ps crc (stream ps pps crc batches) RState.init n
  rwa [stream_reads ps pps crc hps batches] at h

/-- **No invention under truncation**: every record read from a truncated log was written. -/
theorem no_invention (ps pps : Nat) (crc : Crc) (hps : WF ps) (batches : List (List Bytes)) (n : Nat) :
    ∀ r ∈ (rloop ps crc RState.init ((stream ps pps crc batches).take n)).1, r ∈ batches.flatten := by
  intro r hr
  exact (truncate_prefix ps pps crc hps batches n).subset hr

/-! The reader used by `Head.Init` sits on a `segmentBufReader`, which pads a short segment file with zeros
    up to the page boundary.  Those zeros were never written; with `crc32c("") = 0` a cut one byte into a
    fragment header therefore parses as a valid EMPTY fragment.  Two consequences, both exhibited by the
    real reader (suite `wal` of C13 and suite `damage`): a phantom empty record, and — for a record that
    spans pages — the record WITHOUT its last fragment.  The replay ignores empty records (unknown record
    type) and rejects or shortens the truncated one in the record decoder; `Repair` re-reads without
    padding, so neither survives the repair.  `truncate_padded_at_most_one_extra` bounds the effect. -/

def c0 : Crc := fun _ => 0

set_option maxRecDepth 8000 in
/-- One record `[5,6,7]` (16-byte pages); the file cut after its first byte reads as one EMPTY record that
    was never written, without any error. -/
theorem padded_truncation_phantom_witness :
    segments 16 (logAll 16 1 c0 [[[5, 6, 7]]]) = [[1, 0, 3, 0, 0, 0, 0, 5, 6, 7, 0, 0, 0, 0, 0, 0]] ∧
    readAll 16 c0 [([1, 0, 3, 0, 0, 0, 0, 5, 6, 7, 0, 0, 0, 0, 0, 0] : Bytes).take 1] = ([[]], .eof 16) ∧
    ([] : Bytes) ∉ [[(5 : UInt8), 6, 7]] := by
  refine ⟨by decide, ?_, by decide⟩
  unfold readAll
  have e1 : rstep 16 c0 RState.init (segStream 16 [([1, 0, 3, 0, 0, 0, 0, 5, 6, 7, 0, 0, 0, 0, 0, 0] : Bytes).take 1]) =
      .emit [] ⟨7, 0, [], 1⟩ (zeros 9) := by rfl
  have e2 : rstep 16 c0 ⟨7, 0, [], 1⟩ (zeros 9) = .cont ⟨16, 0, [], 0⟩ [] := by rfl
  rw [rloop_of_emit e1 (by decide), rloop_of_cont e2 (by decide), rloop_nil]
  rfl

def segM : Bytes :=
  [2, 0, 9, 0, 0, 0, 0, 1, 2, 3, 4, 5, 6, 7, 8, 9, 4, 0, 3, 0, 0, 0, 0, 10, 11, 12, 0, 0, 0, 0, 0, 0]

set_option maxRecDepth 8000 in
/-- One 12-byte record over two 16-byte pages (`first` 9 bytes, `last` 3 bytes); the file cut one byte into
    the header of the `last` fragment reads, without error, as the 9-byte record `[1..9]` — a record that
    was never written.  (The unpadded reader returns nothing: `truncate_prefix`.) -/
theorem padded_truncation_mangled_witness :
    segments 16 (logAll 16 2 c0 [[[1, 2, 3, 4, 5, 6, 7, 8, 9, 10, 11, 12]]]) = [segM] ∧
    readAll 16 c0 [segM.take 17] = ([[1, 2, 3, 4, 5, 6, 7, 8, 9]], .eof 32) ∧
    (rloop 16 c0 RState.init (segM.take 17)).1 = [] := by
  refine ⟨by decide, ?_, ?_⟩
  · unfold readAll
    have e1 : rstep 16 c0 RState.init (segStream 16 [segM.take 17]) =
        .cont ⟨16, 1, [1, 2, 3, 4, 5, 6, 7, 8, 9], 2⟩ (4 :: zeros 15) := by rfl
    have e2 : rstep 16 c0 ⟨16, 1, [1, 2, 3, 4, 5, 6, 7, 8, 9], 2⟩ (4 :: zeros 15) =
        .emit [1, 2, 3, 4, 5, 6, 7, 8, 9] ⟨23, 0, [], 4⟩ (zeros 9) := by rfl
    have e3 : rstep 16 c0 ⟨23, 0, [], 4⟩ (zeros 9) = .cont ⟨32, 0, [], 0⟩ [] := by rfl
    rw [rloop_of_cont e1 (by decide), rloop_of_emit e2 (by decide), rloop_of_cont e3 (by decide), rloop_nil]
    rfl
  · have e1 : rstep 16 c0 RState.init (segM.take 17) =
        .cont ⟨16, 1, [1, 2, 3, 4, 5, 6, 7, 8, 9], 2⟩ [4] := by rfl
    have e2 : rstep 16 c0 ⟨16, 1, [1, 2, 3, 4, 5, 6, 7, 8, 9], 2⟩ [4] = .done (.eof 17) := by rfl
    rw [rloop_of_cont e1 (by decide), rloop_done e2]

/-- **Truncation under the zero-padding reader, any file.** `Head.Init` reads a segment through
    `segmentBufReader`, which pads a short file with zeros to the page boundary.  For ANY file content `seg`
    cut at ANY byte `n`, what that reader returns is a prefix of what the plain reader returns on the whole
    file, followed by AT MOST ONE extra record (the fragment straddling the cut, completed by zeros — the
    two witnesses above).  Unconditional in `crc` and `ps`. -/
theorem truncate_padded_at_most_one_extra_any (ps : Nat) (crc : Crc) (seg : Bytes) (n : Nat) :
    ∃ pre extra, (readAll ps crc [seg.take n]).1 = pre ++ extra ∧
      pre <+: (rloop ps crc RState.init seg).1 ∧ extra.length ≤ 1 := by
  have hmin : seg.take n = seg.take (min n seg.length) := by
    rcases Nat.le_total n seg.length with h | h
    · rw [Nat.min_eq_left h]
    · rw [Nat.min_eq_right h, List.take_of_length_le h, List.take_length]
  have hst : ∃ k, segStream ps [seg.take n] = seg.take (min n seg.length) ++ zeros k := by
    unfold segStream segPad
    by_cases h : (seg.take n).length % ps ≠ 0
    · refine ⟨ps - (seg.take n).length % ps, ?_⟩
      simp only [List.map_cons, List.map_nil, List.flatten_cons, List.flatten_nil, List.append_nil, if_pos h]
      rw [← hmin]
    · refine ⟨0, ?_⟩
      simp only [List.map_cons, List.map_nil, List.flatten_cons, List.flatten_nil, List.append_nil, if_neg h]
      rw [← hmin]; simp [zeros]
  obtain ⟨k, hk⟩ := hst
  unfold readAll
  rw [hk]
  exact rloop_take_pad ps crc seg.length seg (Nat.le_refl _) RState.init (min n seg.length) k (Nat.min_le_right _ _)

/-- **Truncation of a log segment under the zero-padding reader**: a prefix of the segment's records plus at
    most one extra record. -/
theorem truncate_padded_at_most_one_extra (ps pps : Nat) (crc : Crc) (hps : WF ps)
    (batches : List (List Bytes)) (seg : Bytes) (hseg : seg ∈ segments ps (logAll ps pps crc batches)) (n : Nat) :
    ∃ pre extra, (readAll ps crc [seg.take n]).1 = pre ++ extra ∧
      pre <+: (readAll ps crc [seg]).1 ∧ extra.length ≤ 1 := by
  obtain ⟨sr, hsegs, hsr, _⟩ := (Inv.logAll pps hps.1 hps.2 batches (crc := crc)).segments
  rw [hsegs] at hseg
  obtain ⟨p, hp, rfl⟩ := List.mem_map.mp hseg
  have hal : p.1.length % ps = 0 := (hsr p hp).end_mod
  have e : readAll ps crc [p.1] = rloop ps crc RState.init p.1 := by
    unfold readAll segStream
    simp [segPad_aligned hal]
  rw [e]
  exact truncate_padded_at_most_one_extra_any ps crc p.1 n

/-! ### One damaged byte inside a checksummed payload -/

/-- `d'` is `d` with exactly one byte changed. -/
def OneByteDiff (d d' : Bytes) : Prop :=
  d'.length = d.length ∧ ∃ i, i < d.length ∧ d[i]? ≠ d'[i]? ∧ ∀ j, j ≠ i → d[j]? = d'[j]?

/-- Explicit hypothesis on the checksum (true of CRC-32C for payloads up to far beyond a page; NOT proved
    here): one damaged byte changes it. -/
def CrcDetects1 (crc : Crc) : Prop := ∀ d d', OneByteDiff d d' → crc d' ≠ crc d

/-- **Payload damage.** Let the undamaged read stand, after the bytes `A`, in state `st` having returned
    `out` (`hA`: whatever follows `A`), in front of a fragment of type `typ` with payload `d`.  If one
    byte of the payload is damaged on disk (header intact), the read returns exactly `out` — the records
    before the damaged fragment — and stops with a checksum error at the end of that fragment; nothing
    after it is returned, and `out` is a prefix of what the undamaged log returns. -/
theorem payload_damage_prefix (ps : Nat) (crc : Crc) (hdet : CrcDetects1 crc)
    (A B d d' : Bytes) (typ : UInt8) (st : RState) (out : List Bytes)
    (hA : ∀ X, rloop ps crc RState.init (A ++ X) = prep out (rloop ps crc st X))
    (hty : DataTyp typ) (hlen : d.length ≤ ps - 7) (h16 : d.length < 65536) (hd : OneByteDiff d d') :
    rloop ps crc RState.init (A ++ (damagedFrame crc typ d d' ++ B)) =
        (out, .err .crc (st.total + 7 + d.length)) ∧
      out <+: (rloop ps crc RState.init (A ++ (frame crc typ d ++ B))).1 := by
  constructor
  · rw [hA, rloop_done (rstep_damaged ps crc st typ d d' B hty hlen h16 hd.1 (hdet d d' hd))]
    simp [prep]
  · rw [hA]; simp [prep]

/-- **Payload damage behind whole records.**  `A` = the bytes of any whole records `out` as the writer laid
    them out (C13's `Reads`, the invariant of every log prefix), followed by a fragment with one damaged
    payload byte: exactly `out` is returned, then a checksum error at the end of that fragment. -/
theorem payload_damage_after_records (ps : Nat) (crc : Crc) (hdet : CrcDetects1 crc)
    (A B d d' : Bytes) (typ : UInt8) (a : Nat) (out : List Bytes) (hA : Reads ps crc 0 A a out)
    (hty : DataTyp typ) (hlen : d.length ≤ ps - 7) (h16 : d.length < 65536) (hd : OneByteDiff d d') :
    rloop ps crc RState.init (A ++ (damagedFrame crc typ d d' ++ B)) =
      (out, .err .crc (A.length + 7 + d.length)) := by
  obtain ⟨ty', _, _, e⟩ := hA 0 0 (damagedFrame crc typ d d' ++ B) (Nat.zero_mod _) nonTorn_zero
  rw [RState.init, e,
    rloop_done (rstep_damaged ps crc ⟨0 + A.length, 0, [], ty'⟩ typ d d' B hty hlen h16 hd.1 (hdet d d' hd))]
  simp [prep]

/-- The hypotheses are satisfiable: the very first fragment of a log (`A = []`). -/
example (crc : Crc) (h : CrcDetects1 crc) :
    rloop 32768 crc RState.init ([] ++ (damagedFrame crc recFull [1, 2, 3] [1, 9, 3] ++ [])) =
      ([], .err .crc (0 + 7 + 3)) :=
  (payload_damage_prefix 32768 crc h [] [] [1, 2, 3] [1, 9, 3] recFull RState.init []
    (fun X => by simp [prep]) (Or.inl rfl) (by decide) (by decide)
    ⟨rfl, 1, by decide, by decide, fun j hj => by
      match j with
      | 0 => rfl
      | 1 => exact absurd rfl hj
      | 2 => rfl
      | (_ + 3) => rfl⟩).1

/-- Damage to a fragment HEADER byte (type, length, stored checksum) can desynchronise the framing; without
    a concrete checksum nothing can be proved about detection.  Full statement, NOT proved; the sweeps of
    suites `damage` and `wal` run every header offset against the real reader. -/
def header_damage_prefix_full : Prop :=
  ∀ (ps pps : Nat), WF ps → ∀ (batches : List (List Bytes)) (i : Nat) (b : UInt8),
    (rloop ps crc32c RState.init ((stream ps pps crc32c batches).set i b)).1 <+: batches.flatten

/-! ### Repair -/

/-- **Repair keeps only what was read before the corruption**: the records re-inserted by `Repair` are a
    prefix of what the plain reader returns on the damaged file — for a log cut at any byte, a prefix of
    the records written. -/
theorem repair_keeps_prefix (ps pps : Nat) (crc : Crc) (hps : WF ps) (batches : List (List Bytes)) (n off : Nat) :
    keptRecs ps crc ((stream ps pps crc batches).take n) off <+: batches.flatten :=
  (keptRecs_prefix ps crc _ off).trans (truncate_prefix ps pps crc hps batches n)

/-- **Repair keeps every undamaged record before the corruption.**  If the corrupted segment file begins
    with the bytes `good` of whole records `out` exactly as the writer laid them out (`Reads … good … out`,
    the invariant of every log prefix, C13), whatever follows them, and the corruption was reported beyond
    them, then `Repair` re-inserts all of `out`, in order, before anything else. -/
theorem repair_keeps_records_before (ps : Nat) (crc : Crc) (good junk : Bytes) (a : Nat) (out : List Bytes)
    (off : Nat) (hg : Reads ps crc 0 good a out) (hoff : good.length < off) :
    out <+: keptRecs ps crc (good ++ junk) off :=
  keptRecs_keeps_good ps crc good junk out off (by rw [hg.rloop_eq]) hoff

/-- The premise is met by what the writer produces for any records, e.g. from the start of a segment. -/
example (ps : Nat) (crc : Crc) (hps : WF ps) (rec : Bytes) :
    ∃ a, Reads ps crc 0 (fragBytes ps crc (fragFuel rec) 0 0 rec) a [rec] := by
  obtain ⟨a, _, h⟩ := Reads.frag crc hps.1 hps.2 (a := 0) (by have := hps.1; omega) rec
  exact ⟨a, h⟩

/-- **Repair leaves every older segment alone** (and removes every newer one: the result holds nothing
    between the rewritten segment and the new empty one). -/
theorem repair_keeps_undamaged (ps pps : Nat) (crc : Crc) (dir : Dir) (c : Corruption) :
    (repairDir ps pps crc dir c).dir.filter (·.1 < c.seg) = dir.filter (·.1 < c.seg) := by
  have key : ∀ (l1 l2 : Dir), (∀ x ∈ l2, c.seg ≤ x.1) →
      (l1 ++ l2).filter (·.1 < c.seg) = l1.filter (·.1 < c.seg) := by
    intro l1 l2 h
    have e : l2.filter (·.1 < c.seg) = [] := by
      apply List.filter_eq_nil_iff.mpr
      intro x hx; have := h x hx; simp; omega
    rw [List.filter_append, e, List.append_nil]
  have idem : ∀ (l : Dir), (l.filter (·.1 < c.seg)).filter (·.1 < c.seg) = l.filter (·.1 < c.seg) := by
    intro l; rw [List.filter_filter]; apply List.filter_congr; intro x _; simp
  unfold repairDir
  cases hf : dir.find? (·.1 = c.seg) with
  | none =>
    dsimp only
    rw [List.filter_filter]
    apply List.filter_congr
    intro x _
    by_cases h : x.1 < c.seg
    · have : x.1 ≤ c.seg := by omega
      simp [h, this]
    · simp [h]
  | some p =>
    obtain ⟨k, seg⟩ := p
    dsimp only
    rw [key _ _ (by
      intro x hx
      split at hx
      · simp at hx
      · simp at hx; subst hx; simp), key _ _ (by
      intro x hx
      simp only [List.mem_map] at hx
      obtain ⟨⟨i, b⟩, _, rfl⟩ := hx
      simp), idem]

/-- **The repaired log accepts writes.**  After `Repair` (older segments intact, the corrupted one rewritten
    from the kept records and padded, an empty active segment — `afterRepair`, which is the state
    `repairDir` leaves whenever the kept records fit one segment again, i.e. always unless a single record
    is larger than a whole segment), any further batches can be logged and the
    closed log reads back, without error, as: the records of the older segments, the kept records, the
    new records — in this order, nothing else. -/
theorem repaired_accepts_writes (ps pps : Nat) (crc : Crc) (hps : WF ps)
    (older : List (Bytes × List Bytes)) (holder : ∀ p ∈ older, Reads ps crc 0 p.1 0 p.2)
    (kept : List Bytes) (more : List (List Bytes)) :
    ∃ e, readAll ps crc (segments ps (more.foldl (logBatch ps pps crc)
          (afterRepair ps pps crc (older.map Prod.fst) kept))) =
      ((older.map Prod.snd).flatten ++ kept ++ more.flatten, .eof e) := by
  have hinv := Inv.logBatches pps hps.1 hps.2 more (Inv.afterRepair pps hps.1 hps.2 older holder kept)
  obtain ⟨sr, hseg, hsr, hrecs⟩ := hinv.segments
  refine ⟨(sr.map Prod.fst).flatten.length, ?_⟩
  unfold readAll
  rw [hseg, segStream_aligned sr hsr, (Reads.flatten sr hsr).rloop_eq, hrecs]

/-- The premise on the older segments holds for the segments of any log. -/
example (ps pps : Nat) (crc : Crc) (hps : WF ps) (batches : List (List Bytes)) :
    ∃ sr : List (Bytes × List Bytes), segments ps (logAll ps pps crc batches) = sr.map Prod.fst ∧
      ∀ p ∈ sr, Reads ps crc 0 p.1 0 p.2 := by
  obtain ⟨sr, hseg, hsr, _⟩ := (Inv.logAll pps hps.1 hps.2 batches (crc := crc)).segments
  exact ⟨sr, hseg, hsr⟩

/-- `Repair` called with a segment number that does not exist in the WAL directory (what `DB.open` does with
    the `CorruptionErr` of a damaged CHECKPOINT, whose segment numbers are unrelated): every WAL segment
    after that number is deleted, then the rename fails — the open fails and the undamaged WAL is gone
    (finding C04-F1). -/
theorem checkpoint_error_deletes_wal_witness (crc : Crc) (a b : Bytes) :
    repairDir 32768 1 crc [(2, a), (3, b)] ⟨0, 17⟩ = ⟨false, []⟩ := by
  simp [repairDir]

/-! ### The replay control flow over decoded records: findings F18 and F19 -/

/-- One series (`ref 1`, labels 10) with an in-order sample in the WAL and an out-of-order sample in the WBL. -/
def l0 : ALogs := ⟨[[.series 1 10, .samples [(1, 100, 7)]]], [[.samples [(1, 50, 8)]]]⟩

example : (aOpen l0 none none).1.all = [(10, 100, 7), (10, 50, 8)] := by decide

/-- **F18.** The WAL is found corrupt AFTER its last record (e.g. one flipped bit in the zero padding): no
    record of either log is lost, yet the out-of-order sample is missing after this open, because the WBL
    is not replayed once the WAL replay returned an error; it is back after the next restart. -/
theorem wbl_skipped_after_wal_repair_witness :
    let r := aOpen l0 (some (0, 2)) none
    r.1.all = [(10, 100, 7)] ∧ r.2.wal.flatten = l0.wal.flatten ∧ r.2.wbl.flatten = l0.wbl.flatten ∧
      (aOpen r.2 none none).1.all = [(10, 100, 7), (10, 50, 8)] := by decide

/-- **F19.** The WAL is corrupt in its first (series) record: the repair empties it, `lastSeriesID` restarts
    at 0, a series with other labels (99) created afterwards gets ref 1, and after the next restart the
    surviving WBL sample of the lost series is returned under labels 99 — a sample that was never appended
    to that series. -/
theorem wbl_sample_reattributed_witness :
    let r1 := aOpen l0 (some (0, 0)) none
    let r2 := aAppend r1.1 r1.2 99 200 9
    let r3 := aOpen r2.2 none none
    r1.1.all = [] ∧ r2.1.all = [(99, 200, 9)] ∧ r3.1.all = [(99, 200, 9), (99, 50, 8)] := by decide

/-- **No invention at record level, any damage positions.**  After `aOpen` with the WAL and/or the WBL cut
    at any record, every sample returned `(labels, t, v)` is justified by the logs as they are: a series
    record `(ref, labels)` of the WAL and a samples record of the WAL or WBL that carries `(ref, t, v)`.
    (This is all the logs can promise: F19 above satisfies it — the reused reference makes the logs
    themselves ambiguous; the judge of suite `damage` checks the stronger statement against the history of
    appends on the real database.) -/
theorem reopen_damaged_no_invention (l : ALogs) (walCut wblCut : Cut) :
    ∀ x ∈ (aOpen l walCut wblCut).1.all,
      ∃ ref, ARec.series ref x.1 ∈ l.wal.flatten ∧
        ∃ xs, (ARec.samples xs ∈ l.wal.flatten ∨ ARec.samples xs ∈ l.wbl.flatten) ∧ (ref, x.2.1, x.2.2) ∈ xs := by
  intro x hx
  have hinv := aOpen_inv l walCut wblCut
  simp only [AHead.all, List.mem_flatMap, List.mem_map] at hx
  obtain ⟨s, hs, y, hy, rfl⟩ := hx
  obtain ⟨h1, h2⟩ := hinv s hs
  obtain ⟨xs, hx1, hx2⟩ := h2 y hy
  exact ⟨s.ref, h1, xs, List.mem_append.mp hx1, hx2⟩

/-! ### Out-of-order chunks, their WBL markers and head-chunk files that lost their tail

  Model: PromModel/Tsdb/OooMarkers.lean (write path `insert`/`cutNewOOOHeadChunk`/`collectOOORecords`, restart
  `lastMmapRef` + `loadWBL` marker comparison + replay inserts). -/

section OooMarkers
open Prom.OooMarkers

/-- **No out-of-order sample is lost (or invented) when the head-chunk files lose a tail.**  For every history
    of out-of-order inserts of a series interleaved with other chunk writes and file cuts, every cap, and every
    cutoff reference — the chunks at or behind it are gone (the newest file truncated at a chunk boundary or
    inside the zero bytes of the next header, the damaged file and all later ones deleted, a crash before the
    chunk write buffer was flushed; `cutoff` behind everything = nothing lost) while the WBL is intact — the
    restart returns exactly the samples inserted: the surviving chunks, the chunks re-created by the replay and
    the head chunk.  Rests on `loadWBL` comparing the marker with the last loaded chunk by file sequence AND
    offset. -/
theorem ooo_tail_loss_recovered (cap : Nat) (ops : List Op) (cutoff : Ref) (x : Nat) :
    x ∈ recovered cap honourReal (keepBefore cutoff (run cap ops).disk) (run cap ops).wbl ↔ x ∈ inserted ops := by
  have hs := sorted_run cap ops
  have hm := mirror_run cap (fun r => r.lt cutoff) ops
  have hcongr : replay cap (honourReal (lastRef (keepBefore cutoff (run cap ops).disk))) (run cap ops).wbl =
      replay cap (honourSurv fun r => r.lt cutoff) (run cap ops).wbl := by
    apply foldl_rStep_congr
    intro m hmem
    rcases hs.markers m hmem with h0 | ⟨c, hc, rfl⟩
    · subst h0
      simp [honourReal, honourSurv]
    · rw [honourReal_prefix hs.pairwise hs.pos cutoff hc]
      have : (c.ref == ((0, 0) : Ref)) = false := by
        apply beq_false_of_ne
        intro e
        have := hs.pos c hc
        rw [e] at this
        simp at this
      simp [honourSurv, this]
  have hrec : recovered cap honourReal (keepBefore cutoff (run cap ops).disk) (run cap ops).wbl =
      ((keepBefore cutoff (run cap ops).disk).filterMap (·.ooo)).flatten ++
        (((run cap ops).disk.filter fun c => !(c.ref.lt cutoff)).filterMap (·.ooo)).flatten ++
        (run cap ops).head := by
    unfold recovered
    dsimp only
    rw [hcongr, hm.head, hm.remapped]
  rw [← content_run cap ops x, hrec]
  simp only [keepBefore, Writer.content, List.mem_append, List.mem_flatten, List.mem_filterMap, List.mem_filter]
  constructor
  · rintro ((⟨l, ⟨c, ⟨hc, _⟩, hl⟩, hx⟩ | ⟨l, ⟨c, ⟨hc, _⟩, hl⟩, hx⟩) | hx)
    · exact Or.inl ⟨l, ⟨c, hc, hl⟩, hx⟩
    · exact Or.inl ⟨l, ⟨c, hc, hl⟩, hx⟩
    · exact Or.inr hx
  · rintro (⟨l, ⟨c, hc, hl⟩, hx⟩ | hx)
    · cases hlt : c.ref.lt cutoff with
      | true => exact Or.inl (Or.inl ⟨l, ⟨c, ⟨hc, hlt⟩, hl⟩, hx⟩)
      | false => exact Or.inl (Or.inr ⟨l, ⟨c, ⟨hc, by simp [hlt]⟩, hl⟩, hx⟩)
    · exact Or.inr hx

/-- An in-order chunk at (1,8), then five out-of-order samples with cap 4: the out-of-order chunk `[1,2,3,4]`
    is written at (1,48), its marker is in the WBL, sample 5 is in the head chunk. -/
def tailHistory : List Op := [.other 10, .insert 1, .insert 2, .insert 3, .insert 4, .insert 5]

example : (run 4 tailHistory).disk = [⟨(1, 8), none⟩, ⟨(1, 48), some [1, 2, 3, 4]⟩] ∧
    (run 4 tailHistory).wbl = [.marker (0, 0), .samples [1], .samples [2], .samples [3], .samples [4],
      .marker (1, 48), .samples [5]] := by decide

/-- The file cut at the start of the out-of-order chunk: everything is back with the comparison of the code … -/
example : recovered 4 honourReal (keepBefore (1, 48) (run 4 tailHistory).disk) (run 4 tailHistory).wbl
    = [1, 2, 3, 4, 5] := by decide

/-- **… and lost when only the file sequence is compared** ("files are only ever dropped as a whole"): the
    stale marker is honoured, the replayed head chunk is thrown away, samples 1–4 are gone although they are
    in the intact WBL.  This is the mistake the directed cases of suite `damage` (newest head-chunk file
    ending in out-of-order chunks, truncated at every chunk boundary +0…+8) are there to catch. -/
theorem marker_seq_only_loses_witness :
    recovered 4 honourSeqOnly (keepBefore (1, 48) (run 4 tailHistory).disk) (run 4 tailHistory).wbl = [5] := by
  decide

/-- **Finding C04-F5.**  When a chunk is missing from the MIDDLE (an older head-chunk file cut at a chunk
    boundary reads as complete while a newer file survives) the comparison of the code honours the marker as
    well: file 1 loses its out-of-order chunk, file 2 keeps a chunk, `lastMmapRef = (2,8)`, samples 1–4 are
    lost although the WBL is intact.  `ooo_tail_loss_recovered` needs the surviving chunks to be a prefix. -/
theorem older_file_cut_loses_ooo_witness :
    let w := run 4 (tailHistory ++ [.newFile, .other 10])
    w.disk = [⟨(1, 8), none⟩, ⟨(1, 48), some [1, 2, 3, 4]⟩, ⟨(2, 8), none⟩] ∧
      recovered 4 honourReal (w.disk.filter fun c => c.ref != (1, 48)) w.wbl = [5] := by decide

end OooMarkers

/-! The DB-level clause of C04 over whole histories (damage, open, further appends, restart: "everything
    returned was appended under these labels") is refuted on the model by `wbl_sample_reattributed_witness`
    and its session-level completeness clause by `wbl_skipped_after_wal_repair_witness`; there is no
    byte-level head/query/append model in this property, so beyond the theorems above that clause is decided
    on the real database by the judge of suite `damage` at every damage site (findings F18, F19, C04-F1,
    C04-F2, C04-F5 are its known failures). -/

end Prom.C04
