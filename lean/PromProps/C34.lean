import PromProofs.LimitRatioLemmas
/-
  C34 — Complementary `limit_ratio` selections partition the input.

  Exact arithmetic (`Rat`): the partition, monotonicity and labels-only clauses hold for every
  ratio and offset (`partition_exact`, `monotone`, `depends_only_on_offset`, …).
  binary64 (`rne53`): the partition holds wherever `1 ⊕ (r ⊖ 1) = r` (`partition_f64_partial`)
  and FAILS elsewhere — proved counter-examples `not_partition_f64_witness` (r = 0.1) and
  `offset_one_witness` (hashes ≥ 2^64 − 1024 give offset 1.0, selected by neither `limit_ratio(1)`
  nor `limit_ratio(0)`): finding F3.
-/
namespace Prom.C34
open Prom.LimitRatio

/-! ## Exact arithmetic -/

/-- Partition over the rationals: for every ratio in [0,1] and offset in [0,1) a sample is selected
    by exactly one of `r` and `r - 1` (incl. the edges `r = 0` vs `-1` and `r = 1` vs `0`). -/
theorem partition_exact (r o : Rat) (hr0 : 0 ≤ r) (hr1 : r ≤ 1) (ho0 : 0 ≤ o) (ho1 : o < 1) :
    (sel r o = true ↔ ¬ sel (r - 1) o = true) := by
  simp only [sel, Bool.or_eq_true, Bool.and_eq_true, decide_eq_true_eq]; grind

example : (0 : Rat) ≤ 1/10 ∧ (1/10 : Rat) ≤ 1 ∧ (0 : Rat) ≤ 1/20 ∧ (1/20 : Rat) < 1 := by decide +kernel

/-- `limit_ratio(0)` selects nothing, `limit_ratio(-1)` everything. -/
theorem partition_exact_zero (o : Rat) (ho0 : 0 ≤ o) : sel 0 o = false ∧ sel (-1) o = true := by
  simp only [sel]; constructor <;> simp <;> grind

/-- `limit_ratio(1)` selects every offset below 1, its complement `limit_ratio(0)` nothing. -/
theorem partition_exact_one (o : Rat) (ho0 : 0 ≤ o) (ho1 : o < 1) : sel 1 o = true ∧ sel (1 - 1) o = false := by
  simp only [sel]; constructor <;> simp <;> grind

/-- The same statement through the `LIMIT_RATIO` branch of `aggregationK` (zero shortcut, clamping). -/
def engineSelQ (f o : Rat) : Bool :=
  match engineRatio f with
  | none => false
  | some r => sel r o

theorem partition_exact_engine (r o : Rat) (hr0 : 0 ≤ r) (hr1 : r ≤ 1) (ho0 : 0 ≤ o) (ho1 : o < 1) :
    (engineSelQ r o = true ↔ ¬ engineSelQ (r - 1) o = true) := by
  unfold engineSelQ engineRatio
  simp only [sel]
  split <;> split <;> simp_all <;> grind

/-- Raising a non-negative ratio never deselects a sample. -/
theorem monotone (r₁ r₂ o : Rat) (h0 : 0 ≤ r₁) (h : r₁ ≤ r₂) : sel r₁ o = true → sel r₂ o = true := by
  simp only [sel, Bool.or_eq_true, Bool.and_eq_true, decide_eq_true_eq]; grind

example : (0 : Rat) ≤ 1/4 ∧ (1/4 : Rat) ≤ 1/2 ∧ sel (1/4) (1/5) = true := by decide +kernel

/-- On the negative side the selection `[1 + r, 1]` shrinks as `r` rises towards 0: raising `r ∈ [0,1]`
    never *adds* a sample to the complement `limit_ratio(r - 1)`. -/
theorem monotone_neg (r₁ r₂ o : Rat) (h : r₁ ≤ r₂) (h0 : r₂ < 0) : sel r₂ o = true → sel r₁ o = true := by
  simp only [sel, Bool.or_eq_true, Bool.and_eq_true, decide_eq_true_eq]; grind

/-- The exact offset of a 64-bit hash lies in [0,1) — the range `partition_exact` needs. -/
theorem offsetQ_range (h : Nat) (hh : h < 2 ^ 64) : 0 ≤ offsetQ h ∧ offsetQ h < 1 := by
  unfold offsetQ
  have hpos : (0 : Rat) < ((2 ^ 64 : Nat) : Rat) := by decide +kernel
  constructor
  · have := Rat.div_lt_iff (a := (h : Rat)) (c := 0) hpos
    have h0 : (0 : Rat) ≤ (h : Rat) := Rat.natCast_nonneg
    grind
  · rw [Rat.div_lt_iff hpos]
    simpa using (Rat.natCast_lt_natCast.mpr hh)

/-- Whether a sample is selected depends only on its label hash — not on value, timestamp or
    on the other samples of the vector. -/
theorem depends_only_on_offset (r : Rat) (s₁ s₂ : Sample) (h : s₁.hash = s₂.hash) :
    addRatioSample r s₁ = addRatioSample r s₂ := by
  simp [addRatioSample, h]

example : (⟨7, 0, 1⟩ : Sample).hash = (⟨7, 5, 2⟩ : Sample).hash := rfl

/-- Hence `limit_ratio(r, v)` and `limit_ratio(r - 1, v)` partition any vector (exact arithmetic). -/
theorem partition_exact_samples (r : Rat) (s : Sample) (hr0 : 0 ≤ r) (hr1 : r ≤ 1) (hh : s.hash < 2 ^ 64) :
    (addRatioSample r s = true ↔ ¬ addRatioSample (r - 1) s = true) := by
  have := offsetQ_range s.hash hh
  exact partition_exact r _ hr0 hr1 this.1 this.2

/-! ## binary64 -/

/-- A rational that is a binary64 value. -/
def IsF64 (x : Rat) : Prop := rne53 x = x

/-- The finite value denoted by a bit pattern (0 for NaN/Inf). -/
def ofBits (bits : Nat) : Rat := match decode bits with | .fin v => v | _ => 0

/-- The full binary64 statement — FALSE, see `not_partition_f64`. -/
def partition_f64_full : Prop :=
  ∀ r o : Rat, IsF64 r → IsF64 o → 0 ≤ r → r ≤ 1 → 0 ≤ o → o < 1 →
    (selF r o = true ↔ ¬ selF (complF r) o = true)

/-- binary64 partition wherever the complement's boundary `1 ⊕ (r ⊖ 1)` is `r` itself.
    (Every `r ∈ [1/2, 1]` — `r ⊖ 1` is exact by Sterbenz — and every multiple of 2^-53 in (0,1).) -/
theorem partition_f64_partial (r o : Rat) (hr0 : 0 < r) (hr1 : r < 1) (hrt : boundaryF r = r) :
    (selF r o = true ↔ ¬ selF (complF r) o = true) := by
  have hc : complF r ≤ 0 := rne53_nonpos _ (by grind)
  have hc0 : complF r ≠ 0 := by
    intro h0
    unfold boundaryF at hrt
    rw [h0] at hrt
    have : (1 : Rat) + 0 = 1 := by grind
    rw [this, rne53_one] at hrt
    grind
  unfold boundaryF at hrt
  simp only [selF, Bool.or_eq_true, Bool.and_eq_true, decide_eq_true_eq, hrt]
  grind

example : (0 : Rat) < 3/4 ∧ (3/4 : Rat) < 1 ∧ boundaryF (3/4) = 3/4 := by decide +kernel
/-- …and a ratio below 1/2 that round-trips (a multiple of 2^-53). -/
example : boundaryF (ofBits 0x3FC0000000000004) = ofBits 0x3FC0000000000004 := by decide +kernel

/-- Sterbenz range, full statement — NOT proved in general: every binary64 ratio in [1/2, 1]
    round-trips (`r ⊖ 1` and `1 ⊕ (r ⊖ 1)` are exact), hence `partition_f64_partial` applies to it.
    Missing: an exactness lemma for `rne53` on multiples of 2^-53 of magnitude ≤ 1
    (`rneNat (m * 2^j) false = m * 2^j` for `m < 2^53`, `j ≥ 1`, and the `Rat.num/den` bookkeeping). -/
def roundtrip_half_full : Prop := ∀ r : Rat, IsF64 r → 1/2 ≤ r → r ≤ 1 → boundaryF r = r

/-- Kernel-evaluated instances of `roundtrip_half_full` (1/2, its successor, 0.8, the predecessor of 1, 1). -/
theorem roundtrip_half_samples_partial :
    boundaryF (1/2) = 1/2 ∧ boundaryF (ofBits 0x3FE0000000000001) = ofBits 0x3FE0000000000001 ∧
    boundaryF (ofBits 0x3FE999999999999A) = ofBits 0x3FE999999999999A ∧
    boundaryF (ofBits 0x3FEFFFFFFFFFFFFF) = ofBits 0x3FEFFFFFFFFFFFFF ∧ boundaryF 1 = 1 := by decide +kernel

/-- Edge `r = 1` in binary64: partition for every offset below 1. -/
theorem partition_f64_one (o : Rat) (ho0 : 0 ≤ o) (ho1 : o < 1) :
    selF 1 o = true ∧ selF (complF 1) o = false := by
  have hc : complF 1 = 0 := by decide +kernel
  rw [hc]
  simp only [selF]; constructor <;> simp <;> grind

/-- Edge `r = 0` in binary64: `limit_ratio(0)` = ∅, `limit_ratio(0 ⊖ 1)` = everything. -/
theorem partition_f64_zero (o : Rat) (ho0 : 0 ≤ o) :
    selF 0 o = false ∧ selF (complF 0) o = true := by
  have hc : complF 0 = -1 := by decide +kernel
  have hb : rne53 (1 + -1) = 0 := by decide +kernel
  rw [hc]
  simp only [selF, hb]; constructor <;> simp <;> grind

/-- Raising a non-negative ratio never deselects a sample — also in binary64 (no rounding on this side). -/
theorem monotone_f64 (r₁ r₂ o : Rat) (h0 : 0 ≤ r₁) (h : r₁ ≤ r₂) : selF r₁ o = true → selF r₂ o = true := by
  simp only [selF, Bool.or_eq_true, Bool.and_eq_true, decide_eq_true_eq]; grind

/-- 0.1 as binary64. -/
def r01 : Rat := ofBits 0x3FB999999999999A
/-- The double just below 0.1. -/
def o01 : Rat := ofBits 0x3FB9999999999999
/-- A ratio observed in a real query (offset of a generated label set). -/
def r02 : Rat := ofBits 0x3FC68FAE4B34A447

/-- F3, proved counter-example: `r = 0.1` (0x3FB999999999999A), `o` = the double just below `r`.
    `r ⊖ 1 = -0.9` and `1 ⊕ -0.9 = 0.09999999999999998 < o`, so the sample is selected by
    `limit_ratio(0.1)` AND by `limit_ratio(0.1 - 1)`. -/
theorem not_partition_f64_witness :
    IsF64 r01 ∧ IsF64 o01 ∧ 0 ≤ r01 ∧ r01 ≤ 1 ∧ 0 ≤ o01 ∧ o01 < 1 ∧
      complF r01 = ofBits 0xBFECCCCCCCCCCCCD ∧ boundaryF r01 = ofBits 0x3FB9999999999998 ∧
      selF r01 o01 = true ∧ selF (complF r01) o01 = true := by
  unfold IsF64
  decide +kernel

/-- A sample selected by neither side: `r = 0x3FC68FAE4B34A447`, `o = r` (observed through a real
    `limit_ratio` query: the offset of a generated label set). `1 ⊕ (r ⊖ 1)` lies above `r`. -/
theorem not_partition_f64_neither_witness :
    IsF64 r02 ∧ 0 ≤ r02 ∧ r02 ≤ 1 ∧ selF r02 r02 = false ∧ selF (complF r02) r02 = false := by
  unfold IsF64
  decide +kernel

/-- The full binary64 statement is false. -/
theorem not_partition_f64 : ¬ partition_f64_full := by
  intro h
  have w := not_partition_f64_witness
  obtain ⟨h1, h2, h3, h4, h5, h6, _, _, h9, h10⟩ := w
  exact (h _ _ h1 h2 h3 h4 h5 h6).mp h9 h10

/-- F3, second family: label hashes ≥ 2^64 − 1024 convert to 2^64, the offset is exactly 1.0 —
    outside the documented range [0,1) — and such a sample is selected neither by `limit_ratio(1)`
    nor by its complement `limit_ratio(1 - 1)`; 2^64 − 1025 still gives an offset below 1. -/
theorem offset_one_witness :
    offsetF (2 ^ 64 - 1) = 1 ∧ offsetF (2 ^ 64 - 1024) = 1 ∧ offsetF (2 ^ 64 - 1025) < 1 ∧
      selF 1 (offsetF (2 ^ 64 - 1)) = false ∧ selF (complF 1) (offsetF (2 ^ 64 - 1)) = false := by
  decide +kernel

/-- In exact arithmetic the same hash has offset < 1 and is selected by `limit_ratio(1)`. -/
theorem offset_one_exact_witness : sel 1 (offsetQ (2 ^ 64 - 1)) = true := by decide +kernel

/-! ## Model ↔ judge -/

/-- On finite arguments the full-range model `selX` is `selF`. -/
theorem selX_fin (r o : Rat) : selX (.fin r) (.fin o) = selF r o := by
  simp [selX, selF, F64.ge0, F64.lt0, F64.lt, F64.le, F64.add1]

/-- The judge's partition clause holds on the model's own outputs wherever the boundary round-trips. -/
theorem judge_clause_on_model_partial (r o : Rat) (hr0 : 0 < r) (hr1 : r < 1) (hrt : boundaryF r = r) :
    partitionOk (selX (.fin r) (.fin o)) (selX (F64.sub1 (.fin r)) (.fin o)) = true := by
  have h := partition_f64_partial r o hr0 hr1 hrt
  simp only [F64.sub1, selX_fin, partitionOk]
  change (selF r o != selF (complF r) o) = true
  cases h1 : selF r o <;> cases h2 : selF (complF r) o <;> simp_all

/-- Wherever the model's outputs fail the partition clause inside the statement's domain, the judge
    files the failure under one of the two listed binary64 kinds (never `kind=other`).
    Hypothesis `hz` (`r ⊖ 1 = 0` only for `r = 1`) holds for every double — `|r − 1| ≥ 2^-53`
    otherwise — but is not derived here from `IsF64 r` (missing: a lower bound lemma for `rne53`). -/
theorem model_failures_are_listed_partial (r o : Rat) (hr0 : 0 ≤ r) (hr1 : r ≤ 1) (ho0 : 0 ≤ o) (ho1 : o ≤ 1)
    (hz : complF r = 0 → r = 1)
    (hfail : partitionOk (selF r o) (selF (complF r) o) = false) :
    isKnownKind ("violation not-partition " ++ classify r o (selF r o) (selF (complF r) o)) = true := by
  have hc : complF r ≤ 0 := rne53_nonpos _ (by grind)
  have hb1 : boundaryF 1 = 1 := by decide +kernel
  unfold classify
  cases h1 : selF r o <;> cases h2 : selF (complF r) o <;> simp [partitionOk, h1, h2] at hfail
  · -- neither
    simp only [selF, Bool.or_eq_false_iff, Bool.and_eq_false_iff, decide_eq_false_iff_not] at h1 h2
    by_cases hgap : r ≤ o ∧ o < boundaryF r
    · simp [hgap.1, hgap.2, isKnownKind]
    · have hr : r = 1 := by
        apply hz
        unfold boundaryF at hgap
        grind
      subst hr
      have ho : o = 1 := by grind
      subst ho
      simp [hb1, isKnownKind]
  · -- both
    simp only [selF, Bool.or_eq_true, Bool.and_eq_true, decide_eq_true_eq] at h1 h2
    have hgap : boundaryF r ≤ o ∧ o < r := by unfold boundaryF; grind
    simp [hgap.1, hgap.2, isKnownKind]

end Prom.C34
