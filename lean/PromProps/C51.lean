import PromModel.Suites.ApiJsonSuite
import PromProofs.ApiJson
import PromProofs.ApiJsonRoundtrip
/-
  C51 — Query API JSON encodes values losslessly.  Property theorems only; lemmas are in
  PromProofs/ApiJson.lean.  Model: PromModel/Api/Json.lean.
-/
namespace Prom.C51
open Prom.Api.Json

/-- Timestamps: for every int64 except MinInt64 the text `MarshalTimestamp` writes, read as an exact
    decimal number of seconds, is `t/1000` — i.e. the millisecond value is recovered exactly. -/
theorem timestamp_roundtrip (t : Int) (h1 : MinI64 < t) (h2 : t ≤ MaxI64) :
    parseTs (marshalTimestamp t) = some t := by
  have := pTs_marshalTimestamp t h1 h2 [] rfl
  simp only [List.append_nil] at this
  simp [parseTs, this]

example : MinI64 < (-9223372036854775807 : Int) ∧ (-9223372036854775807 : Int) ≤ MaxI64 := by decide

/-- The same inside a larger document: any continuation that does not extend the number (`,` `]` …). -/
theorem timestamp_roundtrip_in_context (t : Int) (h1 : MinI64 < t) (h2 : t ≤ MaxI64) (rest : Bytes)
    (hr : tsEnd rest = true) : pTs (marshalTimestamp t ++ rest) = some (.exact t, rest) :=
  pTs_marshalTimestamp t h1 h2 rest hr

/-- The excluded point: at MinInt64 the negation wraps, and the code writes two minus signs and a
    negative "fraction" — not a JSON number (the API's time range excludes this timestamp). -/
theorem timestamp_minint64_witness :
    marshalTimestamp MinI64 = kw "--9223372036854775.00-808" ∧ parseTs (marshalTimestamp MinI64) = none := by
  constructor <;> decide

/-- The boundary code written by `MarshalHistogram` determines both inclusiveness flags, and every
    documented code 0–3 is produced by exactly one flag pair. -/
theorem boundaries_code_bijective :
    (∀ li ui, parseBoundaries (boundariesCode li ui) = some (li, ui)) ∧
    (∀ c li ui, parseBoundaries c = some (li, ui) → boundariesCode li ui = c) := by
  refine ⟨by decide, ?_⟩
  intro c li ui h
  match c, h with
  | 0, h | 1, h | 2, h | 3, h => simp [parseBoundaries] at h; obtain ⟨rfl, rfl⟩ := h; rfl
  | n + 4, h => simp [parseBoundaries] at h

/-- Label names and values: the escaping `Stream.WriteString` applies (quotes, backslashes, control
    characters as `\n \r \t \u00XX`, everything else — including `<>&`, DEL and all bytes ≥ 0x80 —
    verbatim) is inverted by JSON string unescaping, for every byte string. -/
theorem escape_unescape (s rest : Bytes) : pString (writeString s ++ rest) = some (s, rest) :=
  pString_writeString s rest

/-- Histograms: under the trusted `strconv` hypothesis for the floats involved (`HistOK`: count, sum and
    the fields of the non-empty buckets are written as quote-free text that parses back to the same
    float), decoding what `MarshalHistogram` wrote yields the same count and sum and exactly the
    non-empty buckets, in order, with the same bounds and the same lower/upper inclusiveness. -/
theorem histogram_json_roundtrip (pf : Bytes → Option FVal) (h : Hist) (rest : Bytes) (hok : HistOK pf h) :
    pHist pf (marshalHistogram h ++ rest) = some (origHist h, rest) :=
  pHist_marshalHistogram pf h rest hok

/-- the hypothesis is satisfiable with the executable `parseF`: a histogram with a zero bucket,
    an empty bucket (dropped) and a custom bucket reaching +Inf -/
example : let one : FTok := ⟨0x3ff0000000000000, [1], 0⟩
    let half : FTok := ⟨0x3fe0000000000000, [5], -1⟩
    let nhalf : FTok := ⟨0xbfe0000000000000, [5], -1⟩
    let zero : FTok := ⟨0, [0], 0⟩
    let inf : FTok := ⟨0x7ff0000000000000, [], 0⟩
    let h : Hist := ⟨one, nhalf, [⟨nhalf, half, true, true, one⟩, ⟨half, one, false, true, zero⟩, ⟨one, inf, false, true, half⟩]⟩
    pHist parseF (marshalHistogram h) = some (origHist h, []) := by decide +kernel

end Prom.C51
