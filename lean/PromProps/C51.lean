import PromModel.Suites.ApiJsonSuite
/-
  C51 — Query API JSON encodes values losslessly.  Property theorems only.
-/
namespace Prom.C51
open Prom.Api.Json

/-- The boundary code written by `MarshalHistogram` determines both inclusiveness flags, and every
    documented code 0–3 is produced by exactly one flag pair. -/
theorem boundaries_code_bijective :
    (∀ li ui, parseBoundaries (boundariesCode li ui) = some (li, ui)) ∧
    (∀ c li ui, parseBoundaries c = some (li, ui) → boundariesCode li ui = c) := by
  refine ⟨by decide, ?_⟩
  intro c li ui h
  match c, h with
  | 0, h | 1, h | 2, h | 3, h => simp [parseBoundaries] at h; obtain ⟨rfl, rfl⟩ := h; rfl
  | n + 4, h => simp [parseBoundaries] at h

end Prom.C51
