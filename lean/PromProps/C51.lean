import PromModel.Suites.ApiJsonSuite
import PromProofs.ApiJson
import PromProofs.ApiJsonRoundtrip
/-
  C51 — Query API JSON encodes values losslessly.  Property theorems only; lemmas are in
  PromProofs/ApiJson.lean.  Model: PromModel/Api/Json.lean.
-/
namespace Prom.C51
open Prom.Api.Json

/-- Timestamps: for every int64 except MinInt64 the text `MarshalTimestamp` writes, read as an exact
    decimal number of seconds, is `t/1000` — i.e. the millisecond value is recovered exactly. -/
theorem timestamp_roundtrip (t : Int) (h1 : MinI64 < t) (h2 : t ≤ MaxI64) :
    parseTs (marshalTimestamp t) = some t := by
  have := pTs_marshalTimestamp t h1 h2 [] rfl
  simp only [List.append_nil] at this
  simp [parseTs, this]

example : MinI64 < (-9223372036854775807 : Int) ∧ (-9223372036854775807 : Int) ≤ MaxI64 := by decide

/-- The same inside a larger document: any continuation that does not extend the number (`,` `]` …). -/
theorem timestamp_roundtrip_in_context (t : Int) (h1 : MinI64 < t) (h2 : t ≤ MaxI64) (rest : Bytes)
    (hr : tsEnd rest = true) : pTs (marshalTimestamp t ++ rest) = some (.exact t, rest) :=
  pTs_marshalTimestamp t h1 h2 rest hr

/-- The excluded point: at MinInt64 the negation wraps, and the code writes two minus signs and a
    negative "fraction" — not a JSON number (the API's time range excludes this timestamp). -/
theorem timestamp_minint64_witness :
    marshalTimestamp MinI64 = kw "--9223372036854775.00-808" ∧ parseTs (marshalTimestamp MinI64) = none := by
  constructor <;> decide

/-- The boundary code written by `MarshalHistogram` determines both inclusiveness flags, and every
    documented code 0–3 is produced by exactly one flag pair. -/
theorem boundaries_code_bijective :
    (∀ li ui, parseBoundaries (boundariesCode li ui) = some (li, ui)) ∧
    (∀ c li ui, parseBoundaries c = some (li, ui) → boundariesCode li ui = c) := by
  refine ⟨by decide, ?_⟩
  intro c li ui h
  match c, h with
  | 0, h | 1, h | 2, h | 3, h => simp [parseBoundaries] at h; obtain ⟨rfl, rfl⟩ := h; rfl
  | n + 4, h => simp [parseBoundaries] at h

/-- Label names and values: the escaping `Stream.WriteString` applies (quotes, backslashes, control
    characters as `\n \r \t \u00XX`, everything else — including `<>&`, DEL and all bytes ≥ 0x80 —
    verbatim) is inverted by JSON string unescaping, for every byte string. -/
theorem escape_unescape (s rest : Bytes) : pString (writeString s ++ rest) = some (s, rest) :=
  pString_writeString s rest

/-- Histograms: under the trusted `strconv` hypothesis for the floats involved (`HistOK`: count, sum and
    the fields of the non-empty buckets are written as quote-free text that parses back to the same
    float), decoding what `MarshalHistogram` wrote yields the same count and sum and exactly the
    non-empty buckets, in order, with the same bounds and the same lower/upper inclusiveness. -/
theorem histogram_json_roundtrip (pf : Bytes → Option FVal) (h : Hist) (rest : Bytes) (hok : HistOK pf h) :
    pHist pf (marshalHistogram h ++ rest) = some (origHist h, rest) :=
  pHist_marshalHistogram pf h rest hok

/-- the hypothesis is satisfiable with the executable `parseF`: a histogram with a zero bucket,
    an empty bucket (dropped) and a custom bucket reaching +Inf -/
example : let one : FTok := ⟨0x3ff0000000000000, [1], 0⟩
    let half : FTok := ⟨0x3fe0000000000000, [5], -1⟩
    let nhalf : FTok := ⟨0xbfe0000000000000, [5], -1⟩
    let zero : FTok := ⟨0, [0], 0⟩
    let inf : FTok := ⟨0x7ff0000000000000, [], 0⟩
    let h : Hist := ⟨one, nhalf, [⟨nhalf, half, true, true, one⟩, ⟨half, one, false, true, zero⟩, ⟨one, inf, false, true, half⟩]⟩
    pHist parseF (marshalHistogram h) = some (origHist h, []) := by decide +kernel

/-- Full statement of the envelope clause: every result type the API produces decodes to the original
    value.  Proved below for vectors (`value_envelope_roundtrip_partial`).  Missing: the matrix case
    (same lemmas, the two optional `values`/`histograms` lists are not yet composed) and the
    scalar/string cases, whose timestamp goes through `float64(T)/1000` and encoding/json and is
    only recoverable for |T| ≤ 2^43·1000 (see `scalar_timestamp_precision_witness`, finding F27);
    matrix, scalar and string are covered by the correspondence suite and the judge only. -/
def value_envelope_roundtrip_full : Prop :=
  ∀ (pf : Bytes → Option FVal),
    (∀ v : List Sample, (∀ s ∈ v, SampleOK pf s) →
      pEnvelope "vector" (pVector pf) (envelope "vector" (marshalVector v)) = some (v.map origSample)) ∧
    (∀ m : List Series,
      (∀ s ∈ m, (∀ p ∈ s.floats, TsOK p.1 ∧ FloatTextOK pf p.2) ∧ (∀ p ∈ s.hists, TsOK p.1 ∧ HistOK pf p.2)) →
      pEnvelope "matrix" (pMatrix pf) (envelope "matrix" (marshalMatrix m)) =
        some (m.map fun s => ⟨s.metric, s.floats.map (fun p => (.exact p.1, .f (origF p.2))),
                              s.hists.map (fun p => (.exact p.1, .h (origHist p.2)))⟩))

/-- Vectors (instant query results): for every list of samples — any label sets (arbitrary byte
    strings), any timestamps except MinInt64, float or histogram values satisfying the trusted
    `strconv` hypothesis — decoding the response the codec writes gives back every sample: the same
    label pairs in order, the exact millisecond timestamp, the same float or histogram. -/
theorem value_envelope_roundtrip_partial (pf : Bytes → Option FVal) (v : List Sample)
    (h : ∀ s ∈ v, SampleOK pf s) :
    pEnvelope "vector" (pVector pf) (envelope "vector" (marshalVector v)) = some (v.map origSample) :=
  pEnvelope_envelope "vector" (pVector pf) (marshalVector v) _ (fun rest => pVector_marshalVector pf v rest h)

/-- the hypotheses are satisfiable with the executable `parseF`, and the decoder really runs:
    a float sample with an escaped label value at a negative timestamp, and a NaN sample -/
example : let one : FTok := ⟨0x3ff0000000000000, [1], 0⟩
    let nan : FTok := ⟨0x7ff8000000000001, [], 0⟩
    let v : List Sample := [⟨[(kw "job", kw "a\"b\n<")], -1001, .f one⟩, ⟨[], 9223372036854775807, .f nan⟩]
    pEnvelope "vector" (pVector parseF) (envelope "vector" (marshalVector v)) = some (v.map origSample) := by
  decide +kernel

/-- One sample inside any context: labels, timestamp and value are recovered (used for every element
    of a vector; the same lemma serves `[ts,value]` points of a matrix). -/
theorem sample_roundtrip (pf : Bytes → Option FVal) (s : Sample) (rest : Bytes) (h : SampleOK pf s) :
    pSample pf (marshalSample s ++ rest) = some (origSample s, rest) :=
  pSample_marshalSample pf s rest h

/-- F27: scalar and string results write `float64(T)/1000`.  Two different millisecond timestamps just
    above 2^43·1000 are mapped to the same float — hence to the same JSON text — so no decoder can
    recover the millisecond there. -/
theorem scalar_timestamp_precision_witness :
    tsFloatBits 8796093022208001 = tsFloatBits 8796093022208002 ∧
    tsFloatBits 9007199254741001 = tsFloatBits 9007199254741000 := by
  constructor <;> decide +kernel

end Prom.C51
