import PromModel.Tsdb.HistLayout
/-
  C11 — Native histograms are stored and read back faithfully (layout level).
  Property theorems only; the model is PromModel/Tsdb/HistLayout.lean.
-/
namespace Prom.C11
open Prom.Hist

/-- A non-stale histogram appended to an empty chunk reads back exactly as given (spans and bucket
    slices included); only the hint is replaced by what the chunk header allows (gauge or unknown).
    The caller's histogram is untouched. -/
theorem first_sample_roundtrip (t : Int) (h : Hist) (hs : h.stale = false) :
    ∃ r, appendHist none (Chunk.empty h.float) t h = .ok r ∧ r.h = h ∧
      r.chunk.read = [(t, { h with hint := if h.hint = .gauge then .gauge else .unknown })] := by
  have hs' : ¬ h.sum = staleBits := by simpa [Hist.stale] using hs
  simp only [appendHist, Chunk.empty, Chunk.num, List.length_nil]
  by_cases hg : h.hint = .gauge
  · simp [hg, Chunk.appendRaw, hs, hs', Chunk.read, readFrom, Chunk.histOf, hintOf]
  · by_cases hr : h.hint = .reset
    · simp [hr, Chunk.appendRaw, hs, hs', Chunk.read, readFrom, Chunk.histOf, hintOf]
    · simp [hg, hr, Chunk.appendRaw, hs, hs', Chunk.read, readFrom, Chunk.histOf, hintOf]

end Prom.C11
