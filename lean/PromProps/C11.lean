import PromModel.Tsdb.HistLayout
import PromProofs.HistLayout
import PromProofs.HistSide
import PromProofs.HistIdxBoth2
import PromProofs.HistSeries
import PromProofs.HistChunkRT
import PromProofs.HistBridge
import PromProofs.HistMem
/-
  C11 — Native histograms are stored and read back faithfully (layout level).
  Property theorems only; the model is PromModel/Tsdb/HistLayout.lean, lemmas are in
  PromProofs/HistLayout.lean, HistIdx*.lean (index-level specification of the expand/insert/adjust loops),
  HistSide.lean, HistChunk.lean (chunk invariant), HistAppend.lean (all outcomes of AppendHistogram),
  HistSeries.lean (head series, reading back).  The byte level (stage 2, `HistChunk`) is not modelled: it is covered by
  the differential only (every chunk in suite `hist` is a real encoded chunk that is decoded again).
-/
namespace Prom.C11
open Prom.Hist

/-- A non-stale histogram appended to an empty chunk reads back exactly as given (spans and bucket
    slices included); only the hint is replaced by what the chunk header allows (gauge or unknown).
    The caller's histogram is untouched. -/
theorem first_sample_roundtrip (t : Int) (h : Hist) (hs : h.stale = false) :
    ∃ r, appendHist none (Chunk.empty h.float) t h = .ok r ∧ r.h = h ∧
      r.chunk.read = [(t, { h with hint := if h.hint = .gauge then .gauge else .unknown })] := by
  have hs' : ¬ h.sum = staleBits := by simpa [Hist.stale] using hs
  simp only [appendHist, Chunk.empty, Chunk.num, List.length_nil]
  by_cases hg : h.hint = .gauge
  · simp [hg, Chunk.appendRaw, hs, hs', Chunk.read, readFrom, Chunk.histOf, hintOf]
  · by_cases hr : h.hint = .reset
    · simp [hr, Chunk.appendRaw, hs, hs', Chunk.read, readFrom, Chunk.histOf, hintOf]
    · simp [hg, hr, Chunk.appendRaw, hs, hs', Chunk.read, readFrom, Chunk.histOf, hintOf]

/-- A staleness marker that starts a chunk reads back as a staleness marker (`{Sum: StaleNaN}`). -/
theorem stale_first_roundtrip (t : Int) (h : Hist) (hs : h.stale = true) :
    ∃ r, appendHist none (Chunk.empty h.float) t h = .ok r ∧ r.h = h ∧
      r.chunk.read = [(t, Hist.blank h.float staleBits)] := by
  have hs' : h.sum = staleBits := by simpa [Hist.stale] using hs
  simp only [appendHist, Chunk.empty, Chunk.num, List.length_nil]
  by_cases hg : h.hint = .gauge
  · simp [hg, Chunk.appendRaw, hs, hs', Chunk.read, readFrom, Hist.blank]
  · by_cases hr : h.hint = .reset
    · simp [hr, Chunk.appendRaw, hs, hs', Chunk.read, readFrom, Hist.blank]
    · simp [hg, hr, Chunk.appendRaw, hs, hs', Chunk.read, readFrom, Hist.blank]

/-- **insert_preserves_buckets.**  `insert` (both variants, ALL input slices, insert lists, positions and
    running values; whenever it does not panic) only adds empty buckets: the sequence of populated
    absolute bucket values is unchanged.  Delta variant: absolute values are the running sums. -/
theorem insert_preserves_buckets_deltas (len i : Nat) (v : Int) (xs : List Int) (ins : List Insert) (out : List Int)
    (h : insertLoop true len i v xs ins = .ok out) :
    nz (prefixFrom v out) = nz (prefixFrom v xs) :=
  insertLoop_deltas len xs i v ins out h

theorem insert_preserves_buckets_abs (len i : Nat) (v : Int) (xs : List Int) (ins : List Insert) (out : List Int)
    (h : insertLoop false len i v xs ins = .ok out) : nz out = nz xs :=
  insertLoop_abs len xs i v ins out h

/-- the hypotheses are met by a real recoding step: two new buckets before and one after `[6,-3,0]` -/
example : insertLoop true 3 0 0 [6, -3, 0] [⟨0, 2, 0⟩, ⟨3, 1, 0⟩] = .ok [0, 0, 6, -3, 0, -3] := by rfl
example : insertLoop false 2 0 0 [5, 7] [⟨1, 1, 0⟩] = .ok [5, 0, 7] := by rfl
/-- …and `insert` panics on leftover inserts that are not at the end, as the Go code does. -/
theorem insert_panics_on_unsorted_witness : insert true [1, 2] 4 [⟨1, 1, 0⟩, ⟨0, 1, 0⟩] = .error .panic := by rfl

/-- Full statement of `insert_preserves_buckets` at index level: recoding a sample with the forward inserts of
    `expandCounter` leaves `bucketMap` unchanged.  Proved below (`insert_preserves_buckets`); the general form
    for any layout pair, both insert directions and the gauge path is `Prom.Hist.insert_bucketMap` /
    `applyIns_bucketMap` (PromProofs/HistSide.lean). -/
def insert_preserves_buckets_full : Prop :=
  ∀ (float : Bool) (a b : List Span) (aB bB : List Int) (f bw : List Insert) (out : List Int),
    expandCounter float a b aB bB = .ok (some (f, bw)) → bw = [] →
    insert (!float) aB (countSpans b) f = .ok out → bucketMap float b out = bucketMap float a aB

/-- **insert_preserves_buckets (index level, full statement).**  Forward recoding with the inserts of
    `expandInt/FloatSpansAndBuckets` leaves the bucket map (index ↦ populated absolute value) unchanged,
    for ALL span layouts and bucket slices, both flavours (whenever the Go code does not panic). -/
theorem insert_preserves_buckets : insert_preserves_buckets_full := by
  intro float a b aB bB f bw out he hb hi
  obtain ⟨plan, _, hla, _⟩ := expandCounter_plan float a b aB bB f bw he
  have hU : idxs b = mergeU (idxs a) (idxs b) := (plan.merge_of_b_nil hb).symm
  exact (insert_bucketMap float a b (idxs b) hU aB hla f plan.fpos plan.f out hi).2.1

/-- a real forward recoding step: chunk layout {0}, histogram layout {-1,0,2} (the inserts are what
    `expandCounter false [⟨0, 1⟩] [⟨-1, 2⟩, ⟨1, 1⟩] [5] [1, 5, -4]` returns) -/
example : insert true [5] 3 [⟨0, 1, -1⟩, ⟨1, 1, 2⟩] = .ok [0, 5, -5] := by rfl

/-- **expand_sound (partial).**  When `expandIntSpansAndBuckets`/`expandFloatSpansAndBuckets` say "ok",
    every bucket of the chunk's last sample is either present in the new histogram with a count that
    is not smaller, or it is empty (then a backward insert covers it): no populated bucket disappears
    and none goes down.  For ALL span layouts and bucket slices, both flavours. -/
theorem expand_sound_partial (float : Bool) (a b : List Span) (aB bB : List Int) (r : List Insert × List Insert)
    (h : expandCounter float a b aB bB = .ok (some r)) :
    PairsLe float ((idxs a).zip (absVals float aB)) ((idxs b).zip (absVals float bB)) :=
  expandCounter_no_decrease float a b aB bB r h

/-- Full statement (proved below as `expand_sound`; the judge also evaluates it on the real functions' outputs on
    every run: `merged-spans`, `insert-order`, `insert-count`, `insert-idx`). -/
def expand_sound_full : Prop :=
  ∀ (a b : List Span), (idxs a).Pairwise (· < ·) → (idxs b).Pairwise (· < ·) →
    let (f, bw, m) := expandBoth a b
    (∀ i, i ∈ idxs m ↔ i ∈ idxs a ∨ i ∈ idxs b) ∧ (idxs m).Pairwise (· < ·) ∧
    (f.map (·.pos)).Pairwise (· < ·) ∧ (bw.map (·.pos)).Pairwise (· < ·)

/-- **expand_sound (full statement).**  `expandSpansBothWays`: the merged spans enumerate exactly the union of
    both layouts in strictly increasing order, and both insert lists have strictly increasing positions. -/
theorem expand_sound : expand_sound_full := by
  intro a b ha hb
  have hp := expandBoth_plan a b
  have hs := expandBoth_pos_sorted a b
  have h2 : idxs (bothGo (idxs a) (idxs b) BW.init).m.spans = mergeU (idxs a) (idxs b) := hp.2
  refine ⟨?_, ?_, hs.1, hs.2⟩
  · intro i; rw [h2]; exact mem_mergeU_iff _ _ i
  · rw [h2]; exact mergeU_sorted _ _ ha hb

/-- `append_roundtrip` as originally written: over ALL `Hist` values and any `cuts` list.  Proved for valid
    histograms (`append_roundtrip`, `append_roundtrip_zip`); false without validity
    (`append_roundtrip_full_witness`).  The judge evaluates exactly this predicate on what the real chunks, head
    and blocks return, on every run. -/
def append_roundtrip_full : Prop :=
  ∀ (samples : List (Int × Hist)) (cuts : List Bool) (s : Series),
    (samples.zip cuts).foldlM (fun (st : Series) (p : (Int × Hist) × Bool) =>
      (st.append p.2 p.1.1 p.1.2).map (·.1)) Series.empty = .ok s →
    (s.read.map (·.1)) = samples.map (·.1) ∧
    ∀ p ∈ s.read.zip samples, (p.2.2.stale = true → p.1.2.stale = true) ∧
      (p.2.2.stale = false → p.1.2.sem = p.2.2.sem)

/-- **append_roundtrip.**  For every sequence of valid histograms (`WFs`: bucket slices match their spans, spans
    enumerate strictly increasing indices, no negative-zero threshold/bounds, custom bounds only with the custom
    schema; staleness markers unconstrained) and every head-level cut oracle, appended through the transcribed
    `memSeries.appendHistogram` → `AppendHistogram`/`AppendFloatHistogram` with all four outcomes (append | recode
    the chunk forward | recode the incoming histogram backward | cut a new chunk), reading the series back
    yields, sample by sample, the same timestamp, a staleness marker for a staleness marker, and otherwise a
    histogram with the same meaning (`Sem`: flavour, schema, zero threshold bits, count, zero count, sum bits,
    bucket maps of both sides, custom bounds). -/
theorem append_roundtrip (ops : List ((Int × Hist) × Bool)) (s : Series) (hwf : ∀ p ∈ ops, WFs p.1.2)
    (h : runSeries ops Series.empty = .ok s) : All2 RdRel s.read (ops.map (·.1)) := by
  obtain ⟨gs, inv, hf⟩ := runSeries_inv ops Series.empty [] trivial hwf s h
  have := SInv.read_rel _ gs inv
  rw [hf] at this
  simpa [Series.read, Series.chunks] using this

/-- the hypotheses are satisfiable by a run that exercises forward recoding: {0} then {-1,0,2} -/
example : ∃ s, runSeries
    [((1, { float := false, hint := .unknown, schema := 0, zt := 0, count := 5, zcount := 0, sum := 0,
            pSpans := [⟨0, 1⟩], nSpans := [], pB := [5], nB := [], custom := [] }), false)] Series.empty = .ok s :=
  ⟨_, by simp [runSeries, Series.append, Series.empty, appendHist, Chunk.empty, Chunk.num, bind, Except.bind,
    pure, Except.pure, Except.map]; rfl⟩

/-- `append_roundtrip` in the shape of `append_roundtrip_full`: literally that statement, plus validity of the
    samples and a cut oracle value for every sample (`zip` truncates otherwise). -/
theorem append_roundtrip_zip (samples : List (Int × Hist)) (cuts : List Bool) (s : Series)
    (hwf : ∀ p ∈ samples, WFs p.2) (hlen : samples.length ≤ cuts.length)
    (h : (samples.zip cuts).foldlM (fun (st : Series) (p : (Int × Hist) × Bool) =>
      (st.append p.2 p.1.1 p.1.2).map (·.1)) Series.empty = .ok s) :
    (s.read.map (·.1)) = samples.map (·.1) ∧
    ∀ p ∈ s.read.zip samples, (p.2.2.stale = true → p.1.2.stale = true) ∧
      (p.2.2.stale = false → p.1.2.sem = p.2.2.sem) := by
  have hm : (samples.zip cuts).map (·.1) = samples := by
    rw [List.map_fst_zip]; exact hlen
  have := append_roundtrip (samples.zip cuts) s (fun p hp => hwf p.1 (List.of_mem_zip hp).1) h
  rw [hm] at this
  exact ⟨this.map_fst, fun p hp => (this.zip_mem p hp).2⟩

/-- The literal `append_roundtrip_full` (no validity hypothesis) is false: IEEE `==` in `appendable` accepts a
    zero threshold of -0.0 into a chunk whose threshold is +0.0, and the sample is read back with +0.0 — the
    same number, but not the same bits (`Sem` compares bits).  `Histogram.Validate` accepts -0.0. -/
theorem append_roundtrip_full_witness : ¬ append_roundtrip_full := by
  intro hfull
  let hA : Hist := { float := false, hint := .unknown, schema := 0, zt := 0, count := 1, zcount := 1, sum := 0,
                     pSpans := [], nSpans := [], pB := [], nB := [], custom := [] }
  let hB : Hist := { hA with zt := 2 ^ 63, count := 2, zcount := 2 }
  have hrun : ([(1, hA), (2, hB)].zip [false, false]).foldlM (fun (st : Series) (p : (Int × Hist) × Bool) =>
      (st.append p.2 p.1.1 p.1.2).map (·.1)) Series.empty =
      .ok ⟨[], some { float := false, hdr := .unknown, schema := 0, zt := 0, custom := [], pSpans := [], nSpans := [],
                       rev := [⟨2, 2, 2, 0, [], []⟩, ⟨1, 1, 1, 0, [], []⟩] }⟩ := by
    simp [hA, hB, Series.append, Series.empty, appendHist, Chunk.empty, Chunk.num, Chunk.appendRaw, Hist.stale,
      staleBits, Chunk.appendable, Chunk.last, cLt, fEq, fIsNaN, fKey, customSchema, expandCounter, pairs, idxs,
      idxsFrom, absVals, prefixSums, prefixFrom, expandGo, CW.init, CW.finish, bind, Except.bind, pure, Except.pure,
      Except.map]
  have := (hfull _ _ _ hrun).2
  simp [Series.read, Series.chunks, Chunk.read, readFrom, Chunk.histOf, staleBits, hintOf, hA, hB, Hist.stale,
    Hist.sem] at this

/-- **caller_unchanged** for ALL samples of a run (not only chunk-starting ones): in every state reachable by
    appending valid histograms, `memSeries.appendHistogram` hands a staleness marker back untouched and any other
    valid histogram back with the same meaning (backward recoding replaces spans and bucket slices but not
    `Sem`). -/
theorem caller_unchanged (ops : List ((Int × Hist) × Bool)) (s : Series) (hwf : ∀ p ∈ ops, WFs p.1.2)
    (hrun : runSeries ops Series.empty = .ok s) (cut : Bool) (t : Int) (h : Hist) (hw : WFs h)
    (s' : Series) (h' : Hist) (o : Outcome) (hr : s.append cut t h = .ok (s', h', o)) :
    (h.stale = true → h' = h) ∧ (h.stale = false → h'.sem = h.sem) := by
  obtain ⟨gs, inv, _⟩ := runSeries_inv ops Series.empty [] trivial hwf s hrun
  exact (Series.append_inv s gs inv cut t h hw s' h' o hr).2

/-- **caller_unchanged (partial).**  Whenever the sample starts a chunk the caller's histogram is
    returned untouched.  (Backward recoding replaces spans and bucket slices by `adjustForInserts`/
    `insert` results; `insert_preserves_buckets_*` says the populated values stay; the judge checks
    `sem` and the hint of the caller's object after every real append.) -/
theorem caller_unchanged_partial (t : Int) (h : Hist) (r : AppRes)
    (hr : appendHist none (Chunk.empty h.float) t h = .ok r) : r.h = h := by
  simp only [appendHist, Chunk.empty, Chunk.num, List.length_nil] at hr
  by_cases hg : h.hint = .gauge
  · simp [hg] at hr; subst hr; rfl
  · by_cases hr' : h.hint = .reset
    · simp [hr'] at hr; subst hr; rfl
    · simp [hg, hr'] at hr; subst hr; rfl

/-! ## caller_unchanged at memory level: aliasing -/

/-- **caller_memory_frame.**  The caller's histograms are structs whose span, bucket and custom-bounds slices point
    into arrays the caller owns (`Mem`), arbitrarily shared: the same slice in several histograms, prefixes of each
    other, spare capacity that overlaps the cells of other histograms (`HView.inB` only asks for legal slice
    headers).  For every heap, every chunk state, every appended struct `v` and EVERY outcome of
    `AppendHistogram`/`AppendFloatHistogram` (append | recode forward | backward-recode the incoming histogram |
    new chunk; `appendMem` is `appendHist` on such a struct): no existing cell of any array is written — each array
    is a prefix of what it is afterwards —, therefore every other histogram struct `w` of the caller, whatever it
    shares with `v`, denotes exactly the same histogram as before; the appended struct denotes what `appendHist`
    hands back (through legal slices of the grown heap).  The judge evaluates this statement on the real memory
    after every append of the alias cases (`mem=`, `held=`), for all four appender flavours. -/
theorem caller_memory_frame (m : Mem) (prev : Option Chunk) (c : Chunk) (t : Int) (v : HView) (m' : Mem) (v' : HView)
    (r : AppRes) (hv : v.inB m = true) (h : appendMem m prev c t v = .ok (m', v', r)) :
    m.spans <+: m'.spans ∧ m.ints <+: m'.ints ∧ m.floats <+: m'.floats ∧
    (∀ w : HView, w.inB m = true → m'.hist w = m.hist w) ∧
    appendHist prev c t (m.hist v) = .ok r ∧ m'.hist v' = r.h ∧ v'.inB m' = true := by
  obtain ⟨h0, ⟨x1, h1⟩, ⟨x2, h2⟩, ⟨x3, h3⟩, h4, h5, h6⟩ := appendMem_frame m prev c t v m' v' r hv h
  exact ⟨⟨x1, h1.symm⟩, ⟨x2, h2.symm⟩, ⟨x3, h3.symm⟩, h4, h0, h5, h6⟩

/-- **caller_unchanged with aliasing.**  In a chunk state that represents what was appended (`CInv`, the invariant
    of `append_roundtrip`), appending the valid histogram that struct `v` denotes leaves every histogram struct of
    the caller with its meaning: the appended one semantically (a staleness marker literally), all others
    literally — also those sharing span or bucket memory with `v`. -/
theorem caller_unchanged_aliased (m : Mem) (prev : Option Chunk) (c : Chunk) (l : List (Int × Hist)) (inv : CInv c l)
    (t : Int) (v : HView) (hv : v.inB m = true) (hwf : WFs (m.hist v)) (hfl : v.float = c.float)
    (hprev : c.rev ≠ [] → prev = none) (m' : Mem) (v' : HView) (r : AppRes)
    (h : appendMem m prev c t v = .ok (m', v', r)) :
    ((m.hist v).stale = true → m'.hist v' = m.hist v) ∧
    ((m.hist v).stale = false → (m'.hist v').sem = (m.hist v).sem) ∧
    (∀ w : HView, w.inB m = true → m'.hist w = m.hist w) := by
  obtain ⟨h0, _, _, _, h4, h5, _⟩ := appendMem_frame m prev c t v m' v' r hv h
  obtain ⟨a, b, _⟩ := appendHist_step prev c l inv t (m.hist v) hwf hfl r h0 hprev
  rw [h5]
  exact ⟨a, b, h4⟩

/-- The hypotheses are met by the shared-layout situation: two histograms over ONE span slice `[⟨0,1⟩,⟨2,1⟩]`
    (buckets 0 and 3), the chunk holds the wider layout {0,1,3,4} with 1 and 4 empty.  Appending the first one
    backward-recodes it: its struct gets fresh spans/buckets behind the old cells, the second struct still reads
    spans `[⟨0,1⟩,⟨2,1⟩]` and buckets `[3,0]`. -/
example :
    let m : Mem := ⟨[⟨0, 1⟩, ⟨2, 1⟩], [2, 0, 3, 0], []⟩
    let v : HView := ⟨false, .unknown, 1, 0, 4, 0, 0, some ⟨0, 2, 2⟩, none, some ⟨0, 2, 2⟩, none, none⟩
    let w : HView := ⟨false, .unknown, 1, 0, 6, 0, 0, some ⟨0, 2, 2⟩, none, some ⟨2, 2, 2⟩, none, none⟩
    let c : Chunk := { float := false, hdr := .unknown, schema := 1, zt := 0, custom := [], pSpans := [⟨0, 2⟩, ⟨1, 2⟩],
                       nSpans := [], rev := [⟨1000, 2, 0, 0, [1, -1, 1, -1], []⟩] }
    v.inB m = true ∧ w.inB m = true ∧
    ∃ m' v' r, appendMem m none c 2000 v = .ok (m', v', r) ∧ r.out = .same ∧
      m'.spans = [⟨0, 1⟩, ⟨2, 1⟩, ⟨0, 2⟩, ⟨1, 2⟩] ∧ m'.ints = [2, 0, 3, 0, 2, -2, 2, -2] ∧
      (m'.hist v').pSpans = [⟨0, 2⟩, ⟨1, 2⟩] ∧ (m'.hist w).pSpans = [⟨0, 1⟩, ⟨2, 1⟩] ∧ (m'.hist w).pB = [3, 0] := by
  refine ⟨by decide, by decide, ?_⟩
  have e : appendHist none
      { float := false, hdr := .unknown, schema := 1, zt := 0, custom := [], pSpans := [⟨0, 2⟩, ⟨1, 2⟩],
        nSpans := [], rev := [⟨1000, 2, 0, 0, [1, -1, 1, -1], []⟩] } 2000
      (Mem.hist ⟨[⟨0, 1⟩, ⟨2, 1⟩], [2, 0, 3, 0], []⟩
        ⟨false, .unknown, 1, 0, 4, 0, 0, some ⟨0, 2, 2⟩, none, some ⟨0, 2, 2⟩, none, none⟩) =
      .ok ⟨.same, { float := false, hdr := .unknown, schema := 1, zt := 0, custom := [], pSpans := [⟨0, 2⟩, ⟨1, 2⟩],
                    nSpans := [], rev := [⟨2000, 4, 0, 0, [2, -2, 2, -2], []⟩, ⟨1000, 2, 0, 0, [1, -1, 1, -1], []⟩] },
            { float := false, hint := .unknown, schema := 1, zt := 0, count := 4, zcount := 0, sum := 0,
              pSpans := [⟨0, 2⟩, ⟨1, 2⟩], nSpans := [], pB := [2, -2, 2, -2], nB := [], custom := [] }⟩ := by
    have hi : Prom.Hist.insert true [2, 0] 4 [⟨1, 1, 1⟩, ⟨2, 1, 4⟩] = .ok [2, -2, 2, -2] := by rfl
    simp [appendHist, Mem.hist, readO, Slice.read, Mem.vals, Chunk.num, Chunk.appendable, Chunk.last, Hist.stale,
      staleBits, cLt, vGt, vZero, fEq, fIsNaN, fKey, customSchema, expandCounter, pairs, idxs, idxsFrom, runIdx, absVals,
      prefixSums, prefixFrom, expandGo, CW.init, CW.finish, CW.advA, CW.advB, CW.addB, addInsert, recodeHistogram, hi,
      countSpans, Chunk.appendRaw, bind, Except.bind, pure, Except.pure]
  refine ⟨_, _, _, by rw [appendMem, e], rfl, ?_, ?_, ?_, ?_, ?_⟩ <;> rfl

/-- The model never reports a written cell (what the harness observes on the real memory as `mem=-`): the
    cell-by-cell comparison the suite prints is empty for every run of `appendMem`. -/
theorem model_reports_no_write (m : Mem) (prev : Option Chunk) (c : Chunk) (t : Int) (v : HView) (m' : Mem)
    (v' : HView) (r : AppRes) (hv : v.inB m = true) (h : appendMem m prev c t v = .ok (m', v', r)) :
    cellDiff 0 m.spans m'.spans = [] ∧ cellDiff 0 m.ints m'.ints = [] ∧ cellDiff 0 m.floats m'.floats = [] := by
  obtain ⟨_, ⟨x1, h1⟩, ⟨x2, h2⟩, ⟨x3, h3⟩, _⟩ := appendMem_frame m prev c t v m' v' r hv h
  rw [h1, h2, h3]
  exact ⟨cellDiff_append _ _ _, cellDiff_append _ _ _, cellDiff_append _ _ _⟩

/-! ## stage 2: the bytes -/

/-- **histchunk_roundtrip (integer histogram chunks, exponential schemas).**  `Prom.HistChunk.encodeChunk` is the
    transcription of `HistogramAppender.appendHistogram`/`writeHistogramChunkLayout` on C10's bit stream (compared
    byte for byte with the real `HistogramChunk.Bytes()` in suite `histbytes`), `decodeChunk` the transcription of
    `histogramIterator.Next`/`readHistogramChunkLayout`.  For every chunk whose values stay inside ±2^61 (so that
    no delta-of-delta wraps), whose layout is encodable (no -0.0 threshold, not the custom-bounds schema) and whose
    stored samples have the shape the appender produces (bucket slices as long as the layout, staleness markers
    empty and only at the end), decoding the encoded bytes gives back exactly the chunk: header, layout, every
    sample.  Together with `append_roundtrip` this is the bit-level leg of "stored and read back faithfully". -/
theorem histchunk_roundtrip (c : Chunk) (s0 : Stored) (ss : List Stored) (ok : Prom.HistChunk.ChunkOk c s0 ss) :
    Prom.HistChunk.decodeChunk (Prom.HistChunk.encodeChunk c) = some c :=
  Prom.HistChunk.decodeChunk_encodeChunk c s0 ss ok

/-- **histchunk_roundtrip (float histogram chunks, exponential schemas).**  The same for `FloatHistogramAppender` /
    `floatHistogramIterator` (every value an `xorValue` with its own window): for float chunks whose samples have the
    appender's shape (values are 64-bit patterns, staleness markers empty), decoding the encoded bytes gives back
    exactly the chunk.  (No ordering condition on staleness markers is needed here.) -/
theorem histchunk_roundtrip_float (c : Chunk) (s0 : Stored) (ss : List Stored) (ok : Prom.HistChunk.ChunkOkF c s0 ss) :
    Prom.HistChunk.decodeChunkF (Prom.HistChunk.encodeChunk c) = some c :=
  Prom.HistChunk.decodeChunkF_encodeChunk c s0 ss ok

/-- **From appended histograms to bytes and back** (`append_roundtrip` ∘ `histchunk_roundtrip`).  Every chunk of a
    head series built by the transcribed appender from valid integer histograms far inside the int64 range
    (`SmallH`: |t| < 2^61, counts < 2^61, absolute bucket counts in [0, 2^60), exponential schema, span lists that
    fit the layout encoding over bucket indices inside ±2^40) — whatever was cut, recoded forward or backward — is
    decoded from its encoded bytes exactly.  All hypotheses are about the appended histograms; that the merged
    layouts built by `adjustForInserts`/`expandSpansBothWays` stay encodable is part of the proof
    (`runSeries_layouts`).  Reading the decoded chunks therefore returns the appended histograms
    (`append_roundtrip`). -/
theorem bytes_roundtrip (ops : List ((Int × Hist) × Bool)) (s : Series) (hwf : ∀ p ∈ ops, WFs p.1.2)
    (hsm : ∀ p ∈ ops, Prom.HistChunk.SmallH p.1) (hrun : runSeries ops Series.empty = .ok s) :
    ∀ c ∈ s.chunks, Prom.HistChunk.decodeChunk (Prom.HistChunk.encodeChunk c) = some c :=
  Prom.HistChunk.series_bytes_roundtrip' ops s hwf hsm hrun

/-- the same for float histograms (`SmallHF`: counts, sum and bucket values are 64-bit patterns, exponential schema,
    encodable span lists over bucket indices inside ±2^40) -/
theorem bytes_roundtrip_float (ops : List ((Int × Hist) × Bool)) (s : Series) (hwf : ∀ p ∈ ops, WFs p.1.2)
    (hsm : ∀ p ∈ ops, Prom.HistChunk.SmallHF p.1) (hrun : runSeries ops Series.empty = .ok s) :
    ∀ c ∈ s.chunks, Prom.HistChunk.decodeChunkF (Prom.HistChunk.encodeChunk c) = some c :=
  Prom.HistChunk.series_bytes_roundtrip_float ops s hwf hsm hrun

/-- `SmallH` is met by an ordinary histogram: schema 3, buckets {-2,-1,1} with counts 2,5,6 -/
example : Prom.HistChunk.SmallH
    (1000, Hist.mk false .unknown 3 0 13 0 0x402a000000000000 [⟨-2, 2⟩, ⟨1, 1⟩] [] [2, 3, 1] [] []) := by
  have lb : Prom.HistChunk.LayoutBound [⟨-2, 2⟩, ⟨1, 1⟩] := by
    refine ⟨⟨?_, by decide⟩, by decide, by decide⟩
    intro s hs
    simp only [List.mem_cons, List.not_mem_nil, or_false] at hs
    rcases hs with rfl | rfl <;> exact ⟨by simp only [Prom.Bits.I64, Prom.Bits.two63]; omega, by decide⟩
  refine ⟨by simp only [Prom.HistChunk.Sm]; omega, rfl, by decide, by decide, by decide, by decide,
    ⟨by simp only [Prom.Bits.I64, Prom.Bits.two63]; omega, by decide⟩, ⟨lb, Prom.HistChunk.LayoutBound.nil⟩, ?_, ?_⟩
  · intro v hv
    simp only [prefixSums, prefixFrom, List.mem_cons, List.not_mem_nil, or_false] at hv
    rcases hv with rfl | rfl | rfl <;> omega
  · intro v hv; simp [prefixSums, prefixFrom] at hv

/-- the hypotheses are met by a concrete two-sample chunk -/
example : Prom.HistChunk.ChunkOk
    { float := false, hdr := .notReset, schema := 3, zt := 0, custom := [], pSpans := [⟨-2, 1⟩], nSpans := [],
      rev := [⟨2000, 12, 1, 0x4028000000000000, [5], []⟩, ⟨1000, 7, 1, 0x401c000000000000, [2], []⟩] }
    ⟨1000, 7, 1, 0x401c000000000000, [2], []⟩ [⟨2000, 12, 1, 0x4028000000000000, [5], []⟩] := by
  have i64 : ∀ x : Int, -1000 ≤ x → x ≤ 1000 → Prom.Bits.I64 x := by
    intro x h1 h2; simp only [Prom.Bits.I64, Prom.Bits.two63]; omega
  have sm : ∀ x : Int, -3000 ≤ x → x ≤ 3000 → Prom.HistChunk.Sm x := by
    intro x h1 h2; simp only [Prom.HistChunk.Sm]; omega
  refine ⟨rfl, by decide, ⟨by decide, by decide, i64 _ (by decide) (by decide), by decide, rfl, ?_,
    (by intro s hs; simp [Prom.HistChunk.layoutOf] at hs), by decide, by decide⟩, rfl, ⟨rfl, rfl⟩, ?_, ⟨fun h => by simp [staleBits] at h, trivial⟩⟩
  · intro s hs
    simp only [Prom.HistChunk.layoutOf, List.mem_singleton] at hs
    subst hs
    exact ⟨i64 _ (by decide) (by decide), by decide⟩
  · intro s hs
    simp only [List.mem_cons, List.not_mem_nil, or_false] at hs
    rcases hs with rfl | rfl
    · exact ⟨sm _ (by decide) (by decide), by decide, by decide, by decide, fun h => by simp [staleBits] at h,
        fun _ => ⟨rfl, rfl, fun b hb => by simp at hb; subst hb; exact sm _ (by decide) (by decide), by simp⟩⟩
    · exact ⟨sm _ (by decide) (by decide), by decide, by decide, by decide, fun h => by simp [staleBits] at h,
        fun _ => ⟨rfl, rfl, fun b hb => by simp at hb; subst hb; exact sm _ (by decide) (by decide), by simp⟩⟩

end Prom.C11
