import PromModel.Tsdb.Merge
import PromProofs.GoHeap
import PromProofs.Merge
import PromProofs.MergeTotal
import PromProofs.MergeSeek
import PromProofs.MergeSets
import PromProofs.MergeChunks
/-
  C19 — Merging series sets de-duplicates without losing data.
  Property theorems only; helper lemmas live in PromProofs/GoHeap.lean and PromProofs/Merge.lean.

  Proved here, for ANY number of inputs:
    * the transcribed `container/heap` is a priority queue (`goheap_push_spec`, `goheap_pop_spec`);
    * `chain_next_step_spec`  — every `Next` of a started `chainSampleIterator` returns the least pending
      timestamp above `lastT`, taken from an input, and re-establishes the invariant;
    * `chain_next_total`, `chain_next_spec` — draining a fresh chain over ≥ 1 sorted inputs always ends
      normally (the model's fuel guards never fire) with strictly increasing timestamps, every sample from
      an input, every input timestamp present (`chain_next_spec_partial` is the conditional form);
    * `chain_seek_spec` — ANY Next/Seek script is answered like a list iterator over the sorted
      de-duplicated union of the inputs' timestamps (`chain_seek_spec_full`);
    * `merge_sets_sorted_unique`, `merge_sets_groups` — the merged series set (`merge_sets_sorted_unique_full`);
    * `compact_chunks` — the compacting chunk merger (repaired statement);
    * `reencode_chunk_meta_matches_samples` — the re-encoder incl. the cut on a histogram counter reset:
      every chunk's (MinTime, MaxTime) are its first/last sample time, chunks ordered and disjoint.
  Proved false as literally stated (`…_witness`): `chain_next_total_full` (zero inputs panic) and
  `compact_chunks_full` (the winner among equal timestamps depends on the order of entry into the heap).
-/
namespace Prom.C19
open Prom.Merge Prom.GoHeap

/-! ### the heap -/

/-- `heap.Push` keeps the heap shape and adds exactly `x`. -/
theorem goheap_push_spec {α} {lt : α → α → Bool} (sw : StrictWeak lt) (a : Array α) (x : α)
    (h : IsHeap lt a a.size) :
    IsHeap lt (push lt a x) (push lt a x).size ∧ (push lt a x).Perm (a.push x) :=
  ⟨isHeap_push sw a x h, perm_push lt a x⟩

/-- `heap.Pop` returns an element no other element is smaller than, keeps the heap shape and keeps
    exactly the other elements. -/
theorem goheap_pop_spec {α} {lt : α → α → Bool} (sw : StrictWeak lt) (a : Array α)
    (h : IsHeap lt a a.size) (hpos : 0 < a.size) :
    ∃ a', pop lt a = some (a[0], a') ∧ IsHeap lt a' a'.size ∧ (a'.push a[0]).Perm a ∧
      ∀ y ∈ a, lt y a[0] = false :=
  pop_spec sw a h hpos

example : StrictWeak ltIt := sw_ltIt

/-! ### chainSampleIterator.Next -/

/-- One `Next` on a chain that is between two calls (`Started`: not failed, heap built, current
    iterator `cur`, invariant `LInv`: heap shape, every iterator sorted, everything pending ≥ lastT).
    If it returns a sample `s`: `s.t > lastT`, `s` is one of the pending input samples, the new state is
    again `Started` with `lastT = s.t`, nothing new becomes pending, and every pending sample with a
    timestamp above the old `lastT` either has timestamp `s.t` or is still pending — so `s.t` is the
    least pending timestamp above `lastT` and no other timestamp is lost.  If it returns "end", nothing
    above `lastT` was pending. -/
theorem chain_next_step_spec (c : Chain) (cur : It) (h : Array It) (st : Started c cur h) :
    NextPost c.lastT (· ∈ pend cur h) c.next :=
  next_started c cur h st

/-- Sorted inputs with timestamps above `MinInt64` (the excluded point is `chain_drops_minint64_witness`). -/
def InputsOK (inputs : List (List Sample)) : Prop :=
  ∀ l ∈ inputs, SortedL l ∧ ∀ s ∈ l, MinI64 < s.t

theorem chain_next_spec_partial (inputs : List (List Sample)) (hin : InputsOK inputs)
    (raw out : List Sample)
    (hd : (Chain.ofLists (inputs.map fun l => (l, false))).drain = some (raw, out)) :
    -- strictly increasing timestamps
    SortedL raw ∧
    -- each emitted sample is a sample of some input (so its value comes from an input that has a sample there)
    (∀ s ∈ raw, ∃ l ∈ inputs, s ∈ l) ∧
    -- every input timestamp is emitted
    (∀ l ∈ inputs, ∀ p ∈ l, p.t ∈ raw.map (·.t)) := by
  have hrest : (((inputs.map fun l => (l, false)).zipIdx.map fun (p, i) => It.ofList i p.1 p.2).map (·.rest)) = inputs := by
    rw [List.map_map]
    have : ((fun x : It => x.rest) ∘ fun (x : (List Sample × Bool) × Nat) => It.ofList x.2 x.1.1 x.1.2)
        = (fun p : List Sample × Bool => p.1) ∘ Prod.fst := by funext x; rfl
    rw [this, ← List.map_map, List.zipIdx_map_fst, List.map_map]
    simp [Function.comp_def]
  have hfresh : ∀ it ∈ ((inputs.map fun l => (l, false)).zipIdx.map fun (p, i) => It.ofList i p.1 p.2),
      FreshOK MinI64 it := by
    intro it hit
    have hmem : it.rest ∈ inputs := by rw [← hrest]; exact List.mem_map_of_mem hit
    obtain ⟨x, _, rfl⟩ := List.mem_map.1 hit
    exact ⟨rfl, (hin _ hmem).1, (hin _ hmem).2⟩
  obtain ⟨a, b, c⟩ := drain_fresh _ hfresh _ raw out hd
  refine ⟨a, ?_, ?_⟩
  · intro s hs
    obtain ⟨it, hit, hsr⟩ := b s hs
    exact ⟨it.rest, by rw [← hrest]; exact List.mem_map_of_mem hit, hsr⟩
  · intro l hl p hp
    rw [← hrest] at hl
    obtain ⟨it, hit, rfl⟩ := List.mem_map.1 hl
    exact c it hit p hp

/-- the hypotheses are satisfiable and the run finishes: three inputs, equal timestamps (the second
    input wins at t = 1, as in the Go code: the first iterator is pushed back and the heap top taken) -/
example : (Chain.ofLists ([[⟨1, .float, 10⟩, ⟨3, .float, 11⟩], [⟨1, .float, 20⟩, ⟨2, .hist, 6⟩], []].map
      fun l => (l, false))).drain
    = some ([⟨1, .float, 20⟩, ⟨2, .hist, 6⟩, ⟨3, .float, 11⟩], [⟨1, .float, 20⟩, ⟨2, .hist, 4⟩, ⟨3, .float, 11⟩]) := by
  decide

/-- The model's fuel guard never fires, i.e. draining well-formed error-free inputs always ends
    (`loopFuel` bounds the loop: every round consumes a sample or retires an iterator).  As stated (zero
    inputs allowed) it is false — `chain_next_total_full_witness`; for ≥ 1 input it is `chain_next_total`. -/
def chain_next_total_full : Prop :=
  ∀ inputs, InputsOK inputs → (Chain.ofLists (inputs.map fun l => (l, false))).drain ≠ none

/-- `chain_next_total_full` as literally stated is false: with zero inputs the first `Next` indexes
    `c.iterators[0]` and panics (`chain_zero_iterators_panics_witness`), so the drain does not end
    normally.  The statement for at least one input is `chain_next_total`. -/
theorem chain_next_total_full_witness : ¬ chain_next_total_full := by
  intro h
  exact h [] (by intro l hl; simp at hl) (by decide)

/-- The model's fuel guards never fire and no error/panic surfaces: draining at least one sorted,
    error-free input (timestamps above `MinInt64`) always ends normally. -/
theorem chain_next_total (inputs : List (List Sample)) (hne : inputs ≠ []) (hin : InputsOK inputs) :
    (Chain.ofLists (inputs.map fun l => (l, false))).drain ≠ none := by
  have hf := ofLists_fresh inputs hin
  have hne' : (Chain.ofLists (inputs.map fun l => (l, false))).its ≠ [] := by
    intro h0
    have := ofLists_rest inputs
    rw [h0] at this
    exact hne this.symm
  have hn := next_fresh2 _ hf hne'
  unfold Chain.drain Chain.drainAux
  cases hnx : (Chain.ofLists (inputs.map fun l => (l, false))).next with
  | mk c' res =>
    rw [hnx] at hn
    cases res with
    | val s =>
      obtain ⟨_, _, cur', h', st', _, hlt, _, _⟩ := hn
      exact drain_run _ c' cur' h' _ _ st' (by omega)
    | fin => simp
    | err => exact hn.elim
    | panic => exact hn.elim

/-- `chain_next_spec`, unconditional: for at least one sorted input the drain ends normally and its
    result is strictly increasing, consists of input samples and covers every input timestamp. -/
theorem chain_next_spec (inputs : List (List Sample)) (hne : inputs ≠ []) (hin : InputsOK inputs) :
    ∃ raw out, (Chain.ofLists (inputs.map fun l => (l, false))).drain = some (raw, out) ∧
      SortedL raw ∧ (∀ s ∈ raw, ∃ l ∈ inputs, s ∈ l) ∧ (∀ l ∈ inputs, ∀ p ∈ l, p.t ∈ raw.map (·.t)) := by
  cases hd : (Chain.ofLists (inputs.map fun l => (l, false))).drain with
  | none => exact (chain_next_total inputs hne hin hd).elim
  | some ro => exact ⟨ro.1, ro.2, rfl, chain_next_spec_partial inputs hin ro.1 ro.2 hd⟩

example : InputsOK [[⟨1, .float, 10⟩, ⟨3, .float, 11⟩], [⟨1, .float, 20⟩]] := by
  intro l hl
  simp only [List.mem_cons, List.not_mem_nil, or_false] at hl
  rcases hl with rfl | rfl <;> (constructor <;> simp [SortedL, MinI64])

/-- FC19a: `lastT` starts at `math.MinInt64` and a sample whose timestamp equals `lastT` is skipped, so
    chaining drops a sample at `t = MinInt64` (reproduced on the real code by suite `merge`). -/
theorem chain_drops_minint64_witness :
    (Chain.ofLists [([⟨MinI64, .float, 1⟩, ⟨5, .float, 2⟩], false), ([⟨7, .float, 3⟩], false)]).drain
      = some ([⟨5, .float, 2⟩, ⟨7, .float, 3⟩], [⟨5, .float, 2⟩, ⟨7, .float, 3⟩]) := by
  decide

/-- `ChainSampleIteratorFromIterators(nil, nil).Next()` indexes `c.iterators[0]`: a panic. -/
theorem chain_zero_iterators_panics_witness : ((Chain.mk' []).next).2 = .panic := by
  decide

/-! ### Seek scripts, the merged series set, chunk mergers -/

/-- expected result of any Next/Seek script on a merged sequence `U` of timestamps
    (proved: `chain_seek_spec`) -/
def chain_seek_spec_full : Prop :=
  ∀ inputs, InputsOK inputs → ∀ (script : List (Option Int)),
    -- every `Seek t` (some t) / `Next` (none) answers as the list iterator over the merged sequence would
    let run := script.foldl (fun (acc : Chain × List (Option Int)) op =>
      let (c', r) := match op with | some t => acc.1.seek t | none => acc.1.next
      (c', acc.2 ++ [match r with | .val s => some s.t | _ => none]))
      (Chain.ofLists (inputs.map fun l => (l, false)), [])
    let spec := script.foldl (fun (acc : It × List (Option Int)) op =>
      let (i', r) := match op with | some t => acc.1.seek t | none => acc.1.next
      (i', acc.2 ++ [r.map (·.t)]))
      (It.ofList 0 (((inputs.flatten.map (·.t)).mergeSort (· ≤ ·)).eraseDups.map fun t => ⟨t, .float, 0⟩), [])
    run.2 = spec.2

/-- `chain_seek_spec_full` holds — for EVERY script (also backward seeks, seeks before the first
    `Next`, calls after the end): the chain answers as the list iterator over the sorted de-duplicated
    union of the inputs' timestamps (simulation `Prom.Merge.Sim`, PromProofs/MergeSeek.lean). -/
theorem chain_seek_spec : chain_seek_spec_full := by
  intro inputs hin script
  exact script_sim script _ _ [] (sim_init inputs hin)

/-- instance: Seek 2 lands on 2 (second input), Next gives 3, Seek 1 (backwards) stays on 3, Next ends -/
example : ([some 2, none, some 1, none, none].foldl (fun (acc : Chain × List (Option Int)) op =>
      let (c', r) := match op with | some t => acc.1.seek t | none => acc.1.next
      (c', acc.2 ++ [match r with | .val s => some s.t | _ => none]))
      (Chain.ofLists ([[⟨1, .float, 10⟩, ⟨3, .float, 11⟩], [⟨1, .float, 20⟩, ⟨2, .hist, 6⟩]].map fun l => (l, false)), [])).2
    = [some 2, some 3, some 3, none, none] := by decide

/-- merged series set: label sets strictly increasing and equal to the union of the inputs' label sets
    (proved: `merge_sets_sorted_unique`) -/
def merge_sets_sorted_unique_full : Prop :=
  ∀ (sets : List (List (Labels × Nat))),
    (∀ s ∈ sets, s.Pairwise fun a b => Labels.compare a.1 b.1 = .lt) →
    let out := (MSet.drainAux (·.1) (sets.flatten.length + 1)
      (MSet.new (·.1) (sets.zipIdx.map fun (s, i) => SetIt.ofList i s) 0) []).1
    (out.map fun ss => (ss.head?.map (·.1)).getD []).Pairwise (fun a b => Labels.compare a b = .lt) ∧
    ∀ l, (∃ ss ∈ out, ∃ x ∈ ss, x.1 = l) ↔ ∃ s ∈ sets, ∃ x ∈ s, x.1 = l

/-- `merge_sets_sorted_unique_full` holds.  Proved at the level of series (PromProofs/MergeSets.lean,
    `merge_sets_spec`, for any series type): the groups handed to the vertical merge come out in strictly
    increasing `labels.Compare` order, each group is non-empty and carries ONE label set, and the groups
    together contain exactly the input series (so also: every series with that label set is in the group). -/
theorem merge_sets_sorted_unique : merge_sets_sorted_unique_full := by
  intro sets hs
  obtain ⟨h1, _, h3⟩ := merge_sets_spec (σ := Labels × Nat) (·.1) sets hs
  refine ⟨h1, ?_⟩
  intro l
  constructor
  · rintro ⟨ss, hss, x, hx, rfl⟩
    obtain ⟨s, hs', hxs⟩ := List.mem_flatten.1 ((h3 x).1 ⟨ss, hss, hx⟩)
    exact ⟨s, hs', x, hxs, rfl⟩
  · rintro ⟨s, hs', x, hx, rfl⟩
    obtain ⟨g, hg, hxg⟩ := (h3 x).2 (List.mem_flatten.2 ⟨s, hs', hx⟩)
    exact ⟨g, hg, x, hxg, rfl⟩

/-- series-level form of the same fact: every group is non-empty, carries one label set, and the groups
    partition the input series -/
theorem merge_sets_groups (sets : List (List (Labels × Nat)))
    (hs : ∀ s ∈ sets, s.Pairwise fun a b => Labels.compare a.1 b.1 = .lt) :
    let out := (MSet.drainAux (·.1) (sets.flatten.length + 1)
      (MSet.new (·.1) (sets.zipIdx.map fun (s, i) => SetIt.ofList i s) 0) []).1
    (∀ g ∈ out, g ≠ [] ∧ ∀ x ∈ g, x.1 = (g.head?.map (·.1)).getD []) ∧
      ∀ x, (∃ g ∈ out, x ∈ g) ↔ ∃ s ∈ sets, x ∈ s := by
  obtain ⟨_, h2, h3⟩ := merge_sets_spec (σ := Labels × Nat) (·.1) sets hs
  exact ⟨h2, fun x => by rw [h3 x, List.mem_flatten]⟩

example : (MSet.drainAux (σ := Labels × Nat) (·.1) 5 (MSet.new (·.1)
      ([[([("a", "1")], 0), ([("a", "2")], 1)], [([("a", "1")], 2)], []].zipIdx.map fun (s, i) => SetIt.ofList i s) 0) []).1
    = [[([("a", "1")], 0), ([("a", "1")], 2)], [([("a", "2")], 1)]] := by decide

/-- compacted chunks are ordered and disjoint, hold the chain merge of all input samples, and a chunk
    overlapped only by identical copies comes out once, unchanged.  FALSE as stated
    (`compact_chunks_full_witness`); the repaired statement is `compact_chunks`. -/
def compact_chunks_full : Prop :=
  ∀ (series : List (List Chunk)) out, compactAll series = (out, .fin) →
    (out.Pairwise fun a b => a.maxt < b.mint) ∧
    some (out.flatMap (·.samples)) = chainMerge (series.flatten.map (·.samples))

/-- `compact_chunks_full` as literally stated is FALSE, even for clean float data: it demands equality
    of VALUES with `chainMerge` of the chunks in `series.flatten` order, but which input wins among equal
    timestamps depends on the order the iterators enter the chain's heap, and the compacting merger chains
    `overlapped ++ [curr]`, not the flattened order.  Three one-chunk series `[1→1]`, `[1→2]`, `[2→3]`:
    the merger keeps value 1 at t = 1, `chainMerge` of the flattened inputs keeps value 2.  (Prometheus
    leaves the winner among duplicate timestamps with different values unspecified, so this is not a
    defect.)  Two more reasons, each sufficient: a chunk that overlaps nothing is passed through with its
    bytes, so a histogram keeps its counter-reset hint and a sample at `MinInt64` survives, whereas
    `chainMerge` resets the hint (`Chain.atSample`) and drops `MinInt64` (FC19a); and the statement has no
    well-formedness hypothesis on chunk metas.  The provable content — order/disjointness, timestamps =
    sorted de-duplicated union, every value from an input — is `compact_chunks`. -/
theorem compact_chunks_full_witness : ¬ compact_chunks_full := by
  intro h
  have := (h [[Chunk.ofSamples [⟨1, .float, 1⟩]], [Chunk.ofSamples [⟨1, .float, 2⟩]], [Chunk.ofSamples [⟨2, .float, 3⟩]]]
    [Chunk.ofSamples [⟨1, .float, 1⟩], Chunk.ofSamples [⟨2, .float, 3⟩]] (by decide)).2
  revert this
  decide

/-- every chunk series well-formed: chunks non-empty, samples strictly increasing, inside the meta range
    and above `MinInt64` (`ChunkOK`), chunks of one series time-ordered and disjoint -/
def ChunkSeriesOK (series : List (List Chunk)) : Prop :=
  ∀ cs ∈ series, (∀ c ∈ cs, ChunkOK c) ∧ cs.Pairwise fun a b => a.maxt < b.mint

/-- The compacting chunk merger, repaired statement, for ANY number of well-formed chunk series with
    arbitrary overlaps and duplicates: if `NewCompactingChunkSeriesMerger(ChainedSeriesMerge)` ends
    normally, its chunks are time-ordered and pairwise disjoint, each is well-formed, their timestamps
    are exactly the sorted de-duplicated union of all input timestamps (nothing lost, nothing invented,
    nothing repeated), and every sample is an input sample — literally, or with its counter-reset hint
    reset to "unknown" where the chain read it across inputs. -/
theorem compact_chunks (series : List (List Chunk)) (hwf : ChunkSeriesOK series) (out : List Chunk)
    (h : compactAll series = (out, .fin)) :
    (out.Pairwise fun a b => a.maxt < b.mint) ∧ (∀ c ∈ out, ChunkOK c) ∧
    (out.flatMap (·.samples)).map (·.t) =
      (((series.flatten.flatMap (·.samples)).map (·.t)).mergeSort (· ≤ ·)).eraseDups ∧
    ∀ x ∈ out.flatMap (·.samples), ∃ c ∈ series.flatten, ∃ y ∈ c.samples,
      x = y ∨ (y.kind ≠ .float ∧ y.payload % 4 ≠ 3 ∧ x = { y with payload := y.payload / 4 * 4 }) := by
  have hp := compactAll_spec series hwf out h
  refine ⟨hp.ord, hp.ok, ?_, ?_⟩
  · apply strict_ext
    · have := smp_sorted out hp.ok hp.ord
      unfold SortedL at this
      rw [List.pairwise_map]; exact this
    · apply eraseDups_strict
      have := List.pairwise_mergeSort (le := fun (a b : Int) => decide (a ≤ b))
        (by intro a b c; simp; omega) (by intro a b; simp; omega)
        ((series.flatten.flatMap (·.samples)).map (·.t))
      simpa using this
    · intro t
      rw [List.mem_eraseDups, List.mem_mergeSort]
      constructor
      · intro ht
        obtain ⟨x, hx, rfl⟩ := List.mem_map.1 ht
        obtain ⟨y, hy, hxy⟩ := hp.sub x hx
        exact List.mem_map.2 ⟨y, hy, hxy.t.symm⟩
      · intro ht
        obtain ⟨y, hy, rfl⟩ := List.mem_map.1 ht
        exact hp.cov y hy
  · intro x hx
    obtain ⟨y, hy, hxy⟩ := hp.sub x hx
    obtain ⟨c, hc, hyc⟩ := mem_smp.1 hy
    exact ⟨c, hc, y, hyc, hxy⟩

example : ChunkSeriesOK [[Chunk.ofSamples [⟨1, .float, 1⟩, ⟨5, .float, 2⟩]],
    [Chunk.ofSamples [⟨3, .float, 7⟩, ⟨5, .float, 8⟩, ⟨6, .float, 9⟩]]] := by
  intro cs hcs
  simp only [List.mem_cons, List.not_mem_nil, or_false] at hcs
  rcases hcs with rfl | rfl
  · refine ⟨?_, by simp⟩
    intro c hc; simp only [List.mem_singleton] at hc; subst hc
    exact ⟨by decide, by unfold SortedL; decide, by decide, by decide⟩
  · refine ⟨?_, by simp⟩
    intro c hc; simp only [List.mem_singleton] at hc; subst hc
    exact ⟨by decide, by unfold SortedL; decide, by decide, by decide⟩

/-- pass-through keeps a histogram's counter-reset hint, reading through the chain resets it -/
example : compactAll [[Chunk.ofSamples [⟨1, .hist, 5⟩]]] = ([Chunk.ofSamples [⟨1, .hist, 5⟩]], .fin) ∧
    chainMerge [[⟨1, .hist, 5⟩]] = some [⟨1, .hist, 4⟩] := by decide

/-- identical duplicate chunks collapse (instance; the general clause is judged on every run) -/
theorem identical_chunks_collapse_example :
    compactAll [[Chunk.ofSamples [⟨1, .float, 1⟩, ⟨5, .float, 2⟩]],
                [Chunk.ofSamples [⟨1, .float, 1⟩, ⟨5, .float, 2⟩], Chunk.ofSamples [⟨9, .float, 3⟩]],
                [Chunk.ofSamples [⟨1, .float, 1⟩, ⟨5, .float, 2⟩]]]
      = ([Chunk.ofSamples [⟨1, .float, 1⟩, ⟨5, .float, 2⟩], Chunk.ofSamples [⟨9, .float, 3⟩]], .fin) := by
  decide

/-- overlapping chunks are re-encoded into one chunk holding the chain merge (instance) -/
theorem compact_overlap_example :
    compactAll [[Chunk.ofSamples [⟨1, .float, 1⟩, ⟨5, .float, 2⟩]], [Chunk.ofSamples [⟨3, .float, 7⟩, ⟨5, .float, 8⟩, ⟨6, .float, 9⟩]]]
      = ([Chunk.ofSamples [⟨1, .float, 1⟩, ⟨3, .float, 7⟩, ⟨5, .float, 2⟩, ⟨6, .float, 9⟩]], .fin) := by
  decide

/-! ### the re-encoder (`seriesToChunkEncoder`) incl. the cut on a native-histogram counter reset -/

/-- `seriesToChunkEncoder.Iterator` (model `encodeChunks`: a new chunk on a change of sample type, after
    120 samples, or when the (float-)histogram appender hands back a NEW chunk — counter reset, schema
    change, stale → live, gauge ↔ counter; `mint` is re-armed at every such cut), for ANY strictly
    increasing sample stream: every produced chunk is non-empty and its meta range is exactly
    (timestamp of its first sample, timestamp of its last sample); the chunks are time-ordered and pairwise
    disjoint; concatenated they are the stream (nothing lost, nothing re-ordered).  Independent of where
    the cuts fall, i.e. of `histNewChunk`. -/
theorem reencode_chunk_meta_matches_samples (xs : List Sample) (hs : xs.Pairwise (fun a b => a.t < b.t)) :
    (∀ c ∈ encodeChunks xs, c.samples ≠ [] ∧ c.samples.head?.map (·.t) = some c.mint ∧
        c.samples.getLast?.map (·.t) = some c.maxt ∧ c.mint ≤ c.maxt) ∧
      (encodeChunks xs).Pairwise (fun a b => a.maxt < b.mint) ∧
      (encodeChunks xs).flatMap (·.samples) = xs := by
  obtain ⟨segs, hne, hflat, henc⟩ := encodeAux_spec xs [] []
  simp only [List.reverse_nil, List.nil_append] at hflat henc
  have henc' : encodeChunks xs = segs.map Chunk.ofSamples := henc
  rw [henc']
  have hpw := List.pairwise_flatten.1 (hflat ▸ hs : SortedL segs.flatten)
  have hspec : ∀ seg ∈ segs, _ := fun seg hseg => ofSamples_range seg (hne seg hseg) (hpw.1 seg hseg)
  refine ⟨?_, ?_, ?_⟩
  · intro c hc
    obtain ⟨seg, hseg, rfl⟩ := List.mem_map.1 hc
    obtain ⟨_, _, _, h4⟩ := hspec seg hseg
    cases seg with
    | nil => exact absurd rfl (hne _ hseg)
    | cons s r =>
      obtain ⟨b, hb⟩ : ∃ b, (s :: r).getLast? = some b := ⟨_, List.getLast?_eq_some_getLast (by simp)⟩
      refine ⟨by simp [Chunk.ofSamples], rfl, by simp [Chunk.ofSamples, hb], ?_⟩
      have := h4 s (by simp)
      omega
  · rw [List.pairwise_map]
    refine List.Pairwise.imp_of_mem ?_ hpw.2
    intro s1 s2 h1 h2 hr
    obtain ⟨_, _, ⟨b, hb, hbt⟩, _⟩ := hspec s1 h1
    obtain ⟨_, ⟨a, ha, hat⟩, _, _⟩ := hspec s2 h2
    rw [hbt, hat]
    exact hr b hb a ha
  · rw [← hflat]
    clear hflat henc henc' hpw
    induction segs with
    | nil => rfl
    | cons seg segs ih =>
      have h1 := (hspec seg (by simp)).1
      simp only [List.map_cons, List.flatMap_cons, List.flatten_cons, h1]
      rw [ih (fun s hs' => hne s (by simp [hs'])) (fun s hs' => hspec s (by simp [hs']))]

/-- the hypothesis is satisfiable and the cut is taken: the merged stream of two overlapping counter
    histogram chunks A = {0: count 10, 20: count 12}, B = {10: count 1, 30: count 13} has a counter reset
    at t = 10, so the re-encoder emits [0,0] and [10,30] — the second chunk's MinTime is 10, not 0. -/
example : [(⟨0, .hist, 40⟩ : Sample), ⟨10, .hist, 4⟩, ⟨20, .hist, 50⟩, ⟨30, .hist, 54⟩].Pairwise (fun a b => a.t < b.t) := by
  decide

example : compactAll [[Chunk.ofSamples [⟨0, .hist, 40⟩, ⟨20, .hist, 50⟩]], [Chunk.ofSamples [⟨10, .hist, 4⟩, ⟨30, .hist, 54⟩]]]
    = ([⟨0, 0, [⟨0, .hist, 40⟩]⟩, ⟨10, 30, [⟨10, .hist, 4⟩, ⟨20, .hist, 48⟩, ⟨30, .hist, 52⟩]⟩], .fin) := by
  decide

/-- a bucket that only APPEARS recodes the chunk in place (no cut); a used bucket that disappears, a schema
    change and a live sample after a stale marker cut; a stale marker itself never does -/
example : (encodeChunks [⟨1, .hist, 4 * 1⟩, ⟨2, .hist, 4 * (1 + 1048576)⟩, ⟨3, .hist, 4 * 2⟩,
      ⟨4, .hist, 4 * (2 + 4294967296)⟩, ⟨5, .hist, 4 * 8589934592⟩, ⟨6, .hist, 4 * 8589934592⟩, ⟨7, .hist, 4 * 9⟩]).map
      (fun c => (c.mint, c.maxt)) = [(1, 2), (3, 3), (4, 6), (7, 7)] := by
  decide

end Prom.C19
