import PromModel.Tsdb.Merge
/-
  C19 — Merging series sets de-duplicates without losing data.
  Property theorems only; helper lemmas live in PromProofs.
-/
namespace Prom.C19
open Prom.Merge

/-- FC19a: `lastT` starts at `math.MinInt64` and a sample whose timestamp equals `lastT` is skipped, so
    chaining drops a sample at `t = MinInt64` (reproduced on the real code by suite `merge`). -/
theorem chain_drops_minint64_witness :
    (Chain.ofLists [([⟨MinI64, .float, 1⟩, ⟨5, .float, 2⟩], false), ([⟨7, .float, 3⟩], false)]).drain
      = some ([⟨5, .float, 2⟩, ⟨7, .float, 3⟩], [⟨5, .float, 2⟩, ⟨7, .float, 3⟩]) := by
  decide

/-- `ChainSampleIteratorFromIterators(nil, nil).Next()` indexes `c.iterators[0]`: a panic. -/
theorem chain_zero_iterators_panics_witness : ((Chain.mk' []).next).2 = .panic := by
  decide

end Prom.C19
