import PromModel.Tsdb.HistLayout
import PromModel.Tsdb.Merge
import PromProofs.HistLayout
import PromModel.Suites.HintSuite
import PromProofs.HistHint
import PromProofs.MergeHintGlue
import PromProofs.HistWitness
import PromProofs.HistValid
/-
  C12 — Counter-reset hints returned by queries are sound (layout level).
  Model: C11's chunk appender (`Prom.Hist.appendHist`), `hintOf` (= `counterResetHint`), `Chunk.read`,
  C19's `Prom.Merge.Chain` (`chainSampleIterator` with its `consecutive` flag).
-/
namespace Prom.C12
open Prom.Hist

/-- `counterResetHint`: NotCounterReset is only ever produced for a sample that is not the first one
    read from its chunk, and never in a gauge chunk. -/
theorem hint_notReset_iff (hdr : Hdr) (numRead : Nat) :
    hintOf hdr numRead = .notReset ↔ hdr ≠ .gauge ∧ numRead > 1 := by
  unfold hintOf
  by_cases h1 : hdr = .gauge <;> by_cases h2 : numRead > 1 <;> simp [h1, h2]

/-- The first sample the iterator hands out for any chunk is never marked NotCounterReset. -/
theorem hint_first_sample (c : Chunk) (s : Stored) (rest : List Stored) :
    ((readFrom c 0 (s :: rest)).head?.map (·.2.hint)) ≠ some .notReset :=
  hint_first c s rest

/-- **hint_sound_chunk (the append step).**  If a non-stale counter histogram is accepted into an
    existing chunk (the appender did not cut a new chunk — exactly the samples that are later read with
    NotCounterReset), then the sample before it in the chunk is not a stale marker, the schema, zero
    threshold and custom bounds are the chunk's, count and zero count did not go down, and every bucket
    of the previous sample is matched by a bucket with the same index and a count that is not smaller,
    or is empty.  ALL chunks, ALL histograms, both flavours; forward and backward recoding included. -/
theorem hint_sound_chunk_step (c : Chunk) (t : Int) (h : Hist) (r : AppRes)
    (hn : c.num ≠ 0) (hg : h.hint ≠ .gauge) (hs : h.stale = false)
    (hr : appendHist none c t h = .ok r) (ho : r.out ≠ .newChunk) : StepOk c h :=
  same_chunk_no_reset c t h r hn hg hs hr ho

/-- the hypotheses are satisfiable: a second, larger sample goes into the same chunk (forward recoding) -/
example :
    let h1 : Hist := { float := false, hint := .unknown, schema := 0, zt := 0, count := 3, zcount := 0, sum := 0,
                       pSpans := [⟨0, 1⟩], nSpans := [], pB := [3], nB := [], custom := [] }
    let c := (Chunk.empty false).appendRaw 10 h1
    c.num ≠ 0 := by decide

/-- Statement for a whole chunk as originally written: over ALL `Hist` values.  Proved for valid histograms of one
    flavour (`hint_sound_chunk`, `hint_sound_chunk_float`); false for ill-formed ones
    (`hint_sound_chunk_full_witness`).  The judge evaluates exactly `hintsSound` on every real chunk, head and
    query result on every run. -/
def hint_sound_chunk_full : Prop :=
  ∀ (samples : List (Int × Hist)) (c : Chunk),
    samples.foldlM (fun (st : Chunk) (p : Int × Hist) => (appendHist none st p.1 p.2).map (·.chunk)) (Chunk.empty false) = .ok c →
    hintsSound c.read = true

/-- **hint_sound_chunk.**  Every chunk built by the transcribed appender from valid histograms of one flavour
    (any mix of counter/gauge/explicit-reset hints, staleness markers, schema/threshold/bounds changes; all four
    outcomes of `AppendHistogram`, forward and backward recoding included) hands out sound hints: a non-stale sample
    read with NotCounterReset is preceded in the chunk by a non-stale sample with the same layout key and no
    decrease in count, zero count or any bucket.  This is the statement of `hint_sound_chunk_full` for valid
    integer histograms (the `_full` text quantifies over all `Hist` values, also ill-formed ones and float
    histograms pushed into the integer appender, which the Go types exclude). -/
theorem hint_sound_chunk (samples : List (Int × Hist)) (c : Chunk)
    (hwf : ∀ p ∈ samples, WFs p.2 ∧ p.2.float = false)
    (h : samples.foldlM (fun (st : Chunk) (p : Int × Hist) => (appendHist none st p.1 p.2).map (·.chunk))
      (Chunk.empty false) = .ok c) : hintsSound c.read = true := by
  obtain ⟨l, inv⟩ := runChunk_inv false samples (Chunk.empty false) [] (CInv.empty false) rfl hwf c h
  simp [hintsSound, CInv.hints_sound c l inv none 0]

/-- the same for float histogram chunks -/
theorem hint_sound_chunk_float (samples : List (Int × Hist)) (c : Chunk)
    (hwf : ∀ p ∈ samples, WFs p.2 ∧ p.2.float = true)
    (h : samples.foldlM (fun (st : Chunk) (p : Int × Hist) => (appendHist none st p.1 p.2).map (·.chunk))
      (Chunk.empty true) = .ok c) : hintsSound c.read = true := by
  obtain ⟨l, inv⟩ := runChunk_inv true samples (Chunk.empty true) [] (CInv.empty true) rfl hwf c h
  simp [hintsSound, CInv.hints_sound c l inv none 0]

/-- **hint_sound_query (head series).**  `hint_sound_query_full` for valid histograms: whatever the head-level
    cuts, flavour switches, recodings and counter resets, the concatenation of the chunk iterators of a series
    (what a full-range query returns) carries sound hints: every chunk starts with Unknown/Gauge, inside a chunk
    `hint_sound_chunk` applies.  (Trimmed query ranges are excluded: `hint_first_of_trimmed_query_witness`.) -/
theorem hint_sound_query (samples : List (Int × Hist)) (cuts : List Bool) (s : Series)
    (hwf : ∀ p ∈ samples, WFs p.2)
    (h : (samples.zip cuts).foldlM (fun (st : Series) (p : (Int × Hist) × Bool) =>
      (st.append p.2 p.1.1 p.1.2).map (·.1)) Series.empty = .ok s) :
    hintsSound s.read = true := by
  obtain ⟨gs, inv, _⟩ := runSeries_inv (samples.zip cuts) Series.empty [] trivial
    (fun p hp => hwf p.1 (List.of_mem_zip hp).1) s h
  have := SInv.hints_sound _ gs inv none 0
  have e : s.read = List.flatMap Chunk.read (s.cur.toList ++ s.done).reverse := rfl
  rw [hintsSound, e, this]; rfl

/-- **hint_sound_merge (flag level).**  The chain iterator hands out NotCounterReset only if the
    underlying sample carried it *and* the `consecutive` flag is set … -/
theorem hint_sound_merge_partial (c : Merge.Chain) (s : Merge.Sample) (hk : s.kind ≠ .float)
    (h : (c.atSample s).payload % 4 = 2) : c.consecutive = true ∧ s.payload % 4 = 2 :=
  Merge.atSample_notReset c s hk h

/-- … and the flag is set by `Next` exactly when the iterator that delivered the sample did not change
    during that call (`consecutive = !iteratorChanged`), the delivering iterator being `curr`. -/
theorem merge_consecutive_iff_unchanged (c c' : Merge.Chain) (cur : Merge.It) (s : Merge.Sample) (h : Array Merge.It)
    (dead : List Merge.It) (changed : Bool)
    (hr : c.finishLoop (.brk cur s h dead changed) = (c', .val s)) :
    c'.consecutive = !changed ∧ c'.curr = some cur :=
  Merge.finishLoop_consecutive c c' cur s h dead changed hr

/-- Statements as originally written (kept visible): soundness of the merged stream and of query results, without
    validity hypotheses.  Proved with them: `hint_sound_merge` (sources with strictly increasing timestamps),
    `hint_sound_query` (valid histograms), `hint_sound_query_merged` (both composed); refuted without:
    `hint_sound_merge_full_witness`, `hint_sound_query_full_witness`.
    `unsoundAt` is the judge's predicate; suite `hint` evaluates it on the real `ChainedSeriesMerge` output
    and on the real querier's output (head, OOO head, blocks, overlapping blocks) on every run. -/
def hint_sound_merge_full : Prop :=
  ∀ (srcs : List (List (Int × Hist))) (out : List (Int × Hist)), (∀ s ∈ srcs, hintsSound s = true) →
    Prom.HintSuite.mergeRead srcs = some out → hintsSound out = true

/-- **hint_sound_merge.**  `hint_sound_merge_full` for sources with strictly increasing timestamps (what series
    iterators deliver; without that the literal statement is false, see the witness below): merging hint-sound
    sources with the transcribed `chainSampleIterator` (C19's `Merge.Chain`: heap, duplicate-timestamp skipping,
    `consecutive` flag, `At*` clearing the hint) yields a hint-sound stream.  Proof: the flag is set only when the
    returned sample directly follows the previously returned sample inside ONE source (`Merge.drain_tr`), and
    there the source's own soundness applies; every other NotCounterReset is cleared to Unknown. -/
theorem hint_sound_merge (srcs : List (List (Int × Hist))) (out : List (Int × Hist))
    (hs : ∀ s ∈ srcs, hintsSound s = true) (hsorted : ∀ s ∈ srcs, (s.map (·.1)).Pairwise (· < ·))
    (h : Prom.HintSuite.mergeRead srcs = some out) : hintsSound out = true :=
  Prom.HintSuite.mergeRead_sound srcs out hs hsorted h

/-- the chain-iterator fact behind it, at trace level: a histogram sample handed out by `At*` with
    NotCounterReset directly follows the previously returned sample inside one input -/
theorem merge_consecutive_adjacent (srcs : List (List Merge.Sample)) (hsorted : ∀ l ∈ srcs, Merge.SortedL l)
    (r o : List Merge.Sample) (hd : (Merge.Chain.ofLists (srcs.map fun l => (l, false))).drain = some (r, o)) :
    Merge.Tr srcs none r o :=
  (Merge.drain_tr srcs hsorted r o hd).1

def hint_sound_query_full : Prop :=
  ∀ (samples : List (Int × Hist)) (cuts : List Bool) (s : Series),
    (samples.zip cuts).foldlM (fun (st : Series) (p : (Int × Hist) × Bool) =>
      (st.append p.2 p.1.1 p.1.2).map (·.1)) Series.empty = .ok s →
    hintsSound s.read = true

/-- **hint_sound_query, composed with C19's chain model.**  Several series (head, out-of-order head, blocks, …),
    each built from valid histograms with strictly increasing timestamps through the transcribed head appender,
    read in full and merged by the transcribed `chainSampleIterator` (possibly overlapping in time): the merged
    stream a query returns carries sound hints — inside one chunk by `hint_sound_chunk`, at chunk boundaries the
    chunk iterator says Unknown, and wherever the delivering iterator changed the chain iterator resets the hint
    to Unknown. -/
theorem hint_sound_query_merged (runs : List (List ((Int × Hist) × Bool) × Series)) (out : List (Int × Hist))
    (hrun : ∀ p ∈ runs, runSeries p.1 Series.empty = .ok p.2)
    (hwf : ∀ p ∈ runs, ∀ q ∈ p.1, WFs q.1.2)
    (hts : ∀ p ∈ runs, (p.1.map (·.1.1)).Pairwise (· < ·))
    (h : Prom.HintSuite.mergeRead (runs.map (·.2.read)) = some out) : hintsSound out = true := by
  refine hint_sound_merge _ out ?_ ?_ h
  · intro rd hrd
    simp only [List.mem_map] at hrd
    obtain ⟨p, hp, rfl⟩ := hrd
    obtain ⟨gs, inv, _⟩ := runSeries_inv p.1 Series.empty [] trivial (hwf p hp) p.2 (hrun p hp)
    have := SInv.hints_sound _ gs inv none 0
    have e : p.2.read = List.flatMap Chunk.read (p.2.cur.toList ++ p.2.done).reverse := rfl
    rw [hintsSound, e, this]; rfl
  · intro rd hrd
    simp only [List.mem_map] at hrd
    obtain ⟨p, hp, rfl⟩ := hrd
    obtain ⟨gs, inv, hf⟩ := runSeries_inv p.1 Series.empty [] trivial (hwf p hp) p.2 (hrun p hp)
    have hr := SInv.read_rel _ gs inv
    rw [hf] at hr
    have e : p.2.read = List.flatMap Chunk.read (p.2.cur.toList ++ p.2.done).reverse := rfl
    have hm : p.2.read.map (·.1) = (p.1.map (·.1)).map (·.1) := by
      rw [e]; simpa using hr.map_fst
    rw [hm, List.map_map]
    exact hts p hp

/-! ### the literal `_full` statements quantify over ill-formed inputs too and are false there -/

/-- `hint_sound_chunk_full` as written (ALL `Hist` values) is false: spans `[⟨0,1⟩,⟨-1,1⟩]` enumerate bucket 0 twice;
    the appender compares position by position, the judge looks buckets up by index.  (`Validate` rejects such
    spans; `WF.of_valid`.)  A second witness (`HistWitness.hint_sound_chunk_full_flavour_witness_aux`) pushes a
    float histogram through the integer appender fold, which the Go types exclude. -/
theorem hint_sound_chunk_full_witness : ¬ hint_sound_chunk_full := by
  intro hfull
  obtain ⟨samples, c, hrun, hbad⟩ := Prom.HistWitness.hint_sound_chunk_full_witness_aux
  rw [hfull samples c hrun] at hbad; cases hbad

/-- `hint_sound_query_full` as written is false for the same ill-formed spans. -/
theorem hint_sound_query_full_witness : ¬ hint_sound_query_full := by
  intro hfull
  obtain ⟨samples, cuts, s, hrun, hbad⟩ := Prom.HistWitness.hint_sound_query_full_witness_aux
  rw [hfull samples cuts s hrun] at hbad; cases hbad

/-- `hint_sound_merge_full` as written is false: a source that repeats a timestamp (no series iterator does) makes
    the chain iterator skip the repeated sample inside the same input without clearing `consecutive`. -/
theorem hint_sound_merge_full_witness : ¬ hint_sound_merge_full := by
  intro hfull
  obtain ⟨srcs, out, hs, hm, hbad⟩ := Prom.HistWitness.hint_sound_merge_full_witness_aux
  rw [hfull srcs out hs hm] at hbad; cases hbad

/-- **Trimmed query ranges (the positive side of finding C12-F1).**  Whatever contiguous sub-range of a hint-sound
    stream a query returns (samples before `mint` and after `maxt` filtered out afterwards, as `DeletedIterator`
    does), the only sample that can carry an unjustified NotCounterReset is the FIRST returned one: every
    NotCounterReset sample that has a predecessor in the result is sound.  (`hint_first_of_trimmed_query_witness`
    below shows the first one can indeed be flagged.) -/
theorem hint_sound_trimmed (l : List (Int × Hist)) (h : hintsSound l = true) (k m : Nat) :
    unsoundAt none 0 ((l.drop k).take m) = none ∨ unsoundAt none 0 ((l.drop k).take m) = some 0 :=
  hintsSound_subrange l h k m

/-- The literal statement fails for queries that start inside a chunk (finding C12-F1): the first returned
    sample keeps NotCounterReset although nothing precedes it in the result. -/
theorem hint_first_of_trimmed_query_witness :
    let h : Hist := { float := false, hint := .notReset, schema := 0, zt := 0, count := 3, zcount := 0, sum := 0,
                      pSpans := [⟨0, 1⟩], nSpans := [], pB := [3], nB := [], custom := [] }
    hintsSound [(20, h)] = false := by decide

end Prom.C12
