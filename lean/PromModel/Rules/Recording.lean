import PromModel.Rules.Alerting
/-
  Model of recording-rule evaluation: `rules/recording.go` (`RecordingRule.Eval`), `rules/group.go`
  (`Group.Eval` for recording rules, `seriesInPreviousEval`, `staleSeries`, `cleanupStaleSeries`,
  `CopyState`, the `markStale` path of `Group.run` for removed groups, `buildDependencyMap`) and
  `rules/manager.go` (`ruleDependencyController.AnalyseRules`,
  `concurrentRuleEvalController.SplitGroupIntoBatches`).

  * Label sets are the sorted lists of `Prom.Alerting` (`lset` = `labels.Builder.Set`, empty value deletes).
  * Sample timestamps are `Int` milliseconds; evaluation times and query offsets are `Int` nanoseconds,
    `msOfNs` = `timestamp.FromTime` (floor). Values are float64 bit patterns (`Nat`).
  * The storage is a committed log (newest first) with the acceptance rule of a tsdb head without
    out-of-order window (`memSeries.appendable` + `headAppender.Append`/`Commit`): per series strictly
    increasing timestamps, an exact duplicate of the newest sample is accepted and dropped, a different
    value at the newest timestamp is `dup`, older is `ooo`, older than `headMaxt − chunkRange/2` is `oob`.
    Every appender of `Group.Eval` appends at one timestamp, so an appender is one `appendBatch`.
  * `seriesInPreviousEval[i]` (a Go map) is a list of label sets; everything that comes out of it is
    printed sorted by the suite. A fingerprint collision in `ContainsSameLabelset` is not modelled.
  * The query function is a parameter (`Query`): scripted error, scripted vector, or `engine`: an instant
    vector selector evaluated on the model storage (5 min look-back, staleness markers) — this is what
    makes "rule j sees rule i's output of the same evaluation" expressible.
  * Concurrent mode evaluates the batches in order and the rules of a batch in index order (the
    generator only produces groups whose concurrent evaluation is deterministic: distinct outputs, no
    reference to a later rule).
-/
namespace Prom.Recording
open Prom.Alerting (Labels lset lsetAll norm lget hasDup)

def staleBits : Nat := 0x7ff0000000000002
/-- `chunkRange / 2` of the test storage (24 h blocks). -/
def halfRange : Int := 43200000
/-- PromQL look-back delta (5 min), left-open. -/
def lookback : Int := 300000
/-- Symbolic wall-clock "now" in ms (later than every generated timestamp). -/
def nowMs : Int := 4102444800000

def msOfNs (ns : Int) : Int := ns / 1000000

/-! ### storage -/

structure Entry where
  l : Labels
  t : Int
  v : Nat
deriving Repr, DecidableEq, Inhabited

structure Store where
  log : List Entry := []          -- committed samples, newest first
  maxt : Option Int := none       -- head max time (`none` = head not initialised)
deriving Repr, DecidableEq, Inhabited

inductive AppErr | ok | ooo | dup | oob
deriving Repr, DecidableEq, Inhabited

def AppErr.str : AppErr → String
  | .ok => "ok" | .ooo => "ooo" | .dup => "dup" | .oob => "oob"

/-- Newest committed sample of a series. -/
def Store.last (s : Store) (l : Labels) : Option Entry := s.log.find? (fun e => e.l = l)

/-- `headAppender.Append` → `memSeries.appendable` (no OOO window). -/
def check (s : Store) (minValid : Int) (l : Labels) (t : Int) (v : Nat) : AppErr :=
  if t < minValid then .oob else
  match s.last l with
  | none => .ok
  | some e => if t > e.t then .ok else if t = e.t then (if e.v = v then .ok else .dup) else .ooo

/-- Commit of one accepted sample: written iff strictly newer than the series' newest sample
    (an exact duplicate is silently dropped). -/
def commit1 (s : Store) (l : Labels) (t : Int) (v : Nat) : Store :=
  match s.last l with
  | none => { s with log := ⟨l, t, v⟩ :: s.log }
  | some e => if t > e.t then { s with log := ⟨l, t, v⟩ :: s.log } else s

/-- `minValidTime` of an appender whose (first) append is at `t`. -/
def minValidOf (s : Store) (t : Int) : Int := (s.maxt.getD t) - halfRange

/-- Error class of every append of one appender (all at timestamp `t`). -/
def batchErrs (s : Store) (t : Int) (items : List (Labels × Nat)) : List AppErr :=
  items.map fun (l, v) => check s (minValidOf s t) l t v

def accepted (s : Store) (t : Int) (items : List (Labels × Nat)) : List (Labels × Nat) :=
  items.filter fun (l, v) => check s (minValidOf s t) l t v = .ok

/-- One appender: appends at `t`, then `Commit`. -/
def appendBatch (s : Store) (t : Int) (items : List (Labels × Nat)) : Store :=
  if items.isEmpty then s else
  let s0 : Store := { s with maxt := some (s.maxt.getD t) }     -- `initTime` on a fresh head
  let s1 := (accepted s t items).foldl (fun acc (l, v) => commit1 acc l t v) s0
  if s1.log.length > s0.log.length then { s1 with maxt := some (max (s0.maxt.getD t) t) } else s1

/-! ### expressions (as far as they matter) -/

/-- The `__name__` matcher of a vector selector. -/
inductive NameSel
  | eq (n : String)
  | neq (n : String)
  | alt (ns : List String)      -- `__name__=~"a|b"`
  | wild                        -- no name matcher
deriving Repr, DecidableEq, Inhabited

def NameSel.matches : NameSel → String → Bool
  | .eq n, x => x == n
  | .neq n, x => x != n
  | .alt ns, x => ns.contains x
  | .wild, _ => true

/-- A vector selector: name matcher plus an optional equality matcher on another label. -/
structure Sel where
  name : NameSel
  extra : Option (String × String) := none
deriving Repr, DecidableEq, Inhabited

structure Rule where
  name : String
  rlabels : Labels            -- raw rule labels, sorted by name (may contain empty values)
  sels : List Sel             -- the vector selectors of the expression
deriving Repr, DecidableEq, Inhabited

/-- `nameAndLabels`. -/
def Rule.key (r : Rule) : String × Labels := (r.name, r.rlabels)

/-! ### `RecordingRule.Eval` -/

abbrev Sample := Labels × Nat

/-- Labels of the recorded series: `lb.Reset(metric); lb.Set(__name__, name); rule labels Set in order`. -/
def recLabels (r : Rule) (metric : Labels) : Labels :=
  lsetAll r.rlabels (lset "__name__" r.name (norm metric))

inductive Status | ok | qerr | dup | limit
deriving Repr, DecidableEq, Inhabited

def Status.str : Status → String
  | .ok => "ok" | .qerr => "qerr" | .dup => "dup" | .limit => "limit"

/-- `RecordingRule.Eval` after the query: relabel, duplicate check, limit. -/
def ruleVector (r : Rule) (limit : Int) (res : List Sample) : Except Status (List Sample) :=
  let vec := res.map fun (m, v) => (recLabels r m, v)
  if hasDup (vec.map (·.1)) then .error .dup
  else if limit > 0 ∧ (vec.length : Int) > limit then .error .limit
  else .ok vec

/-! ### instant vector selector on the model storage -/

def Sel.matchesLabels (s : Sel) (l : Labels) : Bool :=
  s.name.matches (lget "__name__" l) &&
    (match s.extra with | none => true | some (k, v) => lget k l == v)

/-- Distinct series of the log (oldest first). -/
def seriesOf (log : List Entry) : List Labels :=
  log.reverse.foldl (fun acc e => if acc.contains e.l then acc else acc ++ [e.l]) []

/-- Instant vector selector at `t`: newest sample in `(t − lookback, t]`, unless it is a staleness marker. -/
def selectAt (s : Store) (sel : Sel) (t : Int) : List Sample :=
  (seriesOf s.log).filterMap fun l =>
    if sel.matchesLabels l then
      match s.log.find? (fun e => e.l = l ∧ e.t ≤ t) with
      | some e => if e.t > t - lookback ∧ e.v ≠ staleBits then some (l, e.v) else none
      | none => none
    else none

/-- What the query function does for one rule in one evaluation. -/
inductive Query
  | err
  | vec (v : List Sample)
  | engine
deriving Repr, DecidableEq, Inhabited

def runQuery (s : Store) (r : Rule) (t : Int) : Query → Option (List Sample)
  | .err => none
  | .vec v => some v
  | .engine => match r.sels with
    | [sel] => some (selectAt s sel t)
    | _ => some []

/-! ### one rule inside `Group.Eval` -/

structure RuleOut where
  status : Status
  results : List (Sample × AppErr) := []      -- appended result samples with their error class
  markers : List (Labels × AppErr) := []      -- staleness markers attempted
deriving Repr, DecidableEq, Inhabited

/-- Series of the previous set that are not returned now. -/
def vanished (prev returned : List Labels) : List Labels :=
  prev.filter fun l => !returned.contains l

/-- The `eval` closure of `Group.Eval` for a recording rule whose query result is `q`, at sample time `t`:
    new storage, new `seriesInPreviousEval[i]`, observable output. -/
def evalRule (s : Store) (r : Rule) (prev : List Labels) (limit : Int) (t : Int)
    (q : Option (List Sample)) : Store × List Labels × RuleOut :=
  match q with
  | none => (s, prev, { status := .qerr })
  | some res =>
    match ruleVector r limit res with
    | .error e => (s, prev, { status := e })
    | .ok vec =>
      let returned := (accepted s t vec).map (·.1)
      let marks := (vanished prev returned).map fun l => (l, staleBits)
      let items := vec ++ marks
      (appendBatch s t items, returned,
        { status := .ok,
          results := vec.zip (batchErrs s t vec),
          markers := (marks.map (·.1)).zip (batchErrs s t marks) })

/-! ### dependency analysis and batches -/

/-- `rule j` (later) reads a metric name `rule i` (earlier) writes. -/
def refs (rj ri : Rule) : Bool := rj.sels.any fun s => s.name.matches ri.name

/-- `buildDependencyMap` returns nil: more than one rule and some selector without name matcher. -/
def indeterminate (rules : List Rule) : Bool :=
  decide (rules.length > 1) && rules.any fun r => r.sels.any fun s => s.name == .wild

/-- `i < j` and `j` references `i`. -/
def depends (rules : List Rule) (i j : Nat) : Bool :=
  decide (i < j) && (match rules[i]?, rules[j]? with | some ri, some rj => refs rj ri | _, _ => false)

/-- `SplitGroupIntoBatches` for `n` rules over an arbitrary dependency relation `dep i j`
    ("rule j depends on rule i"); `indet` = the dependency map is nil (nothing is known). -/
def batchesOf (n : Nat) (indet : Bool) (dep : Nat → Nat → Bool) : List (List Nat) :=
  let idx := List.range n
  let hasDependency := fun j => idx.any fun i => dep i j
  let hasDependent := fun i => idx.any fun j => dep i j
  if indet then idx.map fun i => [i] else
  let first := idx.filter fun j => !hasDependency j
  let mid := idx.filter fun j => hasDependency j && hasDependent j
  let last := idx.filter fun j => hasDependency j && !hasDependent j
  (if first.isEmpty then [] else [first]) ++ mid.map (fun i => [i]) ++ (if last.isEmpty then [] else [last])

/-- `concurrentRuleEvalController.SplitGroupIntoBatches` after `AnalyseRules`. -/
def batches (rules : List Rule) : List (List Nat) :=
  batchesOf rules.length (indeterminate rules) (depends rules)

/-! ### groups -/

structure GroupSt where
  rules : List Rule
  prev : List (List Labels)      -- `seriesInPreviousEval`, one per rule
  stale : List Labels := []      -- `staleSeries`
  qoff : Int := 0                -- ns
  limit : Int := 0
  conc : Bool := false
  fast : Bool := true            -- the group's loop is past its initial wait when it is removed
deriving Repr, DecidableEq, Inhabited

def GroupSt.new (rules : List Rule) (qoff limit : Int) (conc fast : Bool) : GroupSt :=
  { rules := rules, prev := rules.map fun _ => [], qoff := qoff, limit := limit, conc := conc, fast := fast }

/-- Evaluation order of the rule indexes. -/
def evalOrder (g : GroupSt) : List Nat :=
  if g.conc then (batches g.rules).flatten else List.range g.rules.length

def setAt {α : Type} (xs : List α) (i : Nat) (x : α) : List α := xs.set i x

/-- Evaluate the rules `order` one after the other; `qs i` is the scripted query behaviour of rule `i`.
    The output records, for every evaluated rule, the storage its query function read. -/
def evalRules (s : Store) (g : GroupSt) (t : Int) (qs : Nat → Query) :
    List Nat → Store × List (List Labels) × List (Nat × Store × RuleOut)
  | [] => (s, g.prev, [])
  | i :: rest =>
    match g.rules[i]? with
    | none => evalRules s g t qs rest
    | some r =>
      let (s', p', out) := evalRule s r (g.prev.getD i []) g.limit t (runQuery s r t (qs i))
      let (s'', prev'', outs) := evalRules s' { g with prev := setAt g.prev i p' } t qs rest
      (s'', prev'', (i, s, out) :: outs)

/-- `cleanupStaleSeries`: the appended markers with error classes. -/
def cleanup (s : Store) (stale : List Labels) (t : Int) : Store × List (Labels × AppErr) :=
  let items := stale.map fun l => (l, staleBits)
  (appendBatch s t items, stale.zip (batchErrs s t items))

/-- `Group.Eval(ts)`. -/
def evalGroup (s : Store) (g : GroupSt) (ts : Int) (qs : Nat → Query) :
    Store × GroupSt × List (Nat × RuleOut) × List (Labels × AppErr) :=
  let t := msOfNs (ts - g.qoff)
  let (s1, prev1, outs) := evalRules s g t qs (evalOrder g)
  let (s2, cl) := cleanup s1 g.stale t
  (s2, { g with prev := prev1, stale := [] }, outs.map (fun o => (o.1, o.2.2)), cl)

/-! ### reload -/

/-- First unused old index with the given key. -/
def takeMatch (olds : List (Nat × Rule)) (k : String × Labels) : Option Nat × List (Nat × Rule) :=
  match olds with
  | [] => (none, [])
  | (fi, r) :: rest =>
    if r.key = k then (some fi, rest)
    else let (m, rest') := takeMatch rest k; (m, (fi, r) :: rest')

/-- The matching loop of `CopyState`: for every new rule the old index it takes over, and the unmatched rest. -/
def matchRules (olds : List (Nat × Rule)) : List Rule → List (Option Nat) × List (Nat × Rule)
  | [] => ([], olds)
  | r :: rest =>
    let (m, olds') := takeMatch olds r.key
    let (ms, left) := matchRules olds' rest
    (m :: ms, left)

def enum {α : Type} (xs : List α) : List (Nat × α) := (List.range xs.length).zip xs

/-- `Group.CopyState`: the new group's `seriesInPreviousEval` and `staleSeries`.
    As in the code, the second loop collects the series of EVERY old rule whose key still has an
    unmatched index left — including a matched rule that shares its key with an unmatched one. -/
def copyState (old : GroupSt) (newRules : List Rule) : List (List Labels) × List Labels :=
  let (ms, left) := matchRules (enum old.rules) newRules
  let prev := ms.map fun m => match m with | some fi => old.prev.getD fi [] | none => []
  let leftKeys := left.map (·.2.key)
  let extra := (enum old.rules).flatMap fun (fi, r) => if leftKeys.contains r.key then old.prev.getD fi [] else []
  (prev, old.stale ++ extra)

def reload (old : Option GroupSt) (rules : List Rule) (qoff limit : Int) (conc fast : Bool) : GroupSt :=
  let g := GroupSt.new rules qoff limit conc fast
  match old with
  | none => g
  | some o => let (p, st) := copyState o rules; { g with prev := p, stale := st }

/-- Removed group (`markStale`, `stop`): after two intervals `cleanupStaleSeries(now)` over everything in
    `seriesInPreviousEval` and `staleSeries` — but only if the group's loop had passed its initial wait
    (otherwise `run` returns before the deferred function is registered and nothing is written). -/
def removeGroup (s : Store) (g : GroupSt) : Store × List (Labels × AppErr) :=
  if g.fast then cleanup s (g.stale ++ g.prev.flatten) (msOfNs (nowMs * 1000000 - g.qoff))
  else (s, [])

end Prom.Recording
