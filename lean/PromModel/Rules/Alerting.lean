import PromModel.Prelude.Line
/-
  Model of `rules/alerting.go` (`AlertingRule.Eval`, `needsSending`, `sendAlerts`, `sample`,
  `forStateSample`) and of the 'for'-state parts of `rules/group.go` (`Group.RestoreForState`,
  the alert part of `Group.CopyState`).

  * Time is `Int` nanoseconds since the Unix epoch (`time.Time` built with `time.Unix(0, ns)`, no
    monotonic reading); the zero `time.Time{}` is `none`. `Duration`s are `Int` nanoseconds.
    int64 saturation of `Time.Sub` / overflow of `Time.Add` is NOT modelled (generated times stay
    within ±2^62).
  * A label set is a list of (name, value) pairs sorted by name without empty values; `lset`
    transcribes `labels.Builder.Set` (empty value = delete) followed by `Builder.Labels()`.
  * The `active` map (fingerprint ↦ *Alert) is a function `Labels → Option Alert` together with the
    list of keys ever inserted (for printing/counting); a fingerprint collision between different
    label sets is not modelled.
  * Templates are a parameter fixed to the identity (annotations are empty).
-/
namespace Prom.Alerting

abbrev Labels := List (String × String)

/-- `Builder.Set n v` on a sorted label list (`v = ""` deletes). -/
def lset (n v : String) : Labels → Labels
  | [] => if v = "" then [] else [(n, v)]
  | (k, x) :: rest =>
    if n < k then (if v = "" then (k, x) :: rest else (n, v) :: (k, x) :: rest)
    else if n = k then (if v = "" then rest else (n, v) :: rest)
    else (k, x) :: lset n v rest

/-- Apply a sequence of `Set`s. -/
def lsetAll (sets : Labels) (base : Labels) : Labels :=
  sets.foldl (fun acc p => lset p.1 p.2 acc) base

/-- `labels.NewBuilder(raw).Labels()` semantics for an arbitrary raw list: sorted, empty values dropped. -/
def norm (raw : Labels) : Labels := lsetAll raw []

def lget (n : String) (ls : Labels) : String := (ls.lookup n).getD ""

inductive State | inactive | pending | firing
deriving Repr, DecidableEq, Inhabited

def State.str : State → String
  | .inactive => "inactive" | .pending => "pending" | .firing => "firing"

/-- `rules.Alert` (annotations omitted: identity templates, no annotations generated). -/
structure Alert where
  state : State
  labels : Labels
  value : Nat            -- float64 bit pattern
  activeAt : Int
  firedAt : Option Int := none
  resolvedAt : Option Int := none
  lastSentAt : Option Int := none
  validUntil : Option Int := none
  keepFiringSince : Option Int := none
deriving Repr, DecidableEq, Inhabited

/-- The immutable part of an `AlertingRule`. -/
structure Cfg where
  name : String
  hold : Int
  kff : Int
  rlabels : Labels       -- raw rule labels (may contain empty values)
deriving Repr, DecidableEq, Inhabited

/-- `resolvedRetention = 15 * time.Minute`. -/
def resolvedRetention : Int := 900000000000

/-- Labels of the alert created for a result sample (`Eval`: Reset, Del(__name__), rule labels, alertname). -/
def alertLabels (c : Cfg) (metric : Labels) : Labels :=
  lset "alertname" c.name (lsetAll c.rlabels (lset "__name__" "" (norm metric)))

/-- The alert `Eval` creates for a result sample. -/
def fresh (ls : Labels) (ts : Int) (v : Nat) : Alert :=
  { state := .pending, labels := ls, value := v, activeAt := ts }

/-- First loop over `alerts` in `Eval`, for one fingerprint: update value or (re)create. -/
def merge1 (ls : Labels) (ts : Int) (v : Option Nat) (old : Option Alert) : Option Alert :=
  match v, old with
  | some v, some a => if a.state ≠ .inactive then some { a with value := v } else some (fresh ls ts v)
  | some v, none => some (fresh ls ts v)
  | none, o => o

/-- Result of the second loop of `Eval` for one entry of `r.active`. -/
structure Outcome where
  kept : Option Alert       -- entry left in `r.active` (`none` = deleted)
  counted : Bool            -- contributed to `numActivePending`
  emitted : Option Alert    -- alert whose ALERTS / ALERTS_FOR_STATE samples are appended (if restored)
deriving Repr, DecidableEq

/-- The two state checks at the end of the loop body (pending→firing, firing→pending after a raised hold). -/
def settle (c : Cfg) (ts : Int) (a : Alert) : Alert :=
  let a := if a.state = .pending ∧ ts - a.activeAt ≥ c.hold then { a with state := .firing, firedAt := some ts } else a
  if a.state = .firing ∧ ts - a.activeAt < c.hold then
    { a with state := .pending, firedAt := none, lastSentAt := none, keepFiringSince := none }
  else a

/-- Second loop of `Eval` for one entry. -/
def advance (c : Cfg) (ts : Int) (present : Bool) (a : Alert) : Outcome :=
  if present then
    let a := settle c ts { a with keepFiringSince := none }
    { kept := some a, counted := true, emitted := some a }
  else
    let kfs := a.keepFiringSince.getD ts
    let tryKeep := a.state = .firing ∧ c.kff > 0
    let a1 := if tryKeep then { a with keepFiringSince := some kfs } else a
    let keepFiring := tryKeep ∧ ts - kfs < c.kff
    let deleted : Bool := decide (a1.state = .pending) ||
      (match a1.resolvedAt with | some r => decide (ts - r > resolvedRetention) | none => false)
    let a2 := if a1.state ≠ .inactive ∧ ¬ keepFiring then { a1 with state := .inactive, resolvedAt := some ts } else a1
    if keepFiring then
      let a3 := settle c ts a2
      { kept := if deleted then none else some a3, counted := true, emitted := some a3 }
    else
      { kept := if deleted then none else some a2, counted := false, emitted := none }

/-- Both loops for one fingerprint. -/
def perKey (c : Cfg) (ts : Int) (ls : Labels) (v : Option Nat) (old : Option Alert) : Outcome :=
  match merge1 ls ts v old with
  | none => { kept := none, counted := false, emitted := none }
  | some a => advance c ts v.isSome a

/-- Mutable state of an `AlertingRule`. -/
structure RuleSt where
  cfg : Cfg
  restored : Bool
  keys : List Labels                 -- every label set ever inserted (superset of the map's domain), duplicate-free
  get : Labels → Option Alert        -- `r.active`

def RuleSt.init (c : Cfg) (restored : Bool) : RuleSt :=
  { cfg := c, restored := restored, keys := [], get := fun _ => none }

def RuleSt.alerts (s : RuleSt) : List Alert := s.keys.filterMap s.get

inductive EvalErr | query | dup | limit (n : Nat)
deriving Repr, DecidableEq

/-- A promql sample of the result vector: (labels, float bits). -/
abbrev Sample := Labels × Nat

/-- An output sample: (labels, T in ms, value as an integer (both series have integral values)). -/
structure OutSample where
  labels : Labels
  t : Int
  v : Int
deriving Repr, DecidableEq

/-- `true` iff some element occurs twice. -/
def hasDup : List Labels → Bool
  | [] => false
  | k :: rest => rest.contains k || hasDup rest

/-- Alert label set and value for every sample of the query result, in result order. -/
def resultAlerts (c : Cfg) (res : List Sample) : List (Labels × Nat) :=
  res.map (fun s => (alertLabels c s.1, s.2))

/-- First loop of `Eval` over the query result: two samples with the same alert label set ⇒
    `ErrDuplicateAlertLabelSet` (returned before any state is touched). -/
def collect (c : Cfg) (res : List Sample) : Option (List (Labels × Nat)) :=
  let rs := resultAlerts c res
  if hasDup (rs.map (·.1)) then none else some rs

/-- `timestamp.FromTime`: floor to milliseconds. -/
def msOfNs (ns : Int) : Int := ns / 1000000
/-- `time.Time.Unix()`: floor to seconds. -/
def secOfNs (ns : Int) : Int := ns / 1000000000

/-- `AlertingRule.sample`. -/
def alertsSample (c : Cfg) (a : Alert) (tns : Int) : OutSample :=
  { labels := lset "alertstate" a.state.str (lset "alertname" c.name (lset "__name__" "ALERTS" (lsetAll a.labels (norm c.rlabels)))),
    t := msOfNs tns, v := 1 }

/-- `AlertingRule.forStateSample` (labels only; `none` = no alert given). -/
def forStateLabels (c : Cfg) (a : Option Labels) : Labels :=
  lset "alertname" c.name (lset "__name__" "ALERTS_FOR_STATE" (lsetAll (a.getD []) (norm c.rlabels)))

def forStateSample (c : Cfg) (a : Alert) (tns : Int) : OutSample :=
  { labels := forStateLabels c (some a.labels), t := msOfNs tns, v := secOfNs a.activeAt }

/-- `AlertingRule.Eval`. `q = none` is a failing query. -/
def eval (s : RuleSt) (ts qoff : Int) (limit : Int) (q : Option (List Sample)) :
    RuleSt × Except EvalErr (List OutSample) :=
  match q with
  | none => (s, .error .query)
  | some res =>
    match collect s.cfg res with
    | none => (s, .error .dup)
    | some rs =>
      let keys := s.keys ++ (rs.map (·.1)).filter (fun k => !s.keys.contains k)
      let out := fun k => perKey s.cfg ts k (rs.lookup k) (s.get k)
      let n := (keys.filter (fun k => (out k).counted)).length
      if limit > 0 ∧ (n : Int) > limit then
        ({ s with keys := [], get := fun _ => none }, .error (.limit n))
      else
        let vec := if s.restored then
            (keys.filterMap (fun k => (out k).emitted)).flatMap
              (fun a => [alertsSample s.cfg a (ts - qoff), forStateSample s.cfg a (ts - qoff)])
          else []
        ({ s with keys := keys, get := fun k => (out k).kept }, .ok vec)

/-! ### Notifications -/

/-- `t.After(u)` with the zero time smaller than every generated time. -/
def optAfter : Option Int → Option Int → Bool
  | none, _ => false
  | some _, none => true
  | some x, some y => x > y

/-- `Alert.needsSending`. (`LastSentAt.Add(d).Before(ts)` with a zero `LastSentAt` is true for every
    generated `ts`: year 1 plus a delay is before 1678.) -/
def needsSending (a : Alert) (ts resend : Int) : Bool :=
  if a.state = .pending then false
  else if optAfter a.resolvedAt a.lastSentAt then true
  else match a.lastSentAt with
    | none => true
    | some l => l + resend < ts

/-- `sendAlerts` for one alert: the updated entry and whether a copy is handed to the notifier. -/
def send1 (a : Alert) (ts resend interval : Int) : Alert × Bool :=
  if needsSending a ts resend then
    ({ a with lastSentAt := some ts, validUntil := some (ts + 4 * max interval resend) }, true)
  else (a, false)

def sendAlerts (s : RuleSt) (ts resend interval : Int) : RuleSt × List Alert :=
  let sent := s.alerts.filterMap (fun a => let (a', b) := send1 a ts resend interval; if b then some a' else none)
  ({ s with get := fun k => (s.get k).map (fun a => (send1 a ts resend interval).1) }, sent)

/-! ### `Group.RestoreForState` -/

/-- A stored `ALERTS_FOR_STATE` series reduced to its last sample: labels, t (ms), value (seconds), stale marker. -/
structure ForSeries where
  labels : Labels
  t : Int
  v : Int
  stale : Bool
deriving Repr, DecidableEq

/-- The time arithmetic of the restore for one alert whose series was found (last sample `t` ms, `v` s). -/
def restoredActiveAt (hold grace ts : Int) (t v : Int) : Int :=
  let downAt := (Int.tdiv t 1000) * 1000000000
  let restored := v * 1000000000
  let timeSpentPending := downAt - restored
  let timeRemainingPending := hold - timeSpentPending
  if timeRemainingPending ≤ 0 then restored
  else if timeRemainingPending < grace then ts + grace - hold
  else restored + (ts - downAt)

/-- Series the rule's matchers select inside the querier's window `[mint, maxt]` (ms, Go truncation). -/
def selectSeries (c : Cfg) (ts tol : Int) (series : List ForSeries) : List ForSeries :=
  let maxt := Int.tdiv ts 1000000
  let mint := Int.tdiv (ts - tol) 1000000
  let want := forStateLabels c none
  series.filter fun s => mint ≤ s.t ∧ s.t ≤ maxt ∧ want.all (fun (n, v) => lget n s.labels = v)

def restoreForState (s : RuleSt) (ts tol grace : Int) (series : List ForSeries) : RuleSt :=
  if s.cfg.hold < grace then { s with restored := true }
  else
    let sel := selectSeries s.cfg ts tol series
    if sel.isEmpty then { s with restored := true }
    else
      let upd := fun (a : Alert) =>
        match sel.reverse.find? (fun x => lset "__name__" "" x.labels = a.labels) with
        | none => a
        | some x => if x.stale then a else { a with activeAt := restoredActiveAt s.cfg.hold grace ts x.t x.v }
      { s with restored := true, get := fun k => (s.get k).map upd }

/-- Reload: a new rule (same name and labels) takes over the alerts (`CopyState`: `maps.Copy`). -/
def reload (s : RuleSt) (hold kff : Int) (restored : Bool) : RuleSt :=
  { s with cfg := { s.cfg with hold := hold, kff := kff }, restored := restored }

end Prom.Alerting
