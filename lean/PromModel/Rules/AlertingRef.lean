/-
  Reference *trace semantics* of one alert instance (one label set) of an alerting rule, written
  from docs/configuration/alerting_rules.md and the statement of property C44 — NOT from the code:

  * an element that is active (present in the evaluation's result) is *pending* from its first active
    evaluation and *firing* once it has been active for at least the `for` duration
    (`firing ⇔ ts − activeAt ≥ for`; with `for = 0` it fires on the first evaluation);
  * when it is absent from an evaluation a pending alert is dropped; a firing alert keeps firing while
    it is still within `keep_firing_for` of the first evaluation from which it was absent, and is
    resolved otherwise;
  * a resolved alert is retained for the resolved-retention period (15 min) and then forgotten;
    if it reappears it starts a new pending period.

  The semantics is a fold over the evaluation history `(ts, present)`; it knows nothing about values,
  notification bookkeeping, limits or maps. It is used (a) by the judge of suite `alert` on the
  implementation's outputs and (b) as the specification in `Prom.C44.eval_refines_trace`.
-/
namespace Prom.Alerting.Ref

/-- Documented state of one alert instance. -/
inductive St
  | idle                                                        -- not tracked
  | pending (activeAt : Int)
  | firing (activeAt firedAt : Int) (keepSince : Option Int)    -- keepSince: first evaluation it was absent from
  | resolved (activeAt firedAt resolvedAt : Int)
deriving Repr, DecidableEq, Inhabited

def retention : Int := 15 * 60 * 1000000000

/-- State of an element that becomes active at `ts`. -/
def start (hold ts : Int) : St :=
  if hold ≤ 0 then .firing ts ts none else .pending ts

/-- One evaluation at `ts` in which the element is `present` or not. -/
def step (hold kff : Int) (ts : Int) (present : Bool) : St → St
  | .idle => if present then start hold ts else .idle
  | .pending a =>
    if present then (if ts - a ≥ hold then .firing a ts none else .pending a) else .idle
  | .firing a f ks =>
    if present then (if ts - a ≥ hold then .firing a f none else .pending a)
    else
      let k := ks.getD ts
      if kff > 0 ∧ ts - k < kff then (if ts - a ≥ hold then .firing a f (some k) else .pending a)
      else .resolved a f ts
  | .resolved a f r =>
    if present then start hold ts
    else if ts - r > retention then .idle else .resolved a f r

/-- The state after an evaluation history (oldest first). -/
def stateAt (hold kff : Int) (h : List (Int × Bool)) : St :=
  h.foldl (fun s e => step hold kff e.1 e.2 s) .idle

/-- Is the alert counted as active (pending or firing)? -/
def St.active : St → Bool
  | .pending _ => true
  | .firing _ _ _ => true
  | _ => false

/-- Documented `for`-state restore (docs/…/alerting_rules and the comments of the feature): given the
    last stored sample of `ALERTS_FOR_STATE` (`downAt`, stored `activeAt`, both in whole seconds,
    expressed in ns), the restart time `ts`, the `for` duration and the grace period:
    already past `for` ⇒ the stored activation time is kept; less than the grace period left ⇒ fire
    exactly `grace` after `ts`; otherwise the activation is shifted by the down time. -/
def restoreSpec (hold grace ts downAt storedActiveAt : Int) : Int :=
  let remaining := hold - (downAt - storedActiveAt)
  if remaining ≤ 0 then storedActiveAt
  else if remaining < grace then ts + grace - hold
  else storedActiveAt + (ts - downAt)

end Prom.Alerting.Ref
