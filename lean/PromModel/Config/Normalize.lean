import PromModel.Gen.ConfigFields
/-
  Property C49 — model of the core of `config.Load` / `Config.String` (config/config.go) and of
  `relabel.Config` (model/relabel/relabel.go).

  * The YAML library is trusted and abstract: a document is a `YNode` tree. A scalar is either `raw tag text`
    (what the harness obtained from yaml.v2's generic parse of the input text) or `val v` (what `print`
    emits: the typed value itself — the formatting and re-parsing of a scalar by yaml.v2 / model.Duration /
    units.Base2Bytes is assumed to be the identity).
  * Scalar struct fields are decoded and printed GENERICALLY from the regenerated table
    `Gen.fields` (yaml key, kind, omitempty, pre-decode default): `decodeRec` / `marshalRec`.
    So the omitempty flags and defaults used by the model are those of the current source text.
  * `finishGlobal` / `finishScrape` transcribe `GlobalConfig.UnmarshalYAML` and `ScrapeConfig.Validate`
    (inheritance from global, defaults for zero values, the checks the generator can violate).
  * Not modelled (exercised by the round-trip judge only): service-discovery configs, HTTP client
    configs, params, headers, tracing, float-valued fields, label-name validity checks.
-/
namespace Prom.Config

inductive Val
  | b (x : Bool)
  | i (x : Int)
  | s (x : String)
deriving DecidableEq, Repr, Inhabited

inductive YNode
  | raw (tag : String) (text : String)
  | val (v : Val)
  | strs (l : List String)          -- printed list of strings
  | null
  | map (kvs : List (String × YNode))
  | list (xs : List YNode)
deriving BEq, Repr, Inhabited

abbrev Res := Except String

/-! ### scalars -/

def zeroVal : Kind → Val
  | .bool => .b false
  | .int => .i 0
  | .duration => .i 0
  | _ => .s ""

/-- values of default expressions the generator cannot evaluate -/
def symInt (s : String) : Int := if s = "sym:getGoGC()" then 75 else 0

def defaultVal (f : Field) : Val :=
  if f.default = zero f.kind then zeroVal f.kind else
  match f.kind with
  | .bool => .b (f.default == "true")
  | .int => .i (if f.default.startsWith "sym:" then symInt f.default else f.default.toInt?.getD 0)
  | .duration => .i (f.default.toInt?.getD 0)
  | _ => .s f.default

def isDigit (c : Char) : Bool := '0' ≤ c && c ≤ '9'

/-- `(digits unit)+` → list of (number, unit); `none` on malformed text. Fuel = length. -/
def unitTokens : Nat → List Char → Option (List (Nat × String))
  | 0, _ => none
  | _, [] => some []
  | fuel + 1, cs =>
    let ds := cs.takeWhile isDigit
    let rest := cs.dropWhile isDigit
    let us := rest.takeWhile (fun c => !isDigit c)
    let rest' := rest.dropWhile (fun c => !isDigit c)
    if ds.isEmpty then none else
    match (String.ofList ds).toNat? with
    | none => none
    | some n => (unitTokens fuel rest').map fun l => (n, String.ofList us) :: l

def durUnit : String → Option (Nat × Int)
  | "y" => some (0, 365 * 24 * 3600 * 1000)
  | "w" => some (1, 7 * 24 * 3600 * 1000)
  | "d" => some (2, 24 * 3600 * 1000)
  | "h" => some (3, 3600 * 1000)
  | "m" => some (4, 60 * 1000)
  | "s" => some (5, 1000)
  | "ms" => some (6, 1)
  | _ => none

/-- units must appear in the order y w d h m s ms, each at most once; result in ms -/
def durSum : Option Nat → List (Nat × String) → Option Int
  | _, [] => some 0
  | last, (n, u) :: rest =>
    match durUnit u with
    | none => none
    | some (idx, mult) =>
      if (match last with | some l => decide (l < idx) | none => true) then
        (durSum (some idx) rest).map fun t => (n : Int) * mult + t
      else none

/-- model.ParseDuration, in nanoseconds (overflow not modelled). -/
def parseDuration (s : String) : Option Int :=
  if s = "0" then some 0
  else if s = "" then none
  else
    match unitTokens (s.length + 1) s.toList with
    | none => none
    | some toks => (durSum none toks).map (· * 1000000)

def byteUnit : String → Option Int
  | "B" => some 1
  | "KB" | "KiB" => some 1024
  | "MB" | "MiB" => some (1024 ^ 2)
  | "GB" | "GiB" => some (1024 ^ 3)
  | "TB" | "TiB" => some (1024 ^ 4)
  | "PB" | "PiB" => some (1024 ^ 5)
  | "EB" | "EiB" => some (1024 ^ 6)
  | _ => none

def byteSum : List (Nat × String) → Option Int
  | [] => some 0
  | (n, u) :: rest =>
    match byteUnit u with
    | none => none
    | some m => (byteSum rest).map fun t => (n : Int) * m + t

/-- units.ParseBase2Bytes on integer quantities (fractions and signs are not generated). -/
def parseBytes (s : String) : Option Int :=
  if s = "0" then some 0
  else if s = "" then none
  else
    match unitTokens (s.length + 1) s.toList with
    | none => none
    | some toks => byteSum toks

def isBytesField (f : Field) : Bool :=
  f.field == "BodySizeLimit" || (f.struct == "TSDBRetentionConfig" && f.field == "Size")

/-- Decode one scalar field from its YAML node. A null node sets the kind's zero value (yaml.v2). -/
def decodeScalar (f : Field) : YNode → Res Val
  | .val v => .ok v
  | .null => .ok (zeroVal f.kind)
  | .raw tag text =>
    match f.kind with
    | .bool => if tag = "b" then .ok (.b (text == "true")) else .error s!"bool {f.yaml}"
    | .duration =>
      match parseDuration text with
      | some d => .ok (.i d)
      | none => .error s!"duration {f.yaml}"
    | .int =>
      if isBytesField f then
        match parseBytes text with
        | some d => .ok (.i d)
        | none => .error s!"bytes {f.yaml}"
      else if tag = "i" then
        match text.toInt? with
        | some d => .ok (.i d)
        | none => .error s!"int {f.yaml}"
      else .error s!"int {f.yaml}"
    | _ => .ok (.s text)
  | _ => .error s!"scalar expected {f.yaml}"

/-! ### generic records driven by the regenerated table -/

abbrev Rec := List (String × Val)

def isScalarKind : Kind → Bool
  | .bool | .int | .duration | .string => true
  | _ => false

/-- the rows of struct `S` restricted to the modelled scalar fields `names` (in table order) -/
def schemaOf (S : String) (names : List String) : List Field :=
  Gen.fields.filter fun f => f.struct == S && isScalarKind f.kind && names.contains f.field

def decodeRec (sch : List Field) (kvs : List (String × YNode)) : Res Rec :=
  sch.mapM fun f =>
    match kvs.lookup f.yaml with
    | none => .ok (f.field, defaultVal f)
    | some n => (decodeScalar f n).map fun v => (f.field, v)

/-- the abstract result of yaml.Marshal for the scalar fields: omitempty drops kind-zero values -/
def marshalRec (sch : List Field) (r : Rec) : List (String × YNode) :=
  sch.filterMap fun f =>
    match r.lookup f.field with
    | some v => if f.omitempty && v == zeroVal f.kind then none else some (f.yaml, YNode.val v)
    | none => none

def Rec.b (r : Rec) (k : String) : Bool := match r.lookup k with | some (.b x) => x | _ => false
def Rec.i (r : Rec) (k : String) : Int := match r.lookup k with | some (.i x) => x | _ => 0
def Rec.s (r : Rec) (k : String) : String := match r.lookup k with | some (.s x) => x | _ => ""

def YNode.kvs? : YNode → Option (List (String × YNode))
  | .map kvs => some kvs
  | _ => none

def strOfNode : YNode → Res String
  | .raw _ t => .ok t
  | .val (.s t) => .ok t
  | .null => .ok ""
  | _ => .error "string expected"

def strList : YNode → Res (List String)
  | .list xs => xs.mapM strOfNode
  | .strs l => .ok l
  | .null => .ok []
  | _ => .error "list of strings expected"

def optBool : Option YNode → Res (Option Bool)
  | none => .ok none
  | some .null => .ok none
  | some (.raw "b" t) => .ok (some (t == "true"))
  | some (.val (.b x)) => .ok (some x)
  | _ => .error "bool expected"

/-- model.ValidationScheme: 0 unset, 1 legacy, 2 utf8; "" leaves the value unchanged (unset) -/
def vscheme : Option YNode → Res Nat
  | none => .ok 0
  | some .null => .ok 0
  | some (.val (.i n)) => .ok n.toNat
  | some (.raw _ "") => .ok 0
  | some (.raw _ "legacy") => .ok 1
  | some (.raw _ "utf8") => .ok 2
  | _ => .error "validation scheme"

def nodeList : Option YNode → Res (List YNode)
  | none => .ok []
  | some .null => .ok []
  | some (.list xs) => .ok xs
  | _ => .error "list expected"

/-! ### relabel rules -/

structure Relabel where
  sourceLabels : List String
  separator : String
  regex : String
  modulus : Int
  targetLabel : String
  replacement : String
  action : String
  nvs : Nat
deriving DecidableEq, Repr, Inhabited

def relabelNames : List String := ["Separator", "Modulus", "TargetLabel", "Replacement", "Action"]
def relabelSchema : List Field := schemaOf "relabel.Config" relabelNames

def Relabel.toRec (c : Relabel) : Rec :=
  [("Separator", .s c.separator), ("Modulus", .i c.modulus), ("TargetLabel", .s c.targetLabel),
   ("Replacement", .s c.replacement), ("Action", .s c.action)]

def decodeRelabel (n : YNode) : Res Relabel := do
  match n with
  | .null => .error "empty or null relabeling rule"
  | .map kvs =>
    let r ← decodeRec relabelSchema kvs
    let src ← match kvs.lookup "source_labels" with
      | none => pure []
      | some x => strList x
    let regex ← match kvs.lookup "regex" with
      | none => pure "(.*)"
      | some x => strOfNode x
    pure { sourceLabels := src, separator := r.s "Separator", regex := regex, modulus := r.i "Modulus",
           targetLabel := r.s "TargetLabel", replacement := r.s "Replacement", action := (r.s "Action").toLower, nvs := 0 }
  | _ => .error "relabel rule: map expected"

/-- `relabel.Config.Validate` (the checks not about label-name syntax) + inheritance of the name
    validation scheme. -/
def finishRelabel (scheme : Nat) (c : Relabel) : Res Relabel := do
  if c.action = "" then throw "relabel action cannot be empty"
  if c.modulus = 0 && c.action = "hashmod" then throw "hashmod requires non-zero modulus"
  if (c.action ∈ ["replace", "hashmod", "lowercase", "uppercase", "keepequal", "dropequal"]) && c.targetLabel = "" then
    throw "target_label required"
  if (c.action ∈ ["lowercase", "uppercase", "keepequal", "dropequal"]) && c.replacement ≠ "$1" then
    throw "replacement can not be set"
  if (c.action ∈ ["keepequal", "dropequal"]) && (c.regex ≠ "(.*)" || c.modulus ≠ 0 || c.separator ≠ ";") then
    throw "only source_labels and target_label allowed"
  if (c.action ∈ ["labeldrop", "labelkeep"]) &&
      (!c.sourceLabels.isEmpty || c.targetLabel ≠ "" || c.modulus ≠ 0 || c.separator ≠ ";" || c.replacement ≠ "$1") then
    throw "only regex allowed"
  pure { c with nvs := if c.nvs = 0 then scheme else c.nvs }

def printRelabel (c : Relabel) : YNode :=
  .map ((if c.sourceLabels.isEmpty then [] else [("source_labels", YNode.strs c.sourceLabels)])
    ++ marshalRec relabelSchema c.toRec ++ [("regex", .val (.s c.regex))])

def decodeRelabels (n : Option YNode) : Res (List Relabel) := do
  (← nodeList n).mapM decodeRelabel

def printRelabels (key : String) (l : List Relabel) : List (String × YNode) :=
  if l.isEmpty then [] else [(key, .list (l.map printRelabel))]

/-! ### global -/

structure Global where
  scrapeInterval : Int
  scrapeTimeout : Int
  evaluationInterval : Int
  ruleQueryOffset : Int
  queryLogFile : String
  scrapeFailureLogFile : String
  bodySizeLimit : Int
  sampleLimit : Int
  targetLimit : Int
  labelLimit : Int
  labelNameLengthLimit : Int
  labelValueLengthLimit : Int
  keepDroppedTargets : Int
  escaping : String
  convertClassic : Bool
  alwaysClassic : Bool
  validation : Nat
  nativeHist : Option Bool
  extraMetrics : Option Bool
  protocols : List String
  externalLabels : List (String × String)
deriving DecidableEq, Repr, Inhabited

def globalNames : List String :=
  ["ScrapeInterval", "ScrapeTimeout", "EvaluationInterval", "RuleQueryOffset", "QueryLogFile", "ScrapeFailureLogFile",
   "BodySizeLimit", "SampleLimit", "TargetLimit", "LabelLimit", "LabelNameLengthLimit", "LabelValueLengthLimit",
   "KeepDroppedTargets", "MetricNameEscapingScheme", "ConvertClassicHistogramsToNHCB", "AlwaysScrapeClassicHistograms"]
def globalSchema : List Field := schemaOf "GlobalConfig" globalNames

def Global.toRec (g : Global) : Rec :=
  [("ScrapeInterval", .i g.scrapeInterval), ("ScrapeTimeout", .i g.scrapeTimeout), ("EvaluationInterval", .i g.evaluationInterval),
   ("RuleQueryOffset", .i g.ruleQueryOffset), ("QueryLogFile", .s g.queryLogFile), ("ScrapeFailureLogFile", .s g.scrapeFailureLogFile),
   ("BodySizeLimit", .i g.bodySizeLimit), ("SampleLimit", .i g.sampleLimit), ("TargetLimit", .i g.targetLimit),
   ("LabelLimit", .i g.labelLimit), ("LabelNameLengthLimit", .i g.labelNameLengthLimit),
   ("LabelValueLengthLimit", .i g.labelValueLengthLimit), ("KeepDroppedTargets", .i g.keepDroppedTargets),
   ("MetricNameEscapingScheme", .s g.escaping), ("ConvertClassicHistogramsToNHCB", .b g.convertClassic),
   ("AlwaysScrapeClassicHistograms", .b g.alwaysClassic)]

def minute : Int := 60 * 1000000000
def second : Int := 1000000000

/-- `DefaultGlobalConfig` -/
def defaultGlobal : Global :=
  { scrapeInterval := minute, scrapeTimeout := 10 * second, evaluationInterval := minute, ruleQueryOffset := 0,
    queryLogFile := "", scrapeFailureLogFile := "", bodySizeLimit := 0, sampleLimit := 0, targetLimit := 0, labelLimit := 0,
    labelNameLengthLimit := 0, labelValueLengthLimit := 0, keepDroppedTargets := 0, escaping := "allow-utf-8",
    convertClassic := false, alwaysClassic := false, validation := 2, nativeHist := some false, extraMetrics := some false,
    protocols := [], externalLabels := [] }

def knownProtocols : List String :=
  ["PrometheusProto", "PrometheusText0.0.4", "PrometheusText1.0.0", "OpenMetricsText0.0.1", "OpenMetricsText1.0.0"]

/-- `validateAcceptScrapeProtocols` -/
def validProtocols (l : List String) : Bool :=
  !l.isEmpty && l.all (knownProtocols.contains ·) && (l.map String.toLower).Nodup

/-- the defaulting part of `GlobalConfig.UnmarshalYAML` (per field, from the decoded values) -/
def finishGlobal (g : Global) : Global :=
  let interval := if g.scrapeInterval = 0 then minute else g.scrapeInterval
  { g with
    validation := if g.validation = 1 || g.validation = 2 then g.validation else 2
    scrapeInterval := interval
    scrapeTimeout := if g.scrapeTimeout = 0 then min (10 * second) interval else g.scrapeTimeout
    evaluationInterval := if g.evaluationInterval = 0 then minute else g.evaluationInterval
    nativeHist := if g.nativeHist.isNone then some false else g.nativeHist
    extraMetrics := if g.extraMetrics.isNone then some false else g.extraMetrics }

/-- the checks of `GlobalConfig.UnmarshalYAML` the generator can violate -/
def globalOk (g : Global) : Bool :=
  let interval := if g.scrapeInterval = 0 then minute else g.scrapeInterval
  decide (g.scrapeTimeout ≤ interval) && (g.protocols.isEmpty || validProtocols g.protocols)

def isLegacyName (s : String) : Bool :=
  match s.toList with
  | [] => false
  | c :: cs => (c == '_' || ('a' ≤ c && c ≤ 'z') || ('A' ≤ c && c ≤ 'Z')) &&
      cs.all fun d => d == '_' || ('a' ≤ d && d ≤ 'z') || ('A' ≤ d && d ≤ 'Z') || ('0' ≤ d && d ≤ '9')

def sortLabels (l : List (String × String)) : List (String × String) :=
  l.mergeSort fun a b => decide (a.1 ≤ b.1)

def decodeLabels : Option YNode → Res (List (String × String))
  | none => .ok []
  | some .null => .ok []
  | some (.map kvs) => do
    let l ← kvs.mapM fun (k, v) => do pure (k, ← strOfNode v)
    pure (sortLabels l)
  | _ => .error "labels"

def decodeGlobalMap (kvs : List (String × YNode)) : Res Global := do
  let r ← decodeRec globalSchema kvs
  let protoNode := kvs.lookup "scrape_protocols"
  let protocols ← match protoNode with
    | none => pure []
    | some x => strList x
  let protoEmptyList := match protoNode with
    | some (.list []) => true
    | some (.strs []) => true
    | _ => false
  if protoEmptyList then throw "scrape_protocols cannot be empty"
  let g : Global :=
    { scrapeInterval := r.i "ScrapeInterval", scrapeTimeout := r.i "ScrapeTimeout", evaluationInterval := r.i "EvaluationInterval",
      ruleQueryOffset := r.i "RuleQueryOffset", queryLogFile := r.s "QueryLogFile", scrapeFailureLogFile := r.s "ScrapeFailureLogFile",
      bodySizeLimit := r.i "BodySizeLimit", sampleLimit := r.i "SampleLimit", targetLimit := r.i "TargetLimit",
      labelLimit := r.i "LabelLimit", labelNameLengthLimit := r.i "LabelNameLengthLimit",
      labelValueLengthLimit := r.i "LabelValueLengthLimit", keepDroppedTargets := r.i "KeepDroppedTargets",
      escaping := r.s "MetricNameEscapingScheme", convertClassic := r.b "ConvertClassicHistogramsToNHCB",
      alwaysClassic := r.b "AlwaysScrapeClassicHistograms",
      validation := ← vscheme (kvs.lookup "metric_name_validation_scheme"),
      nativeHist := ← optBool (kvs.lookup "scrape_native_histograms"),
      extraMetrics := ← optBool (kvs.lookup "extra_scrape_metrics"),
      protocols := protocols,
      externalLabels := ← decodeLabels (kvs.lookup "external_labels") }
  if !globalOk g then throw "global: timeout greater than interval / bad scrape_protocols"
  -- external label names are validated against the global scheme (legacy: [a-zA-Z_][a-zA-Z0-9_]*)
  if g.validation = 1 && !(g.externalLabels.all fun kv => isLegacyName kv.1) then throw "external label name"
  if g.externalLabels.any (fun kv => kv.1 = "") then throw "external label name"
  pure (finishGlobal g)

def decodeGlobal : Option YNode → Res Global
  | none => .ok defaultGlobal
  | some .null => .ok defaultGlobal
  | some (.map kvs) => decodeGlobalMap kvs
  | _ => .error "global: map expected"

def optBoolKV (key : String) : Option Bool → List (String × YNode)
  | none => []
  | some x => [(key, .val (.b x))]

def printGlobal (g : Global) : YNode :=
  .map (marshalRec globalSchema g.toRec
    ++ (if g.protocols.isEmpty then [] else [("scrape_protocols", YNode.strs g.protocols)])
    ++ (if g.externalLabels.isEmpty then [] else
          [("external_labels", YNode.map (g.externalLabels.map fun (k, v) => (k, YNode.val (.s v))))])
    ++ (if g.validation = 0 then [] else [("metric_name_validation_scheme", YNode.val (.i g.validation))])
    ++ optBoolKV "scrape_native_histograms" g.nativeHist
    ++ optBoolKV "extra_scrape_metrics" g.extraMetrics)

/-! ### os.Expand on external label values (environment empty: `$$` ↦ `$`, every variable ↦ "") -/

def isAlnum (c : Char) : Bool := c == '_' || isDigit c || ('a' ≤ c && c ≤ 'z') || ('A' ≤ c && c ≤ 'Z')
def isSpecialVar (c : Char) : Bool := c ∈ ['*', '#', '$', '@', '!', '?', '-'] || isDigit c

/-- `getShellName`: (name, width) -/
def shellName : List Char → String × Nat
  | '{' :: rest =>
    match rest with
    | c :: '}' :: _ => if isSpecialVar c then (String.singleton c, 3) else
        let nm := rest.takeWhile (· != '}')
        if nm.length < rest.length then (String.ofList nm, nm.length + 2) else ("", 1)
    | _ =>
      let nm := rest.takeWhile (· != '}')
      if nm.length < rest.length then
        (if nm.isEmpty then ("", 2) else (String.ofList nm, nm.length + 2))
      else ("", 1)
  | c :: rest =>
    if isSpecialVar c then (String.singleton c, 1)
    else
      let nm := (c :: rest).takeWhile isAlnum
      (String.ofList nm, nm.length)
  | [] => ("", 0)

def expandAux : Nat → List Char → List Char
  | 0, cs => cs
  | _, [] => []
  | _, ['$'] => ['$']
  | fuel + 1, '$' :: rest =>
    let (name, w) := shellName rest
    let out : List Char :=
      if name = "" && w > 0 then []
      else if name = "" then ['$']
      else if name = "$" then ['$'] else []
    out ++ expandAux fuel (rest.drop w)
  | fuel + 1, c :: rest => c :: expandAux fuel rest

def expandEnv (s : String) : String := String.ofList (expandAux (s.length + 1) s.toList)

/-! ### scrape configs -/

structure Scrape where
  jobName : String
  honorLabels : Bool
  honorTimestamps : Bool
  trackStaleness : Bool
  scrapeInterval : Int
  scrapeTimeout : Int
  fallback : String
  failureLog : String
  metricsPath : String
  scheme : String
  compression : Bool
  bodySizeLimit : Int
  sampleLimit : Int
  targetLimit : Int
  labelLimit : Int
  labelNameLengthLimit : Int
  labelValueLengthLimit : Int
  bucketLimit : Int
  keepDroppedTargets : Int
  escaping : String
  validation : Nat
  nativeHist : Option Bool
  alwaysClassic : Option Bool
  convertClassic : Option Bool
  extraMetrics : Option Bool
  protocols : List String
  relabel : List Relabel
  metricRelabel : List Relabel
deriving DecidableEq, Repr, Inhabited

def scrapeNames : List String :=
  ["JobName", "HonorLabels", "HonorTimestamps", "TrackTimestampsStaleness", "ScrapeInterval", "ScrapeTimeout",
   "ScrapeFallbackProtocol", "ScrapeFailureLogFile", "MetricsPath", "Scheme", "EnableCompression", "BodySizeLimit",
   "SampleLimit", "TargetLimit", "LabelLimit", "LabelNameLengthLimit", "LabelValueLengthLimit",
   "NativeHistogramBucketLimit", "KeepDroppedTargets", "MetricNameEscapingScheme"]
def scrapeSchema : List Field := schemaOf "ScrapeConfig" scrapeNames

def Scrape.toRec (c : Scrape) : Rec :=
  [("JobName", .s c.jobName), ("HonorLabels", .b c.honorLabels), ("HonorTimestamps", .b c.honorTimestamps),
   ("TrackTimestampsStaleness", .b c.trackStaleness), ("ScrapeInterval", .i c.scrapeInterval), ("ScrapeTimeout", .i c.scrapeTimeout),
   ("ScrapeFallbackProtocol", .s c.fallback), ("ScrapeFailureLogFile", .s c.failureLog), ("MetricsPath", .s c.metricsPath),
   ("Scheme", .s c.scheme), ("EnableCompression", .b c.compression), ("BodySizeLimit", .i c.bodySizeLimit),
   ("SampleLimit", .i c.sampleLimit), ("TargetLimit", .i c.targetLimit), ("LabelLimit", .i c.labelLimit),
   ("LabelNameLengthLimit", .i c.labelNameLengthLimit), ("LabelValueLengthLimit", .i c.labelValueLengthLimit),
   ("NativeHistogramBucketLimit", .i c.bucketLimit), ("KeepDroppedTargets", .i c.keepDroppedTargets),
   ("MetricNameEscapingScheme", .s c.escaping)]

def decodeScrape (n : YNode) : Res Scrape := do
  match n with
  | .null => .error "empty or null scrape config section"
  | .map kvs =>
    let r ← decodeRec scrapeSchema kvs
    let protoNode := kvs.lookup "scrape_protocols"
    let protocols ← match protoNode with
      | none => pure []
      | some x => strList x
    let protoEmptyList := match protoNode with
      | some (.list []) => true
      | some (.strs []) => true
      | _ => false
    if protoEmptyList then throw "scrape_protocols cannot be empty"
    let c : Scrape :=
      { jobName := r.s "JobName", honorLabels := r.b "HonorLabels", honorTimestamps := r.b "HonorTimestamps",
        trackStaleness := r.b "TrackTimestampsStaleness", scrapeInterval := r.i "ScrapeInterval",
        scrapeTimeout := r.i "ScrapeTimeout", fallback := r.s "ScrapeFallbackProtocol", failureLog := r.s "ScrapeFailureLogFile",
        metricsPath := r.s "MetricsPath", scheme := r.s "Scheme", compression := r.b "EnableCompression",
        bodySizeLimit := r.i "BodySizeLimit", sampleLimit := r.i "SampleLimit", targetLimit := r.i "TargetLimit",
        labelLimit := r.i "LabelLimit", labelNameLengthLimit := r.i "LabelNameLengthLimit",
        labelValueLengthLimit := r.i "LabelValueLengthLimit", bucketLimit := r.i "NativeHistogramBucketLimit",
        keepDroppedTargets := r.i "KeepDroppedTargets", escaping := r.s "MetricNameEscapingScheme",
        validation := ← vscheme (kvs.lookup "metric_name_validation_scheme"),
        nativeHist := ← optBool (kvs.lookup "scrape_native_histograms"),
        alwaysClassic := ← optBool (kvs.lookup "always_scrape_classic_histograms"),
        convertClassic := ← optBool (kvs.lookup "convert_classic_histograms_to_nhcb"),
        extraMetrics := ← optBool (kvs.lookup "extra_scrape_metrics"),
        protocols := protocols,
        relabel := ← decodeRelabels (kvs.lookup "relabel_configs"),
        metricRelabel := ← decodeRelabels (kvs.lookup "metric_relabel_configs") }
    if c.jobName = "" then throw "job_name is empty"
    pure c
  | _ => .error "scrape config: map expected"

def inh (local_ global : Int) : Int := if local_ = 0 then global else local_
def inhB (local_ global : Option Bool) : Option Bool := if local_.isNone then global else local_
def inhS (local_ global : String) : String := if local_ = "" then global else local_

def defaultProtocols : List String :=
  ["OpenMetricsText1.0.0", "OpenMetricsText0.0.1", "PrometheusText1.0.0", "PrometheusText0.0.4"]
def protoFirstProtocols : List String := "PrometheusProto" :: defaultProtocols

/-- global escaping scheme as seen by `ScrapeConfig.Validate` ("" is inferred from the validation scheme) -/
def globalEscaping (g : Global) : String :=
  if g.escaping = "" then (if g.validation = 1 then "underscores" else "allow-utf-8") else g.escaping

def validEscaping (s : String) : Bool := s ∈ ["allow-utf-8", "underscores", "dots", "values"]

/-- the filling part of `ScrapeConfig.Validate`: every field of the result is a function of the fields of
    `c` as decoded and of the global config. -/
def fillScrape (g : Global) (c : Scrape) : Scrape :=
  let interval := inh c.scrapeInterval g.scrapeInterval
  let native := inhB c.nativeHist g.nativeHist
  let validation := if c.validation = 0 then g.validation else c.validation
  { c with
    scrapeInterval := interval
    scrapeTimeout := if c.scrapeTimeout = 0 then min g.scrapeTimeout interval else c.scrapeTimeout
    bodySizeLimit := inh c.bodySizeLimit g.bodySizeLimit
    sampleLimit := inh c.sampleLimit g.sampleLimit
    targetLimit := inh c.targetLimit g.targetLimit
    labelLimit := inh c.labelLimit g.labelLimit
    labelNameLengthLimit := inh c.labelNameLengthLimit g.labelNameLengthLimit
    labelValueLengthLimit := inh c.labelValueLengthLimit g.labelValueLengthLimit
    keepDroppedTargets := inh c.keepDroppedTargets g.keepDroppedTargets
    failureLog := inhS c.failureLog g.scrapeFailureLogFile
    nativeHist := native
    extraMetrics := inhB c.extraMetrics g.extraMetrics
    protocols :=
      if c.protocols.isEmpty then
        (if !g.protocols.isEmpty then g.protocols
         else if native = some true then protoFirstProtocols else defaultProtocols)
      else c.protocols
    validation := validation
    escaping :=
      if c.escaping = "" then
        (if c.validation = 0 then globalEscaping g
         else if validation = 1 then "underscores" else "allow-utf-8")
      else c.escaping
    convertClassic := if c.convertClassic.isNone then some g.convertClassic else c.convertClassic
    alwaysClassic := if c.alwaysClassic.isNone then some g.alwaysClassic else c.alwaysClassic }

/-- the checks of `ScrapeConfig.Validate` (on the filled config) that the generator can violate -/
def scrapeOk (g : Global) (c : Scrape) : Bool :=
  decide (c.scrapeTimeout ≤ c.scrapeInterval) && validProtocols c.protocols
  && (c.fallback = "" || knownProtocols.contains c.fallback)
  && validEscaping (globalEscaping g)
  && (c.escaping != "allow-utf-8" || c.validation == 2) && validEscaping c.escaping

def finishScrape (g : Global) (c : Scrape) : Res Scrape := do
  -- the timeout check is made before the timeout is filled in
  let interval := inh c.scrapeInterval g.scrapeInterval
  if c.scrapeTimeout > interval then throw "scrape timeout greater than scrape interval"
  let c' := fillScrape g c
  if !scrapeOk g c' then throw "scrape config rejected"
  let rl ← c'.relabel.mapM (finishRelabel c'.validation)
  let ml ← c'.metricRelabel.mapM (finishRelabel c'.validation)
  pure { c' with relabel := rl, metricRelabel := ml }

def printScrape (c : Scrape) : YNode :=
  .map (marshalRec scrapeSchema c.toRec
    ++ (if c.protocols.isEmpty then [] else [("scrape_protocols", YNode.strs c.protocols)])
    ++ (if c.validation = 0 then [] else [("metric_name_validation_scheme", YNode.val (.i c.validation))])
    ++ optBoolKV "scrape_native_histograms" c.nativeHist
    ++ optBoolKV "always_scrape_classic_histograms" c.alwaysClassic
    ++ optBoolKV "convert_classic_histograms_to_nhcb" c.convertClassic
    ++ optBoolKV "extra_scrape_metrics" c.extraMetrics
    ++ printRelabels "relabel_configs" c.relabel
    ++ printRelabels "metric_relabel_configs" c.metricRelabel)

/-! ### sections that are plain records (no defaulting after the decode) -/

def rwNames : List String :=
  ["RemoteTimeout", "Name", "SendExemplars", "SendNativeHistograms", "RoundRobinDNS", "ProtobufMessage", "FailedRequestLogging"]
def queueNames : List String :=
  ["Capacity", "MaxShards", "MinShards", "MaxSamplesPerSend", "BatchSendDeadline", "MinBackoff", "MaxBackoff",
   "RetryOnRateLimit", "SampleAgeLimit"]
def metaNames : List String := ["Send", "SendInterval", "MaxSamplesPerSend"]
def rrNames : List String := ["RemoteTimeout", "ChunkedReadLimit", "ReadRecent", "Name", "FilterExternalLabels"]
def amNames : List String := ["Scheme", "PathPrefix", "Timeout", "APIVersion"]
def otlpNames : List String :=
  ["PromoteAllResourceAttributes", "TranslationStrategy", "KeepIdentifyingResourceAttributes", "ConvertHistogramsToNHCB",
   "PromoteScopeMetadata", "LabelNameUnderscoreSanitization", "LabelNamePreserveMultipleUnderscores"]
def tsdbNames : List String := ["OutOfOrderTimeWindowFlag"]
def retentionNames : List String := ["Time", "Size"]

def rwSchema := schemaOf "RemoteWriteConfig" rwNames
def queueSchema := schemaOf "QueueConfig" queueNames
def metaSchema := schemaOf "MetadataConfig" metaNames
def rrSchema := schemaOf "RemoteReadConfig" rrNames
def amSchema := schemaOf "AlertmanagerConfig" amNames
def otlpSchema := schemaOf "OTLPConfig" otlpNames
def tsdbSchema := schemaOf "TSDBConfig" tsdbNames
def retentionSchema := schemaOf "TSDBRetentionConfig" retentionNames

def omitemptyOf (S field : String) : Bool :=
  match Gen.fields.find? (fun f => f.struct == S && f.field == field) with
  | some f => f.omitempty
  | none => false

def presetRec (sch : List Field) : Rec := sch.map fun f => (f.field, defaultVal f)
def zeroRec (sch : List Field) : Rec := sch.map fun f => (f.field, zeroVal f.kind)
def Rec.allZero (sch : List Field) (r : Rec) : Bool := sch.all fun f => r.lookup f.field == some (zeroVal f.kind)

/-- decode of a struct-valued field WITHOUT its own UnmarshalYAML, nested in a parent that presets it -/
def decodeSub (sch : List Field) : Option YNode → Res Rec
  | none => .ok (presetRec sch)
  | some .null => .ok (zeroRec sch)
  | some (.map kvs) => decodeRec sch kvs
  | _ => .error "map expected"

structure RemoteWrite where
  url : String
  r : Rec
  queue : Rec
  mdata : Rec
  relabel : List Relabel
deriving DecidableEq, Repr, Inhabited

def queueOk (q : Rec) : Bool :=
  decide (0 < q.i "MaxShards") && decide (0 < q.i "MinShards") && decide (q.i "MinShards" ≤ q.i "MaxShards")
  && decide (0 < q.i "MaxSamplesPerSend") && decide (0 < q.i "Capacity") && decide (q.i "MinBackoff" ≤ q.i "MaxBackoff")

def validPbMsg (s : String) : Bool := s ∈ ["prometheus.WriteRequest", "io.prometheus.write.v2.Request"]

def decodeRemoteWrite (n : YNode) : Res RemoteWrite := do
  match n with
  | .null => .error "empty or null remote write config section"
  | .map kvs =>
    let r ← decodeRec rwSchema kvs
    let url ← match kvs.lookup "url" with
      | none => throw "url for remote_write is empty"
      | some .null => throw "url for remote_write is empty"
      | some x => strOfNode x
    let queue ← decodeSub queueSchema (kvs.lookup "queue_config")
    let mdata ← decodeSub metaSchema (kvs.lookup "metadata_config")
    let relabel ← decodeRelabels (kvs.lookup "write_relabel_configs")
    if !validPbMsg (r.s "ProtobufMessage") then throw "invalid protobuf_message"
    if !queueOk queue then throw "queue config rejected"
    pure { url, r, queue, mdata, relabel }
  | _ => .error "remote write: map expected"

def finishRemoteWrite (scheme : Nat) (w : RemoteWrite) : Res RemoteWrite := do
  pure { w with relabel := ← w.relabel.mapM (finishRelabel scheme) }

/-- a struct-valued field tagged omitempty is dropped when ALL its fields are kind-zero (yaml.v2 isZero) -/
def printSub (key : String) (om : Bool) (sch : List Field) (r : Rec) : List (String × YNode) :=
  if om && r.allZero sch then [] else [(key, .map (marshalRec sch r))]

def printRemoteWrite (w : RemoteWrite) : YNode :=
  .map ([("url", .val (.s w.url))] ++ marshalRec rwSchema w.r
    ++ printSub "queue_config" (omitemptyOf "RemoteWriteConfig" "QueueConfig") queueSchema w.queue
    ++ printSub "metadata_config" (omitemptyOf "RemoteWriteConfig" "MetadataConfig") metaSchema w.mdata
    ++ printRelabels "write_relabel_configs" w.relabel)

structure RemoteRead where
  url : String
  r : Rec
deriving DecidableEq, Repr, Inhabited

def decodeRemoteRead (n : YNode) : Res RemoteRead := do
  match n with
  | .null => .error "empty or null remote read config section"
  | .map kvs =>
    let r ← decodeRec rrSchema kvs
    let url ← match kvs.lookup "url" with
      | none => throw "url for remote_read is empty"
      | some .null => throw "url for remote_read is empty"
      | some x => strOfNode x
    pure { url, r }
  | _ => .error "remote read: map expected"

def printRemoteRead (w : RemoteRead) : YNode :=
  .map ([("url", .val (.s w.url))] ++ marshalRec rrSchema w.r)

structure Alertmanager where
  r : Rec
  relabel : List Relabel
  alertRelabel : List Relabel
deriving DecidableEq, Repr, Inhabited

def decodeAlertmanager (n : YNode) : Res Alertmanager := do
  match n with
  | .null => .error "null alertmanager"
  | .map kvs =>
    let r ← decodeRec amSchema kvs
    if r.s "APIVersion" ≠ "v2" then throw "unsupported Alertmanager api version"
    pure { r, relabel := ← decodeRelabels (kvs.lookup "relabel_configs"),
           alertRelabel := ← decodeRelabels (kvs.lookup "alert_relabel_configs") }
  | _ => .error "alertmanager: map expected"

def finishAlertmanager (scheme : Nat) (a : Alertmanager) : Res Alertmanager := do
  -- AlertmanagerConfig.Validate: alert relabel rules first, then target relabel rules
  let ar ← a.alertRelabel.mapM (finishRelabel scheme)
  let rl ← a.relabel.mapM (finishRelabel scheme)
  pure { a with relabel := rl, alertRelabel := ar }

def printAlertmanager (a : Alertmanager) : YNode :=
  .map (marshalRec amSchema a.r ++ printRelabels "relabel_configs" a.relabel
    ++ printRelabels "alert_relabel_configs" a.alertRelabel)

def trimSpace (s : String) : String :=
  String.ofList ((s.toList.dropWhile Char.isWhitespace).reverse.dropWhile Char.isWhitespace).reverse

structure Otlp where
  r : Rec
  promote : List String
  ignore : List String
deriving DecidableEq, Repr, Inhabited

def defaultOtlp : Otlp := { r := presetRec otlpSchema, promote := [], ignore := [] }
def zeroOtlp : Otlp := { r := zeroRec otlpSchema, promote := [], ignore := [] }

def decodeOtlp : Option YNode → Res Otlp
  | none => .ok defaultOtlp
  | some .null => .ok zeroOtlp
  | some (.map kvs) => do
    let r ← decodeRec otlpSchema kvs
    let promote ← match kvs.lookup "promote_resource_attributes" with
      | none => pure []
      | some x => strList x
    let ignore ← match kvs.lookup "ignore_resource_attributes" with
      | none => pure []
      | some x => strList x
    if r.b "PromoteAllResourceAttributes" then
      if !promote.isEmpty then throw "promote_all and promote_resource_attributes"
    else
      if !ignore.isEmpty then throw "ignore_resource_attributes without promote_all"
    -- sanitizeAttributes: trimmed in place, empty and duplicate names rejected
    let promote := promote.map trimSpace
    let ignore := ignore.map trimSpace
    if promote.contains "" || ignore.contains "" || !promote.Nodup || !ignore.Nodup then throw "otlp attributes"
    pure { r, promote, ignore }
  | _ => .error "otlp: map expected"

def strsKV (key : String) (l : List String) : List (String × YNode) :=
  if l.isEmpty then [] else [(key, .strs l)]

def printOtlp (om : Bool) (o : Otlp) : List (String × YNode) :=
  if om && o.r.allZero otlpSchema && o.promote.isEmpty && o.ignore.isEmpty then []
  else [("otlp", .map (marshalRec otlpSchema o.r ++ strsKV "promote_resource_attributes" o.promote
          ++ strsKV "ignore_resource_attributes" o.ignore))]

/-- storage.tsdb (own UnmarshalYAML: zero preset, retention injected) and storage.exemplars -/
structure Storage where
  oooFlag : Int
  floats : String
  retTime : Int
  retSize : Int
  exemplars : Option Int
deriving DecidableEq, Repr, Inhabited

def defaultStorage : Storage := { oooFlag := 0, floats := "", retTime := 0, retSize := 0, exemplars := none }

def decodeStorage : Option YNode → Res Storage
  | none => .ok defaultStorage
  | some .null => .ok defaultStorage
  | some (.map kvs) => do
    let ex ← match kvs.lookup "exemplars" with
      | none => pure none
      | some .null => pure none
      | some (.map ekvs) =>
        match ekvs.lookup "max_exemplars" with
        | none => pure (some 0)
        | some .null => pure (some 0)
        | some (.raw "i" t) => match t.toInt? with | some x => pure (some x) | none => throw "max_exemplars"
        | some (.val (.i x)) => pure (some x)
        | _ => throw "max_exemplars"
      | _ => throw "exemplars: map expected"
    match kvs.lookup "tsdb" with
    | none => pure { defaultStorage with exemplars := ex }
    | some .null => pure { defaultStorage with exemplars := ex }
    | some (.map tkvs) =>
      let t ← decodeRec tsdbSchema tkvs
      let floats ← match tkvs.lookup "chunk_encoding" with
        | none => pure ""
        | some .null => pure ""
        | some (.map ckvs) => match ckvs.lookup "floats" with
          | none => pure ""
          | some x => strOfNode x
        | _ => throw "chunk_encoding"
      if !(floats ∈ ["", "xor", "xor2"]) then throw "chunk_encoding.floats"
      let ret ← decodeSub retentionSchema (tkvs.lookup "retention")
      -- a null `retention:` leaves the pointer nil, which is then replaced by the (zero) default
      if ret.i "Size" < 0 then throw "retention.size"
      pure { oooFlag := t.i "OutOfOrderTimeWindowFlag", floats, retTime := ret.i "Time",
             retSize := ret.i "Size", exemplars := ex }
    | _ => throw "tsdb: map expected"
  | _ => .error "storage: map expected"

def printStorage (s : Storage) : List (String × YNode) :=
  -- TSDBConfig is never nil after Load and `retention: {}` is always printed, so `storage:` always appears
  [("storage", .map (
    [("tsdb", YNode.map (
        (if s.oooFlag = 0 then [] else [("out_of_order_time_window", YNode.val (.i s.oooFlag))])
        ++ (if s.floats = "" then [] else [("chunk_encoding", YNode.map [("floats", .val (.s s.floats))])])
        ++ [("retention", YNode.map (marshalRec retentionSchema [("Time", .i s.retTime), ("Size", .i s.retSize)]))]))]
    ++ (match s.exemplars with
        | none => []
        | some x => [("exemplars", YNode.map (if x = 0 then [] else [("max_exemplars", .val (.i x))]))])))]

/-! ### the whole configuration -/

structure Config where
  global : Global
  gogc : Int
  ruleFiles : List String
  scrapeConfigFiles : List String
  scrapes : List Scrape
  alertRelabel : List Relabel
  alertmanagers : List Alertmanager
  remoteWrite : List RemoteWrite
  remoteRead : List RemoteRead
  otlp : Otlp
  storage : Storage
deriving DecidableEq, Repr, Inhabited

def defaultGoGC : Int := 75

def decodeGoGC : Option YNode → Res Int
  | none => .ok defaultGoGC
  | some .null => .ok defaultGoGC
  | some (.map kvs) =>
    match kvs.lookup "gogc" with
    | none => .ok defaultGoGC
    | some .null => .ok defaultGoGC
    | some (.raw "i" t) => match t.toInt? with | some x => .ok (if x = 0 then defaultGoGC else x) | none => .error "gogc"
    | some (.val (.i x)) => .ok (if x = 0 then defaultGoGC else x)
    | _ => .error "gogc"
  | _ => .error "runtime: map expected"

def validStrategyFor (validation : Nat) (s : String) : Bool :=
  s = "" || s = "UnderscoreEscapingWithSuffixes" || s = "UnderscoreEscapingWithoutSuffixes"
  || ((s = "NoTranslation" || s = "NoUTF8EscapingWithSuffixes") && validation ≠ 1)

def expandLabels (l : List (String × String)) : List (String × String) := l.map fun (k, v) => (k, expandEnv v)

/-- `config.Load` on the generic document. -/
def load (doc : YNode) : Res Config := do
  let kvs ← match doc with
    | .null => pure []
    | .map kvs => pure kvs
    | _ => throw "document: map expected"
  let g ← decodeGlobal (kvs.lookup "global")
  let gogc ← decodeGoGC (kvs.lookup "runtime")
  let ruleFiles ← match kvs.lookup "rule_files" with | none => pure [] | some x => strList x
  let scFiles ← match kvs.lookup "scrape_config_files" with | none => pure [] | some x => strList x
  let (alertRelabel0, ams0) ← match kvs.lookup "alerting" with
    | none => pure ([], [])
    | some .null => pure ([], [])
    | some (.map akvs) => do
      let rl ← decodeRelabels (akvs.lookup "alert_relabel_configs")
      let ams ← (← nodeList (akvs.lookup "alertmanagers")).mapM decodeAlertmanager
      pure (rl, ams)
    | _ => throw "alerting: map expected"
  let scrapes0 ← (← nodeList (kvs.lookup "scrape_configs")).mapM decodeScrape
  let storage ← decodeStorage (kvs.lookup "storage")
  let rws0 ← (← nodeList (kvs.lookup "remote_write")).mapM decodeRemoteWrite
  let rrs ← (← nodeList (kvs.lookup "remote_read")).mapM decodeRemoteRead
  let otlp ← decodeOtlp (kvs.lookup "otlp")
  -- Config.UnmarshalYAML: global overrides and validation
  let scrapes ← scrapes0.mapM (finishScrape g)
  if !(scrapes.map (·.jobName)).Nodup then throw "duplicate job name"
  let alertRelabel ← alertRelabel0.mapM (finishRelabel g.validation)
  let ams ← ams0.mapM (finishAlertmanager g.validation)
  let rws ← rws0.mapM (finishRemoteWrite g.validation)
  let rwNames := (rws.map (·.r.s "Name")).filter (· ≠ "")
  if !rwNames.Nodup then throw "duplicate remote write name"
  let rrNames := (rrs.map (·.r.s "Name")).filter (· ≠ "")
  if !rrNames.Nodup then throw "duplicate remote read name"
  -- Load: environment expansion of external label values, OTLP strategy check
  let g' := { g with externalLabels := expandLabels g.externalLabels }
  if !validStrategyFor g'.validation (otlp.r.s "TranslationStrategy") then throw "OTLP translation strategy"
  pure { global := g', gogc, ruleFiles, scrapeConfigFiles := scFiles, scrapes, alertRelabel, alertmanagers := ams,
         remoteWrite := rws, remoteRead := rrs, otlp, storage }

/-- `Config.String` as an abstract document. -/
def print (c : Config) : YNode :=
  .map ([("global", printGlobal c.global), ("runtime", YNode.map [("gogc", .val (.i c.gogc))])]
    ++ (if c.alertRelabel.isEmpty && c.alertmanagers.isEmpty then [] else
          [("alerting", YNode.map (printRelabels "alert_relabel_configs" c.alertRelabel
            ++ (if c.alertmanagers.isEmpty then [] else [("alertmanagers", .list (c.alertmanagers.map printAlertmanager))])))])
    ++ strsKV "rule_files" c.ruleFiles ++ strsKV "scrape_config_files" c.scrapeConfigFiles
    ++ (if c.scrapes.isEmpty then [] else [("scrape_configs", .list (c.scrapes.map printScrape))])
    ++ printStorage c.storage
    ++ (if c.remoteWrite.isEmpty then [] else [("remote_write", .list (c.remoteWrite.map printRemoteWrite))])
    ++ (if c.remoteRead.isEmpty then [] else [("remote_read", .list (c.remoteRead.map printRemoteRead))])
    ++ printOtlp (omitemptyOf "Config" "OTLPConfig") c.otlp)

end Prom.Config
