/-
  Property C49 — vocabulary of the regenerated field table `PromModel/Gen/ConfigFields.lean`
  (written by tools/cfgfields from the current text of config/config.go and model/relabel/relabel.go).
-/
namespace Prom.Config

/-- Kind of a struct field as far as yaml.v2's `omitempty` test is concerned (the zero test looks at the
    underlying Go kind): `duration` = model.Duration (int64 ns), `int` = every integer kind incl.
    units.Base2Bytes, `other` = pointers, slices, maps, structs, types with their own marshaller. -/
inductive Kind | bool | int | duration | string | float | other
deriving DecidableEq, Repr, Inhabited

/-- One row of the table. `default` is the value the field holds BEFORE the document is decoded into it
    (the literal the struct's UnmarshalYAML assigns first; "zero" for `other` kinds when absent;
    `sym:<expr>` when the generator cannot evaluate it — treated as non-zero). -/
structure Field where
  struct : String
  field : String
  yaml : String
  kind : Kind
  omitempty : Bool
  default : String
  preset : String
deriving DecidableEq, Repr, Inhabited

/-- The zero value of a kind, in the table's rendering. -/
def zero : Kind → String
  | .bool => "false"
  | .int => "0"
  | .duration => "0"
  | .string => ""
  | .float => "0"
  | .other => "zero"

end Prom.Config
