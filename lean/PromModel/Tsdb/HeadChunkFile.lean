import PromModel.Prelude.Enc
import PromModel.Tsdb.WalFrame
/-
  C25 — model of `tsdb/chunks/head_chunks.go` (`ChunkDiskMapper`) and `chunk_write_queue.go`.

  (a) byte level: head chunk file = header `magic 0x0130BC91 | version 1 | 3 padding bytes`, then records
      `series ref 8 | mint 8 | maxt 8 | encoding 1 (bit 7 = out-of-order mask) | uvarint len | data | crc32 4`
      (CRC over everything before it), then — because `cutSegmentFile` preallocates
      `HeadChunkFilePreallocationSize` = 128 KiB and `finalizeCurFile` never truncates — zeros.
      `iterFile` transcribes the loop of `IterateAllChunks` over one file (end-of-data rules: fewer than
      `MaxHeadChunkMetaSize` = 34 bytes left and all zero ⇒ end; series ref = mint = maxt = 0 ⇒ end),
      `readAt` the mmap path of `Chunk(ref)`, `reopen` = `openMMapFiles` (`repairLastChunkFile`, header
      validation), `loadAll` = the head's `IterateAllChunks` → `DeleteCorrupted` → `IterateAllChunks`.
  (b) transition system: `St` with the eventual position `evtlPos` (ref allocation, `getNextChunkRef`),
      the queue's `chunkRefMap`, the job queue, the single worker (idle / holding a job before
      `writeChunk` / after `writeChunk`, i.e. inside the callback, before the map entry is deleted), the
      writer (`cut`, buffered writer + `chunkBuffer`, `flushBuffer`), `Chunk(ref)`, `Truncate`.

  Representation.  A file written by this incarnation of the mapper is kept as the list of records
  appended to it plus the number already flushed; its on-disk bytes are *derived* (`File.disk`).  At action
  granularity this loses nothing: `writeChunk` leaves the buffered writer either holding whole records
  only or empty (it flushes first when the record does not fit, and flushes after a record that is at
  least as large as the buffer).  Files found at start-up are opaque byte strings (`base`).
  The current file is the one with the largest sequence number (`cut` uses `nextSequenceFile` = largest
  number in the directory + 1), so the state keeps `old` (closed files, ascending) and `cur`.
  A `ChunkDiskMapperRef` is kept as the pair (file sequence, offset); offsets stay below 2^32 because of
  the `MaxHeadChunkFileSize` cut rule.
-/
namespace Prom.Hcf
open Prom.Enc

abbrev Crc := Bytes → UInt32
abbrev Ref := Nat × Nat

def magic : Nat := 0x0130BC91
def headerSize : Nat := 8
/-- `MaxHeadChunkFileSize`; also the length of the mmap of a file cut by this incarnation. -/
def maxFileSize : Nat := 134217728
/-- `HeadChunkFilePreallocationSize` (non-Windows). -/
def prealloc : Nat := 131072
/-- `MaxHeadChunkMetaSize` = 8 + 16 + 1 + 5 + 4. -/
def maxMeta : Nat := 34

def header : Bytes := putBE32 magic ++ [1, 0, 0, 0]

structure Chunk where
  sref : Nat
  mint : Int
  maxt : Int
  /-- `chk.Encoding()` -/
  enc : Nat
  ooo : Bool
  data : Bytes
deriving DecidableEq, Repr, Inhabited

def uvarintSize (n : Nat) : Nat := (putUvarint n).length

/-- `chunkPos.bytesToWriteForChunk` -/
def recLen (c : Chunk) : Nat := 25 + uvarintSize c.data.length + c.data.length + 4

/-- the encoding byte on disk: `uint8(enc) | 0x80` for out-of-order chunks -/
def encByte (c : Chunk) : Nat :=
  if c.ooo ∧ c.enc % 256 < 128 then c.enc % 256 + 128 else c.enc % 256

def recBody (c : Chunk) : Bytes :=
  putBE64 c.sref ++ (putBE64 (toU64 c.mint) ++ (putBE64 (toU64 c.maxt) ++
    (UInt8.ofNat (encByte c) :: (putUvarint c.data.length ++ c.data))))

def encodeRecord (crc : Crc) (c : Chunk) : Bytes := recBody c ++ Wal.be32 (crc (recBody c))

def encodeRecs (crc : Crc) : List (Ref × Chunk) → Bytes
  | [] => []
  | rc :: rest => encodeRecord crc rc.2 ++ encodeRecs crc rest

def zeros (n : Nat) : Bytes := List.replicate n 0

/-! ### reading -/

def rd64 (bs : Bytes) : Nat := match getBE64 bs with | .ok (v, _) => v | .error _ => 0
def rd16 (bs : Bytes) : Nat := match bs with | a :: b :: _ => a.toNat * 256 + b.toNat | _ => 0

/-- `binary.Uvarint` on the 5-byte window `Range(idx, idx+MaxChunkLengthFieldSize)`: (value, n), `(0, 0)` when
    all bytes of the window carry the continuation bit. -/
def getU5 (bs : Bytes) : Nat × Nat :=
  match getUvarint (bs.take 5) with
  | some (v, rest) => (v, (bs.take 5).length - rest.length)
  | none => (0, 0)

structure Meta where
  seq : Nat
  off : Nat
  sref : Nat
  mint : Int
  maxt : Int
  ns : Nat
  enc : Nat
  ooo : Bool
deriving DecidableEq, Repr, Inhabited

inductive Corr | shortHeader | shortData | crc
deriving DecidableEq, Repr, Inhabited

/-- The inner loop of `IterateAllChunks` over one file: `rest` = the bytes from `idx` to `fileEnd`, `pos` = `idx`.
    Every pass consumes at least 30 bytes, so `fuel = |file|` is never exhausted. -/
def iterFile (crc : Crc) (seq : Nat) : Nat → Nat → Bytes → List Meta × Option Corr
  | 0, _, _ => ([], none)
  | fuel + 1, pos, rest =>
    if rest.length = 0 then ([], none)
    else if rest.length < maxMeta then
      (if rest.all (· == 0) then ([], none) else ([], some .shortHeader))
    else
      let sref := rd64 rest
      let mint := toI64 (rd64 (rest.drop 8))
      let maxt := toI64 (rd64 (rest.drop 16))
      if sref = 0 ∧ mint = 0 ∧ maxt = 0 then ([], none)
      else
        let encB := ((rest.drop 24).headD 0).toNat
        let ln := getU5 (rest.drop 25)
        let ns := rd16 (rest.drop (25 + ln.2))
        let e := 25 + ln.2 + ln.1
        if e + 4 > rest.length then ([], some .shortData)
        else if Wal.be32 (crc (rest.take e)) ≠ (rest.drop e).take 4 then ([], some .crc)
        else
          let r := iterFile crc seq fuel (pos + e + 4) (rest.drop (e + 4))
          (⟨seq, pos, sref, mint, maxt, ns, encB % 128, decide (encB ≥ 128)⟩ :: r.1, r.2)

def iterBytes (crc : Crc) (seq : Nat) (file : Bytes) : List Meta × Option Corr :=
  iterFile crc seq file.length headerSize (file.drop headerSize)

inductive RErr | closed | gt | missing | short | uvarint | short2 | crc | badenc | panic | sigbus
deriving DecidableEq, Repr, Inhabited

def RErr.name : RErr → String
  | .closed => "closed" | .gt => "gt" | .missing => "missing" | .short => "short" | .uvarint => "uvarint"
  | .short2 => "short2" | .crc => "crc" | .badenc => "badenc" | .panic => "panic" | .sigbus => "sigbus"

/-- `chunkenc.Pool.Get` knows encodings 1..6. -/
def validEnc (e : Nat) : Bool := decide (1 ≤ e ∧ e ≤ 6)

/-- The mmap part of `Chunk(ref)`: `bs` = file content, `len` = `byteSlice.Len()` (the mapping of a file cut by
    this incarnation is `MaxHeadChunkFileSize` long whatever the file size; touching it beyond the file is a
    SIGBUS, which the model reports as `sigbus` and the harness never provokes). -/
def readAt (crc : Crc) (bs : Bytes) (len off : Nat) : Except RErr (Nat × Bytes) :=
  let s := off + 24
  if s + 5 > len then .error .short
  else if s + 5 > bs.length then .error .sigbus
  else
    let encB := ((bs.drop s).headD 0).toNat
    let ln := getU5 (bs.drop (s + 1))
    if ln.2 = 0 then .error .uvarint
    else
      let e := s + 1 + ln.2 + ln.1
      if e > len then .error .short2
      else if e + 4 > len then .error .panic
      else if e + 4 > bs.length then .error .sigbus
      else if Wal.be32 (crc ((bs.drop off).take (e - off))) ≠ (bs.drop e).take 4 then .error .crc
      else if !validEnc (encB % 128) then .error .badenc
      else .ok (encB % 128, (bs.drop (e - ln.1)).take ln.1)

/-! ### state -/

structure Job where
  cut : Bool
  ref : Ref
  c : Chunk
deriving DecidableEq, Repr, Inhabited

inductive Worker
  | idle
  | before (j : Job)
  | after (j : Job) (ok : Bool)
deriving DecidableEq, Repr, Inhabited

structure File where
  seq : Nat
  /-- content found at start-up, or the header for a file cut by this incarnation -/
  base : Bytes
  /-- records appended by this incarnation, in order, with the reference each was given -/
  recs : List (Ref × Chunk)
  /-- how many of `recs` have been flushed to the file -/
  flushed : Nat
  /-- cut by this incarnation (preallocated; mmapped with `Len = MaxHeadChunkFileSize`) -/
  live : Bool
deriving DecidableEq, Repr, Inhabited

def File.content (crc : Crc) (f : File) (k : Nat) : Bytes := f.base ++ encodeRecs crc (f.recs.take k)

def File.diskK (crc : Crc) (f : File) (k : Nat) : Bytes :=
  let b := f.content crc k
  if f.live then b ++ zeros (prealloc - b.length) else b

/-- what is in the file on disk now -/
def File.disk (crc : Crc) (f : File) : Bytes := f.diskK crc f.flushed

def File.mmapLen (crc : Crc) (f : File) : Nat := if f.live then maxFileSize else (f.disk crc).length

structure St where
  /-- queue size; 0 = no queue (synchronous writes) -/
  q : Nat
  /-- write buffer size -/
  wbs : Nat
  eseq : Nat
  eoff : Nat
  ecut : Bool
  refMap : List (Ref × Chunk)
  queue : List Job
  worker : Worker
  /-- `curFileOffset` -/
  curOff : Nat
  chunkBuf : List (Ref × Chunk)
  old : List File
  cur : Option File
  /-- `writeChunk` dereferenced a nil `chkWriter` (cannot happen from `init`, see the invariant) -/
  panicked : Bool
deriving Repr, Inhabited

def St.curSeq (σ : St) : Nat := match σ.cur with | some f => f.seq | none => 0

def St.maxSeq (σ : St) : Nat :=
  match σ.cur with
  | some f => f.seq
  | none => σ.old.foldl (fun m f => max m f.seq) 0

def lookup (r : Ref) : List (Ref × Chunk) → Option Chunk
  | [] => none
  | (k, c) :: rest => if k = r then some c else lookup r rest

def eraseKey (r : Ref) : List (Ref × Chunk) → List (Ref × Chunk)
  | [] => []
  | (k, c) :: rest => if k = r then rest else (k, c) :: eraseKey r rest

/-! ### `chunkPos.getNextChunkRef` -/

def shouldCut (ecut : Bool) (eoff n : Nat) : Bool := ecut || eoff == 0 || decide (eoff + n > maxFileSize)

/-- returns (ref, cutFile, new seq, new offset) -/
def nextRef (eseq eoff : Nat) (ecut : Bool) (n : Nat) : Ref × Bool × Nat × Nat :=
  if shouldCut ecut eoff n then ((eseq + 1, headerSize), true, eseq + 1, headerSize + n)
  else ((eseq, eoff), false, eseq, eoff + n)

/-! ### the writer (`writeChunk`, `cut`, `flushBuffer`) -/

def flushFile (f : File) : File := { f with flushed := f.recs.length }

def St.flush (σ : St) : St := { σ with cur := σ.cur.map flushFile, chunkBuf := [] }

def buffered (f : File) : Nat := ((f.recs.drop f.flushed).map fun rc => recLen rc.2).sum

/-- `cut()`: finalize the current file, create file `max+1`, make it current. -/
def St.cutFile (σ : St) : St :=
  let σ1 := σ.flush
  let nseq := σ.maxSeq + 1
  { σ1 with
    old := (match σ1.cur with | some f => σ1.old ++ [f] | none => σ1.old)
    cur := some ⟨nseq, header, [], 0, true⟩
    curOff := headerSize }

/-- `writeChunk(…, ref, isOOO, cutFile)`; the result says whether it returned nil. -/
def St.procWrite (σ : St) (j : Job) : St × Bool :=
  let σ1 := if j.cut then σ.cutFile else σ
  if j.cut ∧ (σ1.curSeq, headerSize) ≠ j.ref then (σ1, false)
  else
    match σ1.cur with
    | none => ({ σ1 with panicked := true }, false)
    | some f0 =>
      let len := j.c.data.length
      let σ2 := if len + maxMeta < σ1.wbs ∧ σ1.wbs - buffered f0 < maxMeta + len then σ1.flush else σ1
      let σ3 := { σ2 with
        cur := σ2.cur.map fun f => { f with recs := f.recs ++ [(j.ref, j.c)] }
        curOff := σ2.curOff + recLen j.c
        chunkBuf := σ2.chunkBuf ++ [(j.ref, j.c)] }
      (if len + maxMeta ≥ σ1.wbs then σ3.flush else σ3, true)

/-! ### actions -/

inductive Act
  | write (c : Chunk)
  | cutNew
  | workerWrite
  | workerFin
  | trunc (n : Nat)
deriving DecidableEq, Repr, Inhabited

/-- Is the action enabled?  `write` blocks while the job queue is full; worker steps need a job in hand. -/
def enabled (σ : St) : Act → Bool
  | .write _ => σ.q == 0 || decide (σ.queue.length < σ.q)
  | .cutNew => true
  | .workerWrite => match σ.worker with | .before _ => true | _ => false
  | .workerFin => match σ.worker with | .after _ _ => true | _ => false
  | .trunc _ => true

/-- `WriteChunk`: returns the new state, the reference and (synchronous mapper only) the callback result. -/
def St.writeChunk (σ : St) (c : Chunk) : St × Ref × Option Bool :=
  let nr := nextRef σ.eseq σ.eoff σ.ecut (recLen c)
  let σ1 := { σ with eseq := nr.2.2.1, eoff := nr.2.2.2, ecut := false }
  let j : Job := ⟨nr.2.1, nr.1, c⟩
  if σ.q = 0 then
    let r := σ1.procWrite j
    (r.1, nr.1, some r.2)
  else
    let σ2 := { σ1 with refMap := σ1.refMap ++ [(nr.1, c)] }
    match σ2.worker with
    | .idle => ({ σ2 with worker := .before j }, nr.1, none)
    | _ => ({ σ2 with queue := σ2.queue ++ [j] }, nr.1, none)

def St.workerWrite (σ : St) : St :=
  match σ.worker with
  | .before j => let r := σ.procWrite j; { r.1 with worker := .after j r.2 }
  | _ => σ

/-- the rest of `processJob` (callback, delete from `chunkRefMap`) and the next `pop` -/
def St.workerFin (σ : St) : St :=
  match σ.worker with
  | .after j _ =>
    let m := eraseKey j.ref σ.refMap
    (match σ.queue with
     | [] => { σ with refMap := m, worker := .idle }
     | j' :: rest => { σ with refMap := m, worker := .before j', queue := rest })
  | _ => σ

/-- files `Truncate(fileNo)` removes: the ascending prefix before the current file with `uint32(seq) < fileNo` -/
def truncRemoved (σ : St) (n : Nat) : List File := σ.old.takeWhile fun f => decide (f.seq % 4294967296 < n)

def St.truncate (σ : St) (n : Nat) : St :=
  let removed := truncRemoved σ n
  let all := σ.cur.isNone && removed.length == σ.old.length
  { σ with
    ecut := σ.ecut || decide (σ.curOff > headerSize)
    old := σ.old.drop removed.length
    eseq := if all ∧ (σ.q = 0 ∨ σ.refMap.isEmpty) then 0 else σ.eseq }

def step (σ : St) : Act → St
  | .write c => (σ.writeChunk c).1
  | .cutNew => { σ with ecut := true }
  | .workerWrite => σ.workerWrite
  | .workerFin => σ.workerFin
  | .trunc n => σ.truncate n

/-- `Chunk(ref)` -/
def St.chunk (crc : Crc) (σ : St) (r : Ref) : Except RErr (Nat × Bytes) :=
  match lookup r σ.refMap with
  | some c => .ok (c.enc, c.data)
  | none =>
    match (if r.1 = σ.curSeq then lookup r σ.chunkBuf else none) with
    | some c => .ok (c.enc, c.data)
    | none =>
      match (σ.old ++ σ.cur.toList).find? (·.seq = r.1) with
      | none => if r.1 > σ.curSeq then .error .gt else .error .missing
      | some f => readAt crc (f.disk crc) (f.mmapLen crc) r.2

/-! ### start-up: `openMMapFiles`, `IterateAllChunks`, `DeleteCorrupted` -/

def init (q wbs : Nat) : St :=
  { q := q, wbs := wbs, eseq := 0, eoff := 0, ecut := false, refMap := [], queue := [], worker := .idle,
    curOff := 0, chunkBuf := [], old := [], cur := none, panicked := false }

def validHeader (b : Bytes) : Bool :=
  decide (b.length ≥ headerSize) && b.take 4 == putBE32 magic && (b.drop 4).headD 0 == 1

def seqsContiguous : List Nat → Bool
  | a :: b :: rest => decide (b = a + 1) && seqsContiguous (b :: rest)
  | _ => true

/-- `repairLastChunkFile`: the last file is removed when it has fewer than 4 bytes or a zero magic number. -/
def repairLast (files : List (Nat × Bytes)) : List (Nat × Bytes) :=
  match files.getLast? with
  | none => files
  | some (seq, b) =>
    if seq = 0 then files
    else if b.length < 4 ∨ b.take 4 == [0, 0, 0, 0] then files.dropLast else files

/-- `NewChunkDiskMapper` on a directory (`files` ascending by sequence): `none` = it returns an error. -/
def reopen (q wbs : Nat) (files : List (Nat × Bytes)) : Option St :=
  let fs := repairLast files
  if !seqsContiguous (fs.map (·.1)) then none
  else if !fs.all (fun f => validHeader f.2) then none
  else
    some { init q wbs with
      old := fs.map fun f => ⟨f.1, f.2, [], 0, false⟩
      eseq := match fs.getLast? with | some f => f.1 | none => 0 }

/-- `IterateAllChunks` on a mapper without a current file: metas up to the first corruption, and its file. -/
def iterAll (crc : Crc) : List File → List Meta × Option Nat
  | [] => ([], none)
  | f :: rest =>
    let r := iterBytes crc f.seq (f.disk crc)
    match r.2 with
    | some _ => (r.1, some f.seq)
    | none => let r2 := iterAll crc rest; (r.1 ++ r2.1, r2.2)

/-- `DeleteCorrupted` -/
def St.deleteCorrupted (σ : St) (k : Nat) : St :=
  let keep := σ.old.filter fun f => decide (f.seq < k)
  { σ with old := keep, eseq := keep.foldl (fun m f => max m f.seq) 0 }

inductive LoadStatus | clean | repaired (file : Nat) | failed (file : Nat)
deriving DecidableEq, Repr, Inhabited

/-- What the head does at start-up: iterate; on corruption delete the corrupted file and everything after it and
    iterate again (should that fail too, everything is dropped). -/
def St.loadAll (crc : Crc) (σ : St) : St × List Meta × LoadStatus :=
  let r := iterAll crc σ.old
  match r.2 with
  | none => (σ, r.1, .clean)
  | some k =>
    let σ1 := σ.deleteCorrupted k
    let r1 := iterAll crc σ1.old
    match r1.2 with
    | none => (σ1, r1.1, .repaired k)
    | some k1 => ((σ1.truncate 4294967295), [], .failed k1)

/-- the directory as a crash would leave it now (flushed bytes only) -/
def St.diskFiles (crc : Crc) (σ : St) : List (Nat × Bytes) :=
  (σ.old ++ σ.cur.toList).map fun f => (f.seq, f.disk crc)

/-- the directory after `Close` (everything flushed) -/
def St.closedFiles (crc : Crc) (σ : St) : List (Nat × Bytes) :=
  (σ.old ++ (σ.cur.map flushFile).toList).map fun f => (f.seq, f.disk crc)

/-- truncate the newest file at `cut` -/
def tearLast (files : List (Nat × Bytes)) (cut : Nat) : List (Nat × Bytes) :=
  match files.getLast? with
  | none => files
  | some (seq, b) => files.dropLast ++ [(seq, b.take cut)]

/-- damage done to one file by a crash: torn at `n`, one byte inverted, or everything from `n` on zeroed
    (size extended, data never written) -/
inductive Dmg | cut (n : Nat) | flip (off : Nat) | zero (off : Nat)
deriving DecidableEq, Repr, Inhabited

def Dmg.apply : Dmg → Bytes → Bytes
  | .cut n, b => b.take n
  | .flip o, b => if o < b.length then b.take o ++ ((b.drop o).headD 0 ^^^ 255) :: b.drop (o + 1) else b
  | .zero o, b => b.take o ++ zeros (b.length - o)

/-- the directory with file `seq` damaged (any file, not only the newest) -/
def damageFile (files : List (Nat × Bytes)) (seq : Nat) (d : Dmg) : List (Nat × Bytes) :=
  files.map fun f => if f.1 = seq then (f.1, d.apply f.2) else f

/-- run the worker until it is idle; returns the callback results in order -/
def St.drain : Nat → St → St × List (Ref × Bool)
  | 0, σ => (σ, [])
  | fuel + 1, σ =>
    match σ.worker with
    | .idle => (σ, [])
    | .before j =>
      let σ1 := σ.workerWrite
      let ok := match σ1.worker with | .after _ ok => ok | _ => false
      let r := St.drain fuel σ1.workerFin
      (r.1, (j.ref, ok) :: r.2)
    | .after _ _ => St.drain fuel σ.workerFin

def St.drainFuel (σ : St) : Nat := 2 * σ.queue.length + 4

end Prom.Hcf
