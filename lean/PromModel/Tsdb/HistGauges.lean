/-
  C52, part 2 — the gauges derived from each series' NEWEST IN-ORDER SAMPLE:
  `numStaleSeries`, `numNativeHistogramSeries`, `numNativeHistogramBuckets` (tsdb/head.go) next to
  `numSeries`, as an abstract per-series state machine

      last sample kind (float | histogram) × staleness × bucket entries

  with the code's update rule at every site that stores an in-order sample
    * live:   `commitFloats` / `commitHistograms` / `commitFloatHistograms` (head_append.go)
    * replay: `appendWALFloat` / `appendWALHistogram` (head_wal.go), guarded by `sampleInOrder`
    * `gc` / `gcSeries` (head.go): subtract the evicted series' `sampleState()`
    * `loadChunkSnapshot` (head_wal.go): add every restored series' `sampleState()`
  and a RECOUNT over the series.

  What is abstracted: timestamps decide only whether a sample is in order (`t` above the series'
  newest in-order timestamp); a sample that is not in order — rejected, or diverted to the
  out-of-order chunk under an OOO window, live or on replay — leaves series state and gauges alone.
  Integer and float histograms are one kind (the gauges do not distinguish them).

  One quirk of the code is part of the model: `chunkenc.(Float)HistogramAppender.AppendHistogram`
  WIDENS the sample it is handed in place when the open chunk has buckets the sample lacks
  (`recodeHistogram(h, backwardInserts)`), and `memSeries.appendHistogram` keeps that very pointer as
  `lastHistogramValue`; the callers compute `newBuckets` BEFORE the append. A sample therefore has two
  bucket numbers: `nb` as passed in (what the gauge adds) and `sb` as stored (what `sampleState()`
  reports afterwards). `sb = nb` unless the sample was widened (finding C52-F2).
-/
namespace Prom.HistGauges

inductive Kind | float | hist
deriving Repr, DecidableEq, Inhabited

/-- `memSeries.sampleState()` of a series. The zero state is a series without any in-order sample. -/
structure Last where
  kind : Kind := .float
  stale : Bool := false
  buckets : Nat := 0
deriving Repr, DecidableEq, Inhabited

/-- The bucket number `sampleState()` reports: 0 for a float. -/
def Last.bk (l : Last) : Nat := if l.kind = .hist then l.buckets else 0

structure Ser where
  maxT : Option Int := none     -- newest in-order timestamp
  last : Last := {}
deriving Repr, DecidableEq, Inhabited

/-- A sample as it reaches a commit or replay site. -/
structure Smp where
  t : Int
  kind : Kind
  stale : Bool := false
  nb : Nat := 0                 -- bucket entries as passed in (0 for a float)
  sb : Nat := 0                 -- bucket entries as stored (≥ nb when widened in place)
deriving Repr, DecidableEq, Inhabited

/-- The four hand-maintained numbers. -/
@[ext] structure G where
  series : Int := 0
  stale : Int := 0
  hseries : Int := 0
  hbuckets : Int := 0
deriving Repr, DecidableEq, Inhabited

instance : Add G := ⟨fun a b => ⟨a.series + b.series, a.stale + b.stale, a.hseries + b.hseries, a.hbuckets + b.hbuckets⟩⟩
instance : Sub G := ⟨fun a b => ⟨a.series - b.series, a.stale - b.stale, a.hseries - b.hseries, a.hbuckets - b.hbuckets⟩⟩

/-- `updateStaleSeriesMetricOnAppend(wasStale, isStale)`. -/
def updStale (g : G) (was is_ : Bool) : G :=
  if !was && is_ then { g with stale := g.stale + 1 }
  else if was && !is_ then { g with stale := g.stale - 1 }
  else g

/-- `updateNativeHistogramMetricsOnAppend(wasHistogram, isHistogram, oldBuckets, newBuckets)`. -/
def updNH (g : G) (wasH isH : Bool) (old new : Nat) : G :=
  let g := if !wasH && isH then { g with hseries := g.hseries + 1 }
           else if wasH && !isH then { g with hseries := g.hseries - 1 }
           else g
  if new ≠ old then { g with hbuckets := g.hbuckets + ((new : Int) - (old : Int)) } else g

/-- In order = strictly above the series' newest in-order timestamp (`appendPreprocessor`). -/
def Ser.accepts (s : Ser) (t : Int) : Bool :=
  match s.maxT with
  | none => true
  | some m => decide (m < t)

/-- A float staleness marker for a series whose newest in-order sample is a histogram is stored as a
    histogram staleness marker without buckets (`commitFloats`, `appendWALFloat`). -/
def convert (s : Ser) (x : Smp) : Smp :=
  if x.kind = .float ∧ x.stale ∧ s.last.kind = .hist then { x with kind := .hist, nb := 0, sb := 0 } else x

/-- The gauge updates of the three commit sites / two replay sites for an ACCEPTED sample. -/
def bump (g : G) (was : Last) (x : Smp) : G :=
  let g := updStale g was.stale x.stale
  match x.kind with
  | .float => if was.kind = .hist then updNH g true false was.bk 0 else g
  | .hist => updNH g (was.kind = .hist) true was.bk x.nb

def Ser.store (_s : Ser) (x : Smp) : Ser :=
  { maxT := some x.t, last := ⟨x.kind, x.stale, match x.kind with | .float => 0 | .hist => x.sb⟩ }

/-- One sample at a series, with the `sampleInOrder` guard: live commit and WAL replay alike. -/
def sampleAt (s : Ser) (g : G) (x : Smp) : Ser × G :=
  let x := convert s x
  if s.accepts x.t then (s.store x, bump g s.last x) else (s, g)

/-- The same WITHOUT the guard on the native-histogram gauges (the class of mistake C52's seeded
    change makes in `appendWALHistogram`): the sample is not stored, the gauges move anyway. -/
def sampleAtUnguarded (s : Ser) (g : G) (x : Smp) : Ser × G :=
  let x := convert s x
  if s.accepts x.t then (s.store x, bump g s.last x)
  else (s, match x.kind with
           | .hist => updNH g (s.last.kind = .hist) true s.last.bk x.nb
           | .float => g)

/-- The head: series by ref (position); `none` = evicted. -/
structure Head where
  ser : List (Option Ser) := []
  g : G := {}
deriving Repr, DecidableEq, Inhabited

def contrib : Option Ser → G
  | none => {}
  | some s => ⟨1, if s.last.stale then 1 else 0, if s.last.kind = .hist then 1 else 0, s.last.bk⟩

/-- What the head contains, recounted. -/
def recount : List (Option Ser) → G
  | [] => {}
  | o :: r => contrib o + recount r

inductive Op
  | create                       -- `getOrCreateWithOptionalID`: a new series (no sample yet)
  | sample (ref : Nat) (x : Smp) -- a commit / replay site reaches series `ref` with `x`
  | evict (ref : Nat)            -- `gc` / `gcSeries` drops the series
  | snapshotRestart              -- restart from a chunk snapshot: counters rebuilt from `sampleState()`
deriving Repr, DecidableEq, Inhabited

def Head.step (h : Head) : Op → Head
  | .create => { ser := h.ser ++ [some {}], g := { h.g with series := h.g.series + 1 } }
  | .sample ref x =>
    match h.ser[ref]? with
    | some (some s) =>
      let (s', g') := sampleAt s h.g x
      { ser := h.ser.set ref (some s'), g := g' }
    | _ => h                      -- unknown ref: the sample is dropped
  | .evict ref =>
    match h.ser[ref]? with
    | some (some s) => { ser := h.ser.set ref none, g := h.g - contrib (some s) }
    | _ => h
  | .snapshotRestart => { ser := h.ser, g := h.ser.foldl (fun g o => g + contrib o) {} }

def Head.run (h : Head) (ops : List Op) : Head := ops.foldl Head.step h

/-- A restart from the WAL: every logged record is replayed into an empty head, in log order; samples
    that are not in order at that point are skipped by the `sampleInOrder` guard. -/
def replay (log : List Op) : Head := ({} : Head).run log

/-- No sample of the history is widened in place. -/
def NoWiden : List Op → Prop
  | [] => True
  | .sample _ x :: r => x.sb = x.nb ∧ NoWiden r
  | _ :: r => NoWiden r

end Prom.HistGauges
