import PromModel.Tsdb.DbModel
/-
  C23, second part — what a start from the chunk snapshot does with the chunks that are NOT in the
  snapshot: the m-mapped chunks of `chunks_head/` (in-order and out-of-order) and the out-of-order head
  chunk, which only the WBL holds (tsdb/head.go `Head.Init`, `loadMmappedChunks`; tsdb/head_wal.go
  `loadChunkSnapshot`, `loadWBL`, `processWBLSamples`; tsdb/head_append.go `memSeries.insert`,
  `cutNewOOOHeadChunk`, `collectOOORecords`).

  The in-order model (Snapshot.lean on DbModel) keeps one sample list per series; here the layout is
  explicit, because the mechanism is about the layout:

    memSeries   = ref, m-mapped in-order chunks, in-order head chunk (`[]` = `headChunks == nil`),
                  m-mapped out-of-order chunks, out-of-order head chunk (`[]` = none);
    chunks_head = the chunks in write order, each with the series ref, the out-of-order flag and its
                  position (`ChunkDiskMapperRef`, increasing);
    WBL         = per accepted out-of-order sample one sample record; BEFORE the sample that opens a
                  new out-of-order head chunk an m-map marker with the position of the chunk just
                  written (`0` if nothing was written: first out-of-order chunk of the series);
    snapshot    = per series of the head: ref and the in-order head chunk — or "no head chunk".

  Start from the snapshot (`Disk.restart`):
    1. `loadChunkSnapshot` creates every series of the snapshot (so `h.series.getByID` finds it) and
       returns the map `refSeries`: ref ↦ series. WHICH snapshot series are in that map is the
       parameter `reg` — the code as found registers all of them (`regAll`), also those without head
       chunk (the `if csr.mc == nil { continue }` comes after `localRefSeries[csr.ref] = series`).
    2. `loadMmappedChunks(refSeries)`: a chunk whose series ref is in the map is attached to the
       series; otherwise it is parked in a map that only a WAL *series record* consumes
       (`resetSeriesWithMMappedChunks`) — behind a snapshot position there is none for this series.
    3. `loadWBL`: a sample record is inserted into the out-of-order head chunk of the series found
       by ref (cutting and m-mapping AGAIN when the chunk is full: `extra`); a marker whose position
       is not behind the last chunk on disk clears the out-of-order head chunk.
  Admission (which samples are in order / out of order / rejected), the rule that decides when an
  in-order chunk is full (`cut`, an oracle here), head compaction and the WAL are outside this file.
-/
namespace Prom.Db.Mm
open Prom.Db

structure Chunk where
  pos : Nat
  smps : List Smp
deriving DecidableEq, Repr, Inhabited

structure MSeries where
  ref : Nat
  mm : List Chunk := []
  head : List Smp := []
  oooMm : List Chunk := []
  oooHead : List Smp := []
deriving DecidableEq, Repr, Inhabited

inductive WblRec
  | smp (ref : Nat) (x : Smp)
  | mark (ref : Nat) (pos : Nat)
deriving DecidableEq, Repr

structure DiskChunk where
  ref : Nat
  ooo : Bool
  chunk : Chunk
deriving DecidableEq, Repr, Inhabited

/-- Function update. -/
def upd {α : Type} (f : Nat → α) (r : Nat) (v : α) : Nat → α := fun r' => if r' = r then v else f r'

/-- The live head: series by ref (`refs` = the refs in use, in creation order). -/
structure Live where
  cap : Nat                              -- OutOfOrderCapMax
  cut : Nat → List Smp → Smp → Bool      -- in-order: "the head chunk of series r is full before x"
  refs : List Nat := []
  series : Nat → MSeries := fun r => { ref := r }
  wbl : List WblRec := []
  disk : List DiskChunk := []
  nextPos : Nat := 1

def Live.touch (L : Live) (r : Nat) : List Nat := if L.refs.contains r then L.refs else L.refs ++ [r]

/-- `OOOChunk.Insert`: sorted by timestamp; a sample with a timestamp already present is refused. -/
def oooInsert (x : Smp) : List Smp → Option (List Smp)
  | [] => some [x]
  | y :: ys =>
    if x.t < y.t then some (x :: y :: ys)
    else if x.t = y.t then none
    else (oooInsert x ys).map (y :: ·)

/-- `memSeries.append` of an admitted in-order sample (a full head chunk is m-mapped at once: `Close`
    m-maps all but the newest chunk anyway, and nothing here depends on when). -/
def Live.appendIn (L : Live) (r : Nat) (x : Smp) : Live :=
  let s := L.series r
  if s.head ≠ [] ∧ L.cut r s.head x then
    let c : Chunk := ⟨L.nextPos, s.head⟩
    { L with refs := L.touch r, series := upd L.series r { s with mm := s.mm ++ [c], head := [x] },
             disk := L.disk ++ [⟨r, false, c⟩], nextPos := L.nextPos + 1 }
  else { L with refs := L.touch r, series := upd L.series r { s with head := s.head ++ [x] } }

/-- `memSeries.insert` of an admitted out-of-order sample + the WBL records of `commitFloats` /
    `collectOOORecords`. -/
def Live.insertOOO (L : Live) (r : Nat) (x : Smp) : Live :=
  let s := L.series r
  if s.oooHead = [] then
    { L with refs := L.touch r, series := upd L.series r { s with oooHead := [x] },
             wbl := L.wbl ++ [.mark r 0, .smp r x] }
  else if s.oooHead.length = L.cap then
    let c : Chunk := ⟨L.nextPos, s.oooHead⟩
    { L with refs := L.touch r, series := upd L.series r { s with oooMm := s.oooMm ++ [c], oooHead := [x] },
             wbl := L.wbl ++ [.mark r L.nextPos, .smp r x],
             disk := L.disk ++ [⟨r, true, c⟩], nextPos := L.nextPos + 1 }
  else
    match oooInsert x s.oooHead with
    | none => L
    | some h => { L with refs := L.touch r, series := upd L.series r { s with oooHead := h }, wbl := L.wbl ++ [.smp r x] }

inductive MOp
  | inorder (r : Nat) (x : Smp)
  | ooo (r : Nat) (x : Smp)
  | create (r : Nat)            -- series created by an append that is rolled back: no sample
deriving Repr

def Live.step (L : Live) : MOp → Live
  | .inorder r x => L.appendIn r x
  | .ooo r x => L.insertOOO r x
  | .create r => { L with refs := L.touch r }

def Live.run (L : Live) (ops : List MOp) : Live := ops.foldl Live.step L

def Live.list (L : Live) : List MSeries := L.refs.map L.series

/-! ### Disk and restart -/

structure Disk where
  cap : Nat
  snap : List (Nat × List Smp)      -- series records: ref, head chunk (`[]` = none)
  chunks : List DiskChunk
  wbl : List WblRec
deriving Repr

def lastPosOf (cs : List DiskChunk) : Nat := (cs.getLast?.map (·.chunk.pos)).getD 0

/-- Clean `Head.Close` with memory snapshot (the out-of-order head chunk is NOT written anywhere but
    the WBL). -/
def Live.close (L : Live) : Disk :=
  { cap := L.cap, snap := L.refs.map fun r => (r, (L.series r).head), chunks := L.disk, wbl := L.wbl }

structure RSt where
  heads : Nat → List Smp
  extra : List DiskChunk
  np : Nat

def replayStep (cap lastPos : Nat) (known : Nat → Bool) (st : RSt) : WblRec → RSt
  | .smp r x =>
    if !known r then st else
    let h := st.heads r
    if h = [] then { st with heads := upd st.heads r [x] }
    else if h.length = cap then
      { heads := upd st.heads r [x], extra := st.extra ++ [⟨r, true, ⟨st.np, h⟩⟩], np := st.np + 1 }
    else
      match oooInsert x h with
      | none => st
      | some h' => { st with heads := upd st.heads r h' }
  | .mark r p => if !known r ∨ lastPos < p then st else { st with heads := upd st.heads r [] }

def chunksOf (cs : List DiskChunk) (r : Nat) (ooo : Bool) : List Chunk :=
  (cs.filter fun c => c.ref = r ∧ c.ooo = ooo).map (·.chunk)

def replay (d : Disk) : RSt :=
  d.wbl.foldl (replayStep d.cap (lastPosOf d.chunks) fun r => d.snap.any (·.1 = r)) ⟨fun _ => [], [], lastPosOf d.chunks + 1⟩

/-- `Head.Init` from the snapshot; `reg` = which snapshot series `loadChunkSnapshot` puts into the
    ref ↦ series map handed to `loadMmappedChunks`. -/
def Disk.restart (reg : Nat × List Smp → Bool) (d : Disk) : List MSeries :=
  let R := replay d
  d.snap.map fun p =>
    { ref := p.1,
      mm := if reg p then chunksOf d.chunks p.1 false else [],
      head := p.2,
      oooMm := (if reg p then chunksOf d.chunks p.1 true else []) ++ chunksOf R.extra p.1 true,
      oooHead := R.heads p.1 }

/-- The code as found: every series of the snapshot is registered. -/
def regAll : Nat × List Smp → Bool := fun _ => true

/-- The variant that registers a series only when its record carries a head chunk. -/
def regIfHead : Nat × List Smp → Bool := fun p => !p.2.isEmpty

/-- All samples a series holds (what a query merges). -/
def MSeries.samples (s : MSeries) : List Smp :=
  s.mm.flatMap (·.smps) ++ s.head ++ s.oooMm.flatMap (·.smps) ++ s.oooHead

end Prom.Db.Mm
