import PromModel.Tsdb.Retention
/-
  C09 as a decidable predicate on *observed* deletions (statement-as-oracle).  Nothing here calls the
  transcribed retention functions: the clauses are phrased over sets of block ids, the blocks' MaxTime
  and sizes, so they do not depend on how (or whether) the implementation sorts.

  The only shared definition is `effMaxBytes` (how a percentage + filesystem size turns into a byte
  limit), which is part of the *input* interpretation, not of the decision which blocks to delete.
-/
namespace Prom.Retention

def sumSizes (bs : List Blk) : Int := (bs.map (·.size)).foldr (· + ·) 0

/-- MaxTime of the newest block (0 for no blocks). -/
def newestMax : List Blk → Int
  | [] => 0
  | b :: bs => bs.foldr (fun x m => max x.maxt m) b.maxt

/-- Hypotheses under which the int64 arithmetic of the Go code is exact. -/
def timeInRange (bs : List Blk) : Bool :=
  bs.all fun a => bs.all fun b => decide (I64 (a.maxt - b.maxt))

def sizeInRange (head : Int) (bs : List Blk) : Bool :=
  decide (0 ≤ head) && bs.all (fun b => decide (0 ≤ b.size)) && decide (head + sumSizes bs < two63)

/-- "Expired": at least `R` older than the newest block. -/
def expired (R : Int) (bs : List Blk) (b : Blk) : Bool :=
  decide (R > 0) && decide (newestMax bs - b.maxt ≥ R)

/-- Clause *time*: the set `T` of ids deleted by time retention is exactly the expired blocks.
    For a negative duration (outside the statement; the code then keeps only its first block) exactly
    one block survives and it is a newest one. -/
def timeOk (R : Int) (bs : List Blk) (T : List Nat) : Bool :=
  if R > 0 then bs.all fun b => T.contains b.id == expired R bs b
  else if R = 0 then bs.all fun b => !T.contains b.id
  else
    let kept := bs.filter fun b => !T.contains b.id
    (kept.length == (if bs.isEmpty then 0 else 1)) && kept.all fun b => b.maxt == newestMax bs

/-- Clause *size*: the kept blocks are a longest newest-first run within the limit.  Order-free form:
    (i) no deleted block is strictly newer than a kept one, (ii) the kept blocks plus the head fit,
    (iii) one of the newest deleted blocks would not have fitted any more. -/
def sizeOk (limit head : Int) (bs : List Blk) (S : List Nat) : Bool :=
  let D := bs.filter fun b => S.contains b.id
  let K := bs.filter fun b => !S.contains b.id
  if limit ≤ 0 then D.isEmpty
  else
    (K.all fun k => D.all fun d => decide (d.maxt ≤ k.maxt))
    && (K.isEmpty || decide (head + sumSizes K ≤ limit))
    && (D.isEmpty || D.any fun d => (D.all fun d' => decide (d'.maxt ≤ d.maxt)) && decide (head + sumSizes K + d.size > limit))

/-- Clause *compose*: deletableBlocks = flagged ∪ time ∪ size. -/
def composeOk (bs : List Blk) (T S A : List Nat) : Bool :=
  bs.all fun b => A.contains b.id == (b.deletable || T.contains b.id || S.contains b.id)

/-- Clause *oldest first*: nothing deleted by retention is strictly newer than something retention keeps. -/
def suffixOk (bs : List Blk) (Del : List Nat) : Bool :=
  bs.all fun d => !Del.contains d.id || bs.all fun k => Del.contains k.id || decide (d.maxt ≤ k.maxt)

def idsValid (bs : List Blk) (ids : List Nat) : Bool := ids.all fun i => bs.any fun b => b.id == i

/-- Function-level statement (one call of deletableBlocks / BeyondTimeRetention / BeyondSizeRetention).
    `none` = holds, `some sig` = the clause that fails. -/
def holdsFast (s : Settings) (bs : List Blk) (T S A : List Nat) : Option String :=
  if !(idsValid bs T && idsValid bs S && idsValid bs A) then some "unknown-block"
  else if timeInRange bs && !timeOk s.retention bs T then some "time-exact"
  else if sizeInRange s.headSize bs && !sizeOk (effMaxBytes s) s.headSize bs S then some "size-exact"
  else if !composeOk bs T S A then some "compose"
  else if timeInRange bs && sizeInRange s.headSize bs && !suffixOk bs (T ++ S) then some "newer-deleted"
  else if s.retention = 0 && effMaxBytes s ≤ 0 && !(bs.all fun b => A.contains b.id == b.deletable) then some "disabled-deletes"
  else none

/-! ### reload level -/

/-- Blocks named as a compaction parent by some block of the layout. -/
def superseded (bs : List Blk) (b : Blk) : Bool := bs.any fun c => c.parents.contains b.id

/-- Verdict of the reload-level statement on the set `D` of block ids whose directories disappeared in
    one `reloadBlocks` over the blocks `bs`.  `none` = holds. -/
def holdsReload (s : Settings) (bs : List Blk) (D : List Nat) : Option String :=
  let gone (b : Blk) := D.contains b.id
  let garbage (b : Blk) := superseded bs b || b.deletable
  let R := s.retention
  let L := effMaxBytes s
  let K := bs.filter fun b => !gone b
  let inRange := timeInRange bs && sizeInRange s.headSize bs
  if !idsValid bs D then some "unknown-block"
  else if let some b := bs.find? (fun b => superseded bs b && !gone b) then some s!"superseded-kept block={b.id}"
  else if let some b := bs.find? (fun b => b.deletable && !gone b) then some s!"flagged-kept block={b.id}"
  else if !inRange then none
  else if R < 0 then
    (if K.length ≤ 1 && K.all (fun b => b.maxt == newestMax bs) then none else some "negative-retention")
  else if let some b := bs.find? (fun b => expired R bs b && !gone b) then some s!"expired-kept block={b.id}"
  else
    -- live, unexpired blocks that were deleted: only the size limit can justify them
    let extra := bs.filter fun b => gone b && !garbage b && !expired R bs b
    if L ≤ 0 then
      (match extra with | [] => none | b :: _ => some s!"unexpired-deleted block={b.id}")
    else if let some d := bs.find? (fun d => gone d && !garbage d && K.any fun k => decide (k.maxt < d.maxt)) then
      some s!"newer-deleted block={d.id}"
    else if !K.isEmpty && s.headSize + sumSizes K > L then some "over-limit"
    else match extra with
      | [] => none
      | e :: _ =>
        let top := extra.filter fun d => extra.all fun d' => decide (d'.maxt ≤ d.maxt)
        if top.any fun d => decide (s.headSize + sumSizes K + d.size > L) then none
        else
          -- would it be justified if blocks that are deleted anyway (superseded parents, flagged, expired)
          -- and are at least as new were counted against the limit, as the code does?
          let counted (d : Blk) := sumSizes (bs.filter fun f => gone f && !(extra.any fun x => x.id == f.id) && decide (d.maxt ≤ f.maxt))
          if top.any fun d => decide (s.headSize + sumSizes K + counted d + d.size > L) then
            some s!"size-premature explained-by=counting-deleted-blocks block={e.id}"
          else some s!"size-premature unexplained block={e.id}"

end Prom.Retention
