import PromModel.Tsdb.ChunkXor
/-
  Model of the XOR2 float chunk with optional start timestamps (`tsdb/chunkenc/xor2.go`, header helpers of
  `st.go`).

  chunk bytes = 2-byte big-endian sample count ++ 1 ST header byte ++ `toBytes` of the bit stream.
  ST header:  bit 7 `firstSTKnown` (sample 0 carries an ST), bits 6-0 `firstSTChangeOn` (index of the first
              sample that carries an ST difference; every later sample carries one too; forced at index 127).
  sample 0:   varint t, 64 value bits, [varint (t - st) if st ≠ 0]
  sample 1:   uvarint tDelta, value code `<varbit_xor2>`, [varbit (prevT - st) if st changed]
  sample ≥2:  joint control `0 | 10 | 110·13 | 1110·20 | 11110·64 | 11111`, value code, then
              [varbit stDiff]           at index firstSTChangeOn,
              [varbit (stDiff - prev)]  after it.
  value codes: `<varbit_xor2>`    = `0` same | `10` window reuse | `110` new window | `111` stale NaN
               `<varbit_xor2_nn>` = `0` window reuse | `1` new window        (after control `10`)
  The XOR baseline is the last value that was not a staleness marker (`a.v` / `it.baselineV`).

  The appender's inlined fast paths (`writeByte` pairs, the fused `0`+ST writes, the inlined small
  `putVarbitIntFast` ranges) emit the same bits as the general path; the model has one formula for them and
  the byte-exact tie checks that equality on every run.
  Timestamps are `Int` (int64 range) with explicit wrap-around, values are 64-bit patterns as `Nat`.
-/
namespace Prom.ChunkXor2
open Prom.Bits Prom.Varbit Prom.ChunkXor

/-- `value.StaleNaN`. -/
def staleNaN : Nat := 0x7ff0000000000002

/-- int64 wrap-around of an integer expression. -/
def wrapI (x : Int) : Int := toI (toU x)

/-- `xor2Appender` (without `b` and `numTotal`). -/
structure App where
  st : Int
  t : Int
  v : Nat          -- XOR baseline: last non-stale value
  tDelta : Nat
  stDiff : Int
  leading : Nat
  trailing : Nat
  fsco : Nat       -- firstSTChangeOn
  known : Bool     -- firstSTKnown
deriving Repr, DecidableEq, Inhabited

/-- `&xor2Appender{t: math.MinInt64, leading: 0xff}`. -/
def appInit : App := ⟨0, MinI64, 0, 0, 0, 255, 0, 0, false⟩

/-- The leading/trailing window decision shared by `writeVDelta` and `writeVDeltaKnownNonZero` for a
    non-zero `delta`: (new window?, payload bits, leading, trailing). -/
def winWrite (delta l t : Nat) : Bool × Bits × Nat × Nat :=
  let nl := min (clz64 delta) 31
  let nt := ctz64 delta
  if l ≠ 255 ∧ nl ≥ l ∧ nt ≥ t then (false, natToBits (delta >>> t) (64 - l - t), l, t)
  else
    let sig := 64 - nl - nt
    (true, natToBits nl 5 ++ (natToBits sig 6 ++ natToBits (delta >>> nt) sig), nl, nt)

/-- `writeVDelta` (`<varbit_xor2>`): bits, leading, trailing. `av` is the baseline. -/
def writeVDelta (av l t v : Nat) : Bits × Nat × Nat :=
  if v = staleNaN then ([true, true, true], l, t)
  else if v ^^^ av = 0 then ([false], l, t)
  else
    let w := winWrite (v ^^^ av) l t
    ((if w.1 then [true, true, false] else [true, false]) ++ w.2.1, w.2.2)

/-- `writeVDeltaKnownNonZero` (`<varbit_xor2_nn>`). -/
def writeVDeltaNN (delta l t : Nat) : Bits × Nat × Nat :=
  let w := winWrite delta l t
  (w.1 :: w.2.1, w.2.2)

/-- The byte-packed / escaped delta-of-delta part of `encodeJoint` for `dod ≠ 0`. -/
def dodBits2 (dod : Int) : Bits :=
  if -4096 ≤ dod ∧ dod ≤ 4095 then true :: true :: false :: natToBits (toU dod) 13
  else if -524288 ≤ dod ∧ dod ≤ 524287 then true :: true :: true :: false :: natToBits (toU dod) 20
  else true :: true :: true :: true :: false :: natToBits (toU dod) 64

/-- `encodeJoint(dod, v)`. -/
def encodeJoint (av l t : Nat) (dod : Int) (v : Nat) : Bits × Nat × Nat :=
  if dod = 0 then
    if v = staleNaN then ([true, true, true, true, true], l, t)
    else if v ^^^ av = 0 then ([false], l, t)
    else
      let w := writeVDeltaNN (v ^^^ av) l t
      (true :: false :: w.1, w.2)
  else if v = av then (dodBits2 dod ++ [false], l, t)
  else
    let w := writeVDelta av l t v
    (dodBits2 dod ++ w.1, w.2)

/-- The timestamp+value part of the two fast paths of `Append` (their three-way `switch`). -/
def tvBits (av l t : Nat) (dod : Int) (v : Nat) : Bits × Nat × Nat :=
  if dod = 0 ∧ v = av then ([false], l, t)
  else if -4096 ≤ dod ∧ dod ≤ 4095 ∧ v = av then
    (true :: true :: false :: (natToBits (toU dod) 13 ++ [false]), l, t)
  else encodeJoint av l t dod v

/-- `if !value.IsStaleNaN(v) { a.v = v }`. -/
def baseOf (av v : Nat) : Nat := if v = staleNaN then av else v

/-- (st, t, value bits) -/
abbrev Sample3 := Int × Int × Nat

/-- `dod := int64(uint64(t - a.t) - a.tDelta)`. -/
def dodOf (a : App) (t : Int) : Int := toI ((toU (t - a.t) + two64 - a.tDelta) % two64)

/-- Fast path of the `default:` case: no ST data for this sample. -/
def encFast (a : App) (t : Int) (v : Nat) : Bits × App :=
  ((tvBits a.v a.leading a.trailing (dodOf a t) v).1,
   { a with t := t, v := baseOf a.v v, tDelta := toU (t - a.t),
            leading := (tvBits a.v a.leading a.trailing (dodOf a t) v).2.1,
            trailing := (tvBits a.v a.leading a.trailing (dodOf a t) v).2.2 })

/-- Active-ST path: every sample carries the change of `(prevT - st)`. -/
def encActive (a : App) (st t : Int) (v : Nat) : Bits × App :=
  ((tvBits a.v a.leading a.trailing (dodOf a t) v).1 ++ putVarbitInt (wrapI (wrapI (a.t - st) - a.stDiff)),
   { a with st := st, t := t, v := baseOf a.v v, tDelta := toU (t - a.t), stDiff := wrapI (a.t - st),
            leading := (tvBits a.v a.leading a.trailing (dodOf a t) v).2.1,
            trailing := (tvBits a.v a.leading a.trailing (dodOf a t) v).2.2 })

/-- Slow path: `firstSTChangeOn == 0`; the ST difference is written when the ST changed or the sample
    index is 127 (`chg`). -/
def encSlow (num : Nat) (chg : Bool) (a : App) (st t : Int) (v : Nat) : Bits × App :=
  ((encodeJoint a.v a.leading a.trailing (dodOf a t) v).1 ++ (if chg then putVarbitInt (wrapI (a.t - st)) else []),
   { a with st := st, t := t, v := baseOf a.v v, tDelta := toU (t - a.t),
            stDiff := if chg then wrapI (a.t - st) else 0,
            leading := (encodeJoint a.v a.leading a.trailing (dodOf a t) v).2.1,
            trailing := (encodeJoint a.v a.leading a.trailing (dodOf a t) v).2.2,
            fsco := if chg then num else a.fsco })

/-- `xor2Appender.Append(st, t, v)`, the `default:` case (`num ≥ 2` samples already in the chunk). -/
def encNext (num : Nat) (a : App) (st t : Int) (v : Nat) : Bits × App :=
  if a.fsco = 0 ∧ st = a.st ∧ num ≠ 127 then encFast a t v
  else if a.fsco > 0 then encActive a st t v
  else encSlow num (decide (st ≠ a.st ∨ num = 127)) a st t v

/-- `xor2Appender.Append(st, t, v)` when the chunk already holds `num` samples (`num < 65535`):
    emitted bits and new state. -/
def encSample (num : Nat) (a : App) (st t : Int) (v : Nat) : Bits × App :=
  match num with
  | 0 =>
    (putVarint t ++ (natToBits v 64 ++ (if st ≠ 0 then putVarint (wrapI (t - st)) else [])),
     { a with st := st, t := t, v := baseOf a.v v, tDelta := 0, stDiff := 0, known := a.known || decide (st ≠ 0) })
  | 1 =>
    let td := toU (t - a.t)
    let w := writeVDelta a.v a.leading a.trailing v
    let chg := decide (st ≠ a.st)
    let sd := if chg then wrapI (a.t - st) else 0
    (putUvarint td ++ (w.1 ++ (if chg then putVarbitInt sd else [])),
     { a with st := st, t := t, v := baseOf a.v v, tDelta := td, stDiff := sd,
              leading := w.2.1, trailing := w.2.2, fsco := if chg then 1 else a.fsco })
  | n + 2 => encNext (n + 2) a st t v

/-- The ST header byte for an appender state (`writeHeaderFirstSTKnown`, `writeHeaderFirstSTChangeOn`:
    an index above 127 is not written). -/
def hdrByte (a : App) : Nat := (if a.known then 128 else 0) + (if a.fsco ≤ 127 then a.fsco else 0)

/-! ### Iterator -/

/-- `xor2Iterator` state (without reader, counters and header fields). -/
structure Dec where
  st : Int
  t : Int
  val : Nat
  base : Nat       -- baselineV
  tDelta : Nat
  stDiff : Int
  leading : Nat
  trailing : Nat
deriving Repr, DecidableEq, Inhabited

/-- `xor2Iterator.Reset`. -/
def decInit : Dec := ⟨0, 0, 0, 0, 0, 0, 0, 0⟩

/-- Window payload reader (`decodeNewLeadingTrailing` / the reuse branch), uint8 arithmetic as in Go:
    new baseline, leading, trailing, rest. -/
def winRead (isNew : Bool) (base l t : Nat) (bits : Bits) : Option (Nat × Nat × Nat × Bits) :=
  if isNew then
    match readBits 5 bits with
    | none => none
    | some (nl, r1) =>
      match readBits 6 r1 with
      | none => none
      | some (mb0, r2) =>
        let mb := if mb0 = 0 then 64 else mb0
        let nt := (64 + 256 - nl - mb) % 256
        match readBits mb r2 with
        | none => none
        | some (b, r3) => some (base ^^^ ((b <<< nt) % two64), nl, nt, r3)
  else
    let m := (64 + 512 - l - t) % 256
    match readBits m bits with
    | none => none
    | some (b, r') => some (base ^^^ ((b <<< t) % two64), l, t, r')

/-- `decodeValue` (`<varbit_xor2>`): (val, base, leading, trailing, rest). -/
def decodeValue (base l t : Nat) (bits : Bits) : Option (Nat × Nat × Nat × Nat × Bits) :=
  match bits with
  | [] => none
  | false :: r => some (base, base, l, t, r)
  | [true] => none
  | true :: false :: r =>
    match winRead false base l t r with
    | none => none
    | some (v, l', t', r') => some (v, v, l', t', r')
  | [true, true] => none
  | true :: true :: false :: r =>
    match winRead true base l t r with
    | none => none
    | some (v, l', t', r') => some (v, v, l', t', r')
  | true :: true :: true :: r => some (staleNaN, base, l, t, r)

/-- `decodeValueKnownNonZero` (`<varbit_xor2_nn>`). -/
def decodeValueNN (base l t : Nat) (bits : Bits) : Option (Nat × Nat × Nat × Nat × Bits) :=
  match bits with
  | [] => none
  | b :: r =>
    match winRead b base l t r with
    | none => none
    | some (v, l', t', r') => some (v, v, l', t', r')

/-- `readDod(w)`: the new `tDelta` (symmetric sign extension, wrap-around addition). -/
def readDod2 (w tDelta : Nat) (bits : Bits) : Option (Nat × Bits) :=
  match readBits w bits with
  | none => none
  | some (b, r) =>
    let b' := if w < 64 ∧ b ≥ 2 ^ (w - 1) then b + two64 - 2 ^ w else b
    some ((tDelta + b') % two64, r)

def advT (t : Int) (td : Nat) : Int := toI ((toU t + td) % two64)

/-- Timestamp and value part of `Next` for sample ≥ 2: (t, val, base, tDelta, leading, trailing, rest). -/
def decTV (d : Dec) (bits : Bits) : Option (Int × Nat × Nat × Nat × Nat × Nat × Bits) :=
  match readPrefix 5 bits with
  | none => none
  | some (0, r) => some (advT d.t d.tDelta, d.base, d.base, d.tDelta, d.leading, d.trailing, r)
  | some (1, r) =>
    match decodeValueNN d.base d.leading d.trailing r with
    | none => none
    | some (v, b, l, tr, r') => some (advT d.t d.tDelta, v, b, d.tDelta, l, tr, r')
  | some (5, r) => some (advT d.t d.tDelta, staleNaN, d.base, d.tDelta, d.leading, d.trailing, r)
  | some (k, r) =>
    match readDod2 (if k = 2 then 13 else if k = 3 then 20 else 64) d.tDelta r with
    | none => none
    | some (td, r1) =>
      match decodeValue d.base d.leading d.trailing r1 with
      | none => none
      | some (v, b, l, tr, r') => some (advT d.t td, v, b, td, l, tr, r')

/-- The optional ST data behind the timestamp+value code of sample `numRead ≥ 2`: `d` is the state before
    the sample (`prevT = d.t`), `d1` the state after its timestamp and value were read. -/
def decST (fsco numRead : Nat) (d d1 : Dec) (r1 : Bits) : Option (Dec × Bits) :=
  if fsco > 0 ∧ numRead ≥ fsco then
    match readVarbitInt r1 with
    | none => none
    | some (sdod, r2) =>
      let sd := if numRead = fsco then sdod else wrapI (d.stDiff + sdod)
      some ({ d1 with stDiff := sd, st := wrapI (d.t - sd) }, r2)
  else some (d1, r1)

/-- `xor2Iterator.Next` for sample `numRead ≥ 2`. -/
def decNext (fsco numRead : Nat) (d : Dec) (bits : Bits) : Option (Dec × Bits) :=
  match decTV d bits with
  | none => none
  | some (t, v, b, td, l, tr, r1) =>
    decST fsco numRead d { d with t := t, val := v, base := b, tDelta := td, leading := l, trailing := tr } r1

/-- `xor2Iterator.Next` when `numRead` samples were read, for a chunk whose ST header says
    `(known, fsco)`: new state and remaining bits; `none` = error. -/
def decSample (known : Bool) (fsco numRead : Nat) (d : Dec) (bits : Bits) : Option (Dec × Bits) :=
  match numRead with
  | 0 =>
    match readVarint false bits with
    | none => none
    | some (t, r) =>
      match readBits 64 r with
      | none => none
      | some (v, r1) =>
        let d1 := { d with t := t, val := v, base := baseOf d.base v }
        if known then
          match readVarint false r1 with
          | none => none
          | some (sd, r2) => some ({ d1 with st := wrapI (t - sd) }, r2)
        else some (d1, r1)
  | 1 =>
    match readUvarint false bits with
    | none => none
    | some (td, r) =>
      match decodeValue d.base d.leading d.trailing r with
      | none => none
      | some (v, b, l, tr, r1) =>
        let d1 := { d with t := advT d.t td, val := v, base := b, tDelta := td, leading := l, trailing := tr }
        if fsco = 1 then
          match readVarbitInt r1 with
          | none => none
          | some (sdod, r2) => some ({ d1 with stDiff := sdod, st := wrapI (d.t - sdod) }, r2)
        else some (d1, r1)
  | n + 2 => decNext fsco (n + 2) d bits

/-- Bits of a sample sequence appended to a chunk holding `num` samples with appender state `a`. -/
def encodeFrom (num : Nat) (a : App) : List Sample3 → Bits
  | [] => []
  | (st, t, v) :: ss =>
    let r := encSample num a st t v
    r.1 ++ encodeFrom (num + 1) r.2 ss

/-- Appender state after appending a sample sequence. -/
def encState (num : Nat) (a : App) : List Sample3 → App
  | [] => a
  | (st, t, v) :: ss => encState (num + 1) (encSample num a st t v).2 ss

def encode (ss : List Sample3) : Bits := encodeFrom 0 appInit ss

/-- `chunk.Bytes()`: sample count, ST header byte, packed stream. -/
def chunkBytes (num hdr : Nat) (bits : Bits) : List Nat :=
  (num / 256 % 256) :: (num % 256) :: hdr :: toBytes bits

/-- The bytes of a fresh chunk after appending `ss`. -/
def encodeBytes (ss : List Sample3) : List Nat :=
  chunkBytes ss.length (hdrByte (encState 0 appInit ss)) (encode ss)

/-- Iterate `n` further samples: decoded samples, final state, rest, `ok`. -/
def decodeFrom (known : Bool) (fsco : Nat) : Nat → Nat → Dec → Bits → List Sample3 × Dec × Bits × Bool
  | 0, _, d, bits => ([], d, bits, true)
  | n + 1, k, d, bits =>
    match decSample known fsco k d bits with
    | none => ([], d, bits, false)
    | some (d', rest) =>
      let r := decodeFrom known fsco n (k + 1) d' rest
      ((d'.st, d'.t, d'.val) :: r.1, r.2)

/-- Read a chunk's bytes with a fresh iterator until `Next` returns `ValNone`. -/
def decodeChunk (bytes : List Nat) : List Sample3 × Bool :=
  match bytes with
  | h :: l :: hdr :: rest =>
    let r := decodeFrom (decide (hdr ≥ 128)) (hdr % 128) (h * 256 + l) 0 decInit (fromBytes rest)
    (r.1, r.2.2.2)
  | _ => ([], false)

/-! ### Iterator object (`Next` / `Seek` / `At` / `AtST`) -/

structure Iter where
  numTotal : Nat
  numRead : Nat
  known : Bool
  fsco : Nat
  st : Dec
  bits : Bits
  err : Bool
deriving Repr

/-- `chunk.Iterator(it)` on the given chunk bytes (a reused iterator object is `Reset`: the same). -/
def iterNew (bytes : List Nat) : Iter :=
  match bytes with
  | h :: l :: hdr :: rest => ⟨h * 256 + l, 0, decide (hdr ≥ 128), hdr % 128, decInit, fromBytes rest, false⟩
  | _ => ⟨0, 0, false, 0, decInit, [], true⟩

def iterNext (it : Iter) : Iter × Bool :=
  if it.err ∨ it.numRead = it.numTotal then (it, false)
  else match decSample it.known it.fsco it.numRead it.st it.bits with
    | none => ({ it with err := true }, false)
    | some (d, rest) => ({ it with numRead := it.numRead + 1, st := d, bits := rest }, true)

/-- `for t > it.t || it.numRead == 0 { if it.Next() == ValNone { return ValNone } }` with fuel. -/
def seekLoop : Nat → Iter → Int → Iter × Bool
  | 0, it, _ => (it, false)
  | f + 1, it, t =>
    if t > it.st.t ∨ it.numRead = 0 then
      match iterNext it with
      | (it', false) => (it', false)
      | (it', true) => seekLoop f it' t
    else (it, true)

def iterSeek (it : Iter) (t : Int) : Iter × Bool :=
  if it.err then (it, false) else seekLoop (it.numTotal + 2) it t

/-! ### Chunk object with an attached appender (`FromData` / `Pool.Get` + `Appender()`) -/

/-- The bit stream is kept reversed so that appending is cheap when executed. -/
structure Chunk where
  num : Nat
  rbits : Bits
  app : App
deriving Repr

def Chunk.empty : Chunk := ⟨0, [], appInit⟩

def Chunk.bits (c : Chunk) : Bits := c.rbits.reverse

def Chunk.bytes (c : Chunk) : List Nat := chunkBytes c.num (hdrByte c.app) c.bits

/-- `app.Append(st, t, v)`; Go panics with "chunk capacity exceeded" at 65535 samples. -/
def Chunk.append (c : Chunk) (st t : Int) (v : Nat) : Except ChunkXor.Err Chunk :=
  if c.num = 65535 then .error .panic
  else
    let r := encSample c.num c.app st t v
    .ok ⟨c.num + 1, r.1.reverse ++ c.rbits, r.2⟩

def Chunk.appendAll (c : Chunk) : List Sample3 → Except ChunkXor.Err Chunk
  | [] => .ok c
  | (st, t, v) :: ss =>
    match c.append st t v with
    | .error e => .error e
    | .ok c' => c'.appendAll ss

/-- The appender `XOR2Chunk.Appender()` builds from the iterator that read everything. -/
def appOfDec (known : Bool) (fsco : Nat) (d : Dec) : App :=
  ⟨d.st, d.t, d.base, d.tDelta, d.stDiff, d.leading, d.trailing, fsco, known⟩

/-- `FromData(EncXOR2, bytes)` (or `Pool.Get`) followed by `Appender()`: the state is rebuilt by iterating,
    `c.b.count = it.br.valid` frees the unread padding bits of the last byte. `none` = error. -/
def reopen (bytes : List Nat) : Option Chunk :=
  match bytes with
  | [_, _, _] => some Chunk.empty
  | h :: l :: hdr :: rest =>
    let num := h * 256 + l
    let all := fromBytes rest
    let known := decide (hdr ≥ 128)
    let r := decodeFrom known (hdr % 128) num 0 decInit all
    if r.2.2.2 then
      let valid := r.2.2.1.length
      some ⟨num, (all.take (all.length - valid)).reverse, appOfDec known (hdr % 128) r.2.1⟩
    else none
  | _ => none

end Prom.ChunkXor2
