/-
  Out-of-order head chunks, their WBL m-map markers and the restart (property C04).

  Transcribes, for ONE series with float samples and a fixed `OutOfOrderCapMax`:
    * `memSeries.insert` / `cutNewOOOHeadChunk` / `mmapCurrentOOOHeadChunk` (tsdb/head_append.go): a sample goes
      into the out-of-order head chunk; when there is no head chunk, or it holds `cap` samples, the head chunk (if
      any) is written to the head-chunk file first (`ChunkDiskMapper.WriteChunk`, reference = (file sequence,
      offset)) and a new head chunk is started;
    * `headAppender.Commit` / `collectOOORecords`: the WBL gets the samples, and BEFORE the sample that started a
      new head chunk an m-map marker with the reference of the chunk just written (reference 0 when nothing was
      written);
    * `ChunkDiskMapper.IterateAllChunks` as far as `loadWBL` depends on it: `lastMmapRef` = reference of the last
      chunk (of any series) loaded from chunks_head, (0,0) when none;
    * `loadWBL` (tsdb/head_wal.go), `case []record.RefMmapMarker` + `processWBLSamples`: a marker whose
      reference is behind `lastMmapRef` — `seq > lastSeq || (seq == lastSeq && off > lastOff)` — is ignored (its
      chunk did not survive: the samples replayed so far stay in the head chunk); any other marker sets
      `oooHeadChunk = nil`; samples are inserted exactly as on the write path, which may m-map again.

  Chunks of other series / in-order chunks in the same files are `Chunk` entries without out-of-order content
  (they only move `lastMmapRef` and the offsets).  Core Lean only.
-/
namespace Prom.OooMarkers

/-- `chunks.ChunkDiskMapperRef` unpacked: (head-chunk file sequence, byte offset in the file). -/
abbrev Ref := Nat × Nat

/-- `a` lies before `b` (file sequence first, then offset). -/
def Ref.lt (a b : Ref) : Bool := a.1 < b.1 || (a.1 == b.1 && a.2 < b.2)

inductive WRec
  | samples (xs : List Nat)      -- sample identities (timestamps are distinct; values do not matter here)
  | marker (r : Ref)
deriving Repr, DecidableEq

structure Chunk where
  ref : Ref
  ooo : Option (List Nat)        -- `some xs`: an out-of-order chunk of the series; `none`: any other chunk
deriving Repr, DecidableEq

structure Writer where
  head : List Nat := []          -- out-of-order head chunk ([] = none)
  next : Ref := (1, 8)           -- where the next chunk is written (file 000001 behind its 8 byte header)
  disk : List Chunk := []        -- chunks written so far, oldest first
  wbl : List WRec := []
deriving Repr, DecidableEq

inductive Op
  | insert (x : Nat)             -- one committed out-of-order sample
  | other (len : Nat)            -- a chunk of another kind is written (in-order m-mapping, another series)
  | newFile                      -- the chunk disk mapper cuts a new file (restart, size limit)
deriving Repr, DecidableEq

/-- Bytes a chunk with `n` units of payload occupies (any positive function would do). -/
def chunkSize (n : Nat) : Nat := 30 + n

def step (cap : Nat) (w : Writer) : Op → Writer
  | .insert x =>
    if w.head = [] then
      -- no head chunk: nothing is written, the marker carries reference 0
      { w with head := [x], wbl := w.wbl ++ [.marker (0, 0), .samples [x]] }
    else if w.head.length = cap then
      { head := [x], next := (w.next.1, w.next.2 + chunkSize w.head.length),
        disk := w.disk ++ [⟨w.next, some w.head⟩], wbl := w.wbl ++ [.marker w.next, .samples [x]] }
    else { w with head := w.head ++ [x], wbl := w.wbl ++ [.samples [x]] }
  | .other len => { w with next := (w.next.1, w.next.2 + chunkSize len), disk := w.disk ++ [⟨w.next, none⟩] }
  | .newFile => { w with next := (w.next.1 + 1, 8) }

def run (cap : Nat) (ops : List Op) : Writer := ops.foldl (step cap) {}

def inserted (ops : List Op) : List Nat := ops.filterMap fun | .insert x => some x | _ => none

/-! ### Restart -/

/-- `lastMmapRef`: the last chunk loaded from chunks_head. -/
def lastRef (kept : List Chunk) : Ref := (kept.getLast?.map (·.ref)).getD (0, 0)

/-- `loadWBL`: is the marker acted upon?  (`!(seq > lastSeq || (seq == lastSeq && off > lastOff))`) -/
def honourReal (last m : Ref) : Bool := !(m.1 > last.1 || (m.1 == last.1 && m.2 > last.2))

/-- The comparison without the offset ("files are only ever dropped as a whole"). -/
def honourSeqOnly (last m : Ref) : Bool := !(m.1 > last.1)

structure Replay where
  head : List Nat := []
  remapped : List (List Nat) := []     -- chunks m-mapped again by the replay itself
deriving Repr, DecidableEq

def rInsert (cap : Nat) (r : Replay) (x : Nat) : Replay :=
  if r.head = [] then { r with head := [x] }
  else if r.head.length = cap then { head := [x], remapped := r.remapped ++ [r.head] }
  else { r with head := r.head ++ [x] }

def rStep (cap : Nat) (honour : Ref → Bool) (r : Replay) : WRec → Replay
  | .samples xs => xs.foldl (rInsert cap) r
  | .marker m => if honour m then { r with head := [] } else r

def replay (cap : Nat) (honour : Ref → Bool) (wbl : List WRec) : Replay := wbl.foldl (rStep cap honour) {}

/-- The out-of-order samples of the series a query returns after the restart: the surviving out-of-order
    chunks, the chunks the replay m-mapped again and the head chunk. -/
def recovered (cap : Nat) (honour : Ref → Ref → Bool) (kept : List Chunk) (wbl : List WRec) : List Nat :=
  let r := replay cap (honour (lastRef kept)) wbl
  (kept.filterMap (·.ooo)).flatten ++ r.remapped.flatten ++ r.head

/-- Head-chunk files after a damage that is not detected as one, or whose detection drops the damaged file
    and everything behind it: the chunks before `cutoff` (a truncation of the newest file at a chunk boundary,
    `DeleteCorrupted`, a crash before the chunk write buffer was flushed). -/
def keepBefore (cutoff : Ref) (disk : List Chunk) : List Chunk := disk.filter (·.ref.lt cutoff)

end Prom.OooMarkers
