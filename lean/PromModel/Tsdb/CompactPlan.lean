import PromModel.Prelude.Line
/-
  Model of the compaction planner of `tsdb/compact.go`, transcribed:

    LeveledCompactor.plan        → `plan`        (class split by hints, preference order)
    LeveledCompactor.planClass   → `planClass`   (sort by MinTime, overlap, drop newest, ranges, tombstones)
    selectOverlappingDirs        → `selectOverlappingDirs` (the loop split at `len(overlappingDirs)==0`)
    selectDirs                   → `selectDirs`
    splitByRange                 → `splitByRange` (Go's truncated `/` is `Int.tdiv`; the negative-time branch kept)
    CompactBlockMetas            → `compactBlockMetas`
    (metadata level) DB.compactBlocks loop → `applyPlan` / `compactStep`

  Conventions.  A block directory is a position (`dir : Nat`) in the listing order the planner receives;
  the planner returns dirs.  Timestamps are `Int`; the theorems are about the un-wrapped arithmetic, the
  generator keeps |t| ≤ 2^60 so that no int64 operation of the Go code can overflow.
  A Go panic (division by zero for a configured range 0, `c.ranges[len/2]` on an empty range list,
  `blocks[0]` on an empty argument list) is `Except.error .panic`.
  `slices.SortFunc` is pdqsort, which is an insertion sort (hence stable) for ≤ 12 elements — the
  model transcribes that insertion sort; meta sets are kept ≤ 12 blocks.
  The three hints are carried as booleans: the code only ever asks `slices.Contains(Hints, h)`, and
  the merged meta's hint list is re-sorted after every append (so it is the sorted subset).
-/
namespace Prom.CompactPlan

inductive Err | panic
deriving Repr, DecidableEq

structure Meta where
  id : Nat                     -- stands for the ULID
  mint : Int
  maxt : Int
  level : Int := 1
  failed : Bool := false
  deletable : Bool := false    -- not looked at by the planner (DB.reload removes such blocks before)
  numSeries : Nat := 0
  numTombstones : Nat := 0
  ooo : Bool := false          -- hint from-out-of-order
  stale : Bool := false        -- hint from-stale-series
  selected : Bool := false     -- hint from-selected-series
  sources : List Nat := []
  parents : List (Nat × Int × Int) := []
deriving Repr, DecidableEq, Inhabited

structure DirMeta where
  dir : Nat
  bm : Meta
deriving Repr, DecidableEq, Inhabited

structure Cfg where
  ranges : List Int
  overlapping : Bool
deriving Repr, DecidableEq

/-- Head-view class of a block, in the order `plan`'s `switch` tests the hints. -/
inductive Cls | stale | selected | regular
deriving Repr, DecidableEq

def Meta.cls (m : Meta) : Cls :=
  if m.stale then .stale else if m.selected then .selected else .regular

/-! ### slices.SortFunc by MinTime (insertion sort for n ≤ 12) -/

/-- Inner loop of `insertionSortCmpFunc`: the new element moves left while it is strictly smaller than
    its left neighbour. `rev` is the already sorted prefix, reversed. -/
def insR (x : DirMeta) : List DirMeta → List DirMeta
  | [] => [x]
  | y :: ys => if x.bm.mint < y.bm.mint then y :: insR x ys else x :: y :: ys

def sortRev (ds : List DirMeta) : List DirMeta := ds.foldl (fun acc x => insR x acc) []

def sortByMint (ds : List DirMeta) : List DirMeta := (sortRev ds).reverse

/-! ### selectOverlappingDirs -/

/-- Second phase of the loop (`len(overlappingDirs) > 0`): keep appending while the next block starts
    before `globalMaxt`, stop at the first one that does not. -/
def ovTake (gmax : Int) : List DirMeta → List DirMeta
  | [] => []
  | d :: rest => if d.bm.mint < gmax then d :: ovTake (max gmax d.bm.maxt) rest else []

/-- First phase (`len(overlappingDirs) == 0`): `prev` is `ds[i]`; at the first overlap both it and the
    current block are added. -/
def ovFind (gmax : Int) (prev : DirMeta) : List DirMeta → List DirMeta
  | [] => []
  | d :: rest =>
    if d.bm.mint < gmax then prev :: d :: ovTake (max gmax d.bm.maxt) rest
    else ovFind (max gmax d.bm.maxt) d rest

def selectOverlappingDirs (cfg : Cfg) (ds : List DirMeta) : List DirMeta :=
  if !cfg.overlapping then [] else
  match ds with
  | [] => []
  | [_] => []
  | d0 :: rest => ovFind d0.bm.maxt d0 rest

/-! ### splitByRange -/

/-- Start of the aligned range of size `tr` the block start falls into, exactly as written in the code
    (`/` on int64 truncates toward zero). -/
def alignT0 (mint tr : Int) : Int :=
  if mint ≥ 0 then tr * (mint.tdiv tr) else tr * ((mint - tr + 1).tdiv tr)

/-- `fuel` bounds the outer loop (`i` grows by at least one per iteration; `ds.length` is enough). -/
def splitByRange (tr : Int) : Nat → List DirMeta → List (List DirMeta)
  | 0, _ => []
  | _, [] => []
  | fuel + 1, d :: rest =>
    let t0 := alignT0 d.bm.mint tr
    if d.bm.maxt > t0 + tr then splitByRange tr fuel rest
    else
      (d :: rest.takeWhile (fun x => decide (x.bm.maxt ≤ t0 + tr)))
        :: splitByRange tr fuel (rest.dropWhile (fun x => decide (x.bm.maxt ≤ t0 + tr)))

/-! ### selectDirs -/

def firstMint (p : List DirMeta) : Int := (p.head?.getD default).bm.mint
def lastMaxt (p : List DirMeta) : Int := (p.getLast?.getD default).bm.maxt

/-- The test applied to one part of `splitByRange` inside `selectDirs`. -/
def partOk (iv highTime : Int) (p : List DirMeta) : Bool :=
  p.all (fun d => !d.bm.failed) &&
  (lastMaxt p - firstMint p == iv || decide (lastMaxt p ≤ highTime)) && decide (p.length > 1)

def selectDirsLoop (ds : List DirMeta) (highTime : Int) : List Int → Except Err (List DirMeta)
  | [] => .ok []
  | iv :: ivs =>
    if iv = 0 then .error .panic   -- `m.MinTime / tr` with tr = 0 (ds is non-empty here)
    else
      match (splitByRange iv ds.length ds).find? (partOk iv highTime) with
      | some p => .ok p
      | none => selectDirsLoop ds highTime ivs

def selectDirs (cfg : Cfg) (ds : List DirMeta) : Except Err (List DirMeta) :=
  if cfg.ranges.length < 2 ∨ ds.isEmpty then .ok []
  else selectDirsLoop ds (ds.getLast?.getD default).bm.mint cfg.ranges.tail

/-! ### the tombstone rule -/

/-- `float64(nt)/float64(ns+1) > 0.05`, exactly: the constant 0.05 is the double `M·2^-57` with
    `M = 0x1999999999999A` (even), one ulp there is `2^-57`, the quotient of two exactly represented
    integers (`nt, ns+1 ≤ 2^53`) is correctly rounded (ties to even), hence the comparison is true iff
    the exact quotient exceeds the midpoint `(2M+1)·2^-58`. -/
def tombRatioExceeds (nt ns : Nat) : Bool :=
  decide (nt * 2 ^ 58 > 14411518807585589 * (ns + 1))

/-- The `for _, v := range slices.Backward(dms)` loop of `planClass`; argument = `dms` reversed. -/
def tombPick (cfg : Cfg) : List DirMeta → Except Err (List DirMeta)
  | [] => .ok []
  | v :: rest =>
    match cfg.ranges[cfg.ranges.length / 2]? with
    | none => .error .panic
    | some r =>
      if v.bm.maxt - v.bm.mint < r then
        if v.bm.numTombstones > 0 ∧ v.bm.numTombstones ≥ v.bm.numSeries then .ok [v] else .ok []
      else if tombRatioExceeds v.bm.numTombstones v.bm.numSeries then .ok [v]
      else tombPick cfg rest

/-! ### planClass, plan -/

def planClass (cfg : Cfg) (dms : List DirMeta) : Except Err (List DirMeta) :=
  if dms.isEmpty then .ok [] else
  let s := sortByMint dms
  let ov := selectOverlappingDirs cfg s
  if !ov.isEmpty then .ok ov else
  let s' := s.dropLast
  match selectDirs cfg s' with
  | .error e => .error e
  | .ok sel =>
    if !sel.isEmpty then .ok sel else tombPick cfg s'.reverse

def isStale (d : DirMeta) : Bool := d.bm.stale
def isSelected (d : DirMeta) : Bool := !d.bm.stale && d.bm.selected
def isNonHint (d : DirMeta) : Bool := !d.bm.stale && !d.bm.selected

/-- number of non-empty classes (`classes` in the code) -/
def classCount (dms : List DirMeta) : Nat :=
  (if (dms.filter isStale).isEmpty then 0 else 1) + (if (dms.filter isSelected).isEmpty then 0 else 1)
    + (if (dms.filter isNonHint).isEmpty then 0 else 1)

/-- the `classes > 1` branch: regular first, then stale, then selected -/
def planMulti (cfg : Cfg) (dms : List DirMeta) : Except Err (List DirMeta) :=
  match planClass cfg (dms.filter isNonHint) with
  | .error e => .error e
  | .ok res =>
    if !res.isEmpty then .ok res else
    match planClass cfg (dms.filter isStale) with
    | .error e => .error e
    | .ok res => if !res.isEmpty then .ok res else planClass cfg (dms.filter isSelected)

def plan (cfg : Cfg) (dms : List DirMeta) : Except Err (List DirMeta) :=
  if dms.isEmpty then .ok [] else
  if classCount dms > 1 then planMulti cfg dms else planClass cfg dms

/-- The listing the planner receives for a list of metas: position = dir. -/
def enumFrom (k : Nat) : List Meta → List DirMeta
  | [] => []
  | m :: ms => ⟨k, m⟩ :: enumFrom (k + 1) ms

def enum (metas : List Meta) : List DirMeta := enumFrom 0 metas

def planMetas (cfg : Cfg) (metas : List Meta) : Except Err (List DirMeta) := plan cfg (enum metas)

/-! ### CompactBlockMetas -/

/-- insert into an ascending duplicate-free list (the code: map as a set, then sort). -/
def insUniq (x : Nat) : List Nat → List Nat
  | [] => [x]
  | y :: ys => if x < y then x :: y :: ys else if x = y then y :: ys else y :: insUniq x ys

def compactBlockMetas (uid : Nat) (blocks : List Meta) : Except Err Meta :=
  match blocks with
  | [] => .error .panic
  | b0 :: _ =>
    .ok {
      id := uid
      mint := blocks.foldl (fun a b => if b.mint < a then b.mint else a) b0.mint
      maxt := blocks.foldl (fun a b => if b.maxt > a then b.maxt else a) b0.maxt
      level := blocks.foldl (fun a b => if b.level > a then b.level else a) 0 + 1
      failed := false, deletable := false, numSeries := 0, numTombstones := 0
      ooo := blocks.all (·.ooo)
      stale := blocks.any (·.stale)
      selected := blocks.any (·.selected)
      sources := (blocks.flatMap (·.sources)).foldl (fun acc s => insUniq s acc) []
      parents := blocks.map fun b => (b.id, b.mint, b.maxt) }

/-! ### metadata-level compaction step (what `DB.compactBlocks` + reload do to the set of metas) -/

/-- the code's "entirely deleted" heuristic -/
def fullyDeleted (m : Meta) : Bool := decide (m.numTombstones > 0 ∧ m.numTombstones ≥ m.numSeries)

def freshId (metas : List Meta) : Nat := metas.foldl (fun a m => max a (m.id + 1)) 0

/-- Replace the planned blocks by the merged meta (appended: a new ULID sorts last in the directory).
    The written block has no tombstones left; its series count is bounded by the sum of its parents'.
    If every planned block is entirely deleted the result is empty: no block is written, the parents
    become deletable and disappear on reload. -/
def applyPlan (metas : List Meta) (p : List DirMeta) : List Meta :=
  let remaining := ((enum metas).filter fun d => !(p.map (·.dir)).contains d.dir).map (·.bm)
  if p.all (fun d => fullyDeleted d.bm) then remaining
  else
    match compactBlockMetas (freshId metas) (p.map (·.bm)) with
    | .ok m => remaining ++ [{ m with numSeries := (p.map (·.bm.numSeries)).sum, numTombstones := 0 }]
    | .error _ => remaining

/-- One round of the plan/compact/reload loop; identity when there is nothing to do (or on panic). -/
def compactStep (cfg : Cfg) (metas : List Meta) : List Meta :=
  match planMetas cfg metas with
  | .ok [] => metas
  | .ok p => applyPlan metas p
  | .error _ => metas

/-- `k` rounds of the loop. -/
def iterate (cfg : Cfg) : Nat → List Meta → List Meta
  | 0, metas => metas
  | k + 1, metas => iterate cfg k (compactStep cfg metas)

/-- Explicit decreasing measure of the loop. -/
def measure (metas : List Meta) : Nat :=
  metas.length + (metas.filter fun m => decide (m.numTombstones > 0)).length

/-- Run the loop; returns (number of compactions, final layout, reached the empty plan?). -/
def converge (cfg : Cfg) : Nat → Nat → List Meta → Except Err (Nat × List Meta × Bool)
  | 0, steps, metas => .ok (steps, metas, false)
  | fuel + 1, steps, metas =>
    match planMetas cfg metas with
    | .ok [] => .ok (steps, metas, true)
    | .ok p => converge cfg fuel (steps + 1) (applyPlan metas p)
    | .error e => .error e

/-! ## The property statement (C08), as decidable predicates over a listing and a plan.
    Written without reference to the planner's functions: the correspondence judge evaluates these on
    the implementation's plan, the theorems of `PromProps/C08.lean` prove them of the model's plan. -/

/-- a well-formed block covers a non-empty half-open time range `[mint, maxt)` -/
def Meta.WF (m : Meta) : Prop := m.mint < m.maxt

def intersects (a b : Meta) : Prop := a.mint < b.maxt ∧ b.mint < a.maxt

/-- configurations inside the statement: at least one range, every range the planner divides by is positive -/
def Cfg.Ok (cfg : Cfg) : Prop := cfg.ranges ≠ [] ∧ ∀ r ∈ cfg.ranges.tail, 0 < r

/-- `c.ranges[len(c.ranges)/2]`, the "big enough" threshold of the tombstone rule -/
def midRange (cfg : Cfg) : Int := (cfg.ranges[cfg.ranges.length / 2]?).getD 0

def OneClass (p : List DirMeta) : Prop := ∀ a ∈ p, ∀ b ∈ p, a.bm.cls = b.bm.cls

/-- a set of overlapping blocks: at least two, each overlapping another one of the set -/
def ShapeOverlap (cfg : Cfg) (p : List DirMeta) : Prop :=
  cfg.overlapping = true ∧ 2 ≤ p.length ∧
  ∀ a ∈ p, ∃ b ∈ p, b.dir ≠ a.dir ∧ intersects a.bm b.bm

/-- all blocks lie inside one window `[k·iv, k·iv + iv]` of the grid of range `iv` (floor division) -/
def InRange (iv : Int) (p : List DirMeta) : Prop :=
  ∃ a ∈ p, ∀ b ∈ p, iv * (a.bm.mint / iv) ≤ b.bm.mint ∧ b.bm.maxt ≤ iv * (a.bm.mint / iv) + iv

/-- some block of the same class that is not planned starts at or after every planned block -/
def ExcludesNewest (dms p : List DirMeta) : Prop :=
  ∃ n ∈ dms, n.dir ∉ p.map (·.dir) ∧ ∀ b ∈ p, b.bm.cls = n.bm.cls ∧ b.bm.mint ≤ n.bm.mint

def ShapeRange (cfg : Cfg) (dms p : List DirMeta) : Prop :=
  2 ≤ p.length ∧ (∀ b ∈ p, b.bm.failed = false) ∧ (∃ iv ∈ cfg.ranges.tail, InRange iv p) ∧
  ExcludesNewest dms p ∧
  (cfg.overlapping = true → p.Pairwise (fun a b => ¬ intersects a.bm b.bm))

/-- the documented tombstone rule over exact rationals (`nt/(ns+1) > 1/20` cross-multiplied) -/
def TombRule (cfg : Cfg) (m : Meta) : Prop :=
  (m.maxt - m.mint < midRange cfg ∧ 0 < m.numTombstones ∧ m.numSeries ≤ m.numTombstones) ∨
  (midRange cfg ≤ m.maxt - m.mint ∧ m.numSeries + 1 < 20 * m.numTombstones)

def ShapeTomb (cfg : Cfg) (p : List DirMeta) : Prop :=
  p.length = 1 ∧ ∀ d ∈ p, TombRule cfg d.bm

def PlanAllowed (cfg : Cfg) (dms p : List DirMeta) : Prop :=
  p = [] ∨ ((∀ d ∈ p, d ∈ dms) ∧ (p.map (·.dir)).Nodup ∧ OneClass p ∧
            (ShapeOverlap cfg p ∨ ShapeRange cfg dms p ∨ ShapeTomb cfg p))

instance (m : Meta) : Decidable m.WF := by unfold Meta.WF; infer_instance
instance (a b : Meta) : Decidable (intersects a b) := by unfold intersects; infer_instance
instance (cfg : Cfg) : Decidable cfg.Ok := by unfold Cfg.Ok; infer_instance
instance (p : List DirMeta) : Decidable (OneClass p) := by unfold OneClass; infer_instance
instance (cfg : Cfg) (p : List DirMeta) : Decidable (ShapeOverlap cfg p) := by unfold ShapeOverlap; infer_instance
instance (iv : Int) (p : List DirMeta) : Decidable (InRange iv p) := by unfold InRange; infer_instance
instance (dms p : List DirMeta) : Decidable (ExcludesNewest dms p) := by unfold ExcludesNewest; infer_instance
instance (cfg : Cfg) (dms p : List DirMeta) : Decidable (ShapeRange cfg dms p) := by unfold ShapeRange; infer_instance
instance (cfg : Cfg) (m : Meta) : Decidable (TombRule cfg m) := by unfold TombRule; infer_instance
instance (cfg : Cfg) (p : List DirMeta) : Decidable (ShapeTomb cfg p) := by unfold ShapeTomb; infer_instance
instance (cfg : Cfg) (dms p : List DirMeta) : Decidable (PlanAllowed cfg dms p) := by unfold PlanAllowed; infer_instance

/-- merged-meta clauses of the statement -/
def MergeHintsOk (inputs : List Meta) (out : Meta) : Prop :=
  (out.ooo = true ↔ ∀ b ∈ inputs, b.ooo = true) ∧
  ((∀ b ∈ inputs, b.stale = true) → out.stale = true) ∧
  ((∀ b ∈ inputs, b.selected = true) → out.selected = true) ∧
  (out.stale = true → ∃ b ∈ inputs, b.stale = true) ∧
  (out.selected = true → ∃ b ∈ inputs, b.selected = true)

instance (i : List Meta) (o : Meta) : Decidable (MergeHintsOk i o) := by unfold MergeHintsOk; infer_instance

def MergeTimesOk (inputs : List Meta) (out : Meta) : Prop :=
  (∀ b ∈ inputs, out.mint ≤ b.mint ∧ b.maxt ≤ out.maxt) ∧
  (∃ b ∈ inputs, b.mint = out.mint) ∧ (∃ b ∈ inputs, b.maxt = out.maxt)

instance (i : List Meta) (o : Meta) : Decidable (MergeTimesOk i o) := by unfold MergeTimesOk; infer_instance

end Prom.CompactPlan
