import PromModel.Prelude.Line
/-
  C03 — crash safety, trace level.

  The harness abstracts the persistence syscalls of the real tsdb (pinned workload thread, under
  strace) into actions relative to the data directory (`w:` write, `f:` fsync, `t:` truncate, `m:` mkdir,
  `u:` unlink, `r:a>b` rename; block ULIDs renamed B1, B2, …). `CrashSuite.lean` parses those strings
  into the structured actions below (paths classified, files interned as numbers), so that everything
  proved or decided here is free of string operations.

  The *discipline* (`stepOk`) is the protocol that makes a kill at any action boundary harmless:
    * a block directory becomes visible only by renaming `<B>.tmp-for-creation` to `<B>`, after every
      file written under it has been fsynced; nothing inside a visible block is written or created in
      place — only `*.tmp` siblings that are then renamed over (tombstones, meta.json) — nor unlinked in
      place (deletion first renames the whole directory to `<B>.tmp-for-deletion`);
    * a WAL segment is unlinked only when a *complete* checkpoint (renamed from `checkpoint.N.tmp`) with
      an index ≥ the segment's exists; a checkpoint is removed only when a newer complete one exists;
    * a WBL segment (no checkpoints) is unlinked only if a block became visible after the last write
      to it (its samples were persisted by the out-of-order compaction).
-/
namespace Prom.CrashFs

inductive Log | wal | wbl
deriving DecidableEq, Repr, Inhabited

/-- A classified path. `file` numbers are interned per trace; `0` is the directory itself. -/
inductive Loc
  | blockTmp (b : Nat) (file : Nat)              -- under `B<b>.tmp-for-creation`
  | block (b : Nat) (file : Nat) (isTmp : Bool)  -- under the visible `B<b>`; `isTmp`: last component ends in `.tmp`
  | blockDel (b : Nat)                           -- `B<b>.tmp-for-deletion` or below
  | seg (l : Log) (k : Nat)                      -- `wal/0000000k`
  | cp (l : Log) (k : Nat) (inner : Bool)        -- `wal/checkpoint.k` (inner: a file inside it)
  | cpTmp (l : Log) (k : Nat) (inner : Bool)     -- `wal/checkpoint.k.tmp`
  | other
deriving DecidableEq, Repr, Inhabited

inductive Act
  | write (p : Loc)
  | fsync (p : Loc)
  | trunc (p : Loc)
  | mkdir (p : Loc)
  | unlink (p : Loc)
  | rename (a b : Loc) (tmpOver : Bool)   -- `tmpOver`: `X.tmp` renamed over `X` in the same directory
deriving DecidableEq, Repr, Inhabited

structure St where
  blocks : List Nat := []                        -- visible block directories
  creating : List (Nat × List Nat × List Nat) := []
        -- block being created: number, files written, files fsynced since their last write
  segsRemoved : List (Log × Nat) := []           -- segments unlinked so far
  cps : List (Log × Nat) := []                   -- complete checkpoints currently present
  wblDirty : List Nat := []                      -- WBL segments written since the last block became visible
deriving Repr, Inhabited

def hasCpGe (s : St) (l : Log) (k : Nat) : Bool := s.cps.any fun c => c.1 == l && decide (k ≤ c.2)
def hasCpGt (s : St) (l : Log) (k : Nat) : Bool := s.cps.any fun c => c.1 == l && decide (k < c.2)

def creatingOf (s : St) (b : Nat) : List Nat × List Nat :=
  match s.creating.find? (·.1 == b) with
  | some (_, w, f) => (w, f)
  | none => ([], [])

def setCreating (s : St) (b : Nat) (wf : List Nat × List Nat) : St :=
  { s with creating := (b, wf.1, wf.2) :: s.creating.filter (·.1 ≠ b) }

/-- The guard: is this action allowed by the discipline in the current state? -/
def stepOk (s : St) : Act → Bool
  | .write p | .trunc p | .mkdir p =>
    match p with
    | .block b _ isTmp => !s.blocks.contains b || isTmp
    | _ => true
  | .fsync _ => true
  | .unlink p =>
    match p with
    | .seg .wal k => hasCpGe s .wal k
    | .seg .wbl k => !s.wblDirty.contains k
    | .cp l k false => hasCpGt s l k
    | .block b _ _ => !s.blocks.contains b
    | _ => true
  | .rename a b tmpOver =>
    match a, b with
    | .blockTmp x 0, .block y 0 _ =>
      x == y && (creatingOf s x).1.all (creatingOf s x).2.contains
    | .block x 0 _, .blockDel y => x == y
    | _, .block y _ _ => !s.blocks.contains y || tmpOver
    | .block x _ _, _ => !s.blocks.contains x
    | _, _ => true

/-- Complete checkpoints after an action. -/
def cpsAfter (s : St) : Act → List (Log × Nat)
  | .unlink (.cp l k false) => s.cps.filter (· ≠ (l, k))
  | .rename (.cpTmp l k false) (.cp l' k' false) _ => if l = l' ∧ k = k' then (l, k) :: s.cps else s.cps
  | _ => s.cps

/-- Removed segments after an action. -/
def segsAfter (s : St) : Act → List (Log × Nat)
  | .unlink (.seg l k) => (l, k) :: s.segsRemoved
  | _ => s.segsRemoved

/-- The bookkeeping about blocks in creation, visible blocks and dirty WBL segments. -/
def stepBlocks (s : St) : Act → St
  | .write p =>
    match p with
    | .seg .wbl k => { s with wblDirty := if s.wblDirty.contains k then s.wblDirty else k :: s.wblDirty }
    | .blockTmp b f =>
      let w := (creatingOf s b).1
      let sy := (creatingOf s b).2
      setCreating s b (if w.contains f then w else f :: w, sy.filter (· ≠ f))
    | _ => s
  | .fsync p =>
    match p with
    | .blockTmp b f =>
      let w := (creatingOf s b).1
      let sy := (creatingOf s b).2
      setCreating s b (w, if sy.contains f then sy else f :: sy)
    | _ => s
  | .unlink p =>
    match p with
    | .blockTmp b f =>
      let w := (creatingOf s b).1
      let sy := (creatingOf s b).2
      setCreating s b (w.filter (· ≠ f), sy.filter (· ≠ f))
    | _ => s
  | .rename a b _ =>
    match a, b with
    | .blockTmp x 0, .block y 0 _ =>
      if x == y then { s with blocks := x :: s.blocks, creating := s.creating.filter (·.1 ≠ x), wblDirty := [] } else s
    | .block x 0 _, .blockDel _ => { s with blocks := s.blocks.filter (· ≠ x) }
    | .blockTmp x f, .blockTmp y g =>
      if x == y then
        let w := (creatingOf s x).1
        let sy := (creatingOf s x).2
        setCreating s x (w.map (fun q => if q = f then g else q), sy.map (fun q => if q = f then g else q))
      else s
    | _, _ => s
  | _ => s      -- trunc: size adjustment of an already synced file, not new data; mkdir

def step (s : St) (a : Act) : St :=
  { stepBlocks s a with cps := cpsAfter s a, segsRemoved := segsAfter s a }

/-- Run a trace; `.error k` as soon as action number `k` violates the discipline. -/
def run (s : St) : List Act → Nat → Except Nat St
  | [], _ => .ok s
  | a :: rest, k => if stepOk s a then run (step s a) rest (k + 1) else .error k

/-- Index of the first action that violates the discipline, if any. -/
def firstViolation (tr : List Act) : Option Nat := match run {} tr 0 with | .ok _ => none | .error k => some k

def conforms (tr : List Act) : Bool := match run {} tr 0 with | .ok _ => true | .error _ => false

/-- What recovery relies on: every removed WAL segment is covered by a complete checkpoint that is
    still present (so `checkpoint ++ remaining segments` is a gap-free log). -/
def Inv (s : St) : Prop :=
  ∀ seg ∈ s.segsRemoved, seg.1 = Log.wbl ∨ hasCpGe s seg.1 seg.2 = true

end Prom.CrashFs
