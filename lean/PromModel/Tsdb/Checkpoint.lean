import PromModel.Prelude.Line
/-
  WAL checkpointing at the level of DECODED records (C15, shared with C48).

  * `Rec`            — a decoded WAL record (tsdb/record): series | samples of one kind | tombstones | metadata.
  * `checkpoint`     — `wlog.Checkpoint`'s per-record filters (tsdb/wlog/checkpoint.go):
                         series kept iff `keep ref`; float/histogram/exemplar entries kept iff `t ≥ mint`;
                         tombstones kept iff `keep ref` and some interval has `maxt ≥ mint`;
                         metadata: only the latest entry per ref, iff `keep ref`, flushed as ONE record at the
                         end (Go map order there — canonical form: sorted by ref);
                         records whose entries are all dropped disappear.
  * `Wal`            — checkpoint + numbered segments; `truncPlan` is the segment arithmetic shared by
                         `Head.truncateWAL` and agent `DB.truncate`.
  * `precOK`         — "every non-series record refers to a ref whose series record occurs earlier".
  Bytes/framing are C13/C14; with the V1 encoder a decoded histogram record never has to be split by
  `Checkpoint` (exponential and custom-bucket histograms already live in different record types).
-/
namespace Prom.Ckpt

inductive SKind | float | hist | chist | fhist | cfhist | ex
deriving DecidableEq, Repr, Inhabited

/-- One entry of a samples / histogram samples / exemplars record. `v` identifies the payload. -/
structure Smp where
  ref : Nat
  t : Int
  v : Nat
deriving DecidableEq, Repr, Inhabited

structure Stone where
  ref : Nat
  ivs : List (Int × Int)
deriving DecidableEq, Repr, Inhabited

inductive Rec
  | series (xs : List (Nat × Nat))      -- (ref, label-set id)
  | smp (k : SKind) (xs : List Smp)
  | tomb (xs : List Stone)
  | mdata (xs : List (Nat × Nat))        -- (ref, metadata id)
deriving DecidableEq, Repr, Inhabited

def MinI64 : Int := -9223372036854775808
def MaxI64 : Int := 9223372036854775807

/-! ### `wlog.Checkpoint` -/

def stoneLive (mint : Int) (s : Stone) : Bool := s.ivs.any fun iv => decide (iv.2 ≥ mint)

/-- What `Checkpoint` writes for one input record (`none` = "all contents discarded"). Metadata is
    collected separately (`latestMeta`). -/
def ckptRec (keep : Nat → Bool) (mint : Int) : Rec → Option Rec
  | .series xs =>
    let ys := xs.filter fun p => keep p.1
    if ys.isEmpty then none else some (.series ys)
  | .smp k xs =>
    let ys := xs.filter fun x => decide (x.t ≥ mint)
    if ys.isEmpty then none else some (.smp k ys)
  | .tomb xs =>
    let ys := xs.filter fun s => keep s.ref && stoneLive mint s
    if ys.isEmpty then none else some (.tomb ys)
  | .mdata _ => none

/-- Insert / overwrite in a ref-sorted association list (canonical form of `latestMetadataMap`). -/
def metaInsert : List (Nat × Nat) → Nat × Nat → List (Nat × Nat)
  | [], p => [p]
  | q :: qs, p =>
    if p.1 < q.1 then p :: q :: qs
    else if p.1 = q.1 then p :: qs
    else q :: metaInsert qs p

def latestMetaStep (keep : Nat → Bool) (m : List (Nat × Nat)) : Rec → List (Nat × Nat)
  | .mdata xs => xs.foldl (fun m p => if keep p.1 then metaInsert m p else m) m
  | _ => m

def latestMeta (keep : Nat → Bool) (recs : List Rec) : List (Nat × Nat) :=
  recs.foldl (latestMetaStep keep) []

def checkpoint (keep : Nat → Bool) (mint : Int) (recs : List Rec) : List Rec :=
  recs.filterMap (ckptRec keep mint) ++
    (let m := latestMeta keep recs; if m.isEmpty then [] else [Rec.mdata m])

/-! ### Segments -/

structure Wal where
  cp : Option (Nat × List Rec) := none   -- checkpoint.<idx> and its records
  first : Nat := 0                        -- index of the first segment file
  segs : List (List Rec) := []            -- segment files first, first+1, …
deriving Repr, Inhabited

/-- `wlog.NewSize`: always opens a new segment (index 0 on an empty directory). -/
def Wal.open_ (w : Wal) : Wal := { w with segs := w.segs ++ [[]] }

def Wal.nextSegment (w : Wal) : Wal := { w with segs := w.segs ++ [[]] }

/-- `wlog.Segments`: (first, last); last = -1 without segments. -/
def Wal.lastIdx (w : Wal) : Int := (w.first : Int) + w.segs.length - 1

def logTo : List (List Rec) → List Rec → List (List Rec)
  | [], rs => [rs]
  | [s], rs => [s ++ rs]
  | s :: ss, rs => s :: logTo ss rs

/-- `WL.Log(recs…)`: append to the active (last) segment; empty records are never logged by callers. -/
def Wal.log (w : Wal) (rs : List Rec) : Wal := { w with segs := logTo w.segs rs }

def Wal.cpRecs (w : Wal) : List Rec := match w.cp with | some (_, rs) => rs | none => []

/-- All records in replay order: checkpoint, then the segments. -/
def Wal.recs (w : Wal) : List Rec := w.cpRecs ++ w.segs.flatten

/-- The segment arithmetic of `truncateWAL` / agent `truncate` (after `NextSegment`, on the values read
    before it): `last--; if last < 0 return; last = first + (last-first)*2/3; if last <= first return`. -/
def truncPlan (first last : Int) : Option Int :=
  let last := last - 1
  if last < 0 then none else
  let last := first + ((last - first) * 2).tdiv 3
  if last ≤ first then none else some last

/-- Segments with index in [from, to]. -/
def Wal.segRange (w : Wal) (from_ to : Nat) : List (List Rec) :=
  ((w.segs.zipIdx).filter fun p => from_ ≤ w.first + p.2 ∧ w.first + p.2 ≤ to).map (·.1)

/-- `wlog.Checkpoint(w, first, to, keep, mint)` followed by `w.Truncate(to+1)` and
    `DeleteCheckpoints(to)`: reads the last checkpoint and segments [from, to] (`from` is moved to
    `idx+1` when a checkpoint exists; a gap is an error = `none`). -/
def Wal.checkpointTo (w : Wal) (keep : Nat → Bool) (mint : Int) (to : Nat) : Option Wal :=
  let from_ : Option Nat := match w.cp with
    | some (idx, _) => if w.first > idx + 1 then none else some (idx + 1)
    | none => some w.first
  match from_ with
  | none => none
  | some from_ =>
    let input := w.cpRecs ++ (w.segRange from_ to).flatten
    let drop := to + 1 - w.first
    some { cp := some (to, checkpoint keep mint input), first := max w.first (to + 1), segs := w.segs.drop drop }

/-! ### "series record precedes" -/

def Rec.refs : Rec → List Nat
  | .series _ => []
  | .smp _ xs => xs.map (·.ref)
  | .tomb xs => xs.map (·.ref)
  | .mdata xs => xs.map (·.1)

/-- Walk the log with the refs whose series record has been seen: every entry of a non-series
    record must refer to a seen ref. -/
def precOK : List Nat → List Rec → Prop
  | _, [] => True
  | known, .series xs :: rest => precOK (known ++ xs.map (·.1)) rest
  | known, .smp _ xs :: rest => (∀ x ∈ xs, x.ref ∈ known) ∧ precOK known rest
  | known, .tomb xs :: rest => (∀ x ∈ xs, x.ref ∈ known) ∧ precOK known rest
  | known, .mdata xs :: rest => (∀ x ∈ xs, x.1 ∈ known) ∧ precOK known rest

/-- Executable version: the orphans (ref, t) in log order; tombstones report their largest `maxt`,
    metadata `MaxI64`. -/
def orphans : List Nat → List Rec → List (String × Nat × Int)
  | _, [] => []
  | known, .series xs :: rest => orphans (known ++ xs.map (·.1)) rest
  | known, .smp k xs :: rest =>
    let tag := match k with | .ex => "ex" | .float => "float" | _ => "hist"
    ((xs.filter fun x => !known.contains x.ref).map fun x => (tag, x.ref, x.t)) ++ orphans known rest
  | known, .tomb xs :: rest =>
    ((xs.filter fun x => !known.contains x.ref).map fun x =>
      ("tomb", x.ref, x.ivs.foldl (fun m iv => max m iv.2) MinI64)) ++ orphans known rest
  | known, .mdata xs :: rest =>
    ((xs.filter fun x => !known.contains x.1).map fun x => ("meta", x.1, MaxI64)) ++ orphans known rest

/-! ### Text form of records and dumps (shared by the `agent` and `ckpt` suites)

  record:  S(ref=lid,…) | F(ref@t=v,…) | H(…) | HC(…) | G(…) | GC(…) | X(…) | T(ref:mint~maxt+mint~maxt,…) | M(ref=mid,…)
  dump:    `cp=<idx|-> <rec>;<rec>… | <segidx> <rec>;… | <segidx> - …`   (`-` = no records) -/

def kindTag : SKind → String
  | .float => "F" | .hist => "H" | .chist => "HC" | .fhist => "G" | .cfhist => "GC" | .ex => "X"

def kindOfTag? : String → Option SKind
  | "F" => some .float | "H" => some .hist | "HC" => some .chist | "G" => some .fhist
  | "GC" => some .cfhist | "X" => some .ex | _ => none

def renderRec : Rec → String
  | .series xs => "S(" ++ ",".intercalate (xs.map fun p => s!"{p.1}={p.2}") ++ ")"
  | .smp k xs => kindTag k ++ "(" ++ ",".intercalate (xs.map fun x => s!"{x.ref}@{x.t}={x.v}") ++ ")"
  | .tomb xs => "T(" ++ ",".intercalate (xs.map fun s =>
      s!"{s.ref}:" ++ "+".intercalate (s.ivs.map fun iv => s!"{iv.1}~{iv.2}")) ++ ")"
  | .mdata xs => "M(" ++ ",".intercalate (xs.map fun p => s!"{p.1}={p.2}") ++ ")"

def renderRecs (rs : List Rec) : String :=
  if rs.isEmpty then "-" else ";".intercalate (rs.map renderRec)

def Wal.render (w : Wal) : String :=
  let cp := match w.cp with
    | some (i, rs) => s!"cp={i} {renderRecs rs}"
    | none => "cp=- -"
  let segs := w.segs.zipIdx.map fun p => s!"{w.first + p.2} {renderRecs p.1}"
  " | ".intercalate (cp :: segs)

def parsePair? (sep : String) (s : String) : Option (String × String) :=
  match s.splitOn sep with
  | [a, b] => some (a, b)
  | _ => none

def parseRec? (s : String) : Option Rec := do
  let (tag, body) ← match s.splitOn "(" with
    | [tag, body] => some (tag, body)
    | _ => none
  if !body.endsWith ")" then none else
  let body := (body.dropEnd 1).toString
  let items := if body.isEmpty then [] else body.splitOn ","
  if tag = "S" ∨ tag = "M" then
    let xs ← items.mapM fun it => do
      let (a, b) ← parsePair? "=" it
      pure ((← a.toNat?), (← b.toNat?))
    pure (if tag = "S" then .series xs else .mdata xs)
  else if tag = "T" then
    let xs ← items.mapM fun it => do
      let (r, ivs) ← parsePair? ":" it
      let ivs ← (ivs.splitOn "+").mapM fun iv => do
        let (a, b) ← parsePair? "~" iv
        pure ((← a.toInt?), (← b.toInt?))
      pure (⟨← r.toNat?, ivs⟩ : Stone)
    pure (.tomb xs)
  else
    let k ← kindOfTag? tag
    let xs ← items.mapM fun it => do
      let (r, tv) ← parsePair? "@" it
      let (t, v) ← parsePair? "=" tv
      pure (⟨← r.toNat?, ← t.toInt?, ← v.toNat?⟩ : Smp)
    pure (.smp k xs)

def parseRecs? (s : String) : Option (List Rec) :=
  if s = "-" then some [] else (s.splitOn ";").mapM parseRec?

/-- Parse a dump back into a `Wal`. -/
def parseDump? (s : String) : Option Wal := do
  match s.splitOn " | " with
  | [] => none
  | cp :: segs =>
    let cp ← match toks cp with
      | [c, rs] =>
        if c = "cp=-" then (if rs = "-" then some none else none)
        else do
          let i ← (c.drop 3).toString.toNat?
          if !c.startsWith "cp=" then none else
          pure (some (i, ← parseRecs? rs))
      | _ => none
    let segs ← segs.mapM fun sg =>
      match toks sg with
      | [i, rs] => do pure ((← i.toNat?), (← parseRecs? rs))
      | _ => none
    let first := match segs with | (i, _) :: _ => i | [] => 0
    pure { cp := cp, first := first, segs := segs.map (·.2) }

end Prom.Ckpt
