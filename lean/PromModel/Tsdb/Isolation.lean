import PromModel.Prelude.Line
/-
  C05 — head isolation as a labelled transition system (tsdb/isolation.go, head_append.go, head_read.go).

  Atomic actions = the critical sections of the code:
    * `newAppender`   `isolation.newAppendID` (appendMtx): next id, appended to `appendsOpenList`, and the
                       low watermark of that moment is handed to the appender (`cleanupAppendIDsBelow`);
    * `cut s`         `memSeries.cutNewHeadChunk` (series lock) — the model allows it at any time, the
                       code's policy (samplesPerChunk, chunk range) is one particular choice;
    * `commitNext a`  one iteration of `commitFloats` (series lock): `appendable`/`append` of the
                       appender's next pending sample (`txRing.add(appendID)` when it is in order) followed
                       by `cleanupAppendIDsBelow(a.cleanupAppendIDsBelow)`;
    * `mmap s`        `memSeries.mmapChunks` (series lock): all head chunks but the newest become m-mapped;
    * `cleanup a s`   the Rollback loop body (series lock): `cleanupAppendIDsBelow` only;
    * `closeAppend a` `isolation.closeAppend` (appendMtx), the end of Commit/Rollback;
    * `newReader r`   `isolation.State` (appendMtx+readMtx): `maxAppendID`, `lowWatermark`, `incompleteAppends`;
    * `closeReader r` `isolationState.Close` (readMtx).
  Reading is an observation of a state: `readChunk` is `memSeries.iterator` (series lock) — the `stopAfter`
  computation transcribed with its index arithmetic over the chunk layout and the ring.

  `txRing` is transcribed as it is (slice + first + count, doubling from 0 to 4, modular positions).
-/
namespace Prom.Iso

/-! ### txRing -/

structure TxRing where
  ids : List Nat := []
  first : Nat := 0
  count : Nat := 0
deriving Repr, DecidableEq, Inhabited

namespace TxRing

/-- `txRing.add`. -/
def add (r : TxRing) (id : Nat) : TxRing :=
  let r1 : TxRing :=
    if r.count = r.ids.length then
      let newLen := if r.count * 2 = 0 then 4 else r.count * 2
      let moved := r.ids.drop r.first ++ r.ids.take r.first
      { ids := moved ++ List.replicate (newLen - moved.length) 0, first := 0, count := r.count }
    else r
  { r1 with ids := r1.ids.set ((r1.first + r1.count) % r1.ids.length) id, count := r1.count + 1 }

/-- The loop of `txRing.cleanupAppendIDsBelow`: returns the new `(txIDFirst, txIDCount)` (before the final `%=`). -/
def cleanupGo (ids : List Nat) (bound : Nat) : Nat → Nat → Nat → Nat → Nat × Nat
  | 0, _, first, count => (first, count)
  | fuel + 1, pos, first, count =>
    if count = 0 then (first, count)
    else if bound ≤ ids.getD pos 0 then (first, count)
    else cleanupGo ids bound fuel (if pos + 1 = ids.length then 0 else pos + 1) (first + 1) (count - 1)

/-- `txRing.cleanupAppendIDsBelow`. -/
def cleanup (r : TxRing) (bound : Nat) : TxRing :=
  if r.ids.length = 0 then r
  else
    let fc := cleanupGo r.ids bound r.count r.first r.first r.count
    { r with first := fc.1 % r.ids.length, count := fc.2 }

/-- The ids the ring holds, oldest first (what `txRingIterator` yields in its first `count` steps). -/
def contents (r : TxRing) : List Nat :=
  (List.range r.count).map fun i => r.ids.getD ((r.first + i) % r.ids.length) 0

end TxRing

/-! ### series -/

structure Sample where
  t : Int
  v : Int
  id : Nat
deriving Repr, DecidableEq, Inhabited

structure Series where
  samples : List Sample := []   -- every in-order sample in memory, oldest first
  mm : List Nat := []           -- numSamples of the m-mapped chunks, oldest first
  hd : List Nat := []           -- numSamples of the head chunks, oldest first (the code's list is newest first)
  ring : TxRing := {}
deriving Repr, DecidableEq, Inhabited

/-- What a reader holds: `isolationState.{maxAppendID, lowWatermark, incompleteAppends}`. -/
structure Reader where
  max : Nat
  lw : Nat
  incomplete : List Nat
deriving Repr, DecidableEq, Inhabited

/-- The test in `memSeries.iterator`: `appendID <= maxAppendID` and not in `incompleteAppends`. -/
def Reader.vis (r : Reader) (id : Nat) : Bool := decide (id ≤ r.max) && !r.incomplete.contains id

/-- Σ of the entries of `l` whose index `j0 + position` is `< k` (the `if j < ix` accumulations). -/
def sumBelow (k : Int) : Nat → List Nat → Nat
  | _, [] => 0
  | j, n :: rest => (if (j : Int) < k then n else 0) + sumBelow k (j + 1) rest

/-- The loop over the ring in `memSeries.iterator`; `rem = appendIDsToConsider - index`. -/
def stopLoop (ids : List Nat) (vis : Nat → Bool) (numSamples : Nat) : Nat → Nat → Nat
  | 0, _ => numSamples
  | rem + 1, pos =>
    if vis (ids.getD pos 0) then stopLoop ids vis numSamples rem (if pos + 1 = ids.length then 0 else pos + 1)
    else numSamples - (rem + 1)      -- max(numSamples-(appendIDsToConsider-index), 0)

def Series.layout (s : Series) : List Nat := s.mm ++ s.hd

/-- `stopAfter` of `memSeries.iterator(id, c, isoState, it)` for the chunk at position `ix`
    (`ix = id - firstChunkID`; no head truncation in this model, so `firstChunkID = 0`). -/
def Series.stopAfter (s : Series) (vis : Nat → Bool) (ix : Nat) : Nat :=
  let numSamples := s.layout.getD ix 0
  let totalMm := s.mm.sum
  let prevMm := sumBelow ix 0 s.mm
  -- `if s.headChunks != nil { ix -= len(s.mmappedChunks); … }`
  let totalSamples := totalMm + (if s.hd.isEmpty then 0 else s.hd.sum)
  let previousSamples := prevMm + (if s.hd.isEmpty then 0 else sumBelow ((ix : Int) - s.mm.length) 0 s.hd)
  let appendIDsToConsider : Int := (s.ring.count : Int) - ((totalSamples : Int) - ((previousSamples : Int) + numSamples))
  stopLoop s.ring.ids vis numSamples appendIDsToConsider.toNat s.ring.first

/-- Samples stored in the chunk at position `ix`. -/
def Series.chunkSamples (s : Series) (ix : Nat) : List Sample :=
  (s.samples.drop (s.layout.take ix).sum).take (s.layout.getD ix 0)

/-- What the iterator returned for chunk `ix` yields. -/
def Series.readChunk (s : Series) (r : Reader) (ix : Nat) : List Sample :=
  (s.chunkSamples ix).take (s.stopAfter r.vis ix)

/-- All chunks listed by the index reader, read in order at one state. -/
def Series.read (s : Series) (r : Reader) : List Sample :=
  (List.range s.layout.length).flatMap fun ix => s.readChunk r ix

/-- `memSeries.append` (in-order float path) + `txs.add(appendID)`; creates the first head chunk if there is none. -/
def Series.append (s : Series) (x : Sample) : Series :=
  let hd := if s.hd.isEmpty then [0] else s.hd
  { s with samples := s.samples ++ [x], hd := hd.dropLast ++ [hd.getLastD 0 + 1],
           ring := if x.id > 0 then s.ring.add x.id else s.ring }

/-- `appendable` + `appendPreprocessor` for an in-order-only head: the sample goes in iff it is newer. -/
def Series.inOrder (s : Series) (t : Int) : Bool :=
  match s.samples.getLast? with
  | none => true
  | some l => decide (l.t < t)

def Series.cut (s : Series) : Series := { s with hd := s.hd ++ [0] }

def Series.mmapChunks (s : Series) : Series :=
  if s.hd.length < 2 then s else { s with mm := s.mm ++ s.hd.dropLast, hd := [s.hd.getLastD 0] }

def Series.cleanup (s : Series) (bound : Nat) : Series := { s with ring := s.ring.cleanup bound }

/-! ### global state -/

structure Pending where
  s : Nat
  t : Int
  v : Int
deriving Repr, DecidableEq, Inhabited

structure App where
  id : Nat
  cleanupBelow : Nat
  pending : List Pending
deriving Repr, DecidableEq, Inhabited

structure St where
  last : Nat := 0                       -- appendsOpenList.appendID (sentinel)
  opens : List App := []                -- appendsOpenList, in creation order
  readers : List (Nat × Reader) := []   -- readsOpen, OLDEST first; key = reader handle
  series : List Series := []
deriving Repr, Inhabited

/-- `isolation.lowWatermarkLocked`: the oldest open reader's watermark, else the first open appender, else the last id. -/
def St.lowWatermark (σ : St) : Nat :=
  match σ.readers with
  | (_, r) :: _ => r.lw
  | [] => match σ.opens with
    | a :: _ => a.id
    | [] => σ.last

def St.ser (σ : St) (s : Nat) : Series := σ.series.getD s {}

def St.setSer (σ : St) (s : Nat) (x : Series) : St := { σ with series := σ.series.set s x }

def St.app? (σ : St) (id : Nat) : Option App := σ.opens.find? (·.id == id)

def St.reader? (σ : St) (key : Nat) : Option Reader := (σ.readers.find? (·.1 == key)).map (·.2)

inductive Act
  | newAppender (pending : List Pending)
  | cut (s : Nat)
  | commitNext (id : Nat)
  | mmap (s : Nat)
  | cleanup (id : Nat) (s : Nat)
  | closeAppend (id : Nat)
  | newReader (key : Nat)
  | closeReader (key : Nat)
deriving Repr, DecidableEq, Inhabited

/-- One atomic action; `none` = not enabled in this state. -/
def step (σ : St) : Act → Option St
  | .newAppender pending =>
    let id := σ.last + 1
    let σ1 : St := { σ with last := id, opens := σ.opens ++ [(⟨id, 0, pending⟩ : App)] }
    -- `return app.appendID, i.lowWatermarkLocked()` — evaluated after the insertion
    some { σ1 with opens := σ.opens ++ [(⟨id, σ1.lowWatermark, pending⟩ : App)] }
  | .cut s => if s < σ.series.length then some (σ.setSer s (σ.ser s).cut) else none
  | .mmap s => if s < σ.series.length then some (σ.setSer s (σ.ser s).mmapChunks) else none
  | .commitNext id =>
    match σ.app? id with
    | none => none
    | some a =>
      match a.pending with
      | [] => none
      | p :: rest =>
        if p.s < σ.series.length then
          let ser := σ.ser p.s
          let ser1 := if ser.inOrder p.t then ser.append ⟨p.t, p.v, id⟩ else ser
          let σ1 := σ.setSer p.s (ser1.cleanup a.cleanupBelow)
          some { σ1 with opens := σ.opens.map fun b => if b.id == id then { b with pending := rest } else b }
        else none
  | .cleanup id s =>
    match σ.app? id with
    | none => none
    | some a => if s < σ.series.length then some (σ.setSer s ((σ.ser s).cleanup a.cleanupBelow)) else none
  | .closeAppend id =>
    match σ.app? id with
    | none => none
    | some _ => some { σ with opens := σ.opens.filter (·.id != id) }
  | .newReader key =>
    if (σ.reader? key).isSome then none
    else
      let r : Reader := { max := σ.last,
                          lw := (match σ.opens with | a :: _ => a.id | [] => σ.last),
                          incomplete := σ.opens.map (·.id) }
      some { σ with readers := σ.readers ++ [(key, r)] }
  | .closeReader key =>
    if (σ.reader? key).isSome then some { σ with readers := σ.readers.filter (·.1 != key) } else none

/-- Run a trace from a state; `none` as soon as an action is not enabled. -/
def run (σ : St) : List Act → Option St
  | [] => some σ
  | a :: rest => match step σ a with
    | some σ' => run σ' rest
    | none => none

def init (nSeries : Nat) : St := { series := List.replicate nSeries {} }

/-- What reader `key` sees of series `s` in state `σ` when it reads all chunks now. -/
def St.read (σ : St) (key : Nat) (s : Nat) : List Sample :=
  match σ.reader? key with
  | some r => (σ.ser s).read r
  | none => []

end Prom.Iso
