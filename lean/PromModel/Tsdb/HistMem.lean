import PromModel.Tsdb.HistLayout
/-
  Caller-side memory of the histogram chunk appenders (property C11, clause caller_unchanged / aliasing).

  `AppendHistogram`/`AppendFloatHistogram` of all four appender flavours (`HistogramAppender`,
  `FloatHistogramAppender`, `HistogramSTAppender`, `FloatHistogramSTAppender`) receive a pointer to the caller's
  histogram.  Its span and bucket slices point into arrays the caller owns and may share with its other
  histograms (one static layout used by every sample; slices cut from one big allocation, with spare capacity
  behind them).  What the current code does with that memory:

  * it never writes through the caller's slices (neither inside `len` nor into the spare capacity);
  * when the incoming histogram has to be widened ("backward inserts": the chunk holds empty buckets the
    histogram lacks) it allocates (`make`, `adjustForInserts` appending to a nil slice, `expandSpansBothWays`'
    merged spans, `insert` into a fresh `make`) and stores the new slice headers in the caller's struct.

  `Mem` is the caller's heap (one array per element type), `Slice` a Go slice header into it, `HView` a
  histogram struct whose slice fields are such headers.  `appendMem` is `appendHist` at this level: every slice
  of the returned histogram that differs from the incoming one lives in freshly allocated cells (appended to the
  arena); nothing that existed is written.
-/
namespace Prom.Hist

/-- `arena[off : off+len : off+cap]` -/
structure Slice where
  off : Nat
  len : Nat
  cap : Nat
deriving DecidableEq, Repr, Inhabited

def Slice.read {α : Type} (s : Slice) (l : List α) : List α := (l.drop s.off).take s.len

/-- the header is a legal slice of an array of `n` cells -/
def Slice.inB (s : Slice) (n : Nat) : Bool := decide (s.len ≤ s.cap) && decide (s.off + s.cap ≤ n)

/-- `none` = nil slice -/
def readO {α : Type} (s : Option Slice) (l : List α) : List α :=
  match s with
  | none => []
  | some s => s.read l

def inBO (s : Option Slice) (n : Nat) : Bool :=
  match s with
  | none => true
  | some s => s.inB n

/-- the caller's heap: `[]histogram.Span`, `[]int64` and `[]float64` (bit patterns) cells -/
structure Mem where
  spans : List Span
  ints : List Int
  floats : List Int
deriving DecidableEq, Repr, Inhabited

/-- bucket cells of a flavour -/
def Mem.vals (m : Mem) (float : Bool) : List Int := if float then m.floats else m.ints

/-- a `*histogram.Histogram` / `*histogram.FloatHistogram` whose slices point into `Mem` -/
structure HView where
  float : Bool
  hint : Hint
  schema : Int
  zt : Nat
  count : Nat
  zcount : Nat
  sum : Nat
  pS : Option Slice
  nS : Option Slice
  pB : Option Slice
  nB : Option Slice
  cv : Option Slice
deriving DecidableEq, Repr, Inhabited

/-- the histogram the struct denotes in heap `m` -/
def Mem.hist (m : Mem) (v : HView) : Hist :=
  { float := v.float, hint := v.hint, schema := v.schema, zt := v.zt, count := v.count, zcount := v.zcount,
    sum := v.sum, pSpans := readO v.pS m.spans, nSpans := readO v.nS m.spans,
    pB := readO v.pB (m.vals v.float), nB := readO v.nB (m.vals v.float),
    custom := (readO v.cv m.floats).map Int.toNat }

def HView.inB (v : HView) (m : Mem) : Bool :=
  inBO v.pS m.spans.length && inBO v.nS m.spans.length &&
  inBO v.pB (m.vals v.float).length && inBO v.nB (m.vals v.float).length && inBO v.cv m.floats.length

/-- A slice field after the call: untouched header if the content is what it was, otherwise a header over
    freshly allocated cells (`make` + fill).  Existing cells are never written. -/
def place {α : Type} [DecidableEq α] (arena : List α) (old : Option Slice) (new : List α) :
    List α × Option Slice :=
  if new = readO old arena then (arena, old)
  else (arena ++ new, some ⟨arena.length, new.length, new.length⟩)

/-- `AppendHistogram(prev, st, t, h, false)` on a histogram living in the caller's heap. -/
def appendMem (m : Mem) (prev : Option Chunk) (c : Chunk) (t : Int) (v : HView) :
    Except Err (Mem × HView × AppRes) :=
  match appendHist prev c t (m.hist v) with
  | .error e => .error e
  | .ok r =>
    let p1 := place m.spans v.pS r.h.pSpans
    let p2 := place p1.1 v.nS r.h.nSpans
    let b1 := place (m.vals v.float) v.pB r.h.pB
    let b2 := place b1.1 v.nB r.h.nB
    let m' : Mem := if v.float then { spans := p2.1, ints := m.ints, floats := b2.1 }
                    else { spans := p2.1, ints := b2.1, floats := m.floats }
    .ok (m', { v with pS := p1.2, nS := p2.2, pB := b1.2, nB := b2.2 }, r)

/-- cells of `old` (position, new content) that differ in `new` (`new` is at least as long) -/
def cellDiff {α : Type} [DecidableEq α] (k : Nat) : List α → List α → List (Nat × α)
  | a :: as, b :: bs => if a = b then cellDiff (k + 1) as bs else (k, b) :: cellDiff (k + 1) as bs
  | _, _ => []

end Prom.Hist
