import PromModel.Prelude.Enc
/-
  Model of the persistent block files (property C24), transcribed from tsdb/chunks/chunks.go
  (`Writer.WriteChunks`, `Reader.ChunkOrIterable`), tsdb/index/index.go (format V2: `Writer`
  `AddSymbol`/`AddSeries`/postings/postings offset table/TOC; `Reader` `newReader`, `Series`,
  `Postings`, `LabelValues`, `LabelNames`, `Symbols`) and tsdb/encoding (`NewDecbufAt`,
  `NewDecbufUvarintAt`).

  * bytes are `List UInt8`; file offsets, references, counts are `Nat`; timestamps `Int` (int64);
  * CRC32-Castagnoli is a *parameter* `crc : Bytes → UInt32` (the driver plugs in the table
    implementation of `PromModel/Tsdb/WalFrame.lean`; theorems hold for every function, the
    damage theorems under the explicit hypothesis `CrcDetects1 crc`);
  * series label sets inside the model are lists of symbol references `(name, value)`; strings
    come in through the symbol table;
  * every int64/uint64 conversion and wrap-around of the Go code is explicit (`toU64`, `toI64`,
    `wrap64`); Decbuf's sticky error is the `Except` monad (every error path of the decoders
    returns `d.Err()` or a wrapped error, so aborting at the first error is equivalent).
-/
namespace Prom.BlockIndex
open Prom.Enc

abbrev Crc := Bytes → UInt32

/-- The 4 bytes `hash.Sum` / `PutHash` append: big endian CRC. -/
def crcBytes (crc : Crc) (bs : Bytes) : Bytes := putBE32 (crc bs).toNat

inductive Err
  | invalidSize      -- encoding.ErrInvalidSize, "segment doesn't include enough bytes…"
  | invalidUvarint   -- "invalid uvarint %d", "reading chunk length failed with %d"
  | checksum         -- encoding.ErrInvalidChecksum, "checksum mismatch"
  | badMagic
  | badVersion
  | segRange         -- "segment index %d out of range"
  | badEncoding      -- chunkenc pool: "invalid chunk encoding"
  | unknownSymbol    -- "unknown symbol offset %d"
  | badKeyCount      -- "unexpected number of keys for postings offset table"
  | postingsLen      -- "unexpected postings length"
  | reverseLookup    -- "reverse symbol lookup"
  | panic
  deriving DecidableEq, Repr

def ofDec {α} : Except DecErr α → Except Err α
  | .ok a => .ok a
  | .error .invalid => .error .invalidSize
  | .error .panic => .error .panic

/-- `d.Uvarint64()` -/
def uv (b : Bytes) : Except Err (Nat × Bytes) := ofDec (decUvarint b)
/-- `d.Varint64()` -/
def sv (b : Bytes) : Except Err (Int × Bytes) := ofDec (decVarint b)
/-- `d.UvarintBytes()` -/
def ustr (b : Bytes) : Except Err (Bytes × Bytes) := ofDec (decUvarintStr b)

/-- `varint.Uvarint(b)` / `binary.Uvarint(b)` on a window: value and number of bytes consumed;
    `none` stands for every `n ≤ 0` outcome. -/
def uvarintN (b : Bytes) : Option (Nat × Nat) :=
  match getUvarint b with
  | some (v, rest) => some (v, b.length - rest.length)
  | none => none

def be32At (bs : Bytes) (off : Nat) : Nat :=
  match getBE32 (bs.drop off) with
  | .ok (v, _) => v
  | .error _ => 0

def zeros (n : Nat) : Bytes := List.replicate n 0

/-- number of zero bytes `AddPadding(k)` writes at position `pos` -/
def padLen (k pos : Nat) : Nat := (k - pos % k) % k

/-! ## Chunk segment files (tsdb/chunks) -/

def magicChunks : Nat := 0x85BD40DD
def segmentHeaderSize : Nat := 8

/-- `cutSegmentFile`: magic, format version 1, three bytes of padding. -/
def segmentHeader : Bytes := putBE32 magicChunks ++ [1, 0, 0, 0]

/-- One chunk on disk: `uvarint(len(data)) | encoding | data | crc32(encoding, data)`.
    The Go writer encodes the length into a 5-byte buffer (`binary.PutUvarint(w.buf[:], …)` panics
    for `len ≥ 2^35`); `writeChunks` below makes that explicit. -/
def chunkRecord (crc : Crc) (enc : UInt8) (data : Bytes) : Bytes :=
  putUvarint data.length ++ (enc :: data) ++ crcBytes crc (enc :: data)

def maxChunkLen : Nat := 34359738368  -- 2^35: larger lengths do not fit `MaxVarintLen32` bytes

/-- chunkenc pool: encodings 1..6 are known. -/
def validEnc (e : UInt8) : Bool := decide (1 ≤ e.toNat ∧ e.toNat ≤ 6)

/-- `Reader.ChunkOrIterable` on one segment at `chkStart`: `(encoding, data)`. -/
def readChunkAt (crc : Crc) (seg : Bytes) (chkStart : Nat) : Except Err (UInt8 × Bytes) :=
  if chkStart + 5 > seg.length then .error .invalidSize else
  match uvarintN ((seg.drop chkStart).take 5) with
  | none => .error .invalidUvarint
  | some (l, n) =>
    let encStart := chkStart + n
    let chkEnd := encStart + 1 + l + 4
    if chkEnd > seg.length then .error .invalidSize else
    let covered := (seg.drop encStart).take (1 + l)
    let sum := (seg.drop (encStart + 1 + l)).take 4
    if crcBytes crc covered ≠ sum then .error .checksum else
    match covered with
    | [] => .error .panic        -- unreachable: `covered` has `1 + l` bytes
    | e :: data => if validEnc e then .ok (e, data) else .error .badEncoding

/-- `newReader`: every segment needs the 8-byte header with magic and version 1. -/
def checkSegment (seg : Bytes) : Except Err Unit :=
  if seg.length < segmentHeaderSize then .error .invalidSize
  else if be32At seg 0 ≠ magicChunks then .error .badMagic
  else if (seg.drop 4).head? ≠ some 1 then .error .badVersion
  else .ok ()

def openSegments : List Bytes → Except Err Unit
  | [] => .ok ()
  | s :: rest => match checkSegment s with
    | .error e => .error e
    | .ok () => openSegments rest

/-- `BlockChunkRef.Unpack` + `ChunkOrIterable`. -/
def readChunk (crc : Crc) (segs : List Bytes) (ref : Nat) : Except Err (UInt8 × Bytes) :=
  let sgm := ref / 4294967296 % 4294967296
  let start := ref % 4294967296
  match segs[sgm]? with
  | none => .error .segRange
  | some seg => readChunkAt crc seg start

/-- State of `chunks.Writer`: `n` = bytes in the current segment (`w.n`, 0 before the first cut),
    `segs` = content of the segment files in order (last = current). -/
structure CW where
  segSize : Nat
  n : Nat := 0
  segs : List Bytes := []
  deriving Repr

abbrev Chunk := UInt8 × Bytes

/-- The batching loop of `WriteChunks` (transcribed with its quirks: the per-chunk size counts the
    maximal length field; while `firstBatch` holds and the segment already has data, the cut test
    uses `w.n`, even for `i = 0`, which leaves an empty first batch). -/
def splitBatches (segSize wn : Nat) : List Chunk → Nat → Nat → Bool → List Chunk → List (List Chunk) → List (List Chunk)
  | [], _, _, _, cur, done => (cur.reverse :: done).reverse
  | c :: cs, i, bsz, fb, cur, done =>
    let sz := 5 + 1 + c.2.length + 4
    let bsz := bsz + sz
    let cut0 := decide (i ≠ 0) && decide (bsz + segmentHeaderSize > segSize)
    let useN := fb && decide (wn > segmentHeaderSize)
    let cut := if useN then decide (bsz + wn > segSize) else cut0
    let fb := if useN && cut then false else fb
    if cut then splitBatches segSize wn cs (i + 1) sz fb [c] (cur.reverse :: done)
    else splitBatches segSize wn cs (i + 1) bsz fb (c :: cur) done

def CW.cut (w : CW) : CW := { w with n := segmentHeaderSize, segs := w.segs ++ [segmentHeader] }

/-- append to the current (last) segment file -/
def appendLast : List Bytes → Bytes → List Bytes
  | [], b => [b]
  | [l], b => [l ++ b]
  | x :: y :: r, b => x :: appendLast (y :: r) b

/-- `writeChunks`: appends the records to the current segment; returns the references. -/
def CW.writeBatch (crc : Crc) (w : CW) : List Chunk → Except Err (CW × List Nat)
  | [] => .ok (w, [])
  | c :: cs =>
    if c.2.length ≥ maxChunkLen then .error .panic else
    let ref := (w.segs.length - 1) * 4294967296 + w.n
    let rec_ := chunkRecord crc c.1 c.2
    match CW.writeBatch crc { w with n := w.n + rec_.length, segs := appendLast w.segs rec_ } cs with
    | .error e => .error e
    | .ok (w', refs) => .ok (w', ref :: refs)

def CW.writeBatches (crc : Crc) (w : CW) : List (List Chunk) → Except Err (CW × List Nat)
  | [] => .ok (w, [])
  | [b] => CW.writeBatch crc w b
  | b :: b2 :: rest =>
    match CW.writeBatch crc w b with
    | .error e => .error e
    | .ok (w1, refs1) =>
      match CW.writeBatches crc w1.cut (b2 :: rest) with
      | .error e => .error e
      | .ok (w2, refs2) => .ok (w2, refs1 ++ refs2)

/-- `Writer.WriteChunks(chks...)`: new state and the `Ref` assigned to every chunk. -/
def CW.writeChunks (crc : Crc) (w : CW) (chks : List Chunk) : Except Err (CW × List Nat) :=
  let batches := splitBatches w.segSize w.n chks 0 0 true [] []
  let w := if w.n = 0 then w.cut else w
  CW.writeBatches crc w batches

/-! ## Index: series entries -/

structure ChunkMeta where
  mint : Int
  maxt : Int
  ref : Nat
  deriving DecidableEq, Repr

/-- A series as the index stores it: label pairs as symbol references, chunk metas. -/
structure Series where
  labels : List (Nat × Nat)
  chunks : List ChunkMeta
  deriving DecidableEq, Repr

/-- Chunks after the first: `uvarint(mint − prevMaxt) | uvarint(maxt − mint) | varint(ref − prevRef)`
    (int64 subtraction, then `uint64(…)`: the value modulo 2^64). -/
def encChunksTail : Int → Int → List ChunkMeta → Bytes
  | _, _, [] => []
  | t0, r0, c :: cs =>
    putUvarint (toU64 (c.mint - t0)) ++ putUvarint (toU64 (c.maxt - c.mint)) ++
      putVarint (wrap64 (toI64 c.ref - r0)) ++ encChunksTail c.maxt (toI64 c.ref) cs

def encChunks : List ChunkMeta → Bytes
  | [] => []
  | c :: cs =>
    putVarint c.mint ++ putUvarint (toU64 (c.maxt - c.mint)) ++ putUvarint c.ref ++
      encChunksTail c.maxt (toI64 c.ref) cs

def encLabel (p : Nat × Nat) : Bytes := putUvarint p.1 ++ putUvarint p.2

/-- `buf2` of `AddSeries` before the hash. -/
def seriesBody (s : Series) : Bytes :=
  putUvarint s.labels.length ++ s.labels.flatMap encLabel ++
    putUvarint s.chunks.length ++ encChunks s.chunks

/-- `uvarint(len(body)) | body | crc32(body)`. -/
def seriesEntry (crc : Crc) (s : Series) : Bytes :=
  putUvarint (seriesBody s).length ++ seriesBody s ++ crcBytes crc (seriesBody s)

/-- `encoding.NewDecbufUvarintAt(bs, off, castagnoliTable)`: the CRC-checked body. -/
def decbufUvarintAt (crc : Crc) (bs : Bytes) (off : Nat) : Except Err Bytes :=
  if bs.length < off + 5 then .error .invalidSize else
  match uvarintN ((bs.drop off).take 5) with
  | none => .error .invalidUvarint
  | some (l, n) =>
    if bs.length < off + n + l + 4 then .error .invalidSize else
    let body := (bs.drop (off + n)).take l
    let sum := (bs.drop (off + n + l)).take 4
    if crcBytes crc body ≠ sum then .error .checksum else .ok body

abbrev Lookup := Nat → Except Err Bytes

/-- The label loop of `Decoder.Series`: two uvarints truncated to `uint32`, then both lookups. -/
def decLabels (lookup : Lookup) : Nat → Bytes → Except Err (List (Bytes × Bytes) × Bytes)
  | 0, b => .ok ([], b)
  | k + 1, b =>
    match uv b with
    | .error e => .error e
    | .ok (lno, b1) =>
      match uv b1 with
      | .error e => .error e
      | .ok (lvo, b2) =>
        match lookup (lno % 4294967296) with
        | .error e => .error e
        | .ok ln =>
          match lookup (lvo % 4294967296) with
          | .error e => .error e
          | .ok lv =>
            match decLabels lookup k b2 with
            | .error e => .error e
            | .ok (rest, b3) => .ok ((ln, lv) :: rest, b3)

/-- `for i := 1; i < k; i++ { mint := int64(d.Uvarint64()) + t0; maxt := int64(d.Uvarint64()) + mint;
    ref0 += d.Varint64(); t0 = maxt; … }` -/
def decChunksTail : Nat → Int → Int → Bytes → Except Err (List ChunkMeta)
  | 0, _, _, _ => .ok []
  | k + 1, t0, r0, b =>
    match uv b with
    | .error e => .error e
    | .ok (u1, b1) =>
      match uv b1 with
      | .error e => .error e
      | .ok (u2, b2) =>
        match sv b2 with
        | .error e => .error e
        | .ok (dr, b3) =>
          let mint := wrap64 (toI64 u1 + t0)
          let maxt := wrap64 (toI64 u2 + mint)
          let r := wrap64 (r0 + dr)
          match decChunksTail k maxt r b3 with
          | .error e => .error e
          | .ok rest => .ok (⟨mint, maxt, toU64 r⟩ :: rest)

/-- The chunk part of `Decoder.Series`. `k` is an `int`: a count `≥ 2^63` is negative, the first
    chunk is still read and the loop does not run. -/
def decChunks (b : Bytes) : Except Err (List ChunkMeta) :=
  match uv b with
  | .error e => .error e
  | .ok (k, b1) =>
    if toI64 k = 0 then .ok [] else
    match sv b1 with
    | .error e => .error e
    | .ok (t0, b2) =>
      match uv b2 with
      | .error e => .error e
      | .ok (u, b3) =>
        match uv b3 with
        | .error e => .error e
        | .ok (r, b4) =>
          let maxt := wrap64 (toI64 u + t0)
          match decChunksTail (toI64 k - 1).toNat maxt (toI64 r) b4 with
          | .error e => .error e
          | .ok rest => .ok (⟨t0, maxt, r⟩ :: rest)

structure SeriesOut where
  labels : List (Bytes × Bytes)
  chunks : List ChunkMeta
  deriving DecidableEq, Repr

/-- `Decoder.Series(b, builder, &chks)`. -/
def decSeriesBody (lookup : Lookup) (b : Bytes) : Except Err SeriesOut :=
  match uv b with
  | .error e => .error e
  | .ok (k, b1) =>
    match decLabels lookup (toI64 k).toNat b1 with
    | .error e => .error e
    | .ok (lbls, b2) =>
      match decChunks b2 with
      | .error e => .error e
      | .ok chks => .ok ⟨lbls, chks⟩

/-- `Reader.Series(id)` at byte offset `off = 16·id`. -/
def readSeriesAt (crc : Crc) (lookup : Lookup) (file : Bytes) (off : Nat) : Except Err SeriesOut :=
  match decbufUvarintAt crc file off with
  | .error e => .error e
  | .ok body => decSeriesBody lookup body

/-! ## Index: sections with a 4-byte length (`NewDecbufAt`) -/

/-- `BE32 len | content | crc32(content)` -/
def sect (crc : Crc) (content : Bytes) : Bytes :=
  putBE32 content.length ++ content ++ crcBytes crc content

/-- `encoding.NewDecbufAt(bs, off, table)`; `check = false` is the `nil` table. An offset `≥ 2^63`
    is a negative `int` and the slice expression panics. -/
def decbufAt (crc : Crc) (check : Bool) (bs : Bytes) (off : Nat) : Except Err Bytes :=
  if off ≥ two63 then .error .panic else
  if bs.length < off + 4 then .error .invalidSize else
  let l := be32At bs off
  if bs.length < off + 4 + l + 4 then .error .invalidSize else
  let body := (bs.drop (off + 4)).take l
  let sum := (bs.drop (off + 4 + l)).take 4
  if check && crcBytes crc body ≠ sum then .error .checksum else .ok body

/-! ### symbol table -/

def symbolsContent (syms : List Bytes) : Bytes :=
  putBE32 syms.length ++ syms.flatMap putUvarintStr

def symbolTable (crc : Crc) (syms : List Bytes) : Bytes := sect crc (symbolsContent syms)

def readStrs : Nat → Bytes → Except Err (List Bytes)
  | 0, _ => .ok []
  | k + 1, b =>
    match ustr b with
    | .error e => .error e
    | .ok (s, b1) =>
      match readStrs k b1 with
      | .error e => .error e
      | .ok rest => .ok (s :: rest)

/-- `NewSymbols(bs, FormatV2, off)`: all `cnt` strings (`Lookup(o)` is indexing into them). -/
def readSymbols (crc : Crc) (bs : Bytes) (off : Nat) : Except Err (List Bytes) :=
  match decbufAt crc true bs off with
  | .error e => .error e
  | .ok body =>
    match getBE32 body with
    | .error _ => .error .invalidSize
    | .ok (cnt, rest) => readStrs cnt rest

def lookupIn (syms : List Bytes) : Lookup := fun o =>
  match syms[o]? with
  | some s => .ok s
  | none => .error .unknownSymbol

/-! ### postings lists and the postings offset table -/

def postingsContent (ids : List Nat) : Bytes := putBE32 ids.length ++ ids.flatMap putBE32

def postingsList (crc : Crc) (ids : List Nat) : Bytes := sect crc (postingsContent ids)

def readBE32s : Nat → Bytes → List Nat
  | 0, _ => []
  | k + 1, b =>
    match getBE32 b with
    | .ok (v, rest) => v :: readBE32s k rest
    | .error _ => []

/-- `NewDecbufAt` + `DecodePostingsRaw`, expanded. -/
def readPostingsAt (crc : Crc) (bs : Bytes) (off : Nat) : Except Err (List Nat) :=
  match decbufAt crc true bs off with
  | .error e => .error e
  | .ok body =>
    match getBE32 body with
    | .error _ => .error .invalidSize
    | .ok (n, rest) => if rest.length ≠ 4 * n then .error .postingsLen else .ok (readBE32s n rest)

structure TableEntry where
  name : Bytes
  value : Bytes
  off : Nat
  deriving DecidableEq, Repr

def encTableEntry (e : TableEntry) : Bytes :=
  putUvarint 2 ++ putUvarintStr e.name ++ putUvarintStr e.value ++ putUvarint e.off

def offsetTableContent (es : List TableEntry) : Bytes :=
  putBE32 es.length ++ es.flatMap encTableEntry

def offsetTable (crc : Crc) (es : List TableEntry) : Bytes := sect crc (offsetTableContent es)

/-- loop of `ReadPostingsOffsetTable`: `for d.Err() == nil && d.Len() > 0 && cnt > 0` -/
def readTableEntries : Nat → Bytes → Except Err (List TableEntry)
  | 0, _ => .ok []
  | _ + 1, [] => .ok []
  | k + 1, b =>
    match uv b with
    | .error _ => .error .badKeyCount       -- `d.Uvarint()` yields 0 on error, which is `≠ 2`
    | .ok (kc, b1) =>
      if kc % two64 ≠ 2 then .error .badKeyCount else
      match ustr b1 with
      | .error e => .error e
      | .ok (name, b2) =>
        match ustr b2 with
        | .error e => .error e
        | .ok (value, b3) =>
          match uv b3 with
          | .error e => .error e
          | .ok (o, b4) =>
            match readTableEntries k b4 with
            | .error e => .error e
            | .ok rest => .ok (⟨name, value, o⟩ :: rest)

def readOffsetTable (crc : Crc) (bs : Bytes) (off : Nat) : Except Err (List TableEntry) :=
  match decbufAt crc true bs off with
  | .error e => .error e
  | .ok body =>
    match getBE32 body with
    | .error _ => .error .invalidSize
    | .ok (cnt, rest) => readTableEntries cnt rest

/-! ### TOC -/

structure Toc where
  symbols : Nat
  series : Nat
  labelIndices : Nat
  labelIndicesTable : Nat
  postings : Nat
  postingsTable : Nat
  deriving DecidableEq, Repr

def tocContent (t : Toc) : Bytes :=
  putBE64 t.symbols ++ putBE64 t.series ++ putBE64 t.labelIndices ++ putBE64 t.labelIndicesTable ++
    putBE64 t.postings ++ putBE64 t.postingsTable

def tocLen : Nat := 52

/-- `writeTOC`: six BE64 and the CRC over them. -/
def encToc (crc : Crc) (t : Toc) : Bytes := tocContent t ++ crcBytes crc (tocContent t)

def decTocContent (b : Bytes) : Except Err Toc :=
  match getBE64 b with
  | .error _ => .error .invalidSize
  | .ok (a1, b1) =>
  match getBE64 b1 with
  | .error _ => .error .invalidSize
  | .ok (a2, b2) =>
  match getBE64 b2 with
  | .error _ => .error .invalidSize
  | .ok (a3, b3) =>
  match getBE64 b3 with
  | .error _ => .error .invalidSize
  | .ok (a4, b4) =>
  match getBE64 b4 with
  | .error _ => .error .invalidSize
  | .ok (a5, b5) =>
  match getBE64 b5 with
  | .error _ => .error .invalidSize
  | .ok (a6, _) => .ok ⟨a1, a2, a3, a4, a5, a6⟩

/-- `NewTOCFromByteSlice`: the last 52 bytes of the file. -/
def readToc (crc : Crc) (bs : Bytes) : Except Err Toc :=
  if bs.length < tocLen then .error .invalidSize else
  let b := bs.drop (bs.length - tocLen)
  let content := b.take 48
  let sum := b.drop 48
  if crcBytes crc content ≠ sum then .error .checksum else decTocContent content

/-! ## Index: the writer, whole file -/

def magicIndex : Nat := 0xBAAAD700

def indexHeader : Bytes := putBE32 magicIndex ++ [2]

/-- Series section: every entry starts at the next multiple of 16; returns the bytes appended after
    position `pos` and the series ids (`offset / 16`). -/
def placeSeries (crc : Crc) : Nat → List Series → Bytes × List Nat
  | _, [] => ([], [])
  | pos, s :: ss =>
    let pad := padLen 16 pos
    let e := seriesEntry crc s
    let r := placeSeries crc (pos + pad + e.length) ss
    (zeros pad ++ e ++ r.1, (pos + pad) / 16 :: r.2)

def insertUniq (x : Nat) : List Nat → List Nat
  | [] => [x]
  | y :: ys => if x < y then x :: y :: ys else if x = y then y :: ys else y :: insertUniq x ys

def sortUniq (xs : List Nat) : List Nat := xs.foldr insertUniq []

/-- Label names in use (`w.labelNames`, sorted — symbol references order like the strings because
    `AddSymbol` enforces a strictly increasing table). -/
def namesOf (series : List Series) : List Nat :=
  sortUniq (series.flatMap fun s => s.labels.map (·.1))

def valuesOf (series : List Series) (n : Nat) : List Nat :=
  sortUniq (series.flatMap fun s => (s.labels.filter fun p => p.1 = n).map (·.2))

/-- ids of the series carrying the pair, in file order (once per occurrence, as the scan appends). -/
def idsWith (placed : List (Nat × Series)) (n v : Nat) : List Nat :=
  placed.flatMap fun p => (p.2.labels.filter fun q => q.1 = n ∧ q.2 = v).map fun _ => p.1

structure PList where
  name : Bytes
  value : Bytes
  ids : List Nat
  deriving Repr

def strOf (syms : List Bytes) (r : Nat) : Bytes := (syms[r]?).getD []

/-- The postings lists in the order `writePostingsToTmpFiles` emits them: all-postings under
    `("", "")`, then per name (sorted), per value (sorted). -/
def allPLists (syms : List Bytes) (series : List Series) (ids : List Nat) : List PList :=
  let placed := ids.zip series
  ⟨[], [], ids⟩ ::
    (namesOf series).flatMap fun n =>
      (valuesOf series n).map fun v => ⟨strOf syms n, strOf syms v, idsWith placed n v⟩

/-- The temporary postings file: every list 4-aligned; returns bytes and the table entries with
    offsets relative to the temporary file. -/
def placePostings (crc : Crc) : Nat → List PList → Bytes × List TableEntry
  | _, [] => ([], [])
  | pos, p :: ps =>
    let pad := padLen 4 pos
    let l := postingsList crc p.ids
    let r := placePostings crc (pos + pad + l.length) ps
    (zeros pad ++ l ++ r.1, ⟨p.name, p.value, pos + pad⟩ :: r.2)

structure IndexFile where
  bytes : Bytes
  toc : Toc
  ids : List Nat
  deriving Repr

/-- `NewWriter`; `AddSymbol`*; `AddSeries`*; `Close` — the complete V2 index file. -/
def writeIndex (crc : Crc) (syms : List Bytes) (series : List Series) : IndexFile :=
  let hdr := indexHeader
  let st := symbolTable crc syms
  let p1 := hdr.length + st.length
  let ps := placeSeries crc p1 series
  let p2 := p1 + ps.1.length                    -- toc.LabelIndices = toc.Postings
  let pad := padLen 4 p2
  let pstart := p2 + pad                        -- w.postingsStart
  let pp := placePostings crc 0 (allPLists syms series ps.2)
  let p3 := pstart + pp.1.length                -- toc.LabelIndicesTable = toc.PostingsTable
  let tbl := offsetTable crc (pp.2.map fun e => { e with off := e.off + pstart })
  let toc : Toc := ⟨hdr.length, p1, p2, p3, p2, p3⟩
  { bytes := hdr ++ st ++ ps.1 ++ zeros pad ++ pp.1 ++ tbl ++ encToc crc toc, toc := toc, ids := ps.2 }

/-! ## Index: the reader -/

structure Reader where
  file : Bytes
  version : Nat
  toc : Toc
  syms : List Bytes
  table : List TableEntry
  deriving Repr

/-- `newReader` for format V2/V3 (V1 files are not modelled: `badVersion`). -/
def openIndex (crc : Crc) (file : Bytes) : Except Err Reader :=
  if file.length < 5 then .error .invalidSize else
  if be32At file 0 ≠ magicIndex then .error .badMagic else
  let version := ((file.drop 4).head?.getD 0).toNat
  if version ≠ 2 ∧ version ≠ 3 then .error .badVersion else
  match readToc crc file with
  | .error e => .error e
  | .ok toc =>
    match readSymbols crc file toc.symbols with
    | .error e => .error e
    | .ok syms =>
      match readOffsetTable crc file toc.postingsTable with
      | .error e => .error e
      | .ok table =>
        -- r.nameSymbols: every label name of the table must be a symbol
        if table.all fun e => e.name.isEmpty || syms.contains e.name then
          .ok ⟨file, version, toc, syms, table⟩
        else .error .reverseLookup

def Reader.series (crc : Crc) (r : Reader) (id : Nat) : Except Err SeriesOut :=
  readSeriesAt crc (lookupIn r.syms) r.file (id * 16)

/-- `Reader.Postings(name, value)` expanded to a list; an unknown pair has no postings. -/
def Reader.postings (crc : Crc) (r : Reader) (name value : Bytes) : Except Err (List Nat) :=
  match r.table.find? fun e => e.name = name ∧ e.value = value with
  | none => .ok []
  | some e => readPostingsAt crc r.file e.off

/-- `Reader.LabelValues(name)`: table order. -/
def Reader.labelValues (r : Reader) (name : Bytes) : List Bytes :=
  (r.table.filter fun e => e.name = name).map (·.value)

def bytesLt : Bytes → Bytes → Bool
  | [], [] => false
  | [], _ :: _ => true
  | _ :: _, [] => false
  | a :: as, b :: bs => if a < b then true else if b < a then false else bytesLt as bs

def insertBytes (x : Bytes) : List Bytes → List Bytes
  | [] => [x]
  | y :: ys => if bytesLt x y then x :: y :: ys else if x = y then y :: ys else y :: insertBytes x ys

/-- `Reader.LabelNames()`: keys of the postings map without the all-postings key, sorted. -/
def Reader.labelNames (r : Reader) : List Bytes :=
  ((r.table.map (·.name)).filter fun n => !n.isEmpty).foldr insertBytes []

/-! ### reads that return the merged postings of several values of one label name

  `Reader.Postings(name, values...)`, `Reader.PostingsForLabelMatching(name, match)` and
  `Reader.PostingsForAllLabelValues(name)` walk the postings offset table of `name` (in the real reader
  from a sampled in-memory entry, every `symbolFactor`-th value plus the last one; here, as for
  `Reader.postings`/`Reader.labelValues`, over the whole table), decode the list of every selected
  value and hand the lists to `index.Merge`. -/

/-- `index.Merge` followed by `ExpandPostings`: no list → nothing, one list → that list as it is,
    several → their sorted union without duplicates (`mergedPostings.cur` starts at 0, so a
    reference 0 would be dropped as a "duplicate"; series references of a V2 index are ≥ 1). -/
def mergeIds : List (List Nat) → List Nat
  | [] => []
  | [l] => l
  | ls => (sortUniq (ls.flatMap id)).filter (· ≠ 0)

/-- the lists of the given values of `name`, the first error wins -/
def Reader.postingsOfValues (crc : Crc) (r : Reader) (name : Bytes) : List Bytes → Except Err (List (List Nat))
  | [] => .ok []
  | v :: vs =>
    match r.postings crc name v with
    | .error e => .error e
    | .ok l =>
      match r.postingsOfValues crc name vs with
      | .error e => .error e
      | .ok ls => .ok (l :: ls)

/-- `Reader.PostingsForLabelMatching(name, match)` expanded: the values of `name` in table order,
    those accepted by `match`, their lists merged. -/
def Reader.postingsMatching (crc : Crc) (r : Reader) (name : Bytes) (pred : Bytes → Bool) : Except Err (List Nat) :=
  match r.postingsOfValues crc name ((r.labelValues name).filter pred) with
  | .error e => .error e
  | .ok ls => .ok (mergeIds ls)

/-- `Reader.PostingsForAllLabelValues(name)`: `postingsForLabelMatching` with `match == nil`. -/
def Reader.postingsAll (crc : Crc) (r : Reader) (name : Bytes) : Except Err (List Nat) :=
  r.postingsMatching crc name fun _ => true

/-- `Reader.Postings(name, values...)` expanded: values that are not in the table of `name` contribute
    nothing (skipped before the first / after the last entry, stepped over in between), a value given
    twice is read twice; the real code sorts `values` first, which `mergeIds` does not depend on. -/
def Reader.postingsMulti (crc : Crc) (r : Reader) (name : Bytes) (values : List Bytes) : Except Err (List Nat) :=
  match r.postingsOfValues crc name (values.filter fun v => (r.labelValues name).contains v) with
  | .error e => .error e
  | .ok ls => .ok (mergeIds ls)

/-! ## Hypothesis on the checksum used by the damage theorems -/

/-- A single changed byte changes the checksum (true of CRC32: any burst error of at most 32 bits
    is detected; assumed here, see DESIGN §6). -/
def CrcDetects1 (crc : Crc) : Prop :=
  ∀ (pre post : Bytes) (a b : UInt8), a ≠ b → crc (pre ++ a :: post) ≠ crc (pre ++ b :: post)

end Prom.BlockIndex
