import PromModel.Tsdb.HistLayout
import PromModel.Tsdb.VarbitInt
import PromModel.Tsdb.ChunkXor
/-
  Stage 2 of C11: the bit-level encoding of integer histogram chunks (`tsdb/chunkenc/histogram.go`
  `appendHistogram`, `histogramIterator.Next`; `histogram_meta.go` `writeHistogramChunkLayout`,
  `putZeroThreshold`, `putCustomBound`) on top of C10's `Bits`, `Varbit` and `xorWrite`/`xorRead`.

  Input: the layout-level chunk of `HistLayout` (`Chunk`, `float = false`).  A chunk's bytes are a function
  of its header, layout and stored samples (recoding re-appends every sample to a fresh chunk).
  Arithmetic is over `Int`/`Nat` without int64 wrap-around (timestamps, counts and bucket values are far
  inside ±2^61 in every generated case; the round-trip theorem states the range it needs).
  Float flavour (`float_histogram.go`): encoder only (byte-exact tie), no transcription of its iterator.
-/
namespace Prom.HistChunk
open Prom.Bits Prom.Varbit Prom.Hist

/-! ## layout -/

/-- `putZeroThreshold` on the bit pattern: ±0 ↦ byte 0; 0.5·2^exp with −242 ≤ exp ≤ 11 (sign 0, mantissa 0,
    biased exponent 780…1033) ↦ byte exp+243; anything else ↦ 255 and the 64 bits. -/
def putZeroThreshold (zt : Nat) : Bits :=
  if zt % 2 ^ 63 = 0 then natToBits 0 8
  else if zt % 2 ^ 52 = 0 ∧ 780 ≤ zt / 2 ^ 52 ∧ zt / 2 ^ 52 ≤ 1033 then natToBits (zt / 2 ^ 52 - 779) 8
  else natToBits 255 8 ++ natToBits zt 64

def readZeroThreshold (bits : Bits) : Option (Nat × Bits) :=
  match readBits 8 bits with
  | none => none
  | some (0, r) => some (0, r)
  | some (255, r) => readBits 64 r
  | some (b, r) => some ((b + 779) * 2 ^ 52, r)

/-- `isWholeWhenMultiplied` and the range test of `putCustomBound` (IEEE double arithmetic; never used on the
    result path of a NaN) -/
def customSmall (f : Nat) : Option Nat :=
  let x := Float.ofBits f.toUInt64
  let tf := x * 1000
  if tf < 0 || tf > 33554430 then none
  else
    let i := (Float.round tf).toUInt64
    if x == i.toFloat / 1000 then some (i.toNat + 1) else none

def putCustomBound (f : Nat) : Bits :=
  match customSmall f with
  | some v => putVarbitUint v
  | none => false :: natToBits f 64

def readCustomBound (bits : Bits) : Option (Nat × Bits) :=
  match readVarbitUint bits with
  | none => none
  | some (0, r) => readBits 64 r
  | some (b, r) => some (((b - 1).toUInt64.toFloat / 1000).toBits.toNat, r)

def putSpans (spans : List Span) : Bits :=
  putVarbitUint spans.length ++ spans.flatMap fun s => putVarbitUint s.length ++ putVarbitInt s.offset

def readSpansN : Nat → Bits → Option (List Span × Bits)
  | 0, bits => some ([], bits)
  | n + 1, bits =>
    match readVarbitUint bits with
    | none => none
    | some (len, r1) =>
      match readVarbitInt r1 with
      | none => none
      | some (off, r2) =>
        match readSpansN n r2 with
        | none => none
        | some (tl, r3) => some (⟨off, len⟩ :: tl, r3)

def readSpans (bits : Bits) : Option (List Span × Bits) :=
  match readVarbitUint bits with
  | none => none
  | some (n, r) => readSpansN n r

def putCustom (cv : List Nat) : Bits := putVarbitUint cv.length ++ cv.flatMap putCustomBound

def readCustomN : Nat → Bits → Option (List Nat × Bits)
  | 0, bits => some ([], bits)
  | n + 1, bits =>
    match readCustomBound bits with
    | none => none
    | some (b, r) =>
      match readCustomN n r with
      | none => none
      | some (tl, r') => some (b :: tl, r')

def readCustom (bits : Bits) : Option (List Nat × Bits) :=
  match readVarbitUint bits with
  | none => none
  | some (n, r) => readCustomN n r

structure Layout where
  schema : Int
  zt : Nat
  pSpans : List Span
  nSpans : List Span
  custom : List Nat
deriving DecidableEq, Repr, Inhabited

/-- `writeHistogramChunkLayout` -/
def putLayout (l : Layout) : Bits :=
  putZeroThreshold l.zt ++ putVarbitInt l.schema ++ putSpans l.pSpans ++ putSpans l.nSpans ++
    (if l.schema = customSchema then putCustom l.custom else [])

/-- `readHistogramChunkLayout` -/
def readLayout (bits : Bits) : Option (Layout × Bits) :=
  match readZeroThreshold bits with
  | none => none
  | some (zt, r1) =>
    match readVarbitInt r1 with
    | none => none
    | some (schema, r2) =>
      match readSpans r2 with
      | none => none
      | some (ps, r3) =>
        match readSpans r3 with
        | none => none
        | some (ns, r4) =>
          if schema = customSchema then
            match readCustom r4 with
            | none => none
            | some (cv, r5) => some (⟨schema, zt, ps, ns, cv⟩, r5)
          else some (⟨schema, zt, ps, ns, []⟩, r4)

/-! ## samples -/

/-- appender / iterator state -/
structure St where
  t : Int
  tDelta : Int
  cnt : Int
  cntDelta : Int
  zcnt : Int
  zcntDelta : Int
  sum : Nat
  leading : Nat
  trailing : Nat
  pB : List Int
  pD : List Int
  nB : List Int
  nD : List Int
deriving DecidableEq, Repr, Inhabited

def putInts (l : List Int) : Bits := l.flatMap putVarbitInt

/-- the first sample of a chunk (after the layout); `numP`/`numN` = `countSpans` of the layout -/
def encFirst (numP numN : Nat) (s : Stored) : Bits × St :=
  (putVarbitInt s.t ++ putVarbitUint s.count ++ putVarbitUint s.zcount ++ natToBits s.sum 64 ++
    putInts s.pB ++ putInts s.nB,
   { t := s.t, tDelta := 0, cnt := s.count, cntDelta := 0, zcnt := s.zcount, zcntDelta := 0, sum := s.sum,
     leading := 255, trailing := 0,
     pB := s.pB ++ List.replicate (numP - s.pB.length) 0, pD := List.replicate numP 0,
     nB := s.nB ++ List.replicate (numN - s.nB.length) 0, nD := List.replicate numN 0 })

/-- delta-of-deltas of the buckets present in the sample, and the updated (values, deltas) slices
    (`copy` overwrites a prefix) -/
def dodGo : List Int → List Int → List Int → List Int × List Int × List Int
  | b :: bs, a :: as, d :: ds =>
    let r := dodGo bs as ds
    (((b - a) - d) :: r.1, b :: r.2.1, (b - a) :: r.2.2)
  | _, as, ds => ([], as, ds)

/-- every later sample -/
def encNext (a : St) (s : Stored) : Bits × St :=
  let stale := s.sum = staleBits
  let tDelta := s.t - a.t
  let cntDelta := (s.count : Int) - a.cnt
  let zDelta := (s.zcount : Int) - a.zcnt
  let cntDod := if stale then 0 else cntDelta - a.cntDelta
  let zDod := if stale then 0 else zDelta - a.zcntDelta
  let x := Prom.ChunkXor.xorWrite (s.sum ^^^ a.sum) a.leading a.trailing
  let p := dodGo s.pB a.pB a.pD
  let n := dodGo s.nB a.nB a.nD
  (putVarbitInt (tDelta - a.tDelta) ++ putVarbitInt cntDod ++ putVarbitInt zDod ++ x.1 ++ putInts p.1 ++ putInts n.1,
   { t := s.t, tDelta := tDelta, cnt := s.count, cntDelta := cntDelta, zcnt := s.zcount, zcntDelta := zDelta,
     sum := s.sum, leading := x.2.1, trailing := x.2.2, pB := p.2.1, pD := p.2.2, nB := n.2.1, nD := n.2.2 })

def encRest (a : St) : List Stored → Bits
  | [] => []
  | s :: rest => let r := encNext a s; r.1 ++ encRest r.2 rest

def layoutOf (c : Chunk) : Layout := ⟨c.schema, c.zt, c.pSpans, c.nSpans, c.custom⟩

/-- the bit stream of a chunk (after the 3 header bytes) -/
def encodeBits (c : Chunk) : Bits :=
  match c.rev.reverse with
  | [] => []
  | s :: rest =>
    let f := encFirst (countSpans c.pSpans) (countSpans c.nSpans) s
    putLayout (layoutOf c) ++ f.1 ++ encRest f.2 rest

def hdrByte : Hdr → Nat
  | .unknown => 0 | .notReset => 64 | .reset => 128 | .gauge => 192

/-! ### float histogram chunks (`float_histogram.go`, encoder only): every value is an `xorValue` with its own
    leading/trailing window; the first sample is written verbatim -/

/-- `xorValue` -/
structure XV where
  value : Nat
  leading : Nat
  trailing : Nat
deriving DecidableEq, Repr, Inhabited

/-- `writeXorValue` -/
def xvWrite (old : XV) (v : Nat) : Bits × XV :=
  let x := Prom.ChunkXor.xorWrite (v ^^^ old.value) old.leading old.trailing
  (x.1, ⟨v, x.2.1, x.2.2⟩)

structure FSt where
  t : Int
  tDelta : Int
  cnt : XV
  zcnt : XV
  sum : XV
  pB : List XV
  nB : List XV
deriving Repr, Inhabited

def putRaw (l : List Int) : Bits := l.flatMap fun b => natToBits b.toNat 64

def encFirstF (s : Stored) : Bits × FSt :=
  (putVarbitInt s.t ++ natToBits s.count 64 ++ natToBits s.zcount 64 ++ natToBits s.sum 64 ++ putRaw s.pB ++ putRaw s.nB,
   { t := s.t, tDelta := 0, cnt := ⟨s.count, 255, 0⟩, zcnt := ⟨s.zcount, 255, 0⟩, sum := ⟨s.sum, 255, 0⟩,
     pB := s.pB.map fun b => ⟨b.toNat, 255, 0⟩, nB := s.nB.map fun b => ⟨b.toNat, 255, 0⟩ })

/-- the buckets present in the sample, against the appender's slice (a prefix is updated) -/
def xvGo : List Int → List XV → Bits × List XV
  | b :: bs, x :: xs =>
    let w := xvWrite x b.toNat
    let r := xvGo bs xs
    (w.1 ++ r.1, w.2 :: r.2)
  | _, xs => ([], xs)

def encNextF (a : FSt) (s : Stored) : Bits × FSt :=
  let tDelta := s.t - a.t
  let c := xvWrite a.cnt s.count
  let z := xvWrite a.zcnt s.zcount
  let sm := xvWrite a.sum s.sum
  let p := xvGo s.pB a.pB
  let n := xvGo s.nB a.nB
  (putVarbitInt (tDelta - a.tDelta) ++ c.1 ++ z.1 ++ sm.1 ++ p.1 ++ n.1,
   { t := s.t, tDelta := tDelta, cnt := c.2, zcnt := z.2, sum := sm.2, pB := p.2, nB := n.2 })

def encRestF (a : FSt) : List Stored → Bits
  | [] => []
  | s :: rest => let r := encNextF a s; r.1 ++ encRestF r.2 rest

def encodeBitsF (c : Chunk) : Bits :=
  match c.rev.reverse with
  | [] => []
  | s :: rest =>
    let f := encFirstF s
    putLayout (layoutOf c) ++ f.1 ++ encRestF f.2 rest

/-- `HistogramChunk.Bytes()` / `FloatHistogramChunk.Bytes()` -/
def encodeChunk (c : Chunk) : List Nat :=
  (c.num / 256 % 256) :: (c.num % 256) :: hdrByte c.hdr :: toBytes (if c.float then encodeBitsF c else encodeBits c)

/-! ## reading (histogramIterator) -/

def readIntsN : Nat → Bits → Option (List Int × Bits)
  | 0, bits => some ([], bits)
  | n + 1, bits =>
    match readVarbitInt bits with
    | none => none
    | some (v, r) =>
      match readIntsN n r with
      | none => none
      | some (tl, r') => some (v :: tl, r')

/-- what `AtHistogram` hands out for the iterator state (a stale sample carries nothing but its sum) -/
def storedOf (d : St) : Stored :=
  if d.sum = staleBits then ⟨d.t, 0, 0, d.sum, [], []⟩
  else ⟨d.t, d.cnt.toNat, d.zcnt.toNat, d.sum, d.pB, d.nB⟩

def decFirst (numP numN : Nat) (bits : Bits) : Option (St × Bits) :=
  match readVarbitInt bits with
  | none => none
  | some (t, r1) =>
    match readVarbitUint r1 with
    | none => none
    | some (cnt, r2) =>
      match readVarbitUint r2 with
      | none => none
      | some (zc, r3) =>
        match readBits 64 r3 with
        | none => none
        | some (sum, r4) =>
          match readIntsN numP r4 with
          | none => none
          | some (pB, r5) =>
            match readIntsN numN r5 with
            | none => none
            | some (nB, r6) =>
              some ({ t, tDelta := 0, cnt, cntDelta := 0, zcnt := zc, zcntDelta := 0, sum, leading := 0, trailing := 0,
                      pB, pD := List.replicate numP 0, nB, nD := List.replicate numN 0 }, r6)

/-- `pBucketsDelta[i] += dod; pBuckets[i] += pBucketsDelta[i]` -/
def applyDods : List Int → List Int → List Int → List Int × List Int
  | dod :: ds, b :: bs, d :: dl =>
    let r := applyDods ds bs dl
    ((b + (d + dod)) :: r.1, (d + dod) :: r.2)
  | _, bs, dl => (bs, dl)

def decNext (d : St) (bits : Bits) : Option (St × Bits) :=
  match readVarbitInt bits with
  | none => none
  | some (tDod, r1) =>
    match readVarbitInt r1 with
    | none => none
    | some (cDod, r2) =>
      match readVarbitInt r2 with
      | none => none
      | some (zDod, r3) =>
        match Prom.ChunkXor.xorRead d.sum d.leading d.trailing r3 with
        | none => none
        | some (sum, l, tr, r4) =>
          let d1 : St := { d with tDelta := d.tDelta + tDod, t := d.t + (d.tDelta + tDod),
                                  cntDelta := d.cntDelta + cDod, cnt := d.cnt + (d.cntDelta + cDod),
                                  zcntDelta := d.zcntDelta + zDod, zcnt := d.zcnt + (d.zcntDelta + zDod),
                                  sum := sum, leading := l, trailing := tr }
          if sum = staleBits then some (d1, r4)
          else
            match readIntsN d.pB.length r4 with
            | none => none
            | some (pDods, r5) =>
              match readIntsN d.nB.length r5 with
              | none => none
              | some (nDods, r6) =>
                let p := applyDods pDods d.pB d.pD
                let n := applyDods nDods d.nB d.nD
                some ({ d1 with pB := p.1, pD := p.2, nB := n.1, nD := n.2 }, r6)

def decRest : Nat → St → Bits → Option (List Stored)
  | 0, _, _ => some []
  | n + 1, d, bits =>
    match decNext d bits with
    | none => none
    | some (d', r) =>
      match decRest n d' r with
      | none => none
      | some tl => some (storedOf d' :: tl)

def hdrOfByte (b : Nat) : Hdr :=
  if b / 64 % 4 = 1 then .notReset else if b / 64 % 4 = 2 then .reset else if b / 64 % 4 = 3 then .gauge else .unknown

/-! ### floatHistogramIterator -/

def readRawN : Nat → Bits → Option (List Nat × Bits)
  | 0, bits => some ([], bits)
  | n + 1, bits =>
    match readBits 64 bits with
    | none => none
    | some (v, r) =>
      match readRawN n r with
      | none => none
      | some (tl, r') => some (v :: tl, r')

def decFirstF (numP numN : Nat) (bits : Bits) : Option (FSt × Bits) :=
  match readVarbitInt bits with
  | none => none
  | some (t, r1) =>
    match readBits 64 r1 with
    | none => none
    | some (cnt, r2) =>
      match readBits 64 r2 with
      | none => none
      | some (zc, r3) =>
        match readBits 64 r3 with
        | none => none
        | some (sum, r4) =>
          match readRawN numP r4 with
          | none => none
          | some (pB, r5) =>
            match readRawN numN r5 with
            | none => none
            | some (nB, r6) =>
              some ({ t, tDelta := 0, cnt := ⟨cnt, 0, 0⟩, zcnt := ⟨zc, 0, 0⟩, sum := ⟨sum, 0, 0⟩,
                      pB := pB.map fun v => ⟨v, 0, 0⟩, nB := nB.map fun v => ⟨v, 0, 0⟩ }, r6)

/-- `readXor` into an `xorValue` -/
def xvRead (x : XV) (bits : Bits) : Option (XV × Bits) :=
  match Prom.ChunkXor.xorRead x.value x.leading x.trailing bits with
  | none => none
  | some (v, l, t, r) => some (⟨v, l, t⟩, r)

def xvReadAll : List XV → Bits → Option (List XV × Bits)
  | [], bits => some ([], bits)
  | x :: xs, bits =>
    match xvRead x bits with
    | none => none
    | some (x', r) =>
      match xvReadAll xs r with
      | none => none
      | some (tl, r') => some (x' :: tl, r')

def decNextF (d : FSt) (bits : Bits) : Option (FSt × Bits) :=
  match readVarbitInt bits with
  | none => none
  | some (tDod, r1) =>
    match xvRead d.cnt r1 with
    | none => none
    | some (cnt, r2) =>
      match xvRead d.zcnt r2 with
      | none => none
      | some (zc, r3) =>
        match xvRead d.sum r3 with
        | none => none
        | some (sum, r4) =>
          let d1 : FSt := { d with tDelta := d.tDelta + tDod, t := d.t + (d.tDelta + tDod), cnt := cnt, zcnt := zc,
                                   sum := sum }
          if sum.value = staleBits then some (d1, r4)
          else
            match xvReadAll d.pB r4 with
            | none => none
            | some (pB, r5) =>
              match xvReadAll d.nB r5 with
              | none => none
              | some (nB, r6) => some ({ d1 with pB := pB, nB := nB }, r6)

/-- what `AtFloatHistogram` hands out -/
def storedOfF (d : FSt) : Stored :=
  if d.sum.value = staleBits then ⟨d.t, 0, 0, d.sum.value, [], []⟩
  else ⟨d.t, d.cnt.value, d.zcnt.value, d.sum.value, d.pB.map fun x => (x.value : Int), d.nB.map fun x => (x.value : Int)⟩

def decRestF : Nat → FSt → Bits → Option (List Stored)
  | 0, _, _ => some []
  | n + 1, d, bits =>
    match decNextF d bits with
    | none => none
    | some (d', r) =>
      match decRestF n d' r with
      | none => none
      | some tl => some (storedOfF d' :: tl)

/-- decode the bytes of a float histogram chunk -/
def decodeChunkF (bytes : List Nat) : Option Chunk :=
  match bytes with
  | hi :: lo :: hb :: rest =>
    let num := hi * 256 + lo
    if num = 0 then some { Chunk.empty true with hdr := hdrOfByte hb }
    else
      match readLayout (fromBytes rest) with
      | none => none
      | some (l, r1) =>
        match decFirstF (countSpans l.pSpans) (countSpans l.nSpans) r1 with
        | none => none
        | some (d, r2) =>
          match decRestF (num - 1) d r2 with
          | none => none
          | some tl =>
            some { float := true, hdr := hdrOfByte hb, schema := l.schema, zt := l.zt, custom := l.custom,
                   pSpans := l.pSpans, nSpans := l.nSpans, rev := (storedOfF d :: tl).reverse }
  | _ => none

/-- decode the bytes of an integer histogram chunk into a layout-level chunk -/
def decodeChunk (bytes : List Nat) : Option Chunk :=
  match bytes with
  | hi :: lo :: hb :: rest =>
    let num := hi * 256 + lo
    if num = 0 then some { Chunk.empty false with hdr := hdrOfByte hb }
    else
      match readLayout (fromBytes rest) with
      | none => none
      | some (l, r1) =>
        match decFirst (countSpans l.pSpans) (countSpans l.nSpans) r1 with
        | none => none
        | some (d, r2) =>
          match decRest (num - 1) d r2 with
          | none => none
          | some tl =>
            some { float := false, hdr := hdrOfByte hb, schema := l.schema, zt := l.zt, custom := l.custom,
                   pSpans := l.pSpans, nSpans := l.nSpans, rev := (storedOf d :: tl).reverse }
  | _ => none

end Prom.HistChunk
