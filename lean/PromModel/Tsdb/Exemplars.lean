import PromModel.Prelude.Line
/-
  Model of `tsdb/exemplar.go` (`CircularExemplarStorage`), transcribed:

  * ring `exemplars []circularBufferEntry` (`exs`), each entry with `next/prev` links
    (`noExemplar = -1` is `none`) and `ref *indexEntry` (`ref : Option Nat`, the series id — an
    `indexEntry` pointer is identified with the series it is stored under in `ce.index`; entries whose
    series was removed from the index have `ref = nil`, so the identification is exact),
  * `nextIndex`, `index map[string]*indexEntry` (`index : Nat → Option IdxEntry`, series are small
    ints in the protocol), `oooTimeWindowMillis` (`window`),
  * `validateExemplar`, `AddExemplar` (all insertion cases, eviction at `nextIndex`, the
    "same index entry" guard, the re-computation of the insertion point), `removeExemplar`,
    `findInsertionIndex`, `Resize`/`grow`/`shrink`/`copyExemplarRanges`, `Select`.

  Indexing `ce.exemplars[i]` is `getN` (total, default entry).  `PromProps.C21.links_wellformed`
  proves that every index the code dereferences is in range in every reachable state, which is what
  justifies the totalisation.  Loops that follow links carry `fuel = len(exemplars)`.

  Float values travel as 64-bit patterns (`Nat`); `<`/`==` on them follow IEEE-754 (NaN unordered,
  `-0 == +0`).  Timestamps are `Int`; `newest.Ts - window` is assumed not to leave int64 (the
  generator keeps timestamps small).
-/
namespace Prom.Exemplars

/-! ### float64 comparisons on bit patterns -/

def f64NaN (b : Nat) : Bool := (b / 2 ^ 52) % 2 ^ 11 == 2047 && b % 2 ^ 52 != 0

/-- Monotone key of a non-NaN float: sign-magnitude to integer (`-0` and `+0` both map to 0). -/
def f64Key (b : Nat) : Int :=
  if (b / 2 ^ 63) % 2 == 1 then - ((b % 2 ^ 63 : Nat) : Int) else ((b % 2 ^ 63 : Nat) : Int)

def f64lt (a b : Nat) : Bool := !f64NaN a && !f64NaN b && decide (f64Key a < f64Key b)
def f64eq (a b : Nat) : Bool := !f64NaN a && !f64NaN b && decide (f64Key a = f64Key b)

/-! ### data -/

/-- `exemplar.Exemplar`. `lbl` is the canonical token of the exemplar's label set (comma-separated
    `hex(name):hex(value)` pairs, sorted by name as `labels.Labels` is, `-` when empty): equal tokens
    ⇔ `labels.Equal`. `hash` is the real `Labels.Hash()` sent by the harness. -/
structure Ex where
  ts : Int
  val : Nat
  hasTs : Bool
  lbl : String
  hash : Nat
deriving DecidableEq, Repr, Inhabited

def Ex.zero : Ex := ⟨0, 0, false, "-", 0⟩

/-- `Exemplar.Equals`. -/
def Ex.equals (e e2 : Ex) : Bool :=
  if e.lbl != e2.lbl then false
  else if (e.hasTs || e2.hasTs) && e.ts != e2.ts then false
  else f64eq e.val e2.val

/-- Number of UTF-8 runes of a byte string that is valid UTF-8 (= non-continuation bytes). -/
def runeCount (bs : List UInt8) : Nat := (bs.filter fun b => b.toNat / 64 != 2).length

/-- Σ over labels of `RuneCountInString(name) + RuneCountInString(value)`. -/
def labelSetLen (lbl : String) : Nat :=
  if lbl = "-" then 0 else
  ((lbl.splitOn ",").map fun p =>
    ((p.splitOn ":").map fun h => match bytesOfHex? h with | some bs => runeCount bs | none => 0).sum).sum

def maxLabelSetLen : Nat := 128

structure Entry where
  ex : Ex
  next : Option Nat
  prev : Option Nat
  ref : Option Nat
deriving DecidableEq, Repr, Inhabited

/-- Go's zero value of `circularBufferEntry` (`next = prev = 0`, `ref = nil`). -/
def Entry.zero : Entry := ⟨Ex.zero, some 0, some 0, none⟩

structure IdxEntry where
  oldest : Option Nat
  newest : Option Nat
deriving DecidableEq, Repr, Inhabited

structure Ring where
  exs : List Entry
  nextIndex : Nat
  index : Nat → Option IdxEntry
  window : Int

def Ring.new (length : Int) (window : Int) : Ring :=
  { exs := List.replicate length.toNat Entry.zero, nextIndex := 0, index := fun _ => none,
    window := if window < 0 then 0 else window }

def Ring.cap (r : Ring) : Nat := r.exs.length

def Ring.getN (r : Ring) (i : Nat) : Entry := r.exs.getD i Entry.zero
def Ring.getO (r : Ring) (i : Option Nat) : Entry :=
  match i with | some i => r.getN i | none => Entry.zero

def Ring.modN (r : Ring) (i : Nat) (f : Entry → Entry) : Ring := { r with exs := r.exs.modify i f }
def Ring.setNext (r : Ring) (i : Nat) (v : Option Nat) : Ring := r.modN i fun e => { e with next := v }
def Ring.setPrev (r : Ring) (i : Nat) (v : Option Nat) : Ring := r.modN i fun e => { e with prev := v }
def Ring.setRef (r : Ring) (i : Nat) (v : Option Nat) : Ring := r.modN i fun e => { e with ref := v }
def Ring.setEx (r : Ring) (i : Nat) (v : Ex) : Ring := r.modN i fun e => { e with ex := v }

def Ring.setIndex (r : Ring) (s : Nat) (v : Option IdxEntry) : Ring :=
  { r with index := fun k => if k = s then v else r.index k }
def Ring.modIndex (r : Ring) (s : Nat) (f : IdxEntry → IdxEntry) : Ring :=
  r.setIndex s ((r.index s).map f)

inductive Err | disabled | toolong | dup | ooo
deriving DecidableEq, Repr

def Err.str : Err → String
  | .disabled => "disabled" | .toolong => "toolong" | .dup => "dup" | .ooo => "ooo"

/-- `validateExemplar(idx, e, _)`; `none` = nil error. -/
def validate (r : Ring) (idx : Option IdxEntry) (e : Ex) : Option Err :=
  if r.exs.length = 0 then some .disabled
  else if labelSetLen e.lbl > maxLabelSetLen then some .toolong
  else match idx with
  | none => none
  | some ie =>
    let n := (r.getO ie.newest).ex
    if n.equals e then some .dup
    else if (e.ts < n.ts ∧ e.ts ≤ n.ts - r.window) ∨ (e.ts = n.ts ∧ f64lt e.val n.val = true)
        ∨ (e.ts = n.ts ∧ f64eq e.val n.val = true ∧ e.hash < n.hash) then some .ooo
    else none

/-- The loop of `findInsertionIndex`, from `i` backwards along `prev`. -/
def findInsGo (r : Ring) (ts : Int) (dflt : Nat) : Nat → Option Nat → Nat
  | _, none => dflt
  | 0, some _ => dflt
  | fuel + 1, some i =>
    let cur := r.getN i
    if cur.ex.ts ≤ ts then i else findInsGo r ts dflt fuel cur.prev

def findIns (r : Ring) (ts : Int) (ie : IdxEntry) : Nat :=
  findInsGo r ts (ie.oldest.getD 0) r.exs.length ie.newest

/-- `removeExemplar(&ce.exemplars[i])`. -/
def removeEx (r : Ring) (i : Nat) : Ring × Bool :=
  let entry := r.getN i
  match entry.ref with
  | none => (r, false)
  | some s =>
    let r1 := match entry.prev with
      | some p => r.setNext p entry.next
      | none => r.modIndex s fun ie => { ie with oldest := entry.next }
    let r2 := match entry.next with
      | some n => r1.setPrev n entry.prev
      | none => r1.modIndex s fun ie => { ie with newest := entry.prev }
    let r3 := r2.setRef i none
    let ie := (r3.index s).getD ⟨none, none⟩
    (r3, ie.oldest == none && ie.newest == none)

inductive AddRes
  | err (e : Err)
  /-- `AddExemplar` returned nil without storing (duplicate of the newest, or same timestamp at the
      out-of-order insertion point). -/
  | noop
  | stored
deriving DecidableEq, Repr

/-- The linking `switch` at the end of `AddExemplar`. -/
def link (r : Ring) (s : Nat) (e : Ex) (indexExists : Bool) (ins : Nat) : Ring :=
  let ni := r.nextIndex
  let ie := (r.index s).getD ⟨some 0, some 0⟩
  if !indexExists then
    ((r.setIndex s (some ⟨some ni, some ni⟩)).setPrev ni none).setNext ni none
  else if e.ts ≥ (r.getO ie.newest).ex.ts then
    let r := match ie.newest with | some n => r.setNext n (some ni) | none => r
    ((r.setPrev ni ie.newest).setNext ni none).modIndex s fun ie => { ie with newest := some ni }
  else if e.ts < (r.getO ie.oldest).ex.ts then
    let r := match ie.oldest with | some o => r.setPrev o (some ni) | none => r
    ((r.setPrev ni none).setNext ni ie.oldest).modIndex s fun ie => { ie with oldest := some ni }
  else
    let nx := (r.getN ins).next
    let r := ((r.setPrev ni (some ins)).setNext ni nx).setNext ins (some ni)
    match nx with | some n => r.setPrev n (some ni) | none => r

/-- "If we insert an out-of-order exemplar, we preemptively find the insertion index":
    `(outOfOrder, insertionIndex)`; both keep their zero values when the series is new. -/
def oooCheck (r : Ring) (idx : Option IdxEntry) (e : Ex) : Bool × Nat :=
  match idx with
  | some ie =>
    if (r.getO ie.oldest).ex.ts ≤ e.ts ∧ e.ts < (r.getO ie.newest).ex.ts then (true, findIns r e.ts ie)
    else (false, 0)
  | none => (false, 0)

/-- "Remove entries if the buffer is full": returns the ring, the updated `indexExists` and the
    (possibly recomputed) insertion index. -/
def evict (r : Ring) (s : Nat) (e : Ex) (indexExists outOfOrder : Bool) (ins : Nat) : Ring × Bool × Nat :=
  let ni := r.nextIndex
  match (r.getN ni).ref with
  | none => (r, indexExists, ins)
  | some pr =>
    if (removeEx r ni).2 then
      if pr = s then ((removeEx r ni).1, false, ins) else ((removeEx r ni).1.setIndex pr none, indexExists, ins)
    else if outOfOrder ∧ ins = ni ∧ pr = s then
      ((removeEx r ni).1, indexExists,
        findIns (removeEx r ni).1 e.ts (((removeEx r ni).1.index s).getD ⟨some 0, some 0⟩))
    else ((removeEx r ni).1, indexExists, ins)

/-- The part of `AddExemplar` after validation: create the index entry if needed, evict, write the
    slot at `nextIndex`, link it, advance `nextIndex`. -/
def store (r : Ring) (s : Nat) (e : Ex) (indexExists outOfOrder : Bool) (ins : Nat) : Ring :=
  let r0 := if indexExists then r else r.setIndex s (some ⟨some 0, some 0⟩)
  let st := evict r0 s e indexExists outOfOrder ins
  let r1 := (st.1.setEx r.nextIndex e).setRef r.nextIndex (some s)
  let r2 := link r1 s e st.2.1 st.2.2
  { r2 with nextIndex := (r.nextIndex + 1) % r2.exs.length }

/-- `AddExemplar(l, e)` for the series with id `s`. -/
def add (r : Ring) (s : Nat) (e : Ex) : Ring × AddRes :=
  if r.exs.length = 0 then (r, .err .disabled) else
  match validate r (r.index s) e with
  | some .dup => (r, .noop)
  | some err => (r, .err err)
  | none =>
    let oi := oooCheck r (r.index s) e
    if oi.1 = true ∧ (r.getN oi.2).ex.ts = e.ts then (r, .noop)
    else (store r s e (r.index s).isSome oi.1 oi.2, .stored)

/-- `ValidateExemplar(l, e)`. -/
def validateOp (r : Ring) (s : Nat) (e : Ex) : Option Err := validate r (r.index s) e

/-! ### Resize -/

/-- Relocate an index through the copied ranges: first range containing it wins. -/
def reloc (ranges : List (Nat × Nat × Int)) (x : Option Nat) : Option Nat :=
  match x with
  | none => none
  | some v =>
    match ranges.find? (fun rg => rg.1 ≤ v ∧ v < rg.2.1) with
    | some rg => some ((v : Int) + rg.2.2).toNat
    | none => some v

/-- Attach `offsets[i] = n - from` to each range (`n` = slots copied so far). -/
def withOffsets : Nat → List (Nat × Nat) → List (Nat × Nat × Int)
  | _, [] => []
  | n, (f, t) :: rest => (f, t, (n : Int) - f) :: withOffsets (n + (t - f)) rest

/-- `copyExemplarRanges(index, dest, src, ranges)` with `len(dest) = l`; returns
    `(dest, index', totalCopied, migrated)`. The ranges always fit (`grow`: `l >` old size; `shrink`:
    exactly `l` slots are kept). -/
def copyRanges (index : Nat → Option IdxEntry) (src : List Entry) (ranges : List (Nat × Nat)) (l : Nat) :
    List Entry × (Nat → Option IdxEntry) × Nat × Nat :=
  let copied := (ranges.flatMap fun rg => (src.drop rg.1).take (rg.2 - rg.1)).take l
  let n := copied.length
  let ro := withOffsets 0 ranges
  let dest := copied.map fun e =>
    if e.ref.isNone then e else { e with prev := reloc ro e.prev, next := reloc ro e.next }
  let migrated := (copied.filter fun e => e.ref.isSome).length
  let index' := fun k => (index k).map fun ie => ⟨reloc ro ie.oldest, reloc ro ie.newest⟩
  (dest ++ List.replicate (l - n) Entry.zero, index', n, migrated)

def grow (r : Ring) (l : Nat) : Ring × Nat :=
  let old := r.exs.length
  let (dest, index', total, migrated) := copyRanges r.index r.exs [(r.nextIndex, old), (0, r.nextIndex)] l
  ({ r with exs := dest, index := index', nextIndex := total }, migrated)

/-- The removal loop of `shrink`: `for i := range diff { idx := (deleteStart+i) % oldSize … }`. -/
def shrinkRemove (r : Ring) (start old : Nat) : Nat → Nat → Ring
  | _, 0 => r
  | i, k + 1 =>
    let idx := (start + i) % old
    let ref := (r.getN idx).ref
    let (r', emptied) := removeEx r idx
    let r' := if emptied then (match ref with | some s => r'.setIndex s none | none => r') else r'
    shrinkRemove r' start old (i + 1) k

def shrink (r : Ring) (l : Nat) : Ring × Nat :=
  let old := r.exs.length
  let diff := old - l
  let ds := r.nextIndex
  let de := (ds + diff) % old
  let r := shrinkRemove r ds old 0 diff
  if ds = de then ({ r with exs := List.replicate l Entry.zero, nextIndex := 0 }, 0)
  else
    let ranges := if ds < de then [(de, old), (0, ds)] else [(de, ds)]
    let (dest, index', total, migrated) := copyRanges r.index r.exs ranges l
    ({ r with exs := dest, index := index', nextIndex := total % l }, migrated)

/-- `Resize(l)`; returns the number of migrated exemplars. -/
def resize (r : Ring) (l : Int) : Ring × Nat :=
  let l := if l ≤ 0 then 0 else l.toNat
  let old := r.exs.length
  if l = old then (r, 0)
  else if l > old then grow r l
  else shrink r l

/-! ### Select -/

/-- The inner loop of `Select` starting at entry `e`. -/
def walk (r : Ring) (start stop : Int) : Nat → Entry → List Ex
  | 0, _ => []
  | fuel + 1, e =>
    if e.ex.ts ≤ stop then
      let here := if e.ex.ts ≥ start then [e.ex] else []
      match e.next with
      | none => here
      | some n => here ++ walk r start stop fuel (r.getN n)
    else []

/-- Series ids of the protocol are `< maxSeries`; `range ce.index` enumerates them. -/
def maxSeries : Nat := 16

/-- `Select(start, end, matchers…)`; `sel s` says whether series `s` matches some matcher set. The
    result is sorted by series labels; the harness numbers series in label order. -/
def select (r : Ring) (start stop : Int) (sel : Nat → Bool) : List (Nat × List Ex) :=
  if r.exs.length = 0 then [] else
  (List.range maxSeries).filterMap fun s =>
    match r.index s with
    | none => none
    | some ie =>
      let e := r.getO ie.oldest
      if e.ex.ts > stop ∨ (r.getO ie.newest).ex.ts < start then none
      else if !sel s then none
      else
        let xs := walk r start stop (r.exs.length + 1) e
        if xs.isEmpty then none else some (s, xs)

/-! ### Abstract specification: the last `cap` accepted exemplars in acceptance order -/

structure Spec where
  cap : Nat
  window : Int
  /-- retained exemplars, oldest accepted first -/
  acc : List (Nat × Ex)

/-- Retained exemplars of series `s`, in acceptance order. -/
def Spec.ofSeries (a : Spec) (s : Nat) : List Ex := (a.acc.filter (·.1 = s)).map (·.2)

/-- The exemplar the rules compare against: among the retained exemplars of the series with the
    greatest timestamp, the one accepted last. -/
def newestOf : List Ex → Option Ex
  | [] => none
  | x :: xs => match newestOf xs with
    | none => some x
    | some n => if x.ts > n.ts then some x else some n

def oldestTs (xs : List Ex) : Option Int := (xs.map (·.ts)).min?

/-- The documented accept/reject rules. -/
def Spec.classify (a : Spec) (s : Nat) (e : Ex) : Option Err :=
  if a.cap = 0 then some .disabled
  else if labelSetLen e.lbl > maxLabelSetLen then some .toolong
  else match newestOf (a.ofSeries s) with
  | none => none
  | some n =>
    if n.equals e then some .dup
    else if e.ts < n.ts ∧ e.ts ≤ n.ts - a.window then some .ooo
    else if e.ts = n.ts ∧ f64lt e.val n.val = true then some .ooo
    else if e.ts = n.ts ∧ f64eq e.val n.val = true ∧ e.hash < n.hash then some .ooo
    else none

/-- An accepted exemplar is dropped silently when it lies strictly before the newest but not before
    the oldest retained exemplar of its series and a retained exemplar of the series has its timestamp. -/
def Spec.silentDrop (a : Spec) (s : Nat) (e : Ex) : Bool :=
  let xs := a.ofSeries s
  match newestOf xs, oldestTs xs with
  | some n, some o => decide (o ≤ e.ts ∧ e.ts < n.ts) && xs.any (·.ts == e.ts)
  | _, _ => false

def lastN (n : Nat) (xs : List α) : List α := xs.drop (xs.length - n)

def Spec.add (a : Spec) (s : Nat) (e : Ex) : Spec × AddRes :=
  match a.classify s e with
  | some .dup => (a, .noop)
  | some err => (a, .err err)
  | none =>
    if a.silentDrop s e then (a, .noop)
    else ({ a with acc := lastN a.cap (a.acc ++ [(s, e)]) }, .stored)

def Spec.resize (a : Spec) (l : Int) : Spec :=
  let l := if l ≤ 0 then 0 else l.toNat
  { a with cap := l, acc := lastN l a.acc }

/-- Abstraction: read the ring from `nextIndex` around (ingestion order), keeping occupied slots. -/
def contents (r : Ring) : List (Option (Nat × Ex)) := r.exs.map fun e => e.ref.map fun s => (s, e.ex)

def rot (r : Ring) : List (Option (Nat × Ex)) :=
  (contents r).drop r.nextIndex ++ (contents r).take r.nextIndex

def absAcc (r : Ring) : List (Nat × Ex) := (rot r).filterMap id

def absf (r : Ring) : Spec := { cap := r.exs.length, window := r.window, acc := absAcc r }

end Prom.Exemplars
