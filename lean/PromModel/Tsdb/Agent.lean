import PromModel.Tsdb.Checkpoint
/-
  Agent-mode storage (tsdb/agent/db.go, series.go, checkpoint.go, db_append_v2.go) — C48, and the agent
  variant of C15.  Record-level model: the WAL is `Ckpt.Wal`.

  Transcribed (with the quirks): `getOrCreate` (ref fast path, then labels, then a new ref and a PENDING
  series record), the rejection test `t <= minValidTime(lastTs)`, exemplar validation (label length,
  duplicate of the latest exemplar), `log` (series, samples, histograms [exponential record, then
  custom-bucket record], float histograms [same], exemplars; then `updateTimestamp`), `rollback` (series
  records ARE logged), `truncate` (`gc`: `lastTs < mint`, `deleted[ref] = last segment`; `NextSegment`;
  `truncPlan`; `wlog.Checkpoint` with `keepSeriesInWALCheckpointFn(last)` or the in-memory
  checkpoint; segment truncation; pruning of `deleted`), `replayWAL` (first ref per label set wins,
  later refs are remembered in `deleted` by SEGMENT, replayed series start at `lastTs = 0`,
  exemplars/tombstones ignored, `nextRef` = largest series-record ref).
  Ghost fields (`acked`, `lastMint`) only serve the theorems.
-/
namespace Prom.Agent
open Prom.Ckpt

structure Cfg where
  oooWin : Int := 0
  inmem : Bool := false      -- CheckpointFromInMemorySeries
  ver : Nat := 1             -- appender v1 / v2 (same `appenderBase`)
deriving Repr, Inhabited

structure MSeries where
  ref : Nat
  lid : Nat
  lastTs : Int
deriving Repr, Inhabited, DecidableEq

structure Del where
  ref : Nat
  seg : Nat
  lid : Nat                  -- labels are retained only with CheckpointFromInMemorySeries
deriving Repr, Inhabited, DecidableEq

structure Ex where
  t : Int
  v : Nat
  l : Nat                    -- exemplar label-set id; 9 = a 129-rune label set (too long)
deriving Repr, Inhabited, DecidableEq

structure Pend where
  series : List (Nat × Nat) := []
  floats : List Smp := []
  hists : List (Smp × Bool) := []      -- Bool: custom buckets
  fhists : List (Smp × Bool) := []
  exs : List Smp := []
deriving Repr, Inhabited

structure Db where
  cfg : Cfg := {}
  nextRef : Nat := 0
  series : List MSeries := []
  deleted : List Del := []
  latestEx : List (Nat × Ex) := []
  wal : Wal := {}
  pend : Pend := {}
  /- ghost: accepted and committed entries; the largest truncation time so far -/
  acked : List (SKind × Smp) := []
  lastMint : Int := MinI64
deriving Repr, Inhabited

inductive AErr | ooo | invalid | unknownRef | exTooLong | exDup
deriving DecidableEq, Repr

inductive AKind | float | hist (cb : Bool) | fhist (cb : Bool)
deriving DecidableEq, Repr

/-- `appenderBase.minValidTime` -/
def minValidTime (oooWin lastTs : Int) : Int :=
  if lastTs < MinI64 + oooWin then MinI64 else lastTs - oooWin

def Db.byRef (d : Db) (r : Nat) : Option MSeries := d.series.find? (·.ref = r)
def Db.byLid (d : Db) (l : Nat) : Option MSeries := d.series.find? (·.lid = l)
def Db.live (d : Db) (r : Nat) : Bool := d.series.any (·.ref = r)

/-- `agent.Open` on an empty directory. -/
def Db.init (c : Cfg) : Db := { cfg := c, wal := ({} : Wal).open_ }

/-- `getOrCreate(ref, labels)`. -/
def Db.getOrCreate (d : Db) (ref lid : Nat) : Db × MSeries :=
  match (if ref ≠ 0 then d.byRef ref else none) with
  | some s => (d, s)
  | none =>
    match d.byLid lid with
    | some s => (d, s)
    | none =>
      let r := d.nextRef + 1
      let s : MSeries := ⟨r, lid, MinI64⟩
      ({ d with nextRef := r, series := d.series ++ [s],
                pend := { d.pend with series := d.pend.series ++ [(r, lid)] } }, s)

/-- `Append` / `AppendHistogram` (v1) and `AppenderV2.Append` without exemplars. -/
def Db.append (d : Db) (ref lid : Nat) (t : Int) (v : Nat) (k : AKind) : Db × Except AErr Nat :=
  let (d, s) := d.getOrCreate ref lid
  if t ≤ minValidTime d.cfg.oooWin s.lastTs then (d, .error .ooo) else
  let x : Smp := ⟨s.ref, t, v⟩
  let p := d.pend
  let p := match k with
    | .float => { p with floats := p.floats ++ [x] }
    | .hist cb => { p with hists := p.hists ++ [(x, cb)] }
    | .fhist cb => { p with fhists := p.fhists ++ [(x, cb)] }
  ({ d with pend := p }, .ok s.ref)

def setAssoc {β : Type} (m : List (Nat × β)) (k : Nat) (b : β) : List (Nat × β) :=
  if m.any (·.1 = k) then m.map fun p => if p.1 = k then (k, b) else p else m ++ [(k, b)]

/-- `AppendExemplar(ref, e)` / one element of `appendExemplars`. -/
def Db.appendEx (d : Db) (ref : Nat) (e : Ex) : Db × Except AErr Nat :=
  match d.byRef ref with
  | none => (d, .error .unknownRef)
  | some s =>
    if e.l = 9 then (d, .error .exTooLong) else
    if (d.latestEx.find? (·.1 = s.ref)).map (·.2) = some e then (d, .error .exDup) else
    ({ d with latestEx := setAssoc d.latestEx s.ref e,
              pend := { d.pend with exs := d.pend.exs ++ [⟨s.ref, e.t, e.v⟩] } }, .ok s.ref)

def optRec (k : SKind) (xs : List Smp) : List Rec := if xs.isEmpty then [] else [.smp k xs]

/-- The records `log` writes, in its order. -/
def Pend.recs (p : Pend) : List Rec :=
  (if p.series.isEmpty then [] else [Rec.series p.series]) ++
  optRec .float p.floats ++
  optRec .hist ((p.hists.filter (!·.2)).map (·.1)) ++ optRec .chist ((p.hists.filter (·.2)).map (·.1)) ++
  optRec .fhist ((p.fhists.filter (!·.2)).map (·.1)) ++ optRec .cfhist ((p.fhists.filter (·.2)).map (·.1)) ++
  optRec .ex p.exs

/-- the entries a commit acknowledges, with the record kind they are logged under -/
def Pend.entries (p : Pend) : List (SKind × Smp) :=
  p.floats.map (fun x => (SKind.float, x)) ++
  p.hists.map (fun x => (if x.2 then SKind.chist else SKind.hist, x.1)) ++
  p.fhists.map (fun x => (if x.2 then SKind.cfhist else SKind.fhist, x.1)) ++
  p.exs.map (fun x => (SKind.ex, x))

/-- `memSeries.updateTimestamp` on the series with that ref, if it is still in memory. -/
def updTs (ss : List MSeries) (x : Smp) : List MSeries :=
  ss.map fun s => if s.ref = x.ref ∧ x.t ≥ s.lastTs then { s with lastTs := x.t } else s

def Db.commit (d : Db) : Db :=
  let p := d.pend
  let ss := (p.floats ++ p.hists.map (·.1) ++ p.fhists.map (·.1)).foldl updTs d.series
  { d with wal := d.wal.log p.recs, series := ss, pend := {}, acked := d.acked ++ p.entries }

/-- `rollback`: only the pending series records are logged. -/
def Db.rollback (d : Db) : Db :=
  { d with wal := d.wal.log (if d.pend.series.isEmpty then [] else [Rec.series d.pend.series]), pend := {} }

def setDel (m : List Del) (x : Del) : List Del :=
  if m.any (·.ref = x.ref) then m.map fun y => if y.ref = x.ref then x else y else m ++ [x]

/-- `gc(mint)`. -/
def Db.gc (d : Db) (mint : Int) : Db :=
  let dead := d.series.filter fun s => decide (s.lastTs < mint)
  let last := d.wal.lastIdx.toNat
  { d with series := d.series.filter fun s => !decide (s.lastTs < mint),
           latestEx := d.latestEx.filter fun p => !dead.any (·.ref = p.1),
           deleted := dead.foldl (fun m s => setDel m ⟨s.ref, last, if d.cfg.inmem then s.lid else 0⟩) d.deleted }

/-- `keepSeriesInWALCheckpointFn(last)`. -/
def Db.keep (d : Db) (last : Nat) (ref : Nat) : Bool :=
  d.live ref || d.deleted.any fun x => x.ref = ref ∧ x.seg > last

def insSorted (x : Nat × Nat × Int) : List (Nat × Nat × Int) → List (Nat × Nat × Int)
  | [] => [x]
  | y :: ys => if x.1 ≤ y.1 then x :: y :: ys else y :: insSorted x ys

/-- agent `Checkpoint(…)` from in-memory series: one series record + one samples record
    `(ref, lastTs, 0)` for the active series, one series record for the deleted series still needed.
    (Go map order inside the records; canonical form: sorted by ref.) -/
def inmemCheckpoint (d : Db) (last : Nat) : List Rec :=
  let act := (d.series.map fun s => (s.ref, s.lid, s.lastTs)).foldr insSorted []
  let del := ((d.deleted.filter fun x => x.seg > last).map fun x => (x.ref, x.lid, (0 : Int))).foldr insSorted []
  (if act.isEmpty then [] else
    [Rec.series (act.map fun a => (a.1, a.2.1)), Rec.smp .float (act.map fun a => ⟨a.1, a.2.2, 0⟩)]) ++
  (if del.isEmpty then [] else [Rec.series (del.map fun a => (a.1, a.2.1))])

/-- `truncate(mint)`. -/
def Db.truncate (d : Db) (mint : Int) : Db :=
  let d := { d.gc mint with lastMint := max d.lastMint mint }
  let first : Int := d.wal.first
  let last := d.wal.lastIdx
  let d := { d with wal := d.wal.nextSegment }
  match truncPlan first last with
  | none => d
  | some last =>
    let last := last.toNat
    let wal? : Option Wal :=
      if d.cfg.inmem then
        -- `if idx >= atIndex { return nil }`
        let skip := match d.wal.cp with | some (idx, _) => decide (idx ≥ last) | none => false
        some { cp := if skip then d.wal.cp else some (last, inmemCheckpoint d last),
               first := max d.wal.first (last + 1), segs := d.wal.segs.drop (last + 1 - d.wal.first) }
      else d.wal.checkpointTo (d.keep last) mint last
    match wal? with
    | none => d
    | some w => { d with wal := w, deleted := d.deleted.filter fun x => !decide (x.seg ≤ last) }

/-! ### replay -/

structure RState where
  series : List MSeries := []
  deleted : List Del := []
  dup : List (Nat × Nat) := []
  lastRef : Nat := 0
deriving Repr, Inhabited

def RState.byRef (r : RState) (x : Nat) : Option MSeries := r.series.find? (·.ref = x)

def delSeg (m : List Del) (ref : Nat) : Option Nat := (m.find? (·.ref = ref)).map (·.seg)

def replaySeries (inmem : Bool) (seg : Nat) (r : RState) (p : Nat × Nat) : RState :=
  let r := if p.1 > r.lastRef then { r with lastRef := p.1 } else r
  match r.series.find? (·.lid = p.2) with
  | some s =>
    let r := { r with dup := setAssoc r.dup p.1 s.ref }
    if (delSeg r.deleted p.1).getD 0 ≤ seg then
      { r with deleted := setDel r.deleted ⟨p.1, seg, if inmem then p.2 else 0⟩ }
    else r
  | none => { r with series := r.series ++ [⟨p.1, p.2, 0⟩] }

def replaySample (seg : Nat) (r : RState) (x : Smp) : RState :=
  let (r, ref) : RState × Nat := match r.dup.find? (·.1 = x.ref) with
    | some (_, valid) =>
      let r : RState := match r.deleted.find? (fun (m : Del) => m.ref = x.ref) with
        | some m => if m.seg ≤ seg then { r with deleted := setDel r.deleted { m with seg := seg } } else r
        | none => r
      (r, valid)
    | none => (r, x.ref)
  { r with series := r.series.map fun (s : MSeries) =>
      if s.ref = ref ∧ x.t > s.lastTs then { s with lastTs := x.t } else s }

def replayRec (inmem : Bool) (seg : Nat) (r : RState) : Rec → RState
  | .series xs => xs.foldl (replaySeries inmem seg) r
  | .smp .ex _ => r
  | .smp _ xs => xs.foldl (replaySample seg) r
  | .tomb _ => r
  | .mdata _ => r          -- the real code reports "invalid record type" for metadata; never written by the agent

def replayRecs (inmem : Bool) (seg : Nat) (r : RState) (rs : List Rec) : RState :=
  rs.foldl (replayRec inmem seg) r

/-- `replayWAL` over the checkpoint and every segment after it. -/
def replayWal (inmem : Bool) (w : Wal) : RState :=
  let (r, start) := match w.cp with
    | some (idx, rs) => (replayRecs inmem idx {} rs, idx + 1)
    | none => ({}, 0)
  (w.segs.zipIdx.foldl (fun r p =>
    if w.first + p.2 ≥ start then replayRecs inmem (w.first + p.2) r p.1 else r) r)

/-- Close + `agent.Open`: new segment, then replay. -/
def Db.restart (d : Db) : Db :=
  let w := d.wal.open_
  let r := replayWal d.cfg.inmem w
  { cfg := d.cfg, nextRef := r.lastRef, series := r.series, deleted := r.deleted, latestEx := [], wal := w,
    pend := {}, acked := d.acked, lastMint := d.lastMint }

/-- `Querier`, `ChunkQuerier`, `ExemplarQuerier`: always `ErrUnsupported`. -/
inductive QErr | unsupported
deriving DecidableEq, Repr

def Db.querier (_ : Db) (_ _ : Int) : Except QErr Unit := .error .unsupported
def Db.chunkQuerier (_ : Db) (_ _ : Int) : Except QErr Unit := .error .unsupported
def Db.exemplarQuerier (_ : Db) : Except QErr Unit := .error .unsupported

/-! ### operations -/

inductive Op
  | app (lid : Nat) (t : Int) (v : Nat) (k : AKind) (useRef : Nat) (ex : Option Ex)
  | bad
  | commit
  | rollback
  | cut
  | trunc (mint : Int)
  | restart
deriving Repr

def Db.step (d : Db) : Op → Db
  | .app lid t v k ref ex =>
    match d.append ref lid t v k with
    | (d, .ok r) => (match ex with | some e => (d.appendEx r e).1 | none => d)
    | (d, .error _) => d
  | .bad => d
  | .commit => d.commit
  | .rollback => d.rollback
  | .cut => { d with wal := d.wal.nextSegment }
  | .trunc m => d.truncate m
  | .restart => d.restart

def Db.run (d : Db) (ops : List Op) : Db := ops.foldl Db.step d

end Prom.Agent
