import PromModel.Tsdb.Intervals
/-
  Model of `tsdb/tombstones`: `MemTombstones` (AddInterval, TruncateBefore, DeleteTombstones, Get,
  Total, Iter) and the tombstone codec (`Encode`/`Decode`, `WriteFile`/`ReadTombstones`), transcribed
  from tombstones.go and tsdb/encoding (Encbuf/Decbuf over encoding/binary and dennwc/varint).

  * the Go map `intvlGroups` is an association list kept sorted by series reference (the harness
    sorts everything that comes out of the map);
  * series references are `Nat` (uint64), timestamps `Int` (int64);
  * CRC32-Castagnoli is a *parameter* `crc : Bytes → UInt32` of the file functions (the driver plugs in
    the bitwise implementation `crc32c` below, the theorems hold for every function).
-/
namespace Prom.Tombstones
open Prom.Intervals

abbrev Bytes := List UInt8
abbrev Stones := List (Nat × Intervals)

/-! ### MemTombstones -/

/-- `t.intvlGroups[ref]` (nil when absent). -/
def getIvs : Stones → Nat → Intervals
  | [], _ => []
  | (r', ivs) :: rest, r => if r = r' then ivs else getIvs rest r

/-- `t.intvlGroups[ref] = ivs`. -/
def setIvs : Stones → Nat → Intervals → Stones
  | [], r, ivs => [(r, ivs)]
  | (r', ivs') :: rest, r, ivs =>
    if r < r' then (r, ivs) :: (r', ivs') :: rest
    else if r = r' then (r, ivs) :: rest
    else (r', ivs') :: setIvs rest r ivs

/-- `AddInterval(ref, itv)`. -/
def addInterval (st : Stones) (ref : Nat) (itv : Interval) : Except Err Stones :=
  match add (getIvs st ref) itv with
  | .ok ys => .ok (setIvs st ref ys)
  | .error e => .error e

/-- `DeleteTombstones(refs)`. -/
def deleteTombstones (st : Stones) (refs : List Nat) : Stones :=
  st.filter fun p => !refs.contains p.1

/-- The per-series part of `TruncateBefore`: scan from the end for the last interval that lies
    entirely before `beforeT`, keep what follows it (`ivs[i+1:]`). -/
def truncIvs (beforeT : Int) (ivs : Intervals) : Intervals :=
  (ivs.reverse.takeWhile fun iv => !decide (beforeT > iv.maxt)).reverse

/-- `TruncateBefore(beforeT)`: empty groups are deleted from the map. -/
def truncateBefore (st : Stones) (beforeT : Int) : Stones :=
  (st.map fun p => (p.1, truncIvs beforeT p.2)).filter fun p => !p.2.isEmpty

def total (st : Stones) : Nat := (st.map fun p => p.2.length).sum

/-! ### varints (encoding/binary PutUvarint/PutVarint; dennwc/varint.Uvarint) -/

/-- `binary.PutUvarint`; `fuel` continuation bytes at most (9 suffices below 2^64). -/
def putUvarintAux : Nat → Nat → Bytes
  | 0, x => [UInt8.ofNat x]
  | fuel + 1, x =>
    if x < 128 then [UInt8.ofNat x]
    else UInt8.ofNat (x % 128 + 128) :: putUvarintAux fuel (x / 128)

def putUvarint (x : Nat) : Bytes := putUvarintAux 9 x

/-- `uint64(x)<<1`, complemented for negative `x` (zig-zag), as a natural number. -/
def zigzag (x : Int) : Nat := if x < 0 then (-2 * x - 1).toNat else (2 * x).toNat

def unzigzag (ux : Nat) : Int := if ux % 2 = 0 then (ux / 2 : Nat) else -((ux / 2 : Nat) : Int) - 1

def putVarint (x : Int) : Bytes := putUvarint (zigzag x)

/-- `varint.Uvarint`: `none` covers every `n < 1` outcome (buffer too small, or overflow of 64 bits:
    a 10th byte larger than 1, or more than 10 bytes) — `Decbuf` maps them all to `ErrInvalidSize`.
    `i` is the index of the byte being read, `acc` the value so far. -/
def getUvarintAux : Nat → Nat → Bytes → Option (Nat × Bytes)
  | _, _, [] => none
  | i, acc, b :: rest =>
    if b.toNat < 128 then
      if i = 9 ∧ b.toNat > 1 then none else some (acc + b.toNat * 2 ^ (7 * i), rest)
    else if i ≥ 9 then none
    else getUvarintAux (i + 1) (acc + (b.toNat - 128) * 2 ^ (7 * i)) rest

def getUvarint (b : Bytes) : Option (Nat × Bytes) := getUvarintAux 0 0 b

def getVarint (b : Bytes) : Option (Int × Bytes) :=
  match getUvarint b with
  | some (ux, rest) => some (unzigzag ux, rest)
  | none => none

/-! ### Encode / Decode -/

def encRec (ref : Nat) (iv : Interval) : Bytes :=
  putUvarint ref ++ putVarint iv.mint ++ putVarint iv.maxt

/-- `Encode(tr)` with `tr.Iter` in reference order: format byte 1, then one record per interval. -/
def encode (st : Stones) : Bytes :=
  1 :: st.flatMap fun p => p.2.flatMap fun iv => encRec p.1 iv

inductive DecErr
  | badFormat      -- "invalid tombstone format %x"
  | invalidSize    -- encoding.ErrInvalidSize
  | panic
deriving Repr, DecidableEq

/-- The `for d.Len() > 0` loop of `Decode`; every record consumes at least one byte, so
    `fuel = len(b)` is enough. -/
def decLoop : Nat → Bytes → Stones → Except DecErr Stones
  | 0, _, st => .ok st
  | fuel + 1, b, st =>
    if b.isEmpty then .ok st else
    match getUvarint b with
    | none => .error .invalidSize
    | some (k, b1) =>
      match getVarint b1 with
      | none => .error .invalidSize
      | some (mint, b2) =>
        match getVarint b2 with
        | none => .error .invalidSize
        | some (maxt, b3) =>
          match addInterval st k ⟨mint, maxt⟩ with
          | .error _ => .error .panic
          | .ok st' => decLoop fuel b3 st'

/-- `Decode(b)`. On an empty input `d.Byte()` yields 0, so the format check fails first. -/
def decode (b : Bytes) : Except DecErr Stones :=
  match b with
  | [] => .error .badFormat
  | flag :: rest => if flag ≠ 1 then .error .badFormat else decLoop rest.length rest []

/-! ### WriteFile / ReadTombstones -/

def magic : Nat := 0x0130BA30

def be32 (x : Nat) : Bytes :=
  [UInt8.ofNat (x / 2 ^ 24 % 256), UInt8.ofNat (x / 2 ^ 16 % 256), UInt8.ofNat (x / 2 ^ 8 % 256), UInt8.ofNat (x % 256)]

def be32dec : Bytes → Nat
  | [a, b, c, d] => a.toNat * 2 ^ 24 + b.toNat * 2 ^ 16 + c.toNat * 2 ^ 8 + d.toNat
  | _ => 0

/-- Bytes of the file written by `WriteFile`: magic, `Encode` output, CRC32 of the `Encode` output
    without its format byte. -/
def encodeFile (crc : Bytes → UInt32) (st : Stones) : Bytes :=
  be32 magic ++ encode st ++ be32 (crc ((encode st).drop 1)).toNat

inductive FileErr
  | headerInvalidSize   -- "tombstones header: invalid size"
  | badMagic            -- "invalid magic number %x" (also when fewer than 4 bytes precede the CRC)
  | checksum            -- "checksum did not match"
  | badFormat
  | invalidSize
  | panic               -- `d.Get()[1:]` on an empty body (file of exactly 8 bytes with the right magic)
deriving Repr, DecidableEq

/-- `ReadTombstones` on the content `b` of an existing file. -/
def readFile (crc : Bytes → UInt32) (b : Bytes) : Except FileErr Stones :=
  if b.length < 5 then .error .headerInvalidSize else
  let body := b.take (b.length - 4)
  if body.length < 4 then .error .badMagic else          -- d.Be32() fails, mg = 0
  if be32dec (body.take 4) ≠ magic then .error .badMagic else
  let d := body.drop 4
  if d.isEmpty then .error .panic else                    -- slice bounds out of range [1:0]
  if be32dec (b.drop (b.length - 4)) ≠ (crc (d.drop 1)).toNat then .error .checksum else
  match decode d with
  | .ok st => .ok st
  | .error .badFormat => .error .badFormat
  | .error .invalidSize => .error .invalidSize
  | .error .panic => .error .panic

/-- CRC32-Castagnoli, bit by bit (reflected polynomial 0x82F63B78); used by the driver only. -/
def crc32cByte (crc : UInt32) (b : UInt8) : UInt32 :=
  let rec go : Nat → UInt32 → UInt32
    | 0, c => c
    | n + 1, c => go n (if c &&& 1 = 1 then (c >>> 1) ^^^ 0x82F63B78 else c >>> 1)
  go 8 (crc ^^^ b.toUInt32)

def crc32c (bs : Bytes) : UInt32 := (bs.foldl crc32cByte 0xFFFFFFFF) ^^^ 0xFFFFFFFF

/-- Well-formed store: what `MemTombstones` holds after any sequence of valid `AddInterval`s —
    references strictly increasing (they are map keys) and below 2^64, every group non-empty,
    canonical and within int64. -/
def WF (st : Stones) : Prop :=
  st.Pairwise (fun p q => p.1 < q.1) ∧
  ∀ p ∈ st, p.1 < 2 ^ 64 ∧ p.2 ≠ [] ∧ Canon p.2 ∧ ∀ x ∈ p.2, I64 x.mint ∧ I64 x.maxt

end Prom.Tombstones
