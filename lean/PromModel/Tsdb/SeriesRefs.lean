import PromModel.Tsdb.DbModel
/-
  C22 — series references (tsdb/head.go `getOrCreate`, `getOrCreateWithOptionalID`, `lastSeriesID`,
  `stripeSeries.getByID`, `gc`, `walExpiries`, `keepSeriesInWALCheckpointFn`, `truncateWAL`;
  head_append.go `headAppender.Append` / `log` / `Commit` / `Rollback`; head_wal.go `loadWAL`:
  `lastSeriesID := max` over series AND tombstone records, `multiRef` for duplicate series records;
  wlog `Checkpoint` filtering; head `Init` with the deferred `gc`), on top of the shared storage model.

  `Db` (DbModel) is keyed by the label set (`idx`) and keeps one unsegmented WAL. `RefDb` adds what the
  code keys by *reference*: the allocator, the by-ref table of series in memory (including series
  without data), the pending-commit marks, the segmented WAL with the references written into its
  records, the checkpoint, `walExpiries`, the last WAL truncation time, and the open appender's
  `seriesRefs` / per-sample refs.

  An append with a caller-supplied reference resolves through the by-ref table FIRST
  (`s := a.head.series.getByID(ref)`); only when the reference is unknown does the code look at the
  labels (`getOrCreate`). There is no label check on a known reference: the sample goes to the series
  the reference denotes. `RefDb.step` therefore hands `Db.step` the append with the RESOLVED label
  set; `RefDb.step_db` is the projection lemma that lets C01's theorems carry over.

  WAL segments: a new segment is started by every open (`wlog.NewSize`) and by every `truncateWAL`
  (`NextSegment`); size-driven roll-over is outside the model (the harness uses large segments).
-/
namespace Prom.Refs
open Prom.Db Prom.Intervals

/-- WAL records with the references the code writes into them (values are irrelevant here). -/
inductive WRec
  | series (xs : List (Nat × Nat))          -- (ref, label set)
  | samples (xs : List (Nat × Int))         -- (ref, t)
  | stones (xs : List (Nat × Interval))     -- (ref, interval)
deriving Repr, Inhabited

structure RefDb where
  db : Db
  lastID : Nat := 0                    -- `Head.lastSeriesID`
  live : List (Nat × Nat) := []        -- `stripeSeries.series`: ref ↦ label set, series in memory
  pend : List Nat := []                -- refs with `pendingCommit`
  created : List (Nat × Nat) := []     -- `headAppender.seriesRefs`
  batchRefs : List Nat := []           -- refs of the accepted samples of the open appender
  ckpt : List WRec := []               -- last checkpoint
  first : Nat := 0                     -- number of the oldest segment
  old : List (List WRec) := []         -- closed segments `first …`
  cur : List WRec := []                -- the segment being written
  expiries : List (Nat × Int) := []    -- `Head.walExpiries`
  lastTrunc : Int := MinI64            -- `Head.lastWALTruncationTime`
  issued : List (Nat × Nat) := []      -- ghost: (ref, label set) pairs returned by `Append` in this process lifetime
deriving Repr, Inhabited

def lookup (live : List (Nat × Nat)) (r : Nat) : Option Nat := (live.find? (·.1 = r)).map (·.2)

def byLabels (live : List (Nat × Nat)) (i : Nat) : Option Nat := (live.find? (·.2 = i)).map (·.1)

/-- `s.series[stripe][ref] = series` (a map: a second entry for the same ref replaces the first). -/
def insertLive (live : List (Nat × Nat)) (r i : Nat) : List (Nat × Nat) := live.filter (·.1 ≠ r) ++ [(r, i)]

def getExpiry (e : List (Nat × Int)) (r : Nat) : Option Int := (e.find? (·.1 = r)).map (·.2)

def setExpiry (e : List (Nat × Int)) (r : Nat) (t : Int) : List (Nat × Int) := e.filter (·.1 ≠ r) ++ [(r, t)]

/-- `updateWALExpiry`: `h.walExpiries[id] = max(keepUntil, h.walExpiries[id])` (a missing key reads 0). -/
def bumpExpiry (e : List (Nat × Int)) (r : Nat) (t : Int) : List (Nat × Int) :=
  setExpiry e r (max t ((getExpiry e r).getD 0))

def RefDb.log (s : RefDb) (r : WRec) : RefDb := { s with cur := s.cur ++ [r] }

def hasData (d : Db) (i : Nat) : Bool := d.series.any (·.idx = i)

/-- The lowest first-sample time over the series left in the head (`actualInOrderMint` of `gc`),
    the truncation time when no series is left. -/
def actualMint (d : Db) (dflt : Int) : Int :=
  let m : Int := d.series.foldl (fun m s => match s.phys.head? with | some f => min m f.t | none => m) MaxI64
  if m = MaxI64 then dflt else m

/-- `Head.gc` on the reference layer: series without data and without a pending commit leave the
    by-ref table; their WAL expiry is set to `keepUntil`. -/
def RefDb.gc (s : RefDb) (keepUntil : Int) : RefDb :=
  let dead := s.live.filter fun p => !hasData s.db p.2 && !s.pend.contains p.1
  { s with live := s.live.filter (fun p => hasData s.db p.2 || s.pend.contains p.1),
           expiries := dead.foldl (fun e p => setExpiry e p.1 keepUntil) s.expiries }

/-- `headAppender.log` (series record, then the samples record) + clearing `pendingCommit`, as `Commit`
    and `Rollback` both do. (The code skips empty records; an empty record names nothing and replays as
    a no-op, so the model writes it.) -/
def RefDb.closeAppender (s : RefDb) (smps : List (Nat × Int)) : RefDb :=
  { s with cur := s.cur ++ [.series s.created, .samples smps], pend := [], created := [], batchRefs := [] }

/-- What the harness does before `begin`/`reopen` when an appender is still open: `Rollback`. -/
def RefDb.rollbackOpen (s : RefDb) : RefDb :=
  match s.db.app with
  | some _ => s.closeAppender []
  | none => s

/-- `keepSeriesInWALCheckpointFn(mint)`. -/
def RefDb.keep (s : RefDb) (mint : Int) (r : Nat) : Bool :=
  (lookup s.live r).isSome || (match getExpiry s.expiries r with | some k => decide (k ≥ mint) | none => false)

/-- `wlog.Checkpoint`: series records of kept refs, samples at or after `mint`, tombstones of kept
    refs that reach `mint`. -/
def filterRec (keep : Nat → Bool) (mint : Int) : WRec → WRec
  | .series xs => .series (xs.filter fun p => keep p.1)
  | .samples xs => .samples (xs.filter fun p => decide (p.2 ≥ mint))
  | .stones xs => .stones (xs.filter fun p => keep p.1 && decide (p.2.maxt ≥ mint))

/-- `Head.truncateWAL(mint)`. -/
def RefDb.truncateWAL (s : RefDb) (mint : Int) : RefDb :=
  if mint ≤ s.lastTrunc then s else
  let n : Int := s.old.length
  let lastI : Int := (s.first : Int) + n - 1          -- `last--` after `wlog.Segments`
  -- `NextSegment`
  let s := { s with lastTrunc := mint, old := s.old ++ [s.cur], cur := [] }
  if lastI < 0 then s else
  let last' : Int := (s.first : Int) + ((lastI - s.first) * 2).tdiv 3
  if last' ≤ s.first then s else
  let k : Nat := (last' - s.first + 1).toNat
  let covered := (s.old.take k).flatten
  { s with ckpt := (s.ckpt ++ covered).map (filterRec (s.keep mint) mint),
           old := s.old.drop k, first := last'.toNat + 1,
           expiries := s.expiries.filter fun p => decide (p.2 ≥ mint) }

/-- One iteration of the `DB.Compact` loop on the reference layer: `compactHead` (block + `truncateMemory`
    with its `gc`). -/
def RefDb.compactHeadOnce (s : RefDb) : RefDb :=
  let maxt := rangeForTimestamp s.db.minT s.db.cfg.chunkRange
  let gcRuns := !decide (s.db.minT ≥ maxt)
  let s := { s with db := s.db.compactHeadOnce }
  if gcRuns then s.gc (actualMint s.db maxt) else s

/-- The loop of `DB.Compact`; returns `lastBlockMaxt` as well. Same fuel as `Db.compact`. -/
def RefDb.compactGo : Nat → RefDb → Int → RefDb × Int
  | 0, s, l => (s, l)
  | fuel + 1, s, l =>
    if s.db.compactable then
      RefDb.compactGo fuel s.compactHeadOnce (rangeForTimestamp s.db.minT s.db.cfg.chunkRange)
    else (s, l)

def RefDb.compact (s : RefDb) : RefDb :=
  let (s, l) := RefDb.compactGo 64 s MinI64
  s.truncateWAL l

/-! ### Restart -/

structure Replay where
  live : List (Nat × Nat) := []
  multi : List (Nat × Nat) := []      -- `multiRef`: duplicate ref ↦ ref of the series in memory
  lastID : Nat := 0
  expiries : List (Nat × Int) := []
deriving Repr, Inhabited

/-- One record of `Head.loadWAL` on the reference layer (`mv` = `minValidTime`). -/
def replayRec (mv : Int) (st : Replay) : WRec → Replay
  | .series xs => xs.foldl (fun st p =>
      let st := { st with lastID := max st.lastID p.1 }
      match byLabels st.live p.2 with
      | some r0 => { st with multi := st.multi ++ [(p.1, r0)] }
      | none => { st with live := insertLive st.live p.1 p.2 }) st
  | .samples xs => xs.foldl (fun st p =>
      if p.2 < mv then st else
      if st.multi.any (·.1 = p.1) then { st with expiries := bumpExpiry st.expiries p.1 p.2 } else st) st
  | .stones xs => xs.foldl (fun st p =>
      let st := { st with lastID := max st.lastID p.1 }
      if p.2.maxt < mv then st else
      if st.multi.any (·.1 = p.1) then { st with expiries := bumpExpiry st.expiries p.1 p.2.maxt } else st) st

def RefDb.records (s : RefDb) : List WRec := s.ckpt ++ s.old.flatten ++ s.cur

/-- Close (roll back the open appender) and open again: a fresh head replays checkpoint + segments,
    then `gc` removes the series that got no data. -/
def RefDb.reopen (s : RefDb) : RefDb :=
  let s := s.rollbackOpen
  let mv : Int := s.db.blocks.foldl (fun m b => max m b.maxt) MinI64
  let st := s.records.foldl (replayRec mv) {}
  let s' : RefDb :=
    { db := { s.db.reopen with app := none }, lastID := st.lastID, live := st.live, expiries := st.expiries,
      ckpt := s.ckpt, first := s.first, old := s.old ++ [s.cur], cur := [] }
  s'.gc (actualMint s'.db s'.db.minT)

/-! ### Operations -/

inductive ROp
  | app (r i : Nat) (t : Int) (v : Nat) (kind : Nat)
      -- `Append(ref r, labels i, t, v)`. `kind` is the client's side of the call (not seen by the storage):
      -- 0 no reference, 1 the reference last returned for these labels, 2 a reference returned for OTHER
      -- labels (the reference names the series: the client asked for that series), 3 a reference returned
      -- for these labels before the last restart / garbage collection
  | base (op : Op)
deriving Repr, Inhabited

inductive ROut
  | okRef (r : Nat)
  | base (o : Out)
deriving Repr, Inhabited

/-- The label set an `Append(r, labels i, …)` is applied to. -/
def RefDb.target (s : RefDb) (r i : Nat) : Nat := (lookup s.live r).getD i

/-- The append the storage layer sees. -/
def RefDb.resolve (s : RefDb) : ROp → Op
  | .app r i t v _ => .app (s.target r i) t v
  | .base op => op

/-- `getByID(ref)`, else `getOrCreate(labels)`: the series the append works on, and its reference. -/
def RefDb.getSeries (s : RefDb) (r i : Nat) : RefDb × Nat :=
  match lookup s.live r with
  | some _ => (s, r)
  | none =>
    match byLabels s.live i with
    | some r0 => (s, r0)
    | none =>
      let n := s.lastID + 1
      ({ s with lastID := n, live := insertLive s.live n i, created := s.created ++ [(n, i)], pend := n :: s.pend }, n)

def RefDb.append (s : RefDb) (r i : Nat) (t : Int) (v : Nat) : RefDb × ROut :=
  let j := s.target r i
  let (d', res) := s.db.append j t v
  match d'.app with
  | none => ({ s with db := d' }, .base (outOfRes res))
  | some a' =>
    -- "Fail fast if OOO is disabled and the sample is out of bounds": before any series lookup
    if d'.cfg.oooWin = 0 ∧ t < a'.minValid then ({ s with db := d' }, .base (outOfRes res)) else
    let (s1, ref) := s.getSeries r i
    match res with
    | .ok _ => ({ s1 with db := d', pend := ref :: s1.pend, batchRefs := s1.batchRefs ++ [ref],
                          issued := (ref, j) :: s1.issued }, .okRef ref)
    | .error e => ({ s1 with db := d' }, .base (.err e))

def RefDb.commit (s : RefDb) : RefDb × ROut :=
  match s.db.app with
  | none => (s, .base (.err .noapp))
  | some a =>
    let (d', res) := s.db.commit
    let s := s.closeAppender (s.batchRefs.zip (a.batch.map (·.2.t)))
    ({ s with db := d' }, .base (outOfRes res))

def RefDb.rollback (s : RefDb) : RefDb × ROut :=
  match s.db.app with
  | none => (s, .base (.err .noapp))
  | some _ =>
    let (d', res) := s.db.rollback
    ({ s.closeAppender [] with db := d' }, .base (outOfRes res))

/-- `Head.Delete`: the tombstone record carries the refs of the series `Db.delete` found. -/
def RefDb.delete (s : RefDb) (a b : Int) (sel : Option Nat) : RefDb :=
  let d' := s.db.delete a b sel
  let s' := { s with db := d' }
  if d'.wal.length > s.db.wal.length then
    match d'.wal.getLast? with
    | some (.stones xs) => s'.log (.stones (xs.filterMap fun p => (byLabels s.live p.1).map fun r => (r, p.2)))
    | _ => s'
  else s'

def RefDb.step (s : RefDb) : ROp → RefDb × ROut
  | .app r i t v _ => s.append r i t v
  | .base .begin => ({ s.rollbackOpen with db := s.db.begin }, .base .ok)
  | .base (.app i t v) => s.append 0 i t v
  | .base .commit => s.commit
  | .base .rollback => s.rollback
  | .base (.del a b sel) => (s.delete a b sel, .base .ok)
  | .base .compact => (s.compact, .base .ok)
  | .base .cleantomb => ({ s with db := s.db.cleanTombstones }, .base .ok)
  | .base .reopen => (s.reopen, .base .ok)
  | .base (.q a b) => (s, .base (.rows (s.db.query a b)))
  | .base .win => (s, .base (s.db.step .win).2)

def RefDb.run (s : RefDb) : List ROp → List ROut
  | [] => []
  | op :: ops => let (s', o) := s.step op; o :: RefDb.run s' ops

def RefDb.after (s : RefDb) (ops : List ROp) : RefDb := ops.foldl (fun s op => (s.step op).1) s

def RefDb.init (c : Cfg) : RefDb := { db := { cfg := c } }

/-! ### What the WAL mentions -/

def WRec.seriesRefs : WRec → List Nat
  | .series xs => xs.map (·.1)
  | _ => []

def WRec.stoneRefs : WRec → List Nat
  | .stones xs => xs.map (·.1)
  | _ => []

def WRec.sampleRefs : WRec → List Nat
  | .samples xs => xs.map (·.1)
  | _ => []

/-- Refs the restart would see in series and tombstone records. -/
def WRec.idRefs (r : WRec) : List Nat := r.seriesRefs ++ r.stoneRefs

/-- Every reference the head or the log still names, apart from sample records. -/
def RefDb.mentioned (s : RefDb) : List Nat :=
  s.live.map (·.1) ++ s.created.map (·.1) ++ s.pend ++ s.batchRefs ++ s.expiries.map (·.1) ++
  s.issued.map (·.1) ++ s.records.flatMap WRec.idRefs

/-! ### C22's statement as a predicate on observed behaviour (used by the judge and the theorems)

  The client side of a history: per process lifetime the table `owner : ref ↦ label set` of the
  references `Append` has returned. For an acknowledged `Append(r, labels i, …) = ref`:
    * `ref` already owned by label set `j`: the sample went to series `j`; this is legitimate iff
      `j = i`, or the client deliberately passed a reference of other labels (kind 2: the reference,
      not the labels, names the series — storage.Appender's contract);
    * `ref` new: a series for the given labels was created; its owner becomes `i`.
  Committed acknowledged samples are recorded under the label set they were legitimately sent to;
  every row a query returns must be among them. -/

structure Client where
  owner : List (Nat × Nat) := []           -- this lifetime
  pendingS : List (Nat × Smp) := []         -- (label set, sample) of the open transaction
  sent : List (Nat × Smp) := []             -- committed
deriving Repr, Inhabited

inductive Verdict
  | ok
  | staleRef (step r given got : Nat)                 -- sample acknowledged onto other labels via a reference not given for them in this lifetime
  | foreignRow (step i : Nat) (x : Smp)               -- a query returned a sample never sent to this label set
deriving Repr, DecidableEq

def Client.step (c : Client) (k : Nat) (op : ROp) (o : ROut) : Client × Verdict :=
  match op, o with
  | .app r i t v kind, .okRef ref =>
    match lookup c.owner ref with
    | some j =>
      let c' := { c with pendingS := c.pendingS ++ [(j, ⟨t, v⟩)] }
      if j = i ∨ kind = 2 then (c', .ok) else (c', .staleRef k r i j)
    | none =>
      ({ c with owner := c.owner ++ [(ref, i)], pendingS := c.pendingS ++ [(i, ⟨t, v⟩)] }, .ok)
  | .base .begin, _ => ({ c with pendingS := [] }, .ok)
  | .base .commit, .base .ok => ({ c with sent := c.sent ++ c.pendingS, pendingS := [] }, .ok)
  | .base .commit, _ => ({ c with pendingS := [] }, .ok)
  | .base .rollback, _ => ({ c with pendingS := [] }, .ok)
  | .base .reopen, _ => ({ c with owner := [], pendingS := [] }, .ok)
  | .base (.q _ _), .base (.rows rows) =>
    let bad := rows.flatMap fun p => (p.2.filter fun x => !c.sent.contains (p.1, x)).map fun x => (p.1, x)
    match bad with
    | [] => (c, .ok)
    | (i, x) :: _ => (c, .foreignRow k i x)
  | _, _ => (c, .ok)

/-- First clause violated along an observed history, if any. -/
def holdsFrom (c : Client) : List (ROp × ROut) → Nat → Verdict
  | [], _ => .ok
  | (op, o) :: rest, k =>
    match c.step k op o with
    | (c', .ok) => holdsFrom c' rest (k + 1)
    | (_, v) => v

def holds (h : List (ROp × ROut)) : Bool := holdsFrom {} h 0 = .ok

end Prom.Refs
