import PromModel.Tsdb.Checkpoint
import PromModel.Tsdb.Intervals
/-
  The server head's side of C15 (tsdb/head.go, head_wal.go, head_append.go), record level, for the
  configuration the `ckpt` suite drives: one huge chunk range 2^40 (a series has one head chunk per aligned
  range: with |t| < 2^40 that is one chunk for its samples at negative times — `rangeStartForTimestamp`
  floors — and one for the others; head GC drops a chunk iff its newest sample is older than the head's
  min time, and the series with its last chunk), out-of-order
  ingestion disabled, float samples (+ stale markers), exemplars, metadata, deletions.

  Transcribed: `headAppender` admission (`t < minValidTime` ⇒ out of bounds; per-series order),
  `log` order (series, metadata, samples, exemplars), `Rollback` (series records only),
  `Head.Delete` (clamping; one tombstone record, possibly empty), `Head.Truncate` =
  `truncateMemory` (+ `gc`: `walExpiries[ref] = actualInOrderMint`) + `truncateWAL`
  (`lastWALTruncationTime` guard, `NextSegment`, `truncPlan`, `wlog.Checkpoint` with
  `keepSeriesInWALCheckpointFn(mint)` = in head ∨ `walExpiries[ref] ≥ mint`, pruning of expiries
  `< mint`), stale/selected-series eviction (`truncateSeries`: `walExpiries[ref] = maxt`, a full-range
  tombstone record), and `Head.Init`/`loadWAL` (`minValidTime` filter, `multiRef` with
  `updateWALExpiry`, full-range tombstones delete the series, unknown refs dropped, final `gc`).
-/
namespace Prom.CkptHead
open Prom.Ckpt
abbrev Ivs := Prom.Intervals.Intervals
abbrev Iv := Prom.Intervals.Interval

structure HSeries where
  ref : Nat
  lid : Nat
  smps : List (Int × Nat) := []     -- the samples of the (single) head chunk; v = 0 is a stale marker
  tombs : Ivs := []
  mid : Option Nat := none
  /-- replay only: a later series record bound this ref to ANOTHER label set (possible once refs were
      re-issued, finding C22-F2, in the retained full log): `stripeSeries.setUnlessAlreadySet` overwrites the
      by-ref entry, the older series stays reachable by label hash only (and is visited by `gc`). -/
  hidden : Bool := false
deriving Repr, Inhabited

/-- What replay / the head holds besides the log. -/
structure Mem where
  minT : Int := MaxI64
  maxT : Int := MinI64
  minValid : Int := MinI64
  lastID : Nat := 0
  series : List HSeries := []
  walExp : List (Nat × Int) := []
  exs : List (Nat × Int × Nat) := []      -- exemplar storage: (label-set id, t, v), insertion order
  multi : List (Nat × Nat) := []          -- replay only: multiRef
deriving Repr, Inhabited

structure Head where
  mem : Mem := {}
  lastWalTrunc : Int := MinI64
  wal : Wal := {}
  retained : List Rec := []               -- every record ever logged (the retained copy of all segments)
deriving Repr, Inhabited

def HSeries.maxTime (s : HSeries) : Int := match s.smps.getLast? with | some x => x.1 | none => MinI64
def HSeries.minTime (s : HSeries) : Int := match s.smps.head? with | some x => x.1 | none => MinI64
def HSeries.isStale (s : HSeries) : Bool := match s.smps.getLast? with | some x => x.2 = 0 | none => false

def Mem.byRef (m : Mem) (r : Nat) : Option HSeries := m.series.find? fun s => s.ref = r && !s.hidden
def Mem.byLid (m : Mem) (l : Nat) : Option HSeries := m.series.find? (·.lid = l)
def Mem.initialized (m : Mem) : Bool := m.minT ≠ MaxI64

def Mem.upd (m : Mem) (s : HSeries) : Mem :=
  { m with series := m.series.map fun x => if x.ref = s.ref && x.hidden = s.hidden then s else x }

def getExp (m : List (Nat × Int)) (r : Nat) : Option Int := (m.find? (·.1 = r)).map (·.2)

def setExp (m : List (Nat × Int)) (r : Nat) (t : Int) : List (Nat × Int) :=
  if m.any (·.1 = r) then m.map fun p => if p.1 = r then (r, t) else p else m ++ [(r, t)]

/-- `updateWALExpiry`: `max(keepUntil, walExpiries[id])` — a missing entry reads as 0 (Go zero value). -/
def updExp (m : List (Nat × Int)) (r : Nat) (t : Int) : List (Nat × Int) :=
  setExp m r (max t ((getExp m r).getD 0))

def Mem.updateMinMax (m : Mem) (lo hi : Int) : Mem :=
  { m with minT := if lo < m.minT then lo else m.minT, maxT := if hi > m.maxT then hi else m.maxT }

def addTomb (ts : Ivs) (iv : Iv) : Ivs :=
  match Prom.Intervals.add ts iv with
  | .ok r => r
  | .error _ => ts

/-- `Head.gc()`: with one chunk per series, a series goes iff it has no sample `≥ minT`. -/
def Mem.gc (m : Mem) : Mem :=
  let mint := m.minT
  let keepS := fun (s : HSeries) => decide (s.smps ≠ [] ∧ s.maxTime ≥ mint)
  let cut := fun (s : HSeries) =>
    -- `truncateChunksBefore`: the chunk of the negative times goes when its newest sample is below `mint`
    match (s.smps.filter fun x => decide (x.1 < 0)).getLast? with
    | some x => if x.1 < mint then { s with smps := s.smps.filter fun x => decide (x.1 ≥ 0) } else s
    | none => s
  let rest := (m.series.filter keepS).map cut
  let dead := m.series.filter fun s => !keepS s
  let actual : Int := rest.foldl (fun a s => min a s.minTime) MaxI64
  let actual := if actual = MaxI64 then mint else actual
  { m with series := rest.map fun s => { s with tombs := s.tombs.filter fun iv => decide (iv.maxt ≥ mint) },
           walExp := dead.foldl (fun e s => setExp e s.ref actual) m.walExp }

/-- `keepSeriesInWALCheckpointFn(mint)`. -/
def Mem.keep (m : Mem) (mint : Int) (ref : Nat) : Bool :=
  (m.byRef ref).isSome || (match getExp m.walExp ref with | some k => decide (k ≥ mint) | none => false)

def Head.log (h : Head) (rs : List Rec) : Head :=
  { h with wal := h.wal.log rs, retained := h.retained ++ rs }

/-! ### appender (one transaction per op) -/

inductive Item
  | smp (lid : Nat) (t : Int) (v : Nat) (ex : Bool)
  | mdata (lid mid : Nat)
deriving Repr

structure Tx where
  mv : Option Int := none          -- the appender's minValidTime snapshot (taken when it is created)
  series : List (Nat × Nat) := []
  metas : List (Nat × Nat) := []
  floats : List Smp := []
  exs : List Smp := []
  res : List String := []
deriving Repr, Inhabited

def halfRange : Int := 549755813888   -- chunkRange / 2 for chunkRange = 2^40

def Mem.appendableMinValid (m : Mem) : Int := max m.minValid (m.maxT - halfRange)

def txItem (acc : Mem × Tx) : Item → Mem × Tx
  | .smp lid t v ex =>
    let (m, tx) := acc
    -- initAppender: `initTime(t)` before the real appender is created
    let (m, tx) := match tx.mv with
      | some _ => (m, tx)
      | none =>
        let m := if m.initialized then m else
          { m with maxT := if m.maxT = MinI64 then t else m.maxT, minT := t }
        (m, { tx with mv := some m.appendableMinValid })
    if t < tx.mv.getD MinI64 then (m, { tx with res := tx.res ++ ["oob"] }) else
    let (m, s, tx) := match m.byLid lid with
      | some s => (m, s, tx)
      | none =>
        let r := m.lastID + 1
        let s : HSeries := { ref := r, lid := lid }
        ({ m with lastID := r, series := m.series ++ [s] }, s, { tx with series := tx.series ++ [(r, lid)] })
    let pendLast := ((tx.floats.filter (·.ref = s.ref)).getLast?).map (·.t)
    let lastT := match pendLast with | some p => max p s.maxTime | none => s.maxTime
    if s.smps ≠ [] ∧ t < s.maxTime then (m, { tx with res := tx.res ++ ["ooo"] })
    else if (s.smps ≠ [] ∨ pendLast.isSome) ∧ t ≤ lastT then (m, { tx with res := tx.res ++ ["dup"] })
    else
      let x : Smp := ⟨s.ref, t, v⟩
      -- `AppendExemplar` → `ValidateExemplar` against the newest stored exemplar of the label set (the
      -- storage outlives the series): equal ⇒ silently dropped, older (or same time, smaller value) ⇒ error
      let newest := (m.exs.filter (·.1 = lid)).getLast?
      let (keepEx, sfx) : Bool × String := if !ex then (false, "") else match newest with
        | none => (true, "")
        | some n =>
          if n.2.1 = t ∧ n.2.2 = v then (false, "")
          else if t < n.2.1 ∨ (t = n.2.1 ∧ v < n.2.2) then (false, "!out_of_order_exemplar")
          else (true, "")
      (m, { tx with floats := tx.floats ++ [x], exs := if keepEx then tx.exs ++ [x] else tx.exs,
                    res := tx.res ++ [s!"ok:{s.ref}{sfx}"] })
  | .mdata lid mid =>
    let (m, tx) := acc
    let tx := match tx.mv with | some _ => tx | none => { tx with mv := some m.appendableMinValid }
    match m.byLid lid with
    | none => (m, { tx with res := tx.res ++ ["unk"] })
    | some s =>
      if s.mid = some mid then (m, { tx with res := tx.res ++ ["ok"] })
      else (m, { tx with metas := tx.metas ++ [(s.ref, mid)], res := tx.res ++ ["ok"] })

def optR (r : Rec) (empty : Bool) : List Rec := if empty then [] else [r]

def Head.tx (h : Head) (commit : Bool) (items : List Item) : Head × List String :=
  let (m, tx) := items.foldl txItem (h.mem, {})
  let sr := optR (.series tx.series) tx.series.isEmpty
  if !commit then ({ h with mem := m }.log sr, tx.res) else
  let recs := sr ++ optR (.mdata tx.metas) tx.metas.isEmpty ++ optR (.smp .float tx.floats) tx.floats.isEmpty ++
    optR (.smp .ex tx.exs) tx.exs.isEmpty
  let m := tx.floats.foldl (fun (m : Mem) x =>
    match m.byRef x.ref with
    | some s => if s.smps ≠ [] ∧ x.t ≤ s.maxTime then m else m.upd { s with smps := s.smps ++ [(x.t, x.v)] }
    | none => m) m
  let lo := tx.floats.foldl (fun a x => min a x.t) MaxI64
  let hi := tx.floats.foldl (fun a x => max a x.t) MinI64
  let m := if tx.floats.isEmpty then m else m.updateMinMax lo hi
  let m := tx.metas.foldl (fun (m : Mem) p =>
    match m.byRef p.1 with | some s => m.upd { s with mid := some p.2 } | none => m) m
  let m := tx.exs.foldl (fun (m : Mem) x =>
    match m.byRef x.ref with | some s => { m with exs := m.exs ++ [(s.lid, x.t, x.v)] } | none => m) m
  ({ h with mem := m }.log recs, tx.res)

def clampInterval (a b mint maxt : Int) : Int × Int :=
  (if a < mint then mint else a, if b > maxt then maxt else b)

/-- `Head.Delete(mint, maxt, s=<lid>)`. -/
def Head.delete (h : Head) (lid : Nat) (mint maxt : Int) : Head :=
  let m := h.mem
  let (a, b) := clampInterval mint maxt m.minT m.maxT
  match m.byLid lid with
  | none => h.log [.tomb []]
  | some s =>
    if s.smps = [] then h.log [.tomb []] else
    let (a, b) := clampInterval a b s.minTime s.maxTime
    -- `if t0 > t1 { continue }` (repair 507591f03f): the range does not overlap this series' data
    if a > b then h.log [.tomb []] else
    { h with mem := m.upd { s with tombs := addTomb s.tombs ⟨a, b⟩ } }.log [.tomb [⟨s.ref, [(a, b)]⟩]]

def insNat (x : Nat) : List Nat → List Nat
  | [] => [x]
  | y :: ys => if x ≤ y then x :: y :: ys else y :: insNat x ys

/-- `truncateStaleSeries` / `truncateSelectedSeries` (`truncateSeries`). -/
def Head.evict (h : Head) (staleOnly : Bool) (maxt : Int) (lids : List Nat) : Head :=
  let m := h.mem
  if m.minT > maxt then h else
  let hit := fun (s : HSeries) => lids.contains s.lid && decide (s.maxTime ≤ maxt) && (!staleOnly || s.isStale)
  let dead := (m.series.filter hit).map (·.ref)
  let m := { m with series := m.series.filter fun s => !hit s,
                    walExp := dead.foldl (fun e r => setExp e r maxt) m.walExp }
  { h with mem := m }.log [.tomb ((dead.foldr insNat []).map fun r => ⟨r, [(MinI64, MaxI64)]⟩)]

/-- `truncateWAL(mint)`. -/
def Head.truncateWAL (h : Head) (mint : Int) : Head :=
  if mint ≤ h.lastWalTrunc then h else
  let h := { h with lastWalTrunc := mint }
  let first : Int := h.wal.first
  let last := h.wal.lastIdx
  let h := { h with wal := h.wal.nextSegment }
  match truncPlan first last with
  | none => h
  | some last =>
    match h.wal.checkpointTo (h.mem.keep mint) mint last.toNat with
    | none => h
    | some w => { h with wal := w, mem := { h.mem with walExp := h.mem.walExp.filter fun p => !decide (p.2 < mint) } }

/-- `truncateMemory(mint)`; returns whether the head was initialised before the call. -/
def Head.truncateMemory (h : Head) (mint : Int) : Head :=
  let m := h.mem
  let init := m.initialized
  if m.minT ≥ mint ∧ init then h else
  let m := { m with minT := mint, minValid := mint, maxT := if m.maxT < mint then mint else m.maxT }
  if !init then { h with mem := m } else { h with mem := m.gc }

/-- `Head.Truncate(mint)`. -/
def Head.truncate (h : Head) (mint : Int) : Head :=
  let init := h.mem.initialized
  let h := h.truncateMemory mint
  if !init then h else h.truncateWAL mint

/-! ### replay (`Head.Init` → `loadWAL`) -/

def isFull (s : Stone) : Bool := match s.ivs with | [(a, b)] => a = MinI64 ∧ b = MaxI64 | _ => false

def Mem.mapRef (m : Mem) (r : Nat) : Option Nat := (m.multi.find? (·.1 = r)).map (·.2)

def setMulti (m : List (Nat × Nat)) (k v : Nat) : List (Nat × Nat) :=
  if m.any (·.1 = k) then m.map fun p => if p.1 = k then (k, v) else p else m ++ [(k, v)]

def replaySample (isEx : Bool) (m : Mem) (x : Smp) : Mem :=
  if x.t < m.minValid then m else
  let (m, ref) : Mem × Nat := match m.mapRef x.ref with
    | some r => ({ m with walExp := updExp m.walExp x.ref x.t }, r)
    | none => (m, x.ref)
  match m.byRef ref with
  | none => m
  | some s =>
    if isEx then { m with exs := m.exs ++ [(s.lid, x.t, x.v)] } else
    let m := if s.smps ≠ [] ∧ x.t ≤ s.maxTime then m else m.upd { s with smps := s.smps ++ [(x.t, x.v)] }
    m.updateMinMax x.t x.t

def replayStone (m : Mem) (st : Stone) : Mem :=
  let m := if m.lastID < st.ref then { m with lastID := st.ref } else m
  if isFull st then
    -- the series is deleted (unlinkHash + deleteSeriesByID), under its first ref if this one is a duplicate
    let ref := (m.mapRef st.ref).getD st.ref
    match m.byRef ref with
    | none => m
    | some s =>
      let m := { m with series := m.series.filter fun x => !(x.ref = ref && !x.hidden) }
      if s.smps ≠ [] then { m with walExp := updExp m.walExp ref s.maxTime } else m
  else
    (st.ivs.foldl (fun (acc : Mem × Nat) iv =>
      let (m, ref) := acc
      if iv.2 < m.minValid then (m, ref) else
      let (m, ref) : Mem × Nat := match m.mapRef ref with
        | some r => ({ m with walExp := updExp m.walExp ref iv.2 }, r)
        | none => (m, ref)
      match m.byRef ref with
      | none => (m, ref)
      | some s => (m.upd { s with tombs := addTomb s.tombs ⟨iv.1, iv.2⟩ }, ref)) (m, st.ref)).1

def replayRec (m : Mem) : Rec → Mem
  | .series xs =>
    xs.foldl (fun (m : Mem) p =>
      let m := if m.lastID < p.1 then { m with lastID := p.1 } else m
      match m.byLid p.2 with
      | some s =>
        -- duplicate series record: `resetSeriesWithMMappedChunks` drops the head chunk replayed so far
        -- ("any samples replayed till now would already be compacted")
        { m.upd { s with smps := [] } with multi := setMulti m.multi p.1 s.ref }
      | none =>
        { m with series := (m.series.map fun x => if x.ref = p.1 then { x with hidden := true } else x) ++
                             [{ ref := p.1, lid := p.2 }] }) m
  | .smp .float xs => xs.foldl (replaySample false) m
  | .smp .ex xs => xs.foldl (replaySample true) m
  | .smp _ _ => m             -- histogram records: not written by the head configuration of this suite
  | .tomb xs => xs.foldl replayStone m
  | .mdata xs =>
    xs.foldl (fun (m : Mem) p =>
      let ref := (m.mapRef p.1).getD p.1
      match m.byRef ref with
      | none => m
      | some s => m.upd { s with mid := some p.2 }) m

/-- `Head.Init(minValidTime)` over a record list. -/
def replay (mv : Int) (recs : List Rec) : Mem :=
  let m : Mem := { minValid := mv }
  let m := recs.foldl replayRec m
  let m := if m.minT < m.minValid then { m with minT := m.minValid } else m
  { m.gc with multi := [] }

def Head.restart (h : Head) (mv : Int) : Head :=
  let w := h.wal.open_
  { mem := replay mv w.recs, lastWalTrunc := MinI64, wal := w, retained := h.retained }

end Prom.CkptHead
