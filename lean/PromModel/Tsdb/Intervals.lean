import PromModel.Prelude.Line
/-
  Model of `tsdb/tombstones.Intervals.Add` (tombstones.go), transcribed with Go's slice
  indexing made explicit: an out-of-range index is `Except.error .panic`, never a default.
  Timestamps are `Int` with the int64 bounds as named constants; the code's two overflow guards
  (`n.Mint != MinInt64`, `n.Maxt != MaxInt64`) are transcribed, so `n.Mint-1` / `n.Maxt+1`
  never leave the int64 range when the inputs are in range.
-/
namespace Prom.Intervals

def MinI64 : Int := -9223372036854775808
def MaxI64 : Int := 9223372036854775807

structure Interval where
  mint : Int
  maxt : Int
deriving Repr, DecidableEq, Inhabited

abbrev Intervals := List Interval

inductive Err | panic
deriving Repr, DecidableEq

/-- Go's `sort.Search(n, f)`: binary search, transcribed (`h := (i+j)/2`). The loop is given
    `fuel`; `j - i` strictly decreases, so `fuel = n` is more than the loop can use. -/
def goSearchAux (f : Nat → Bool) : Nat → Nat → Nat → Nat
  | 0, i, _ => i
  | fuel + 1, i, j =>
    if i < j then
      let m := (i + j) / 2
      if f m then goSearchAux f fuel i m else goSearchAux f fuel (m + 1) j
    else i

def goSearch (n : Nat) (f : Nat → Bool) : Nat := goSearchAux f n 0 n

/-- `in[i]` with Go's bounds check. -/
def idx (xs : Intervals) (i : Nat) : Except Err Interval :=
  match xs[i]? with
  | some x => .ok x
  | none => .error .panic

/-- `Intervals.Add`, transcribed. `fixed = true` is the repaired code (`maxi := len(in) - mini`). -/
def addG (fixed : Bool) (xs : Intervals) (n : Interval) : Except Err Intervals :=
  if xs.length = 0 then .ok [n] else
  let mini :=
    if n.mint ≠ MinI64 then goSearch xs.length (fun i => decide ((xs[i]?.getD default).maxt ≥ n.mint - 1))
    else 0
  if n.mint ≠ MinI64 ∧ mini = xs.length then .ok (xs ++ [n]) else
  let maxi :=
    if n.maxt ≠ MaxI64 then
      goSearch (xs.length - mini) (fun i => decide ((xs[mini + i]?.getD default).mint > n.maxt + 1))
    else if fixed then xs.length - mini else xs.length
  if n.maxt ≠ MaxI64 ∧ maxi = 0 then .ok (xs.take mini ++ n :: xs.drop mini) else
  do
    let a ← idx xs mini
    let b ← idx xs (maxi + mini - 1)
    if maxi + mini > xs.length then .error .panic else
    let merged : Interval := ⟨if n.mint < a.mint then n.mint else a.mint, max n.maxt b.maxt⟩
    .ok (xs.take mini ++ merged :: xs.drop (maxi + mini))

/-- The code as it stands in /repo (kept in sync by the correspondence suite `intervals`). -/
def add (xs : Intervals) (n : Interval) : Except Err Intervals := addG true xs n

/-- A timestamp is covered by some interval. -/
def covers (xs : Intervals) (t : Int) : Prop := ∃ x ∈ xs, x.mint ≤ t ∧ t ≤ x.maxt

def coversB (xs : Intervals) (t : Int) : Bool := xs.any fun x => decide (x.mint ≤ t ∧ t ≤ x.maxt)

/-- Canonical form: every interval valid (`mint ≤ maxt`), strictly increasing, neither overlapping
    nor adjacent (the gap between two intervals is at least one timestamp). -/
def Canon (xs : Intervals) : Prop :=
  (∀ x ∈ xs, x.mint ≤ x.maxt) ∧ xs.Pairwise (fun x y => x.maxt + 1 < y.mint)

instance (xs : Intervals) : Decidable (Canon xs) := by unfold Canon; infer_instance

def canonB (xs : Intervals) : Bool := decide (Canon xs)

def I64 (x : Int) : Prop := MinI64 ≤ x ∧ x ≤ MaxI64

/-- `Interval.InBounds`. -/
def Interval.inBounds (tr : Interval) (t : Int) : Bool := decide (t ≥ tr.mint) && decide (t ≤ tr.maxt)

/-- `Interval.IsSubrange`: some single interval of `dranges` contains both endpoints. -/
def Interval.isSubrange (tr : Interval) (dranges : Intervals) : Bool :=
  dranges.any fun r => r.inBounds tr.mint && r.inBounds tr.maxt

/-- Decidable form of "every timestamp of `[a,b]` is covered by `xs`" (no canonicity needed): it is
    enough to test `a` and the successor of every right endpoint. -/
def rangeCoveredB (xs : Intervals) (a b : Int) : Bool :=
  (a :: xs.map (fun x => x.maxt + 1)).all fun t => !(decide (a ≤ t) && decide (t ≤ b)) || coversB xs t

/-! ### `tsdb.DeletedIterator` (querier.go) over an underlying iterator that yields the timestamps
    `ts` in order. `it.Intervals` is consumed from the front exactly as the Go loops do. -/

/-- Inner loop of `DeletedIterator.Next` for the sample at `t`: (deleted?, remaining `it.Intervals`). -/
def skipTo (t : Int) : Intervals → Bool × Intervals
  | [] => (false, [])
  | tr :: rest =>
    if tr.inBounds t then (true, tr :: rest)          -- continue Outer
    else if t ≤ tr.maxt then (false, tr :: rest)      -- return valueType
    else skipTo t rest                                -- it.Intervals = it.Intervals[1:]

/-- Successive results of `Next()` until `ValNone`. -/
def drain : List Int → Intervals → List Int
  | [], _ => []
  | t :: r, ivs =>
    match skipTo t ivs with
    | (true, ivs') => drain r ivs'
    | (false, ivs') => t :: drain r ivs'

/-- Loop of `DeletedIterator.Seek` after the underlying `Seek` stopped at `t`. -/
def seekSkip (t : Int) : Intervals → Bool × Intervals
  | [] => (false, [])
  | itv :: rest =>
    if t < itv.mint then (false, itv :: rest)         -- return valueType
    else if t > itv.maxt then seekSkip t rest         -- it.Intervals = it.Intervals[1:]; continue
    else (true, itv :: rest)                          -- return it.Next()

/-- `Seek(s)` on a fresh iterator, then `Next()` until `ValNone`. The underlying (XOR chunk) `Seek`
    reads samples until the current timestamp is `≥ s`. -/
def seekDrain (s : Int) (ts : List Int) (ivs : Intervals) : List Int :=
  match ts.dropWhile (fun t => decide (t < s)) with
  | [] => []
  | t :: r =>
    match seekSkip t ivs with
    | (true, ivs') => drain r ivs'
    | (false, ivs') => t :: drain r ivs'

end Prom.Intervals
