import PromModel.Prelude.Line
/-
  Model of series selection through the postings index (property C16).

  Anchors: tsdb/querier.go (`PostingsForMatchers`, `postingsForMatcher`, `inversePostingsForMatcher`,
  `labelValuesWithMatchers`, `labelNamesWithMatchers`, `blockBaseQuerier.LabelNames/LabelValues`,
  `selectSeriesSet`), tsdb/index/postings.go (`Intersect`, `Merge`, `Without`, `FindIntersectingPostings`,
  `MemPostings.*`), tsdb/index/index.go (`Reader.Postings*`, `LabelValues`, `LabelNamesFor`),
  tsdb/head_read.go (`headIndexReader.*`).

  * An index is a finite list of series `(ref, labels)` in increasing `ref` order plus, per label name,
    the list of its values in the order the index reader enumerates them (`MemPostings.lvs`:
    insertion order in the head; the postings offset table: sorted order in a block).
  * Postings are strictly increasing `Nat` lists.  The iterator combinators are list functions that
    follow the iterator algorithms: `seek` = skip while `< target`; `intersect` drives the first list and
    seeks the others to each candidate (`intersectPostings.Next/Seek`); `without` seeks the drop list to
    each element of the full list (`removedPostings.Next`); `merge` is a tournament of two-way merges
    that drops duplicates (the loser tree of `mergedPostings`), including its quirk that a leading ref 0
    is swallowed (`cur` starts at 0) when two or more lists are merged.
  * `EmptyPostings()` is a sentinel compared by identity in Go. Every postings value produced by an index
    reader is the sentinel exactly when it is empty (the readers never store empty lists), so the model
    uses `List.isEmpty` for `IsEmptyPostingsType`.
  * A matcher carries its regex semantics as an arbitrary predicate `pred` and the `SetMatches()` list;
    theorems assume only the well-formedness `WFm` (PromProps/C16.lean), which is C17's conclusion.
-/
namespace Prom.Postings

abbrev Postings := List Nat

/-! ## Combinators -/

/-- `Postings.Seek(t)` on the not-yet-consumed part of a list: skip everything `< t`. -/
def seek (t : Nat) (p : Postings) : Postings := p.dropWhile (· < t)

/-- `intersectPostings`: every element `x` of the first list is a candidate; the others are advanced
    (`Seek`) to `x` and `x` is emitted iff all of them then stand on `x`. The state of the other
    iterators is carried along, as in the Go iterator. -/
def intersectGo : Postings → List Postings → Postings
  | [], _ => []
  | x :: p0, others =>
    let others' := others.map (seek x)
    if others'.all (fun q => q.head? == some x) then x :: intersectGo p0 others'
    else intersectGo p0 others'

/-- `index.Intersect(its...)`. -/
def intersect (its : List Postings) : Postings :=
  match its with
  | [] => []
  | [p] => p
  | p :: rest => if its.any List.isEmpty then [] else intersectGo p rest

/-- `removedPostings`: for every element of `full`, forward `drop` to it and skip it when `drop` stands
    on the same ref. -/
def withoutGo : Postings → Postings → Postings
  | [], _ => []
  | x :: f, r =>
    let r' := seek x r
    if r'.head? == some x then withoutGo f r' else x :: withoutGo f r'

/-- `index.Without(full, drop)`. -/
def without (full drop : Postings) : Postings :=
  if full.isEmpty then [] else if drop.isEmpty then full else withoutGo full drop

/-- Two-way duplicate-dropping merge: emit what `q` has below `x`, then `x`, and move `q` past `x`. -/
def merge2 : Postings → Postings → Postings
  | [], q => q
  | x :: p, q => q.takeWhile (· < x) ++ x :: merge2 p (q.dropWhile (· ≤ x))

def mergeAll (its : List Postings) : Postings := its.foldr merge2 []

/-- `index.Merge(its...)`. With two or more inputs `mergedPostings.Next` compares against `cur`, which
    starts at 0, so a leading ref 0 is dropped. -/
def merge (its : List Postings) : Postings :=
  match its with
  | [] => []
  | [p] => p
  | _ => (mergeAll its).dropWhile (· == 0)

/-! ## Index -/

structure Series where
  ref : Nat
  labels : List (String × String)
deriving Repr, DecidableEq, Inhabited

/-- Value of label `name`; an absent label reads as `""`. -/
def Series.get (s : Series) (name : String) : String := (s.labels.lookup name).getD ""

structure Index where
  series : List Series
  /-- label values of a name in the reader's enumeration order -/
  lvs : String → List String

def Index.all (ix : Index) : Postings := ix.series.map (·.ref)

/-- `p.m[name][value]` / one entry of the postings offset table; `("","")` is the all-postings key. -/
def Index.postings1 (ix : Index) (name value : String) : Postings :=
  if name = "" ∧ value = "" then ix.all
  else (ix.series.filter fun s => s.labels.lookup name == some value).map (·.ref)

/-- `IndexReader.Postings(name, values...)`: merge of the lists that exist. -/
def Index.postings (ix : Index) (name : String) (values : List String) : Postings :=
  merge ((values.map (ix.postings1 name)).filter (fun p => !p.isEmpty))

/-- `IndexReader.PostingsForLabelMatching`. -/
def Index.postingsForLabelMatching (ix : Index) (name : String) (f : String → Bool) : Postings :=
  let vals := (ix.lvs name).filter f
  if vals.isEmpty then [] else merge ((vals.map (ix.postings1 name)).filter (fun p => !p.isEmpty))

/-- `IndexReader.PostingsForAllLabelValues`. -/
def Index.postingsForAllLabelValues (ix : Index) (name : String) : Postings :=
  merge (((ix.lvs name).map (ix.postings1 name)).filter (fun p => !p.isEmpty))

/-! ## Matchers -/

inductive MatchType | eq | ne | re | nre
deriving Repr, DecidableEq, Inhabited

structure Matcher where
  name : String
  type : MatchType
  value : String
  /-- `m.re.MatchString` (anchored regex semantics); unused for `=`/`!=` -/
  pred : String → Bool
  /-- `m.re.SetMatches()` -/
  setMatches : List String

def Matcher.matches (m : Matcher) (s : String) : Bool :=
  match m.type with
  | .eq => s == m.value
  | .ne => s != m.value
  | .re => m.pred s
  | .nre => !m.pred s

def MatchType.inv : MatchType → MatchType
  | .eq => .ne | .ne => .eq | .re => .nre | .nre => .re

def Matcher.inverse (m : Matcher) : Matcher := { m with type := m.type.inv }

def Matcher.isNot (m : Matcher) : Bool := m.type == .ne || m.type == .nre

/-- `postingsForMatcher`. -/
def postingsForMatcher (ix : Index) (m : Matcher) : Postings :=
  if m.type == .eq then ix.postings m.name [m.value]
  else if m.type == .re ∧ !m.setMatches.isEmpty then ix.postings m.name m.setMatches
  else ix.postingsForLabelMatching m.name m.matches

/-- `inversePostingsForMatcher`: series with the label set but not matching `m`. -/
def inversePostingsForMatcher (ix : Index) (m : Matcher) : Postings :=
  if m.type == .nre ∧ !m.setMatches.isEmpty then ix.postings m.name m.setMatches
  else if m.type == .ne then ix.postings m.name [m.value]
  else if m.value == "" ∧ (m.type == .re || m.type == .eq) then ix.postingsForAllLabelValues m.name
  else ix.postingsForLabelMatching m.name (fun s => !m.matches s)

/-- What one iteration of the matcher loop of `PostingsForMatchers` does. -/
inductive Step
  | skip                    -- `=~".*"`
  | empty                   -- `return EmptyPostings()`
  | err                     -- `unexpected all postings`
  | its (p : Postings)      -- `its = append(its, p)`
  | nots (p : Postings)     -- `notIts = append(notIts, p)`

def orEmpty (p : Postings) : Step := if p.isEmpty then .empty else .its p

def pfmStep (ix : Index) (mustSet : String → Bool) (m : Matcher) : Step :=
  if m.name == "" ∧ m.value == "" then .err
  else if m.type == .re ∧ m.value == ".*" then .skip
  else if m.type == .nre ∧ m.value == ".*" then .empty
  else if m.type == .re ∧ m.value == ".+" then orEmpty (ix.postingsForAllLabelValues m.name)
  else if m.type == .nre ∧ m.value == ".+" then .nots (ix.postingsForAllLabelValues m.name)
  else if mustSet m.name then
    let matchesEmpty := m.matches ""
    if m.isNot ∧ matchesEmpty then .nots (postingsForMatcher ix m.inverse)
    else if m.isNot ∧ !matchesEmpty then orEmpty (inversePostingsForMatcher ix m.inverse)
    else orEmpty (postingsForMatcher ix m)
  else .nots (inversePostingsForMatcher ix m)

inductive Acc
  | go (its notIts : List Postings)
  | empty
  | err

def pfmLoop (ix : Index) (mustSet : String → Bool) : List Matcher → Acc
  | [] => .go [] []
  | m :: rest =>
    match pfmStep ix mustSet m with
    | .err => .err
    | .empty => .empty
    | .skip => pfmLoop ix mustSet rest
    | .its p =>
      match pfmLoop ix mustSet rest with
      | .go a b => .go (p :: a) b
      | r => r
    | .nots p =>
      match pfmLoop ix mustSet rest with
      | .go a b => .go a (p :: b)
      | r => r

/-- `labelMustBeSet[name]`. -/
def labelMustBeSet (ms : List Matcher) (name : String) : Bool :=
  ms.any fun m => m.name == name && !m.matches ""

def isSubtracting (ms : List Matcher) (m : Matcher) : Bool :=
  if !labelMustBeSet ms m.name then true else m.isNot && m.matches ""

/-- `slices.SortStableFunc` with the comparator "−1 iff i intersecting and j subtracting, else +1":
    the only exchanges a stable sort makes move an intersecting matcher in front of a subtracting one,
    i.e. a stable partition. -/
def sortMatchers (ms : List Matcher) : List Matcher :=
  ms.filter (fun m => !isSubtracting ms m) ++ ms.filter (fun m => isSubtracting ms m)

inductive Err | unexpectedAllPostings
deriving Repr, DecidableEq

/-- `PostingsForMatchers`. -/
def postingsForMatchers (ix : Index) (ms : List Matcher) : Except Err Postings :=
  match ms with
  | [m] => if m.name == "" ∧ m.value == "" then .ok (ix.postings "" [""]) else body
  | _ => body
where
  body : Except Err Postings :=
    let hasSub := ms.any (isSubtracting ms)
    let hasInt := ms.any (fun m => !isSubtracting ms m)
    let its0 : List Postings := if hasSub ∧ !hasInt then [ix.postings "" [""]] else []
    match pfmLoop ix (labelMustBeSet ms) (sortMatchers ms) with
    | .err => .error .unexpectedAllPostings
    | .empty => .ok []
    | .go its notIts => .ok (notIts.foldl without (intersect (its0 ++ its)))

/-! ## Sorting helpers (`slices.Sort` on strings, a set collected in a map then sorted) -/

def insertS (x : String) : List String → List String
  | [] => [x]
  | y :: ys => if x ≤ y then x :: y :: ys else y :: insertS x ys

/-- `slices.Sort` (the result of a sort is unique, so any algorithm models it). -/
def sortS (xs : List String) : List String := xs.foldr insertS []

def insertU (x : String) : List String → List String
  | [] => [x]
  | y :: ys => if x < y then x :: y :: ys else if x = y then y :: ys else y :: insertU x ys

/-- collect into a set, then sort -/
def sortU (xs : List String) : List String := xs.foldr insertU []

/-- `if hints != nil && hints.Limit > 0 && len(xs) > hints.Limit { xs = xs[:hints.Limit] }`; limit 0 = none. -/
def truncate (limit : Nat) (xs : List α) : List α := if limit > 0 then xs.take limit else xs

/-! ## Label values / names -/

/-- First ref common to `p` and candidate `c`. -/
def firstCommon (p c : Postings) : Option Nat := (intersectGo c [p]).head?

def insertHit (h : Nat × Nat) : List (Nat × Nat) → List (Nat × Nat)
  | [] => [h]
  | y :: ys => if h.1 ≤ y.1 then h :: y :: ys else y :: insertHit h ys

/-- `index.FindIntersectingPostings`: the indexes of the candidates that intersect `p`, in the order in
    which the heap walk discovers them = increasing first common ref. -/
def findIntersecting (p : Postings) (cands : List Postings) : List Nat :=
  let hits := cands.zipIdx.filterMap fun (c, i) => (firstCommon p c).map fun r => (r, i)
  (hits.foldr insertHit []).map (·.2)

/-- The filtering loop at the top of `labelValuesWithMatchers`. -/
def filterOwn (name : String) : List Matcher → List String → List String
  | [], vs => vs
  | m :: ms, vs => if m.name == name then filterOwn name ms (vs.filter m.matches) else filterOwn name ms vs

/-- `labelValuesWithMatchers` (limit 0 = no limit). -/
def labelValuesWithMatchers (ix : Index) (name : String) (limit : Nat) (ms : List Matcher) :
    Except Err (List String) :=
  let allValues := filterOwn name ms (ix.lvs name)
  let hasOther := ms.any (fun m => m.name != name)
  if allValues.isEmpty then .ok []
  else if !hasOther then .ok (truncate limit allValues)
  else
    match postingsForMatchers ix ms with
    | .error e => .error e
    | .ok p =>
      let idxs := findIntersecting p (allValues.map (ix.postings1 name))
      .ok (truncate limit (idxs.filterMap fun i => allValues[i]?))

/-- `Querier.LabelValues` through `SortedLabelValues` of the head / block index reader. -/
def labelValues (ix : Index) (name : String) (limit : Nat) (ms : List Matcher) : Except Err (List String) :=
  if ms.isEmpty then .ok (sortS (truncate limit (ix.lvs name)))
  else (labelValuesWithMatchers ix name limit ms).map sortS

/-- `LabelNamesFor`. -/
def labelNamesFor (ix : Index) (p : Postings) : List String :=
  sortU ((ix.series.filter fun s => p.contains s.ref).flatMap fun s => s.labels.map (·.1))

/-- `Querier.LabelNames`: all names, or `labelNamesWithMatchers`; the limit is applied on the sorted result. -/
def labelNames (ix : Index) (limit : Nat) (ms : List Matcher) : Except Err (List String) :=
  if ms.isEmpty then .ok (truncate limit (sortU (ix.series.flatMap fun s => s.labels.map (·.1))))
  else (postingsForMatchers ix ms).map fun p => truncate limit (labelNamesFor ix p)

/-! ## Select -/

/-- `labels.Compare(a, b) ≤ 0` on sorted label lists. -/
def labelsLe : List (String × String) → List (String × String) → Bool
  | [], _ => true
  | _ :: _, [] => false
  | (n1, v1) :: a, (n2, v2) :: b =>
    if n1 < n2 then true else if n2 < n1 then false
    else if v1 < v2 then true else if v2 < v1 then false
    else labelsLe a b

def insertL (x : Series) : List Series → List Series
  | [] => [x]
  | y :: ys => if labelsLe x.labels y.labels then x :: y :: ys else y :: insertL x ys

def sortByLabels (xs : List Series) : List Series := xs.foldr insertL []

def Index.byRef (ix : Index) (r : Nat) : Option Series := ix.series.find? (·.ref == r)

/-- `selectSeriesSet` restricted to the series identity: the postings expanded to series, in postings
    order, or re-sorted by labels (`SortedPostings`; a no-op for block readers whose refs are already in
    label order — the model sorts in both cases, which is the identity there). -/
def select (ix : Index) (sorted : Bool) (ms : List Matcher) : Except Err (List Series) :=
  (postingsForMatchers ix ms).map fun p =>
    let ss := p.filterMap ix.byRef
    if sorted then sortByLabels ss else ss

/-! ## Building an index from a list of label sets -/

def dedup : List String → List String
  | [] => []
  | x :: xs => x :: (dedup xs).filter (· != x)

/-- Number label sets 1,2,… in list order. -/
def renumber (L : List (List (String × String))) : List Series :=
  L.zipIdx.map fun (ls, i) => ({ ref := i + 1, labels := ls } : Series)

/-- Head: refs are assigned 1,2,… in creation order, `lvs` grows in first-occurrence order. -/
def mkHead (lsets : List (List (String × String))) : Index :=
  { series := renumber lsets,
    lvs := fun name => dedup ((renumber lsets).filterMap fun s => s.labels.lookup name) }

/-- Block: series are written in label order (refs increase in that order), values are enumerated sorted. -/
def mkBlock (lsets : List (List (String × String))) : Index :=
  let sorted := (sortByLabels (lsets.map fun ls => ({ ref := 0, labels := ls } : Series))).map (·.labels)
  { series := renumber sorted,
    lvs := fun name => sortS (dedup ((renumber sorted).filterMap fun s => s.labels.lookup name)) }

end Prom.Postings
