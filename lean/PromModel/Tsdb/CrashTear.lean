/-
  C03 — crash safety, torn files (content level).

  Two parts, both core Lean, no strings except opaque sample keys.

  (1) The recovery statement for a crash that leaves ONE file torn. A log segment (WAL or WBL) is a list
      of records, each with its end offset and the samples it carries; truncating the segment at `off`
      destroys exactly the records that end behind `off` (`lost`). A sample is *owed* after the crash
      iff it was acknowledged and is not carried by a destroyed record; a torn head-chunk file destroys
      no log record, so it excuses nothing. `CrashSuite.tearHolds` evaluates C03 on these sets.

  (2) The mechanism that makes a torn head-chunk file harmless for out-of-order data: the interplay of
      m-mapped out-of-order chunks, the m-map markers in the WBL and `lastMmapRef`
      (tsdb/head_append.go `collectOOORecords`, tsdb/ooo_head.go/head_append.go `insert`/
      `cutNewOOOHeadChunk`, tsdb/head.go `loadMmappedChunks`, tsdb/head_wal.go `loadWBL`), for ONE
      series. Chunk references are (file, offset) pairs ordered lexicographically; here a `Nat`.
        writer  `oooInsert`: an out-of-order sample goes to the OOO head chunk; when the head chunk holds
                `cap` samples it is first handed to the chunk disk mapper under a fresh, larger
                reference `r`, and the WBL gets `mark r` followed by the sample; the very first sample
                of a series creates a chunk without writing one: `mark 0`.
        replay  `replay L`: samples are appended to the OOO head chunk; a marker whose reference is
                `≤ L` (= lastMmapRef) empties it ("all samples till now have been m-mapped"), a marker
                `> L` is skipped ("this m-map chunk was not present during the load").
        load    `loaded L`: the chunks the file iteration returned; `L` is *faithful* when these are
                exactly the chunks with reference `≤ L` — true for a cleanly read prefix (L = last
                chunk read) and, after a corrupted file was deleted, for the re-load (L = last chunk
                of the remaining files). Keeping the reference of the FAILED first load instead makes
                `L` unfaithful: `PromProps.C03.stale_lastMmapRef_loses_witness`.
-/
namespace Prom.CrashTear

/-! ### (1) records destroyed by a truncation, samples still owed -/

/-- A record of a log segment: end offset, samples carried. -/
abbrev Rec := Nat × List String

/-- Samples carried by the records that end behind the truncation point. -/
def lost (off : Nat) (recs : List Rec) : List String :=
  (recs.filter fun r => decide (off < r.1)).flatMap (·.2)

/-- Is `off` a record boundary (start of the segment or end of a record)? A cut there is a clean
    end of the log; anywhere else the last record is torn. -/
def atBoundary (off : Nat) (recs : List Rec) : Bool :=
  off == 0 || recs.any (·.1 == off)

/-- Acknowledged samples that recovery must return: not carried by a destroyed record. -/
def owed (acked : List String) (off : Nat) (recs : List Rec) : List String :=
  acked.filter fun a => !(lost off recs).contains a

/-! ### (2) out-of-order m-map markers of one series -/

inductive WEntry
  | smp (x : Nat)
  | mark (ref : Nat)
deriving DecidableEq, Repr, Inhabited

structure OChunk where
  ref : Nat
  samples : List Nat
deriving DecidableEq, Repr, Inhabited

/-- `loadWBL` for one series: the OOO head chunk after replaying `w` on top of `h`. -/
def replay (L : Nat) : List WEntry → List Nat → List Nat
  | [], h => h
  | .smp x :: r, h => replay L r (h ++ [x])
  | .mark ref :: r, h => replay L r (if ref ≤ L then [] else h)

/-- Samples of the m-mapped chunks with reference `≤ L`. -/
def loaded (L : Nat) (cs : List OChunk) : List Nat :=
  (cs.filter fun c => decide (c.ref ≤ L)).flatMap (·.samples)

/-- What a restart sees of the series: chunks loaded with `Lload`, WBL replayed with `Lreplay`. -/
def recoveredWith (Lload Lreplay : Nat) (cs : List OChunk) (w : List WEntry) : List Nat :=
  loaded Lload cs ++ replay Lreplay w []

/-- The current code: one and the same reference for both. -/
def recovered (L : Nat) (cs : List OChunk) (w : List WEntry) : List Nat := recoveredWith L L cs w

structure WState where
  chunks : List OChunk := []   -- OOO chunks of the series handed to the chunk disk mapper, in order
  wbl : List WEntry := []      -- the series' entries in the WBL, in order
  head : List Nat := []        -- the OOO head chunk
  nextRef : Nat := 1           -- every reference handed out so far is smaller
deriving Repr, Inhabited

/-- Insert one out-of-order sample; `gap` = what other chunks (other series, in-order chunks, new
    files) consumed of the reference space since the last chunk of this series. -/
def oooInsert (cap : Nat) (s : WState) (x gap : Nat) : WState :=
  if s.head.isEmpty then
    { s with head := [x], wbl := s.wbl ++ [.mark 0, .smp x] }
  else if s.head.length < cap then
    { s with head := s.head ++ [x], wbl := s.wbl ++ [.smp x] }
  else
    let r := s.nextRef + gap
    { chunks := s.chunks ++ [⟨r, s.head⟩], wbl := s.wbl ++ [.mark r, .smp x], head := [x], nextRef := r + 1 }

def runW (cap : Nat) (s : WState) : List (Nat × Nat) → WState
  | [] => s
  | (x, gap) :: rest => runW cap (oooInsert cap s x gap) rest

end Prom.CrashTear
