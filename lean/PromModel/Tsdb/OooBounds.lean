/-
  C06 — the published out-of-order bounds of the head (Head.MinOOOTime / Head.MaxOOOTime).

  DB.Querier opens the out-of-order head reader only if the query range overlaps
  [MinOOOTime, MaxOOOTime]. Appends only widen the bounds; the head GC (stripeSeries.gc, run by
  truncateMemory and truncateOOO) RECOMPUTES the lower one from the chunks that survive:

      for every series:  for _, ch := range series.ooo.oooMmappedChunks { min= ch.minTime }
                         if series.ooo.oooHeadChunk != nil            { min= oooHeadChunk.minTime }

  and truncateSeriesAndChunkDiskMapper lowers the result to `headMaxt - OutOfOrderTimeWindow` if that is
  smaller (an append racing with the GC may have inserted anything above that).

  `oooMmappedChunks` is in ARRIVAL order (memSeries.insert m-maps the OOO head chunk when it holds
  OutOfOrderCapMax samples and appends its ref at the end), not in time order — unlike `mmappedChunks`.
  A later chunk can hold older samples, so the minimum has to range over ALL chunks.
-/
namespace Prom.OooBounds

def top : Int := 9223372036854775807

/-- `min` of `f` over a list, starting from `a`. -/
def minBy {α : Type} (f : α → Int) (l : List α) (a : Int) : Int := l.foldl (fun a c => min a (f c)) a

/-- The out-of-order part of one memSeries: the m-mapped chunks in arrival order and the OOO head chunk;
    a chunk is the list of its sample times. -/
structure OooSeries where
  mmapped : List (List Int) := []
  head : List Int := []
deriving Repr, DecidableEq, Inhabited

/-- memSeries.insert for an out-of-order sample: a head chunk holding `capMax` samples is m-mapped (its
    ref appended at the END of oooMmappedChunks) and a new head chunk is cut. -/
def insert (capMax : Nat) (s : OooSeries) (t : Int) : OooSeries :=
  if capMax ≤ s.head.length && !s.head.isEmpty then { mmapped := s.mmapped ++ [s.head], head := [t] }
  else { s with head := s.head ++ [t] }

def chunks (s : OooSeries) : List (List Int) := s.mmapped ++ [s.head]

/-- chunk.minTime (`top` for the absent/empty head chunk). -/
def chunkMin (c : List Int) : Int := minBy id c top

/-- stripeSeries.gc: the minimum over ALL surviving chunks of all series. -/
def recount (ss : List OooSeries) : Int := minBy chunkMin (ss.flatMap chunks) top

/-- The mistake "the oldest m-mapped chunk is at the front": only the first m-mapped chunk (and the head
    chunk) of each series. -/
def firstOnly (ss : List OooSeries) : Int :=
  minBy (fun s => min (match s.mmapped with | c :: _ => chunkMin c | [] => top) (chunkMin s.head)) ss top

/-- truncateSeriesAndChunkDiskMapper: what is stored into Head.minOOOTime after the GC. -/
def published (headMaxt window rc : Int) : Int :=
  if headMaxt - window < rc then headMaxt - window else rc

end Prom.OooBounds
