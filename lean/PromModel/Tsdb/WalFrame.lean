import PromModel.Prelude.Line
/-
  Model of the write-ahead-log framing of `tsdb/wlog` (wlog.go `WL.log/flushPage/nextSegment/Close`,
  `segmentBufReader`; reader.go `Reader`; live_reader.go `LiveReader`), compression `none`.

  Parameters: `ps` = page size (Go: the constant `pageSize = 32768`), `pps` = pages per segment
  (`w.pagesPerSegment() = segmentSize / pageSize`), `crc` = the checksum (Go: CRC32-Castagnoli; the
  theorems are for an arbitrary function, the driver instantiates `crc32c` below).

  Writer state.  Go keeps `page.alloc`, `page.flushed`, `donePages` and the segment file.  Every byte
  the writer ever puts into the file of a segment is appended (`Write(p.buf[p.flushed:p.alloc])`), a
  page is completed only by `flushPage(true)` which pads it with zeros up to `pageSize` and does
  `donePages++; alloc = 0`.  Hence with `cur` = the bytes allocated so far in the current segment
  (flushed or still in the page buffer), `alloc = |cur| mod ps` and `donePages = |cur| / ps`, and what is
  on disk at any moment is a *prefix* of `cur` (all of `cur` when `Log` returns: batch-final flush).
  The model keeps `cur` and derives `alloc`/`donePages`.
-/
namespace Prom.Wal

abbrev Bytes := List UInt8
abbrev Crc := Bytes → UInt32

/-! ### Record types and header -/

def recPageTerm : UInt8 := 0
def recFull : UInt8 := 1
def recFirst : UInt8 := 2
def recMiddle : UInt8 := 3
def recLast : UInt8 := 4
def snappyMask : UInt8 := 8
def zstdMask : UInt8 := 16
def recTypeMask : UInt8 := 7
def hdrSize : Nat := 7

/-- `binary.BigEndian.PutUint16(buf, uint16(n))` (the conversion truncates). -/
def be16 (n : Nat) : Bytes := [UInt8.ofNat (n % 65536 / 256), UInt8.ofNat (n % 256)]

def rd16 (a b : UInt8) : Nat := a.toNat * 256 + b.toNat

/-- `binary.BigEndian.PutUint32`. -/
def be32 (c : UInt32) : Bytes :=
  [(c >>> 24).toUInt8, (c >>> 16).toUInt8, (c >>> 8).toUInt8, c.toUInt8]

/-- One fragment on disk: type byte, len16, crc32 of the data, data. -/
def frame (crc : Crc) (typ : UInt8) (part : Bytes) : Bytes :=
  typ :: (be16 part.length ++ be32 (crc part) ++ part)

def zeros (n : Nat) : Bytes := List.replicate n 0

/-! ### Writer -/

/-- The fragment loop of `WL.log` (`for i := 0; i == 0 || len(enc) > 0; i++`), as the bytes it appends
    to the segment given `alloc` (offset in the active page) on entry.  `page.full()` after a fragment
    ⇒ `flushPage(true)`: zero padding up to the page end, `alloc = 0`.
    Each pass consumes `l ≥ 1` bytes unless exactly 7 bytes were left in the page (then a zero-length
    `first`/`middle` fragment is written and the next page has room), so `fuel = 2·|enc| + 2` passes
    are more than the loop can use (`frag_fuel_enough` in PromProps.C13). -/
def fragBytes (ps : Nat) (crc : Crc) : Nat → Nat → Nat → Bytes → Bytes
  | 0, _, _, _ => []
  | fuel + 1, i, alloc, enc =>
    let l := min enc.length (ps - alloc - hdrSize)
    let part := enc.take l
    let typ :=
      if i = 0 ∧ l = enc.length then recFull
      else if l = enc.length then recLast
      else if i = 0 then recFirst
      else recMiddle
    let alloc1 := alloc + hdrSize + l
    -- page.full(): pageSize - alloc < recordHeaderSize
    let pad := if ps - alloc1 < hdrSize then ps - alloc1 else 0
    let alloc2 := if ps - alloc1 < hdrSize then 0 else alloc1
    let enc' := enc.drop l
    frame crc typ part ++ zeros pad ++
      (if enc'.isEmpty then [] else fragBytes ps crc fuel (i + 1) alloc2 enc')

def fragFuel (enc : Bytes) : Nat := 2 * enc.length + 2

/-- What `WL.log(rec)` does to the files: possibly terminate the segment (`pad` zeros appended to the
    old one when its page holds data, then a new empty segment), then `bytes` appended. -/
structure Step where
  cut : Bool
  pad : Nat
  bytes : Bytes
deriving Repr

/-- `left` of `WL.log`: free data bytes in the active page plus in the untouched pages of the segment.
    Go `int` arithmetic, may be negative (after a segment has been filled to the last byte). -/
def leftInSegment (ps pps curLen : Nat) : Int :=
  ((ps : Int) - (curLen % ps : Nat)) - hdrSize + ((ps : Int) - hdrSize) * ((pps : Int) - (curLen / ps : Nat) - 1)

def logStep (ps pps : Nat) (crc : Crc) (curLen : Nat) (rec : Bytes) : Step :=
  let alloc := curLen % ps
  if (rec.length : Int) > leftInSegment ps pps curLen then
    -- nextSegment: `if w.page.alloc > 0 { flushPage(true) }`, CreateSegment, donePages = 0
    { cut := true, pad := if alloc > 0 then ps - alloc else 0,
      bytes := fragBytes ps crc (fragFuel rec) 0 0 rec }
  else
    { cut := false, pad := 0, bytes := fragBytes ps crc (fragFuel rec) 0 alloc rec }

structure WState where
  done : List Bytes   -- terminated segments, oldest first
  cur : Bytes         -- active segment
deriving Repr

def WState.init : WState := ⟨[], []⟩

def applyStep (st : WState) (s : Step) : WState :=
  if s.cut then ⟨st.done ++ [st.cur ++ zeros s.pad], s.bytes⟩
  else ⟨st.done, st.cur ++ s.bytes⟩

def logRec (ps pps : Nat) (crc : Crc) (st : WState) (rec : Bytes) : WState :=
  applyStep st (logStep ps pps crc st.cur.length rec)

/-- `WL.Log(recs...)`; the batch-final `flushPage(false)` only moves bytes from the page buffer to the
    file and does not change `cur`. -/
def logBatch (ps pps : Nat) (crc : Crc) (st : WState) (recs : List Bytes) : WState :=
  recs.foldl (logRec ps pps crc) st

def logAll (ps pps : Nat) (crc : Crc) (batches : List (List Bytes)) : WState :=
  batches.foldl (logBatch ps pps crc) WState.init

/-- `WL.Close`: `if w.page.alloc > 0 { flushPage(true) }`. The segment files, oldest first. -/
def closePad (ps : Nat) (cur : Bytes) : Bytes :=
  if cur.length % ps > 0 then cur ++ zeros (ps - cur.length % ps) else cur

def segments (ps : Nat) (st : WState) : List Bytes := st.done ++ [closePad ps st.cur]

/-! ### Reader (reader.go) -/

inductive RErr
  | torn | zerosShort | nonZeroPad | hdrShort | badSize | dataShort | crc
  | seqFull | seqFirst | seqMiddle | seqLast | badType | compressed | stuck
deriving Repr, DecidableEq

def RErr.name : RErr → String
  | .torn => "torn" | .zerosShort => "zeros-short" | .nonZeroPad => "nonzero-pad"
  | .hdrShort => "hdr-short" | .badSize => "bad-size" | .dataShort => "data-short" | .crc => "crc"
  | .seqFull => "seq-full" | .seqFirst => "seq-first" | .seqMiddle => "seq-middle"
  | .seqLast => "seq-last" | .badType => "bad-type" | .compressed => "compressed" | .stuck => "stuck"

/-- `validateRecord(typ, i)`. -/
def validateRecord (typ : UInt8) (i : Nat) : Option RErr :=
  if typ = recFull then (if i ≠ 0 then some .seqFull else none)
  else if typ = recFirst then (if i ≠ 0 then some .seqFirst else none)
  else if typ = recMiddle then (if i = 0 then some .seqMiddle else none)
  else if typ = recLast then (if i = 0 then some .seqLast else none)
  else some .badType

/-- Reader state inside `nextNew`: bytes consumed, fragment index `i`, `precomprBuf`, `curRecTyp`. -/
structure RState where
  total : Nat
  i : Nat
  buf : Bytes
  typ : UInt8
deriving Repr

def RState.init : RState := ⟨0, 0, [], 0⟩

/-- Outcome of a read: `eof` = `Next() == false` with `Err() == nil`; `err e at` = corruption, `at` =
    bytes consumed when it was detected. -/
inductive Status
  | eof (at_ : Nat)
  | err (e : RErr) (at_ : Nat)
deriving Repr, DecidableEq

inductive StepR
  | done (s : Status)
  | cont (st : RState) (rest : Bytes)
  | emit (rec : Bytes) (st : RState) (rest : Bytes)

/-- An error that wraps `io.EOF` ends `Next` quietly, except that a log ending after a `first`/`middle`
    fragment header is reported torn. -/
def eofStatus (typ : UInt8) (at_ : Nat) : Status :=
  if typ = recFirst ∨ typ = recMiddle then .err .torn at_ else .eof at_

/-- One pass of the `for` loop of `Reader.nextNew` over the remaining stream `s`. -/
def rstep (ps : Nat) (crc : Crc) (st : RState) (s : Bytes) : StepR :=
  match s with
  | [] => .done (eofStatus st.typ st.total)       -- "read first header byte: EOF"
  | h0 :: s1 =>
    let total := st.total + 1
    let typ := h0 &&& recTypeMask
    if typ = recPageTerm then
      let k := ps - total % ps
      if k = ps then .cont { st with total := total, typ := typ } s1
      else if s1.length = 0 then .done (eofStatus typ total)              -- ReadFull: io.EOF
      else if s1.length < k then .done (.err .zerosShort (total + s1.length)) -- io.ErrUnexpectedEOF
      else if (s1.take k).any (· ≠ 0) then .done (.err .nonZeroPad (total + k))
      else .cont { st with total := total + k, typ := typ } (s1.drop k)
    else
      if s1.length = 0 then .done (eofStatus typ total)
      else if s1.length < 6 then .done (.err .hdrShort (total + s1.length))
      else
        match s1 with
        | l1 :: l0 :: c3 :: c2 :: c1 :: c0 :: s2 =>
          let total := total + 6
          let length := rd16 l1 l0
          if length > ps - hdrSize then .done (.err .badSize total)
          else if length > 0 ∧ s2.length = 0 then .done (eofStatus typ total)
          else if s2.length < length then .done (.err .dataShort (total + s2.length))
          else
            let data := s2.take length
            let total := total + length
            if be32 (crc data) ≠ [c3, c2, c1, c0] then .done (.err .crc total)
            else match validateRecord typ st.i with
              | some e => .done (.err e total)
              | none =>
                let buf := st.buf ++ data
                if typ = recLast ∨ typ = recFull then
                  if h0 &&& snappyMask = snappyMask ∨ h0 &&& zstdMask = zstdMask then
                    .done (.err .compressed total)    -- compression.Decode: outside this model
                  else .emit buf ⟨total, 0, [], typ⟩ (s2.drop length)
                else .cont ⟨total, st.i + 1, buf, typ⟩ (s2.drop length)
        | _ => .done (.err .hdrShort total)

/-- `for r.Next() { r.Record() }` then `r.Err()`: records returned and the final status. -/
def rloop (ps : Nat) (crc : Crc) (st : RState) (s : Bytes) : List Bytes × Status :=
  match rstep ps crc st s with
  | .done status => ([], status)
  | .cont st' rest =>
    if rest.length < s.length then rloop ps crc st' rest else ([], .err .stuck st.total)
  | .emit rec st' rest =>
    if rest.length < s.length then
      let r := rloop ps crc st' rest
      (rec :: r.1, r.2)
    else ([], .err .stuck st.total)
termination_by s.length

/-- `segmentBufReader`: the end of a segment that is not page aligned is padded with zeros. -/
def segPad (ps : Nat) (seg : Bytes) : Bytes :=
  if seg.length % ps ≠ 0 then seg ++ zeros (ps - seg.length % ps) else seg

def segStream (ps : Nat) (segs : List Bytes) : Bytes := (segs.map (segPad ps)).flatten

/-- `wlog.NewReader(wlog.NewSegmentsReader(dir))`, read to the end. -/
def readAll (ps : Nat) (crc : Crc) (segs : List Bytes) : List Bytes × Status :=
  rloop ps crc RState.init (segStream ps segs)

def Status.at : Status → Nat
  | .eof a => a
  | .err _ a => a

/-- `CorruptionErr{Segment, Offset}` of `Reader.Err()` over a `segmentBufReader`: the reader moves to the
    next segment lazily (only when a read hits the end of the current one), so after consuming
    `total` bytes it stands in the first segment whose cumulative padded end is ≥ `total`. -/
def locate (ps : Nat) (segs : List Bytes) (total : Nat) : Nat × Nat :=
  let rec go (k : Nat) (start : Nat) : List Bytes → Nat × Nat
    | [] => (k - 1, 0)
    | seg :: rest =>
      let len := (segPad ps seg).length
      if total ≤ start + len ∨ rest.isEmpty then (k, total - start)
      else go (k + 1) (start + len) rest
  go 0 0 segs

/-! ### LiveReader (live_reader.go), one segment, `permissive = true` -/

/-- `buf` is `r.buf[:writeIndex]`; bytes beyond `writeIndex` are never inspected by the Go code. -/
structure LState where
  buf : Bytes
  readIndex : Nat
  total : Nat
  index : Nat
  pre : Bytes
deriving Repr

def LState.init : LState := ⟨[], 0, 0, 0, []⟩

inductive LErr
  | nonZeroPad | tooLong | crc | seqFull | seqFirst | seqMiddle | seqLast | badType | compressed | stuck
deriving Repr, DecidableEq

def LErr.name : LErr → String
  | .nonZeroPad => "nonzero-pad" | .tooLong => "too-long" | .crc => "crc"
  | .seqFull => "seq-full" | .seqFirst => "seq-first" | .seqMiddle => "seq-middle"
  | .seqLast => "seq-last" | .badType => "bad-type" | .compressed => "compressed" | .stuck => "stuck"

def LErr.ofR : RErr → LErr
  | .seqFull => .seqFull | .seqFirst => .seqFirst | .seqMiddle => .seqMiddle | .seqLast => .seqLast
  | .badType => .badType | _ => .stuck

inductive ReadRec
  | eof
  | err (e : LErr)
  | skip (n : Nat)                       -- page terminator: `return nil, remaining, nil`
  | frag (h0 : UInt8) (data : Bytes) (n : Nat)

/-- `LiveReader.readRecord` (requires `readIndex < writeIndex`). Note the page-terminator test is on the
    whole first byte (`r.buf[r.readIndex] == byte(recPageTerm)`), not on the masked type. -/
def lrReadRecord (ps : Nat) (crc : Crc) (st : LState) : ReadRec :=
  let w := st.buf.length
  match st.buf.drop st.readIndex with
  | [] => .eof
  | h0 :: tl =>
    if h0 = 0 then
      let remaining := ps - st.total % ps
      if st.readIndex + remaining > w then .eof
      else if ((h0 :: tl).take remaining).any (· ≠ 0) then .err .nonZeroPad
      else .skip remaining
    else if w - st.readIndex < hdrSize then .eof
    else match tl with
      | l1 :: l0 :: c3 :: c2 :: c1 :: c0 :: body =>
        let length := rd16 l1 l0
        if hdrSize + length > ps then .err .tooLong
        else if st.readIndex + hdrSize + length > w then .eof
        else
          let data := body.take length
          if be32 (crc data) ≠ [c3, c2, c1, c0] then .err .crc
          else .frag h0 data (length + hdrSize)
      | _ => .eof

inductive Build
  | ok (rec : Bytes) (st : LState)
  | none (st : LState)                   -- `false, nil` or `false, io.EOF`
  | err (e : LErr) (st : LState)

/-- `LiveReader.buildRecord`; every pass consumes at least one buffered byte. -/
def lrBuild (ps : Nat) (crc : Crc) : Nat → LState → Build
  | 0, st => .err .stuck st
  | fuel + 1, st =>
    if st.buf.length ≤ st.readIndex then .none st
    else match lrReadRecord ps crc st with
      | .eof => .none st
      | .err e => .err e st
      | .skip n => .none { st with readIndex := st.readIndex + n, total := st.total + n }
      | .frag h0 data n =>
        let st := { st with readIndex := st.readIndex + n, total := st.total + n }
        let rt := h0 &&& recTypeMask
        let pre := (if rt = recFirst ∨ rt = recFull then [] else st.pre) ++ data
        match validateRecord rt st.index with
        | some e => .err (LErr.ofR e) { st with pre := pre, index := 0 }
        | none =>
          if rt = recLast ∨ rt = recFull then
            if h0 &&& snappyMask = snappyMask ∨ h0 &&& zstdMask = zstdMask then
              .err .compressed { st with pre := pre, index := 0 }
            else .ok pre { st with pre := pre, index := 0 }
          else lrBuild ps crc fuel { st with pre := pre, index := st.index + 1 }

inductive LStatus
  | eof                 -- `Err() == io.EOF`: try again when more data has been written
  | err (e : LErr)      -- terminal
deriving Repr, DecidableEq

inductive NextR
  | got (r : Bytes) (st : LState) (avail : Bytes)
  | stop (s : LStatus) (st : LState) (avail : Bytes)

/-- `LiveReader.Next`; `avail` = bytes of the segment file not yet fetched by `fillBuffer`
    (`rdr.Read` returns as much as is there, up to the free room of the page buffer). -/
def lrNext (ps : Nat) (crc : Crc) : Nat → LState → Bytes → NextR
  | 0, st, avail => .stop (.err .stuck) st avail
  | fuel + 1, st, avail =>
    match lrBuild ps crc (st.buf.length + 1) st with
    | .ok r st => .got r st avail
    | .err e st => .stop (.err e) st avail
    | .none st =>
      if st.buf.length = ps ∧ st.readIndex > 0 then
        -- records spanning pages: shift the unread tail to the front
        lrNext ps crc fuel { st with buf := st.buf.drop st.readIndex, readIndex := 0 } avail
      else
        let st := if st.readIndex = ps then { st with buf := [], readIndex := 0 } else st
        if st.buf.length ≠ ps then
          let n := min (ps - st.buf.length) avail.length
          if n = 0 then .stop .eof st avail
          else lrNext ps crc fuel { st with buf := st.buf ++ avail.take n } (avail.drop n)
        else lrNext ps crc fuel st avail

/-- `for r.Next() { … }` until it returns false. -/
def lrDrain (ps : Nat) (crc : Crc) : Nat → LState → Bytes → List Bytes × LStatus × LState × Bytes
  | 0, st, avail => ([], .err .stuck, st, avail)
  | fuel + 1, st, avail =>
    match lrNext ps crc (2 * avail.length + 4) st avail with
    | .stop s st avail => ([], s, st, avail)
    | .got r st avail =>
      let (rs, s, st, avail) := lrDrain ps crc fuel st avail
      (r :: rs, s, st, avail)

def drainFuel (st : LState) (avail : Bytes) : Nat := st.buf.length + avail.length + 2

/-- Tail one segment while it grows: `chunks` are the successive pieces appended to the file between
    observations; after each piece the reader is drained. Stops at the first corruption. -/
def liveRun (ps : Nat) (crc : Crc) : LState → Bytes → List Bytes → List (List Bytes × LStatus)
  | _, _, [] => []
  | st, pending, c :: cs =>
    let avail := pending ++ c
    let (rs, s, st, avail) := lrDrain ps crc (drainFuel st avail) st avail
    match s with
    | .eof => (rs, s) :: liveRun ps crc st avail cs
    | .err _ => [(rs, s)]

/-! ### CRC32-Castagnoli (executable instance; no theorem depends on it) -/

def crcTableEntry (n : Nat) : UInt32 :=
  let rec go (k : Nat) (c : UInt32) : UInt32 :=
    match k with
    | 0 => c
    | k + 1 => go k (if c &&& 1 = 1 then (c >>> 1) ^^^ 0x82F63B78 else c >>> 1)
  go 8 (UInt32.ofNat n)

def crcTable : Array UInt32 := (Array.range 256).map crcTableEntry

def crc32c (bs : Bytes) : UInt32 :=
  let c := bs.foldl (fun (c : UInt32) (b : UInt8) =>
    (crcTable[((c ^^^ b.toUInt32) &&& 0xFF).toNat]?.getD 0) ^^^ (c >>> 8)) 0xFFFFFFFF
  c ^^^ 0xFFFFFFFF

/-! ### FNV-1a 64 (content fingerprint used by the line protocol) -/

def fnvStep (h : UInt64) (b : UInt8) : UInt64 := (h ^^^ b.toUInt64) * 0x100000001b3
def fnvInit : UInt64 := 0xcbf29ce484222325
def fnv (bs : Bytes) : UInt64 := bs.foldl fnvStep fnvInit

end Prom.Wal
