import PromModel.Prelude.Line
/-
  Model of the append admission / commit decision logic of the TSDB head
  (tsdb/head_append.go, tsdb/head_append_v2.go, tsdb/ooo_head.go), transcribed:

  * `appendable`            = `memSeries.appendable / appendableHistogram / appendableFloatHistogram`
                              (one function, the three Go copies differ only in the equality test at
                              `t == maxTime`, which is `dupEqual` here)
  * `Head.appMinValid`      = `Head.appendableMinValidTime`
  * `newBatchFor/curBatch`  = `headAppenderBase.getCurrentBatch`
  * `appendV1/appendV2`     = `headAppender.Append/AppendHistogram`, `headAppenderV2.Append`
                              (early out-of-bounds exit, stale-NaN conversion through `typesInBatch`,
                              DiscardOutOfOrder / RejectOutOfOrder handling, including their differences)
  * `commitFloat/…/commit`  = `commitFloats; commitHistograms; commitFloatHistograms` per batch, with the
                              re-check and the late staleness-marker conversion
  * `oooInsert`             = `OOOChunk.Insert`; `Series.insertOOO` = `memSeries.insert`
  * `initAppender`          = lazily created appender on an uninitialised head (`initTime`), including
                              the fact that `SetOptions` before the first append is dropped.
  * overlapping appenders   = up to three appenders open on one head (`State.app/app1/app2`); each carries
                              its own window snapshot `Appender.w` = (`minValidTime`, `headMaxt`,
                              `oooTimeWindow`) taken by `Head.appender()`: at `Head.Appender()` on an
                              initialised head, at the *first append* for an `initAppender` (the head as it is
                              then, possibly initialised / moved by another appender meanwhile).  `Append*` and
                              `Commit` read the snapshot and the live series, never the live head times.

  Repair switches (`repoFixedC02F2`, `repoFixedC02F3`): `false` = /repo as found (the model reproduces
  findings C02-F2 / C02-F3), `true` = /repo with `fixes/C02-F2.patch` / `fixes/C02-F3.patch` applied.  The
  `…With` functions take the switch as an argument, so the theorems about both variants hold whichever
  way the constants point; `admitDecision`, `Appender.append`, `stepT` are the variants of the code the
  check is tied to.

  Values: floats are their 64 bit patterns (`Nat`); histograms are small identities (`0` = the staleness
  marker `{Sum: StaleNaN}`, `1..3` exponential schema, `≥ 4` custom buckets) — `Histogram.Equals` on the
  harness' histograms is identity equality.  Timestamps are `Int`; no int64 wrap-around is modelled (the
  harness keeps |t| small).
-/
namespace Prom.Admit

inductive Kind | f | h | fh
deriving DecidableEq, Repr, Inhabited

structure Sample where
  t : Int
  kind : Kind
  v : Nat
deriving DecidableEq, Repr, Inhabited

def staleBits : Nat := 0x7ff0000000000002

/-- `value.IsStaleNaN` on a float / on the `Sum` of a histogram. -/
def isStale (k : Kind) (v : Nat) : Bool :=
  match k with
  | .f => v == staleBits
  | _ => v == 0

inductive Reject | oob | tooOld | ooo | dup
deriving DecidableEq, Repr

inductive Admit | inOrder | ooo
deriving DecidableEq, Repr

/-- What `appendable*` reads from the series. -/
structure View where
  hasHead : Bool      -- `s.headChunks != nil`
  maxT : Int          -- `s.maxTime()`
  lastKind : Kind     -- which of lastValue / lastHistogramValue / lastFloatHistogramValue is live
  lastV : Nat
deriving DecidableEq, Repr

/-- The window snapshot of an appender. -/
structure Window where
  minValid : Int
  headMaxt : Int
  oooWin : Int
deriving DecidableEq, Repr

/-- The equality test at `t == msMaxt`.  Float: `lastHistogramValue == nil && lastFloatHistogramValue ==
    nil && bits equal`; histogram: `h.Equals(s.lastHistogramValue)` (false for a nil receiver argument). -/
def dupEqual (k : Kind) (v : Nat) (s : View) : Bool :=
  s.lastKind == k && s.lastV == v

/-- `memSeries.appendable*`. -/
def appendable (k : Kind) (t : Int) (v : Nat) (s : View) (w : Window) : Except Reject Admit :=
  if t ≥ w.minValid ∧ !s.hasHead then .ok .inOrder
  else if t ≥ w.minValid ∧ t > s.maxT then .ok .inOrder
  else if t ≥ w.minValid ∧ t = s.maxT then
    (if dupEqual k v s then .ok .inOrder else .error .dup)
  else if w.oooWin > 0 ∧ t ≥ w.headMaxt - w.oooWin then .ok .ooo
  else if w.oooWin > 0 then .error .tooOld
  else if t < w.minValid then .error .oob
  else .error .ooo

/-- The `isOOO` result of the Go function (true also together with `ErrTooOldSample`). -/
def isOOOFlag : Except Reject Admit → Bool
  | .ok .ooo => true
  | .error .tooOld => true
  | _ => false

/-- `OOOChunk.Insert` on a time-sorted list: `none` = timestamp already present. -/
def oooInsert : List Sample → Sample → Option (List Sample)
  | [], x => some [x]
  | y :: ys, x =>
    if x.t < y.t then some (x :: y :: ys)
    else if x.t = y.t then none
    else (oooInsert ys x).map (y :: ·)

structure Series where
  inorder : List Sample := []          -- newest first
  oooHead : Option (List Sample) := none   -- `s.ooo.oooHeadChunk` (sorted by time)
  oooMmapped : List (List Sample) := []     -- flushed OOO chunks, oldest first
deriving Repr, Inhabited

def Series.view (s : Series) : View :=
  match s.inorder with
  | [] => { hasHead := false, maxT := 0, lastKind := .f, lastV := 0 }
  | x :: _ => { hasHead := true, maxT := x.t, lastKind := x.kind, lastV := x.v }

/-- `memSeries.append/appendHistogram/appendFloatHistogram`: `appendPreprocessor` drops `t ≤ maxTime`. -/
def Series.appendInOrder (s : Series) (x : Sample) : Series × Bool :=
  match s.inorder with
  | [] => ({ s with inorder := [x] }, true)
  | y :: _ => if y.t ≥ x.t then (s, false) else ({ s with inorder := x :: s.inorder }, true)

/-- `memSeries.insert`: cut a new OOO head chunk when there is none or it holds `capMax` samples. -/
def Series.insertOOO (s : Series) (capMax : Nat) (x : Sample) : Series × Bool :=
  let (cur, mm) : List Sample × List (List Sample) :=
    match s.oooHead with
    | none => ([], s.oooMmapped)
    | some c => if c.length = capMax then ([], s.oooMmapped ++ [c]) else (c, s.oooMmapped)
  match oooInsert cur x with
  | some c' => ({ s with oooHead := some c', oooMmapped := mm }, true)
  | none => ({ s with oooHead := some cur, oooMmapped := mm }, false)

/-- One sample's commit-time treatment (the loop body of `commitFloats/…` after the stale conversion):
    re-run `appendable` against the current series, then append / insert / drop.
    Result: new series, and `some t` if an in-order sample was stored (feeds `inOrderMaxt`). -/
def commitOne (w : Window) (capMax : Nat) (s : Series) (x : Sample) : Series × Option Int :=
  match appendable x.kind x.t x.v s.view w with
  | .error _ => (s, none)
  | .ok .ooo => ((s.insertOOO capMax x).1, none)
  | .ok .inOrder =>
    let (s', ok) := s.appendInOrder x
    (s', if ok then some x.t else none)

/-! ### sample types, batches -/

inductive SType | none | float | hist | chist | fhist | cfhist
deriving DecidableEq, Repr, Inhabited

def stypeOf (k : Kind) (v : Nat) : SType :=
  match k with
  | .f => .float
  | .h => if v ≥ 4 then .chist else .hist
  | .fh => if v ≥ 4 then .cfhist else .fhist

structure Batch where
  floats : List (String × Sample) := []
  hists : List (String × Sample) := []
  fhists : List (String × Sample) := []
deriving Repr, Inhabited

abbrev Store := List (String × Series)

def Store.get (st : Store) (n : String) : Series :=
  match st with
  | [] => {}
  | (m, s) :: rest => if m = n then s else Store.get rest n

def Store.set (st : Store) (n : String) (s : Series) : Store :=
  match st with
  | [] => [(n, s)]
  | (m, s') :: rest => if m = n then (m, s) :: rest else (m, s') :: Store.set rest n s

def minI64 : Int := -9223372036854775808

structure Head where
  oooWin : Int := 0
  chunkRange : Int := 0
  capMax : Nat := 32
  initialized : Bool := false       -- `h.minTime != MaxInt64`
  maxTime : Int := minI64
  minValidTime : Int := minI64
  store : Store := []
deriving Repr, Inhabited

/-- `Head.appendableMinValidTime`. -/
def Head.appMinValid (h : Head) : Int :=
  max (h.maxTime - Int.tdiv h.chunkRange 2) h.minValidTime

def Head.window (h : Head) : Window :=
  { minValid := h.appMinValid, headMaxt := h.maxTime, oooWin := h.oooWin }

/-- `Head.Truncate` on a head that has not been initialised (the start-up path). -/
def Head.truncUninit (h : Head) (mint : Int) : Head :=
  { h with initialized := true, minValidTime := mint, maxTime := max h.maxTime mint }

/-- Is `fixes/C02-F2.patch` in /repo?  (`headAppender.AppendHistogram` honours
    `AppendOptions.DiscardOutOfOrder` like `Append` does.)  `false` = the code as found (finding C02-F2). -/
def repoFixedC02F2 : Bool := true

/-- Is `fixes/C02-F3.patch` in /repo?  (`initAppender.SetOptions` remembers the options and hands them to
    the appender it creates at the first append.)  `false` = the code as found (finding C02-F3). -/
def repoFixedC02F3 : Bool := true

structure Appender where
  v2 : Bool
  live : Bool := false                 -- underlying head appender exists (`initAppender.app != nil`)
  w : Window := ⟨0, 0, 0⟩
  discard : Bool := false              -- v1: `hints.DiscardOutOfOrder`; v2: flag passed with each append
  batches : List Batch := []           -- oldest first
  types : List (String × SType) := []  -- `typesInBatch`
deriving Repr, Inhabited

def typeOfIn (types : List (String × SType)) (n : String) : SType :=
  match types with
  | [] => .none
  | (m, st) :: rest => if m = n then st else typeOfIn rest n

/-- `getCurrentBatch` reduced to its decision: `true` = start a new batch; second component = new
    `typesInBatch`. -/
def batchDecision (noBatch : Bool) (types : List (String × SType)) (st : SType) (n : String) :
    Bool × List (String × SType) :=
  let fresh : List (String × SType) := if st = .float then [] else [(n, st)]
  if noBatch then (true, fresh)
  else
    let prev := typeOfIn types n
    if prev = st then (false, types)
    else if prev = .none ∧ st = .float then (false, types)
    else if st = .float then (true, fresh)
    else if prev = .none then (false, (n, st) :: types)
    else (true, fresh)

def pushInto (b : Batch) (n : String) (x : Sample) : Batch :=
  match x.kind with
  | .f => { b with floats := b.floats ++ [(n, x)] }
  | .h => { b with hists := b.hists ++ [(n, x)] }
  | .fh => { b with fhists := b.fhists ++ [(n, x)] }

def modifyLast (bs : List Batch) (f : Batch → Batch) : List Batch :=
  match bs with
  | [] => []
  | [b] => [f b]
  | b :: rest => b :: modifyLast rest f

/-- `getCurrentBatch(st, ref)` followed by the append to the batch's slice. -/
def Appender.push (a : Appender) (n : String) (x : Sample) : Appender :=
  let (isNew, types) := batchDecision a.batches.isEmpty a.types (stypeOf x.kind x.v) n
  if isNew then { a with batches := a.batches ++ [pushInto {} n x], types := types }
  else { a with batches := modifyLast a.batches (fun b => pushInto b n x), types := types }

def rejStr : Reject → String
  | .oob => "oob" | .tooOld => "tooold" | .ooo => "ooo" | .dup => "dup"

/-- The stale-NaN conversion at append time: a float staleness marker for a series that already holds a
    histogram type in the current batch becomes a histogram staleness marker. -/
def convertStale (types : List (String × SType)) (n : String) (x : Sample) : Sample :=
  if x.kind = .f ∧ isStale .f x.v then
    match typeOfIn types n with
    | .hist | .chist => { x with kind := .h, v := 0 }
    | .fhist | .cfhist => { x with kind := .fh, v := 0 }
    | _ => x
  else x

/-- The admission decision of one `Append*` call of a live appender, as an error class or acceptance.
    `v1` honours `discard` only when the sample is admissible out of order — and, in the code as found
    (`fixF2 = false`, finding C02-F2), only for float samples; `v2` tests `isOOO` before the error (so
    "too old" becomes "out of order"). -/
def admitDecisionWith (fixF2 : Bool) (a : Appender) (view : View) (x : Sample) : Except Reject Admit :=
  if a.w.oooWin = 0 ∧ x.t < a.w.minValid then .error .oob
  else
    let r := appendable x.kind x.t x.v view a.w
    if a.v2 then
      if isOOOFlag r ∧ a.discard then .error .ooo else r
    else
      match r with
      | .ok .ooo => if (x.kind = .f ∨ fixF2) ∧ a.discard then .error .ooo else r
      | _ => r

/-- `admitDecisionWith` for the code the check is tied to. -/
def admitDecision (a : Appender) (view : View) (x : Sample) : Except Reject Admit :=
  admitDecisionWith repoFixedC02F2 a view x

/-- `headAppender.Append/AppendHistogram` and `headAppenderV2.Append` (sample part) on a live appender. -/
def Appender.appendWith (fixF2 : Bool) (a : Appender) (st : Store) (n : String) (x0 : Sample) :
    Appender × Store × String :=
  if a.w.oooWin = 0 ∧ x0.t < a.w.minValid then (a, st, "oob")
  else
    -- getOrCreate: the series exists from now on (observable only as an empty series)
    let st := match st.find? (·.1 = n) with | some _ => st | none => st ++ [(n, {})]
    let x := convertStale a.types n x0
    match admitDecisionWith fixF2 a (st.get n).view x with
    | .error e => (a, st, rejStr e)
    | .ok _ => (a.push n x, st, "ok")

/-- `Appender.appendWith` for the code the check is tied to. -/
def Appender.append (a : Appender) (st : Store) (n : String) (x0 : Sample) : Appender × Store × String :=
  a.appendWith repoFixedC02F2 st n x0

/-! ### commit -/

structure CommitAcc where
  store : Store
  inOrderMaxt : Int := minI64

def CommitAcc.apply (acc : CommitAcc) (w : Window) (capMax : Nat) (n : String) (x : Sample) : CommitAcc :=
  let (s', stored) := commitOne w capMax (acc.store.get n) x
  { store := acc.store.set n s',
    inOrderMaxt := match stored with | some t => max acc.inOrderMaxt t | none => acc.inOrderMaxt }

/-- `commitFloats`: returns the accumulator and the histogram / float-histogram samples produced by the
    late staleness-marker conversion (appended to the *end* of the batch's slices). -/
def commitFloats (w : Window) (capMax : Nat) :
    List (String × Sample) → CommitAcc → List (String × Sample) → List (String × Sample) →
    CommitAcc × List (String × Sample) × List (String × Sample)
  | [], acc, hs, fhs => (acc, hs, fhs)
  | (n, x) :: rest, acc, hs, fhs =>
    if isStale .f x.v then
      let view := (acc.store.get n).view
      if view.hasHead ∧ view.lastKind = .h then
        commitFloats w capMax rest acc (hs ++ [(n, { x with kind := .h, v := 0 })]) fhs
      else if view.hasHead ∧ view.lastKind = .fh then
        commitFloats w capMax rest acc hs (fhs ++ [(n, { x with kind := .fh, v := 0 })])
      else commitFloats w capMax rest (acc.apply w capMax n x) hs fhs
    else commitFloats w capMax rest (acc.apply w capMax n x) hs fhs

def commitList (w : Window) (capMax : Nat) : List (String × Sample) → CommitAcc → CommitAcc
  | [], acc => acc
  | (n, x) :: rest, acc => commitList w capMax rest (acc.apply w capMax n x)

def commitBatch (w : Window) (capMax : Nat) (acc : CommitAcc) (b : Batch) : CommitAcc :=
  let (acc, hs, fhs) := commitFloats w capMax b.floats acc b.hists b.fhists
  let acc := commitList w capMax hs acc
  commitList w capMax fhs acc

def commitBatches (w : Window) (capMax : Nat) : List Batch → CommitAcc → CommitAcc
  | [], acc => acc
  | b :: rest, acc => commitBatches w capMax rest (commitBatch w capMax acc b)

/-- `headAppenderBase.Commit` (sample part) + `updateMinMaxTime`. -/
def Head.commit (h : Head) (a : Appender) : Head :=
  if !a.live then h
  else
    let acc := commitBatches a.w h.capMax a.batches { store := h.store }
    { h with store := acc.store, maxTime := max h.maxTime acc.inOrderMaxt }

/-! ### the op-level state machine -/

structure State where
  head : Head := {}
  app : Option Appender := none      -- appender slot 0 (unprefixed ops)
  cfg : Bool := false
  app1 : Option Appender := none     -- appender slot 1 (`@1 …` ops)
  app2 : Option Appender := none     -- appender slot 2 (`@2 …` ops)
deriving Inhabited

/-- is any appender (lazy or live) open on the head -/
def State.anyOpen (s : State) : Bool := s.app.isSome || s.app1.isSome || s.app2.isSome

/-- exchange slot 0 with slot 1 / slot 2: a prefixed op is the plain op on the exchanged state -/
def State.swap1 (s : State) : State := { s with app := s.app1, app1 := s.app }
def State.swap2 (s : State) : State := { s with app := s.app2, app2 := s.app }

/-- `Head.Appender / AppenderV2`. -/
def Head.newAppender (h : Head) (v2 : Bool) : Appender :=
  if h.initialized then { v2 := v2, live := true, w := h.window } else { v2 := v2, live := false }

/-- `initAppender.Append*`: `initTime(t)` then create the real appender. -/
def materialise (h : Head) (a : Appender) (t : Int) : Head × Appender :=
  if a.live then (h, a)
  else
    -- initTime: CompareAndSwap(maxTime, MinInt64 → t); minTime likewise
    let h := if h.initialized then h else { h with initialized := true, maxTime := (if h.maxTime = minI64 then t else h.maxTime) }
    (h, { a with live := true, w := h.window })

/-- `SetOptions` on the appender handed out by `Head.Appender`.  In the code as found (`fixF3 = false`,
    finding C02-F3) `initAppender.SetOptions` does nothing while the real (v1) appender does not exist yet;
    with the repair the option is remembered and `materialise` (which keeps `discard`) carries it into the
    appender created at the first append.  v2 passes the flag with every append. -/
def Appender.setOptions (fixF3 : Bool) (a : Appender) (on : Bool) : Appender :=
  if !fixF3 ∧ !a.v2 ∧ !a.live then a else { a with discard := on }

def Sample.render (x : Sample) : String :=
  match x.kind with
  | .f => s!"{x.t}:F:{hexOfNat x.v 16}"
  | .h => s!"{x.t}:H:{x.v}"
  | .fh => s!"{x.t}:G:{x.v}"

def joinOrDash (xs : List String) : String := if xs.isEmpty then "-" else ",".intercalate xs

def mergeInsert : List Sample → Sample → List Sample
  | [], x => [x]
  | y :: ys, x => if x.t < y.t then x :: y :: ys else if x.t = y.t then y :: ys else y :: mergeInsert ys x

/-- All OOO samples of a series, merged by time (earliest chunk wins on equal timestamps). -/
def Series.oooAll (s : Series) : List Sample :=
  let chunks := s.oooMmapped ++ (match s.oooHead with | some c => [c] | none => [])
  chunks.foldl (fun acc c => c.foldl mergeInsert acc) []

def Series.renderQuery (s : Series) : String :=
  let io := s.inorder.reverse
  let oo := s.oooAll.filter (fun x => !(io.any (·.t == x.t)))
  let all := (io.map fun x => (x.t, s!"{x.t}:*")) ++ (oo.map fun x => (x.t, x.render))
  let sorted := all.foldl (fun acc p =>
      let rec ins : List (Int × String) → List (Int × String)
        | [] => [p]
        | q :: qs => if p.1 < q.1 then p :: q :: qs else q :: ins qs
      ins acc) []
  s!"io={joinOrDash (io.map Sample.render)} all={joinOrDash (sorted.map (·.2))}"

def parseSample? (k : String) (t v : String) : Option Sample := do
  let t ← t.toInt?
  match k with
  | "f" => do let b ← natOfHex? v; pure ⟨t, .f, b⟩
  | "h" => do let i ← v.toNat?; pure ⟨t, .h, i⟩
  | "fh" => do let i ← v.toNat?; pure ⟨t, .fh, i⟩
  | _ => none

/-- one op addressed to appender slot 0, already tokenised -/
def stepT0 (s : State) (tk : List String) : State × String :=
  match tk with
  | ["cfg", w, cr, cap] =>
    match s.cfg, w.toInt?, cr.toInt?, cap.toNat? with
    | false, some w, some cr, some cap =>
      ({ s with cfg := true, head := { oooWin := w, chunkRange := cr, capMax := (if cap = 0 then 32 else cap) } }, "ok")
    | _, _, _, _ => (s, "bad-op")
  | toks =>
    if !s.cfg then (s, "bad-op") else
    match toks with
    | ["trunc", m] =>
      match m.toInt? with
      | some m =>
        if s.head.initialized ∨ s.anyOpen then (s, "skip")
        else ({ s with head := s.head.truncUninit m }, "ok")
      | none => (s, "bad-op")
    | ["win"] =>
      if s.head.initialized then (s, s!"{s.head.appMinValid} {s.head.maxTime}") else (s, "uninit")
    | ["app", v] =>
      if v ≠ "v1" ∧ v ≠ "v2" then (s, "bad-op")
      else if s.app.isSome then (s, "busy")
      else
        let a := s.head.newAppender (v = "v2")
        ({ s with app := some a },
          if a.live then s!"ok {a.w.minValid} {a.w.headMaxt}" else "lazy")
    | ["opt", b] =>
      match s.app with
      | none => (s, "noapp")
      | some a => ({ s with app := some (a.setOptions repoFixedC02F3 (b = "1")) }, "ok")
    | [k, n, t, v] =>
      if k ≠ "f" ∧ k ≠ "h" ∧ k ≠ "fh" then (s, "bad-op") else
      match parseSample? k t v with
      | none => (s, "bad-op")
      | some x =>
        match s.app with
        | none => (s, "noapp")
        | some a =>
          let (h, a) := materialise s.head a x.t
          let (a, st, out) := a.append h.store n x
          ({ s with head := { h with store := st }, app := some a }, out)
    | ["commit"] =>
      match s.app with
      | none => (s, "noapp")
      | some a => ({ s with head := s.head.commit a, app := none }, "ok")
    | ["rollback"] =>
      match s.app with
      | none => (s, "noapp")
      | some _ => ({ s with app := none }, "ok")
    | ["q", n] => (s, (s.head.store.get n).renderQuery)
    | _ => (s, "bad-op")

/-- the ops that may be addressed to another appender slot -/
def slotOp (tk : List String) : Bool :=
  match tk with
  | op :: _ => op = "app" || op = "opt" || op = "f" || op = "h" || op = "fh" || op = "commit" || op = "rollback"
  | [] => false

/-- one op, already tokenised: `@1 …` / `@2 …` run the op on appender slot 1 / 2, everything else about
    the head (series, head times) is shared. -/
def stepT (s : State) (tk : List String) : State × String :=
  match tk with
  | "@1" :: rest =>
    if slotOp rest then let r := stepT0 s.swap1 rest; (r.1.swap1, r.2) else (s, "bad-op")
  | "@2" :: rest =>
    if slotOp rest then let r := stepT0 s.swap2 rest; (r.1.swap2, r.2) else (s, "bad-op")
  | _ => stepT0 s tk

def step (s : State) (line : String) : State × String := stepT s (toks line)

def runFrom (s : State) : List String → List String
  | [] => []
  | l :: rest => let (s', o) := step s l; o :: runFrom s' rest

def model (ops : List String) : List String := runFrom {} ops

end Prom.Admit
