import PromModel.Prelude.Bits
/-
  Model of `tsdb/chunkenc/varbit.go`: `putVarbitInt` / `readVarbitInt`, `putVarbitUint` / `readVarbitUint`
  (`putVarbitIntFast` writes the same bits through `writeBitsFast`), with the code's bucket thresholds and the
  asymmetric `bitRange`.
-/
namespace Prom.Varbit
open Prom.Bits

/-- `bitRange(x, nbits)`: `-((1<<(nbits-1))-1) <= x && x <= 1<<(nbits-1)`. -/
def bitRange (x : Int) (nbits : Nat) : Bool :=
  decide (-(((2 : Int) ^ (nbits - 1)) - 1) ≤ x ∧ x ≤ (2 : Int) ^ (nbits - 1))

/-- `k` one bits. -/
def ones (k : Nat) : Bits := List.replicate k true

/-- Bucket table shared by the signed and unsigned codes: (number of leading one bits, payload size). -/
def buckets : List (Nat × Nat) := [(1, 3), (2, 6), (3, 9), (4, 12), (5, 18), (6, 25), (7, 56)]

/-- `putVarbitInt(b, val)` (and `putVarbitIntFast`): the emitted bits. `val` is an int64. -/
def putVarbitInt (val : Int) : Bits :=
  if val = 0 then [false]
  else if bitRange val 3 then ones 1 ++ false :: natToBits (toU val) 3
  else if bitRange val 6 then ones 2 ++ false :: natToBits (toU val) 6
  else if bitRange val 9 then ones 3 ++ false :: natToBits (toU val) 9
  else if bitRange val 12 then ones 4 ++ false :: natToBits (toU val) 12
  else if bitRange val 18 then ones 5 ++ false :: natToBits (toU val) 18
  else if bitRange val 25 then ones 6 ++ false :: natToBits (toU val) 25
  else if bitRange val 56 then ones 7 ++ false :: natToBits (toU val) 56
  else ones 8 ++ natToBits (toU val) 64

/-- Count leading one bits, at most `max`; consumes the terminating zero if fewer than `max` ones were read.
    `none` = EOF. (The `for range 8 { d <<= 1; … }` loop of the readers; the XOR chunk uses `max = 4`.) -/
def readPrefix : Nat → Bits → Option (Nat × Bits)
  | 0, bits => some (0, bits)
  | _ + 1, [] => none
  | _ + 1, false :: rest => some (0, rest)
  | m + 1, true :: rest =>
    match readPrefix m rest with
    | none => none
    | some (k, r) => some (k + 1, r)

/-- Sign reconstruction of the readers: `if bits > (1 << (sz-1)) { bits -= 1 << sz }; int64(bits)`. -/
def signExt (bits sz : Nat) : Int :=
  if bits > 2 ^ (sz - 1) then toI ((bits + two64 - 2 ^ sz) % two64) else toI bits

def readSigned (sz : Nat) (bits : Bits) : Option (Int × Bits) :=
  match readBits sz bits with
  | none => none
  | some (b, r) => some (signExt b sz, r)

def szOf : Nat → Nat
  | 1 => 3 | 2 => 6 | 3 => 9 | 4 => 12 | 5 => 18 | 6 => 25 | 7 => 56 | _ => 64

/-- `readVarbitInt`. -/
def readVarbitInt (bits : Bits) : Option (Int × Bits) :=
  match readPrefix 8 bits with
  | none => none
  | some (0, r) => some (0, r)
  | some (8, r) =>
    match readBits 64 r with
    | none => none
    | some (b, r') => some (toI b, r')
  | some (k, r) => readSigned (szOf k) r

/-- `bitRangeUint(x, nbits)`: `bits.LeadingZeros64(x) >= 64-nbits`, i.e. `x < 2^nbits`. -/
def bitRangeUint (x nbits : Nat) : Bool := decide (x < 2 ^ nbits)

/-- `putVarbitUint(b, val)` for `val < 2^64`. -/
def putVarbitUint (val : Nat) : Bits :=
  if val = 0 then [false]
  else if bitRangeUint val 3 then ones 1 ++ false :: natToBits val 3
  else if bitRangeUint val 6 then ones 2 ++ false :: natToBits val 6
  else if bitRangeUint val 9 then ones 3 ++ false :: natToBits val 9
  else if bitRangeUint val 12 then ones 4 ++ false :: natToBits val 12
  else if bitRangeUint val 18 then ones 5 ++ false :: natToBits val 18
  else if bitRangeUint val 25 then ones 6 ++ false :: natToBits val 25
  else if bitRangeUint val 56 then ones 7 ++ false :: natToBits val 56
  else ones 8 ++ natToBits val 64

/-- `readVarbitUint`. -/
def readVarbitUint (bits : Bits) : Option (Nat × Bits) :=
  match readPrefix 8 bits with
  | none => none
  | some (0, r) => some (0, r)
  | some (k, r) => readBits (szOf k) r

end Prom.Varbit
