import PromModel.Prelude.Line
/-
  Model of `promtool tsdb create-blocks-from openmetrics` (cmd/promtool/backfill.go) and of the
  part of `tsdb.BlockWriter` it drives (tsdb/blockwriter.go + the float path of the head appender,
  tsdb/head_append.go), transcribed:

    getMinAndMaxTimestamps        → `minMaxLoop`, `getMinAndMaxTimestamps` (MinInt64/MaxInt64 sentinels kept)
    tsdb.ExponentialBlockRanges   → `exponentialBlockRanges`
    getCompatibleBlockDuration    → `getCompatibleBlockDuration` (`ranges[i-1]`; index −1 = panic)
    createBlocks                  → `alignStart` (Go's truncated `/` = `Int.tdiv`), `blockLoop` (windows
                                    `[t, t+d)`, the `nextSampleTs` skip with its MaxInt64 sentinel), `passLoop`
                                    (the per-window re-parse: `ts < t` skipped, `ts ≥ tsUpper` feeds
                                    `nextSampleTs`), `appendStep` (Append + commit every N samples)
    BlockWriter / head            → `Head.initTime`, `appendable` (memSeries.appendable, floats, OOO window 0),
                                    the early out-of-bounds exit of `headAppender.Append`, `commit`
                                    (commitFloats: re-check, silent drop, exact duplicates are no-ops),
                                    `appendableMinValidTime = MaxTime − chunkRange/2` with chunkRange = 2·d,
                                    `Flush` (block [MinTime, MaxTime+1), no block when nothing was stored)
    backfill                      → `backfillG`

  `fixed = false` is the alignment as found (`d * (mint / d)`, truncating toward zero: finding F4),
  `fixed = true` the floor alignment of the repair (fixes/F4.patch).  `repoFixed` says which one /repo has.

  Input = the series entries of the OpenMetrics text in file order: (series id, timestamp or none, value
  bits).  Timestamps are `Int`; int64 wrap-around is not modelled (|t| stays far below 2^62 in the harness).
-/
namespace Prom.Backfill

def maxI64 : Int := 9223372036854775807
def minI64 : Int := -9223372036854775808

structure Sample where
  s : Nat
  t : Option Int
  v : Nat
deriving DecidableEq, Repr, Inhabited

inductive Err | nots | parse | ooo | dup | oob | panic
deriving DecidableEq, Repr

/-! ### getMinAndMaxTimestamps -/

/-- The loop; accumulators `(maxt, mint)`. -/
def minMaxLoop : List Sample → Int → Int → Except Err (Int × Int)
  | [], maxt, mint => .ok (maxt, mint)
  | x :: xs, maxt, mint =>
    match x.t with
    | none => .error .nots
    | some ts => minMaxLoop xs (if ts > maxt then ts else maxt) (if ts < mint then ts else mint)

/-- Returns `(maxt, mint)` like the Go function. -/
def getMinAndMaxTimestamps (xs : List Sample) : Except Err (Int × Int) :=
  match minMaxLoop xs minI64 maxI64 with
  | .error e => .error e
  | .ok (maxt, mint) => .ok (if maxt = minI64 then 0 else maxt, if mint = maxI64 then 0 else mint)

/-! ### block duration -/

def defaultBlockDuration : Int := 7200000

/-- `tsdb.ExponentialBlockRanges(minSize, steps, stepSize)`. -/
def exponentialBlockRanges (minSize : Int) : Nat → Int → List Int
  | 0, _ => []
  | steps + 1, stepSize => minSize :: exponentialBlockRanges (minSize * stepSize) steps stepSize

def ranges : List Int := exponentialBlockRanges defaultBlockDuration 10 3

/-- `for i, v := range ranges { if v > max { idx = i - 1; break } }` starting from `idx = len-1`. -/
def compatIdx (maxBD : Int) : List Int → Int → Int → Int
  | [], _, dflt => dflt
  | v :: rest, i, dflt => if v > maxBD then i - 1 else compatIdx maxBD rest (i + 1) dflt

def getCompatibleBlockDuration (maxBD : Int) : Except Err Int :=
  if maxBD > defaultBlockDuration then
    let idx := compatIdx maxBD ranges 0 ((ranges.length : Int) - 1)
    if idx < 0 then .error .panic
    else match ranges[idx.toNat]? with
      | some r => .ok r
      | none => .error .panic
  else .ok defaultBlockDuration

/-! ### the head behind one BlockWriter -/

abbrev Smp := Nat × Int × Nat   -- series, t, value bits

structure SerSt where
  maxT : Int
  lastV : Nat
deriving DecidableEq, Repr

structure Head where
  ser : List (Nat × SerSt) := []   -- series that have a head chunk
  stored : List Smp := []          -- committed samples, in commit order
  range : Option (Int × Int) := none   -- (MinTime, MaxTime); none = not initialised
deriving DecidableEq, Repr

def lookup (s : Nat) : List (Nat × SerSt) → Option SerSt
  | [] => none
  | (k, c) :: rest => if k = s then some c else lookup s rest

def upsert (s : Nat) (c : SerSt) : List (Nat × SerSt) → List (Nat × SerSt)
  | [] => [(s, c)]
  | (k, c') :: rest => if k = s then (s, c) :: rest else (k, c') :: upsert s c rest

/-- `Head.initTime(t)` (first append through an `initAppender`). -/
def Head.initTime (h : Head) (t : Int) : Head :=
  match h.range with
  | none => { h with range := some (t, t) }
  | some _ => h

/-- `Head.updateMinMaxTime`. -/
def Head.updateMinMax (h : Head) (t : Int) : Head :=
  match h.range with
  | none => { h with range := some (t, t) }
  | some (lo, hi) => { h with range := some (if t < lo then t else lo, if t > hi then t else hi) }

def Head.maxTime (h : Head) : Int :=
  match h.range with
  | none => minI64
  | some (_, hi) => hi

/-- `memSeries.appendable` for a float sample, out-of-order window 0. -/
def appendable (st : Option SerSt) (t : Int) (v : Nat) (minValid : Int) : Except Err Unit :=
  match st with
  | none => if t ≥ minValid then .ok () else .error .oob
  | some c =>
    if t ≥ minValid ∧ t > c.maxT then .ok ()
    else if t ≥ minValid ∧ t = c.maxT then (if c.lastV = v then .ok () else .error .dup)
    else if t < minValid then .error .oob
    else .error .ooo

/-- One sample of `commitFloats`. -/
def commitOne (minValid : Int) (h : Head) (x : Smp) : Head :=
  match appendable (lookup x.1 h.ser) x.2.1 x.2.2 minValid with
  | .error _ => h      -- dropped, only counted in a metric
  | .ok () =>
    match lookup x.1 h.ser with
    | some c =>
      if c.maxT ≥ x.2.1 then h   -- exact duplicate: `series.append` declines
      else { (h.updateMinMax x.2.1) with ser := upsert x.1 ⟨x.2.1, x.2.2⟩ h.ser, stored := h.stored ++ [x] }
    | none => { (h.updateMinMax x.2.1) with ser := upsert x.1 ⟨x.2.1, x.2.2⟩ h.ser, stored := h.stored ++ [x] }

def commit (minValid : Int) (h : Head) (pending : List Smp) : Head :=
  pending.foldl (commitOne minValid) h

/-- State of one window pass: the head, the current appender (`minValid = none`: an `initAppender`
    that has not seen a sample yet), its pending samples and `samplesCount`. -/
structure Pass where
  head : Head := {}
  minValid : Option Int := none
  pending : List Smp := []
  count : Nat := 0
deriving DecidableEq, Repr

/-- `app.Append` followed by the `samplesCount` bookkeeping of `createBlocks`. `d` = block duration
    (the head's chunk range is `2·d`, so `appendableMinValidTime = MaxTime − d`). -/
def appendStep (d : Int) (N : Nat) (p : Pass) (x : Smp) : Except Err Pass :=
  let head := match p.minValid with
    | some _ => p.head
    | none => p.head.initTime x.2.1
  let minValid := match p.minValid with
    | some m => m
    | none => head.maxTime - (2 * d).tdiv 2
  if x.2.1 < minValid then .error .oob
  else match appendable (lookup x.1 head.ser) x.2.1 x.2.2 minValid with
    | .error e => .error e
    | .ok () =>
      let pending := p.pending ++ [x]
      if p.count + 1 < N then .ok { head := head, minValid := some minValid, pending := pending, count := p.count + 1 }
      else
        let head' := commit minValid head pending
        .ok { head := head', minValid := some (head'.maxTime - (2 * d).tdiv 2), pending := [], count := 0 }

structure Block where
  mint : Int
  maxt : Int
  samples : List Smp
deriving DecidableEq, Repr

/-- The re-parse of the input for the window `[t, tsUpper)`. Returns the pass state and `nextSampleTs`. -/
def passLoop (d : Int) (N : Nat) (t tsUpper : Int) : List Sample → Pass → Int → Except Err (Pass × Int)
  | [], p, n => .ok (p, n)
  | x :: xs, p, n =>
    match x.t with
    | none => .error .nots
    | some ts =>
      if ts < t then passLoop d N t tsUpper xs p n
      else if ts ≥ tsUpper then passLoop d N t tsUpper xs p (if ts < n then ts else n)
      else match appendStep d N p (x.s, ts, x.v) with
        | .error e => .error e
        | .ok p' => passLoop d N t tsUpper xs p' n

/-- Final `app.Commit()` + `w.Flush`. -/
def flush (p : Pass) : Option Block :=
  let head := match p.minValid with
    | some m => commit m p.head p.pending
    | none => p.head
  match head.range with
  | none => none
  | some (lo, hi) => if head.stored.isEmpty then none else some ⟨lo, hi + 1, head.stored⟩

/-- One iteration body of the window loop that is not skipped. -/
def windowPass (d : Int) (N : Nat) (t : Int) (input : List Sample) : Except Err (Option Block × Int) :=
  match passLoop d N t (t + d) input {} maxI64 with
  | .error e => .error e
  | .ok (p, n) => .ok (flush p, n)

/-- `for t := mint; t <= maxt; t += blockDuration`. `skip = true` is the code (with the `nextSampleTs`
    optimisation), `skip = false` the same loop without it (used to state its soundness).
    On an error the blocks written so far stay on disk. -/
def blockLoop (skip : Bool) (d : Int) (N : Nat) (maxt : Int) (input : List Sample) :
    Nat → Int → Int → List Block → Option Err × List Block
  | 0, _, _, acc => (none, acc)
  | fuel + 1, t, next, acc =>
    if t > maxt then (none, acc)
    else if skip ∧ next ≠ maxI64 ∧ next ≥ t + d then blockLoop skip d N maxt input fuel (t + d) next acc
    else match windowPass d N t input with
      | .error e => (some e, acc)
      | .ok (b, next') => blockLoop skip d N maxt input fuel (t + d) next' (acc ++ b.toList)

/-- `mint = blockDuration * (mint / blockDuration)`; with the repair, floor alignment for negative `mint`
    in the style of `splitByRange`. -/
def alignStart (fixed : Bool) (d mint : Int) : Int :=
  if fixed ∧ mint < 0 then d * ((mint - d + 1).tdiv d)
  else d * (mint.tdiv d)

/-- Number of loop iterations of `for t := start; t <= maxt; t += d`. -/
def iterations (start maxt d : Int) : Nat :=
  if start ≤ maxt then ((maxt - start) / d + 1).toNat else 0

def createBlocks (fixed skip : Bool) (input : List Sample) (mint maxt maxBD : Int) (N : Nat) : Option Err × List Block :=
  match getCompatibleBlockDuration maxBD with
  | .error e => (some e, [])
  | .ok d =>
    let start := alignStart fixed d mint
    blockLoop skip d N maxt input (iterations start maxt d) start maxI64 []

def backfillG (fixed : Bool) (maxBD : Int) (N : Nat) (input : List Sample) : Option Err × List Block :=
  match getMinAndMaxTimestamps input with
  | .error e => (some e, [])
  | .ok (maxt, mint) => createBlocks fixed true input mint maxt maxBD N

/-- Does /repo carry the F4 repair (fixes/F4.patch)? -/
def repoFixed : Bool := true

def backfill := backfillG repoFixed

end Prom.Backfill
