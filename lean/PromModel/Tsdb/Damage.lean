import PromModel.Tsdb.WalFrame
import PromModel.Tsdb.Record
/-
  Damage to the logs (property C04), on top of the WAL framing model of C13 (`WalFrame.lean`).

  * `rloopE`            the reader loop of reader.go returning every record with `Reader.Offset()` after it
  * `scanSeg`           one segment read the way `Head.Init` reads it (one `Reader` over one
                        `segmentBufReader`, i.e. zero padded to the page), every record handed to the
                        decoder of `loadWAL` / `loadWBL` (`dec`); the first reader error or decode error is
                        the `CorruptionErr{Segment, Offset}`
  * `scanDir`           the segments in order, stopping at the first corruption (`Head.Init` returns)
  * `repairDir`         `WL.Repair`: delete every segment after the corrupted one, re-read the corrupted
                        file with a plain `Reader` (NOT zero padded) and re-log the records whose end offset
                        is < the corruption offset into a fresh segment, pad it (`flushPage(true)`, a whole
                        zero page when nothing is pending), open an empty next segment.  When the segment
                        named by the error does not exist in the directory (the error came from the
                        *checkpoint* directory, whose segment numbers are unrelated) the rename fails AFTER
                        the later segments have been removed.
  * `initLogs`/`openLogs`  the control flow of `Head.Init` + `DB.open` at log level: checkpoint, WAL segments,
                        and the WBL only if the WAL replay returned no error; one repair, no second replay.
  * `AHead`, `aOpen`, …  the same control flow over abstract decoded records with a minimal head (series by
                        ref, `lastSeriesID`, in-order and out-of-order samples): enough to exhibit findings
                        F18 and F19.
-/
namespace Prom.Damage
open Prom.Wal

/-! ### Reader loop with offsets -/

/-- `for r.Next() { (r.Record(), r.Offset()) }`, then the final status. -/
def rloopE (ps : Nat) (crc : Crc) (st : RState) (s : Bytes) : List (Bytes × Nat) × Status :=
  match rstep ps crc st s with
  | .done status => ([], status)
  | .cont st' rest =>
    if rest.length < s.length then rloopE ps crc st' rest else ([], .err .stuck st.total)
  | .emit rec st' rest =>
    if rest.length < s.length then
      let r := rloopE ps crc st' rest
      ((rec, st'.total) :: r.1, r.2)
    else ([], .err .stuck st.total)
termination_by s.length

structure Corruption where
  seg : Nat
  off : Nat
deriving Repr, DecidableEq

/-- First record the decoder rejects: the records before it and `Reader.Offset()` after it. -/
def firstBad (dec : Bytes → Bool) : List (Bytes × Nat) → List Bytes × Option Nat
  | [] => ([], none)
  | (r, e) :: rest =>
    if dec r then let (rs, b) := firstBad dec rest; (r :: rs, b) else ([], some e)

/-- One segment as `Head.Init` reads it.  Returns the records replayed and the corruption offset. -/
def scanSeg (ps : Nat) (crc : Crc) (dec : Bytes → Bool) (seg : Bytes) : List Bytes × Option Nat :=
  let (rs, status) := rloopE ps crc RState.init (segPad ps seg)
  match firstBad dec rs with
  | (good, some e) => (good, some e)
  | (good, none) =>
    match status with
    | .eof _ => (good, none)
    | .err _ a => (good, some a)

abbrev Dir := List (Nat × Bytes)      -- segment index ↦ file content, ascending

def scanDir (ps : Nat) (crc : Crc) (dec : Bytes → Bool) : Dir → List Bytes × Option Corruption
  | [] => ([], none)
  | (k, seg) :: rest =>
    match scanSeg ps crc dec seg with
    | (rs, some off) => (rs, some ⟨k, off⟩)
    | (rs, none) => let (rs', c) := scanDir ps crc dec rest; (rs ++ rs', c)

/-! ### Repair -/

/-- The records `Repair` re-inserts: plain reader over the raw file, `r.Offset() >= cerr.Offset → break`. -/
def keptRecs (ps : Nat) (crc : Crc) (seg : Bytes) (off : Nat) : List Bytes :=
  (((rloopE ps crc RState.init seg).1).takeWhile (fun p => p.2 < off)).map Prod.fst

/-- `flushPage(true)`: the page is written out to its end even when nothing is pending. -/
def forcePad (ps : Nat) (cur : Bytes) : Bytes := cur ++ zeros (ps - cur.length % ps)

/-- The rewritten segment(s): a fresh writer, one `Log` per record, then `flushPage(true)`. -/
def rewrite (ps pps : Nat) (crc : Crc) (recs : List Bytes) : List Bytes :=
  let st := recs.foldl (logRec ps pps crc) WState.init
  st.done ++ [forcePad ps st.cur]

structure RepairOut where
  ok : Bool
  dir : Dir
deriving Repr

def repairDir (ps pps : Nat) (crc : Crc) (dir : Dir) (c : Corruption) : RepairOut :=
  let older := dir.filter (·.1 < c.seg)
  match dir.find? (·.1 = c.seg) with
  | none => ⟨false, dir.filter (·.1 ≤ c.seg)⟩     -- later segments are gone, then the rename fails
  | some (_, seg) =>
    let segs := rewrite ps pps crc (keptRecs ps crc seg c.off)
    let numbered := (List.range segs.length).zip segs |>.map fun (i, b) => (c.seg + i, b)
    -- `CreateSegment(dir, cerr.Segment+1)` opens with O_CREATE|O_APPEND: when the re-logged records did not
    -- fit one segment (a record larger than a whole segment) that file already exists and simply becomes
    -- the active one; otherwise it is a new empty file.  (More than two rewritten segments: not modelled.)
    let next : Dir := if segs.length ≥ 2 then [] else [(c.seg + segs.length, [])]
    ⟨true, older ++ numbered ++ next⟩

/-! ### `Head.Init` + `DB.open` at log level -/

structure Logs where
  ckpt : Option (Nat × Dir)      -- index of the last checkpoint and its segments
  wal : Dir
  wbl : Dir
deriving Repr

inductive OpenRes
  | clean (walRecs wblRecs : List Bytes)
  | walRepaired (c : Corruption) (walRecs : List Bytes)                 -- WBL not replayed (F18)
  | wblRepaired (c : Corruption) (walRecs wblRecs : List Bytes)
  | failed (c : Corruption)                                            -- `repair corrupted WAL: …`
deriving Repr

/-- `tsdb.Open`: `wlog.NewSize` first appends a new empty segment to both logs. -/
def newSegment (d : Dir) : Dir :=
  d ++ [((d.getLast?.map (·.1 + 1)).getD 0, [])]

def openLogs (ps pps : Nat) (crc : Crc) (decWal decWbl : Bytes → Bool) (l : Logs) : OpenRes × Logs :=
  let wal := newSegment l.wal
  let wbl := newSegment l.wbl
  let (cpRecs, cpErr) :=
    match l.ckpt with
    | none => (([] : List Bytes), (none : Option Corruption))
    | some (_, d) =>
      -- one Reader over all checkpoint segments
      let (rs, status) := rloopE ps crc RState.init (segStream ps (d.map (·.2)))
      match firstBad decWal rs with
      | (good, some e) => let (k, o) := locate ps (d.map (·.2)) e; (good, some ⟨(d[k]?.map (·.1)).getD k, o⟩)
      | (good, none) =>
        match status with
        | .eof _ => (good, none)
        | .err _ a => let (k, o) := locate ps (d.map (·.2)) a; (good, some ⟨(d[k]?.map (·.1)).getD k, o⟩)
  let startFrom := match l.ckpt with | none => 0 | some (i, _) => i + 1
  match cpErr with
  | some c =>
    -- "backfill checkpoint: %w" still unwraps to a CorruptionErr: the WAL is "repaired" with it
    let r := repairDir ps pps crc wal c
    (if r.ok then .walRepaired c cpRecs else .failed c, { l with wal := r.dir, wbl := wbl })
  | none =>
    match scanDir ps crc decWal (wal.filter (·.1 ≥ startFrom)) with
    | (rs, some c) =>
      let r := repairDir ps pps crc wal c
      (if r.ok then .walRepaired c (cpRecs ++ rs) else .failed c, { l with wal := r.dir, wbl := wbl })
    | (rs, none) =>
      match scanDir ps crc decWbl wbl with
      | (ws, some c) =>
        let r := repairDir ps pps crc wbl c
        (if r.ok then .wblRepaired c (cpRecs ++ rs) ws else .failed c, { l with wal := wal, wbl := r.dir })
      | (ws, none) => (.clean (cpRecs ++ rs) ws, { l with wal := wal, wbl := wbl })

/-! ### Decoders of `loadWAL` / `loadWBL` as accept/reject -/

def isOk {ε α : Type} : Except ε α → Bool
  | .ok _ => true
  | .error _ => false

/-- `loadWAL`: the `switch dec.Type(rec)`; unknown types (and mmap markers) are ignored. -/
def walDec (rec : Bytes) : Bool :=
  let t := Record.recType rec
  if t = 1 then isOk (Record.decSeries rec)
  else if t = 2 ∨ t = 11 then isOk (Record.decSamples rec)
  else if t = 3 then isOk (Record.decTombstones rec)
  else if t = 4 then isOk (Record.decExemplars rec)
  else if t = 7 ∨ t = 9 ∨ t = 12 then isOk (Record.decHists false rec)
  else if t = 8 ∨ t = 10 ∨ t = 13 then isOk (Record.decHists true rec)
  else if t = 6 then isOk (Record.decMetadata rec)
  else true

/-- `loadWBL`: samples, histograms, mmap markers. -/
def wblDec (rec : Bytes) : Bool :=
  let t := Record.recType rec
  if t = 2 ∨ t = 11 then isOk (Record.decSamples rec)
  else if t = 7 ∨ t = 9 ∨ t = 12 then isOk (Record.decHists false rec)
  else if t = 8 ∨ t = 10 ∨ t = 13 then isOk (Record.decHists true rec)
  else if t = 5 then isOk (Record.decMmapMarkers rec)
  else true

/-! ### The same control flow over decoded records, with a minimal head (F18, F19) -/

inductive ARec
  | series (ref lbl : Nat)
  | samples (xs : List (Nat × Int × Nat))     -- ref, t, value bits
deriving Repr, DecidableEq

structure ASeries where
  ref : Nat
  lbl : Nat
  ino : List (Int × Nat)       -- in-order samples, strictly increasing t
  ooo : List (Int × Nat)
deriving Repr, DecidableEq

structure AHead where
  series : List ASeries := []
  lastID : Nat := 0
deriving Repr, DecidableEq

def AHead.byRef (h : AHead) (ref : Nat) : Option ASeries := h.series.find? (·.ref = ref)
def AHead.byLbl (h : AHead) (lbl : Nat) : Option ASeries := h.series.find? (·.lbl = lbl)

def AHead.update (h : AHead) (s : ASeries) : AHead :=
  { h with series := h.series.map fun x => if x.ref = s.ref then s else x }

/-- `memSeries.append` during replay: a sample not after the newest one is dropped. -/
def appendIno (s : ASeries) (t : Int) (v : Nat) : ASeries :=
  match s.ino.getLast? with
  | some (lt, _) => if t > lt then { s with ino := s.ino ++ [(t, v)] } else s
  | none => { s with ino := [(t, v)] }

def insertOoo (s : ASeries) (t : Int) (v : Nat) : ASeries :=
  if s.ooo.any (·.1 = t) then s else { s with ooo := s.ooo ++ [(t, v)] }

/-- `loadWAL` on one record.  A series record for labels that already exist is mapped onto the existing
    series (`multiRef`); `lastSeriesID` follows the largest ref seen. -/
def replayWal (h : AHead) : ARec → AHead
  | .series ref lbl =>
    let h := { h with lastID := max h.lastID ref }
    match h.byLbl lbl with
    | some _ => h
    | none => { h with series := h.series ++ [⟨ref, lbl, [], []⟩] }
  | .samples xs =>
    xs.foldl (fun h (x : Nat × Int × Nat) =>
      match h.byRef x.1 with
      | some s => h.update (appendIno s x.2.1 x.2.2)
      | none => h) h

/-- `loadWBL` on one record: unknown refs are skipped. -/
def replayWbl (h : AHead) : ARec → AHead
  | .series _ _ => h
  | .samples xs =>
    xs.foldl (fun h (x : Nat × Int × Nat) =>
      match h.byRef x.1 with
      | some s => h.update (insertOoo s x.2.1 x.2.2)
      | none => h) h

structure ALogs where
  wal : List (List ARec)
  wbl : List (List ARec)
deriving Repr, DecidableEq

/-- Position of the first damaged record of a log: segment and record index inside it. -/
abbrev Cut := Option (Nat × Nat)

def cutLog (log : List (List ARec)) : Cut → List (List ARec)
  | none => log
  | some (k, i) => log.take k ++ [(log.getD k []).take i]

/-- `tsdb.Open` on damaged logs: replay the WAL up to its first damaged record; if there was one, repair
    the WAL (drop the rest) and return — the WBL is not replayed; otherwise replay the WBL up to its first
    damaged record and repair it.  A new empty segment is started in both logs. -/
def aOpen (l : ALogs) (walCut wblCut : Cut) : AHead × ALogs :=
  let walKept := cutLog l.wal walCut
  let h := walKept.flatten.foldl replayWal {}
  match walCut with
  | some _ => (h, ⟨walKept ++ [[]], l.wbl ++ [[]]⟩)
  | none =>
    let wblKept := cutLog l.wbl wblCut
    (wblKept.flatten.foldl replayWbl h, ⟨walKept ++ [[]], wblKept ++ [[]]⟩)

def logTo (log : List (List ARec)) (r : ARec) : List (List ARec) :=
  log.dropLast ++ [log.getLast?.getD [] ++ [r]]

/-- One committed in-order sample for labels `lbl` (`getOrCreate` allocates `lastSeriesID + 1`). -/
def aAppend (h : AHead) (l : ALogs) (lbl : Nat) (t : Int) (v : Nat) : AHead × ALogs :=
  match h.byLbl lbl with
  | some s => (h.update (appendIno s t v), { l with wal := logTo l.wal (.samples [(s.ref, t, v)]) })
  | none =>
    let ref := h.lastID + 1
    let s : ASeries := ⟨ref, lbl, [(t, v)], []⟩
    ({ series := h.series ++ [s], lastID := ref },
     { l with wal := logTo (logTo l.wal (.series ref lbl)) (.samples [(ref, t, v)]) })

/-- Everything a query returns: (labels, t, value). -/
def AHead.all (h : AHead) : List (Nat × Int × Nat) :=
  h.series.flatMap fun s => (s.ino ++ s.ooo).map fun x => (s.lbl, x.1, x.2)

end Prom.Damage
