import PromModel.Prelude.Enc
/-
  WAL record codecs — a transcription of `tsdb/record/record.go` (Encoder.* / Decoder.*).

  Conventions (see `Prelude/Enc.lean`): series references are `uint64` in Go (`chunks.HeadSeriesRef`)
  → `Nat`; timestamps / start timestamps / integer bucket deltas are `int64` → `Int`; every float is its
  64-bit pattern → `Nat`; strings are byte lists. Wrap-around of the delta encodings is explicit.

  Decbuf's error is sticky and every decoder returns `nil, err` once it is set, so the model short-cuts
  at the first failing read (`Except`). The only run-time panic reachable in the decoders is the slice
  expression in `Decbuf.UvarintBytes` for a length ≥ 2^63 (`DecErr.panic`).
  NOT modelled: resource exhaustion — a decoded count in (2^21 … 2^63) makes the Go loops spin / allocate
  (`for range nLabels`, `make([]Span, l)`); semantically those runs end in the same error the model returns,
  the correspondence suite keeps such inputs away from the real decoder. `ReduceResolution` (schemas 9…52)
  is modelled only as far as its success/failure; the reduced spans/buckets are left empty.
-/
namespace Prom.Record
open Prom.Enc

/-! ## Values -/

structure Label where
  name  : Bytes
  value : Bytes
  deriving DecidableEq, Repr

abbrev Labels := List Label

structure RefSeries where
  ref    : Nat
  labels : Labels
  deriving DecidableEq, Repr

structure RefSample where
  ref : Nat
  st  : Int
  t   : Int
  v   : Nat
  deriving DecidableEq, Repr

/-- `tombstones.Stone` -/
structure Stone where
  ref       : Nat
  intervals : List (Int × Int)
  deriving DecidableEq, Repr

structure RefExemplar where
  ref    : Nat
  t      : Int
  v      : Nat
  labels : Labels
  deriving DecidableEq, Repr

structure RefMetadata where
  ref  : Nat
  typ  : Nat
  unit : Bytes
  help : Bytes
  deriving DecidableEq, Repr

structure RefMmapMarker where
  ref     : Nat
  mmapRef : Nat
  deriving DecidableEq, Repr

structure Span where
  offset : Int
  length : Nat
  deriving DecidableEq, Repr

/-- `histogram.Histogram` (`fl = false`: `zc`,`c` are uint64 counts, buckets are int64 deltas) and
    `histogram.FloatHistogram` (`fl = true`: `zc`,`c` and every bucket are float64 bit patterns). -/
structure Hist where
  hint   : Nat
  schema : Int
  zt     : Nat
  zc     : Nat
  c      : Nat
  sum    : Nat
  ps     : List Span
  ns     : List Span
  pb     : List Int
  nb     : List Int
  cv     : List Nat
  deriving DecidableEq, Repr

structure RefHist where
  ref : Nat
  st  : Int
  t   : Int
  h   : Hist
  deriving DecidableEq, Repr

/-! ## Record types -/

def tSeries : UInt8 := 1
def tSamples : UInt8 := 2
def tTombstones : UInt8 := 3
def tExemplars : UInt8 := 4
def tMmapMarkers : UInt8 := 5
def tMetadata : UInt8 := 6
def tHistogramSamples : UInt8 := 7
def tFloatHistogramSamples : UInt8 := 8
def tCustomBucketsHistogramSamples : UInt8 := 9
def tCustomBucketsFloatHistogramSamples : UInt8 := 10
def tSamplesV2 : UInt8 := 11
def tHistogramSamplesV2 : UInt8 := 12
def tFloatHistogramSamplesV2 : UInt8 := 13

/-- `Decoder.Type` (255 = Unknown) -/
def recType (rec : Bytes) : Nat :=
  match rec with
  | [] => 255
  | t :: _ => if 1 ≤ t.toNat ∧ t.toNat ≤ 13 then t.toNat else 255

inductive RecErr where
  /-- "invalid record type" -/
  | badType
  /-- Decbuf error (ErrInvalidSize), "unexpected bytes left", or a failed `ReduceResolution` -/
  | decode
  /-- Go run-time panic -/
  | panic
  deriving DecidableEq, Repr

def liftErr : Except DecErr α → Except RecErr α
  | .ok x => .ok x
  | .error .invalid => .error .decode
  | .error .panic => .error .panic

/-- A loop whose encoder state never changes. -/
def encEach (f : α → Bytes) (xs : List α) : Bytes :=
  encAll (fun (_ : Unit) x => f x) (fun s _ => s) () xs

/-! ## Labels -/

def encLabel (l : Label) : Bytes := putUvarintStr l.name ++ putUvarintStr l.value

/-- `EncodeLabels` -/
def encLabels (ls : Labels) : Bytes := putUvarint ls.length ++ ls.flatMap encLabel

def decLabel (bs : Bytes) : Except DecErr (Label × Bytes) := do
  let (n, r) ← decUvarintStr bs
  let (v, r) ← decUvarintStr r
  pure (⟨n, v⟩, r)

/-- `Decoder.DecodeLabels` -/
def decLabels (bs : Bytes) : Except DecErr (Labels × Bytes) := do
  let (l, r) ← decUvarint bs
  readN decLabel (countOf l) r

/-! ## Series -/

def encSeriesItem (s : RefSeries) : Bytes := putBE64 s.ref ++ encLabels s.labels

/-- `Encoder.Series` -/
def encSeries (xs : List RefSeries) : Bytes := tSeries :: encEach encSeriesItem xs

def stepSeries (_ : Unit) (bs : Bytes) : Except DecErr (Unit × Option RefSeries × Bytes) := do
  let (ref, r) ← getBE64 bs
  let (ls, r) ← decLabels r
  pure ((), some ⟨ref, ls⟩, r)

/-- `Decoder.Series` -/
def decSeries (rec : Bytes) : Except RecErr (List RefSeries) :=
  match rec with
  | [] => .error .badType
  | t :: body =>
    if t ≠ tSeries then .error .badType
    else liftErr (loopFuel stepSeries body.length () body)

/-! ## Metadata -/

def unitName : Bytes := [85, 78, 73, 84]  -- "UNIT"
def helpName : Bytes := [72, 69, 76, 80]  -- "HELP"

def encMetadataItem (m : RefMetadata) : Bytes :=
  putUvarint m.ref ++ [UInt8.ofNat m.typ] ++ putUvarint 2 ++
    putUvarintStr unitName ++ putUvarintStr m.unit ++ putUvarintStr helpName ++ putUvarintStr m.help

/-- `Encoder.Metadata` -/
def encMetadata (xs : List RefMetadata) : Bytes := tMetadata :: encEach encMetadataItem xs

/-- the `for range numFields` loop: unknown fields are skipped, later UNIT/HELP override earlier ones -/
def readFields : Nat → Bytes × Bytes → Bytes → Except DecErr ((Bytes × Bytes) × Bytes)
  | 0, uh, bs => .ok (uh, bs)
  | n + 1, (u, h), bs => do
    let (name, r) ← decUvarintStr bs
    let (val, r) ← decUvarintStr r
    readFields n (if name = unitName then (val, h) else if name = helpName then (u, val) else (u, h)) r

def stepMetadata (_ : Unit) (bs : Bytes) : Except DecErr (Unit × Option RefMetadata × Bytes) := do
  let (ref, r) ← decUvarint bs
  let (typ, r) ← getByte r
  let (nf, r) ← decUvarint r
  let ((u, h), r) ← readFields (countOf nf) ([], []) r
  pure ((), some ⟨ref, typ, u, h⟩, r)

/-- `Decoder.Metadata` -/
def decMetadata (rec : Bytes) : Except RecErr (List RefMetadata) :=
  match rec with
  | [] => .error .badType
  | t :: body =>
    if t ≠ tMetadata then .error .badType
    else liftErr (loopFuel stepMetadata body.length () body)

/-! ## Samples V1 -/

/-- one entry of `samplesV1`: deltas against the first sample -/
def encSampleV1 (firstRef : Nat) (firstT : Int) (s : RefSample) : Bytes :=
  putVarint (wrap64 (toI64 s.ref - toI64 firstRef)) ++ putVarint (wrap64 (s.t - firstT)) ++ putBE64 s.v

/-- `Encoder.samplesV1` -/
def encSamplesV1 (xs : List RefSample) : Bytes :=
  match xs with
  | [] => [tSamples]
  | first :: _ =>
    tSamples :: (putBE64 first.ref ++ putBE64 (toU64 first.t) ++ encEach (encSampleV1 first.ref first.t) xs)

def stepSampleV1 (baseRef : Nat) (baseTime : Int) (_ : Unit) (bs : Bytes) :
    Except DecErr (Unit × Option RefSample × Bytes) := do
  let (dref, r) ← decVarint bs
  let (dtime, r) ← decVarint r
  let (val, r) ← getBE64 r
  pure ((), some ⟨toU64 (toI64 baseRef + dref), 0, wrap64 (baseTime + dtime), val⟩, r)

/-- `Decoder.samplesV1` (after the type byte) -/
def decSamplesV1 (body : Bytes) : Except DecErr (List RefSample) :=
  if body.isEmpty then .ok [] else do
    let (baseRef, r) ← getBE64 body
    let (baseTime, r) ← getBE64 r
    loopFuel (stepSampleV1 baseRef (toI64 baseTime)) r.length () r

/-! ## Samples V2 (start timestamps) -/

def noST : Nat := 0
def sameST : Nat := 1
def explicitST : Nat := 2

/-- `writeSTMarker` -/
def writeSTMarker (st firstST prevST : Int) : Bytes :=
  if st = 0 then [0]
  else if st = prevST then [1]
  else 2 :: putVarint (wrap64 (st - firstST))

/-- `readSTMarker` -/
def readSTMarker (prevST firstST : Int) (bs : Bytes) : Except DecErr (Int × Bytes) := do
  let (m, r) ← getByte bs
  if m = 0 then pure (0, r)
  else if m = 1 then pure (prevST, r)
  else do
    let (d, r) ← decVarint r
    pure (wrap64 (firstST + d), r)

/-- running state of the V2 loops: values of the first entry and of the previous one -/
structure V2St where
  firstT  : Int
  firstST : Int
  prevRef : Nat
  prevST  : Int
  deriving DecidableEq, Repr

def encSampleV2 (s : Option V2St) (x : RefSample) : Bytes :=
  match s with
  | none => putVarint (toI64 x.ref) ++ putVarint x.t ++ putVarint x.st ++ putBE64 x.v
  | some c =>
    putVarint (wrap64 (toI64 x.ref - toI64 c.prevRef)) ++ putVarint (wrap64 (x.t - c.firstT)) ++
      writeSTMarker x.st c.firstST c.prevST ++ putBE64 x.v

def nextV2 (s : Option V2St) (ref : Nat) (st t : Int) : Option V2St :=
  match s with
  | none => some ⟨t, st, ref, st⟩
  | some c => some { c with prevRef := ref, prevST := st }

/-- `Encoder.samplesV2` -/
def encSamplesV2 (xs : List RefSample) : Bytes :=
  tSamplesV2 :: encAll encSampleV2 (fun s x => nextV2 s x.ref x.st x.t) none xs

def stepSampleV2 (s : Option V2St) (bs : Bytes) : Except DecErr (Option V2St × Option RefSample × Bytes) :=
  match s with
  | none => do
    let (ref, r) ← decVarint bs
    let (t, r) ← decVarint r
    let (st, r) ← decVarint r
    let (v, r) ← getBE64 r
    pure (nextV2 none (toU64 ref) st t, some ⟨toU64 ref, st, t, v⟩, r)
  | some c => do
    let (dref, r) ← decVarint bs
    let (dt, r) ← decVarint r
    let (st, r) ← readSTMarker c.prevST c.firstST r
    let (v, r) ← getBE64 r
    let ref := toU64 (toI64 c.prevRef + dref)
    let t := wrap64 (c.firstT + dt)
    pure (nextV2 (some c) ref st t, some ⟨ref, st, t, v⟩, r)

/-- `Decoder.samplesV2` (after the type byte; the caller's slice is empty) -/
def decSamplesV2 (body : Bytes) : Except DecErr (List RefSample) :=
  loopFuel stepSampleV2 body.length none body

/-- `Encoder.Samples` -/
def encSamples (enableST : Bool) (xs : List RefSample) : Bytes :=
  if enableST then encSamplesV2 xs else encSamplesV1 xs

/-- `Decoder.Samples` -/
def decSamples (rec : Bytes) : Except RecErr (List RefSample) :=
  match rec with
  | [] => .error .badType
  | t :: body =>
    if t = tSamples then liftErr (decSamplesV1 body)
    else if t = tSamplesV2 then liftErr (decSamplesV2 body)
    else .error .badType

/-! ## Tombstones -/

def encTombstoneItem (s : Stone) : Bytes :=
  s.intervals.flatMap fun iv => putBE64 s.ref ++ putVarint iv.1 ++ putVarint iv.2

/-- `Encoder.Tombstones`: one entry per (stone, interval) -/
def encTombstones (xs : List Stone) : Bytes := tTombstones :: xs.flatMap encTombstoneItem

def stepTombstone (_ : Unit) (bs : Bytes) : Except DecErr (Unit × Option Stone × Bytes) := do
  let (ref, r) ← getBE64 bs
  let (mint, r) ← decVarint r
  let (maxt, r) ← decVarint r
  pure ((), some ⟨ref, [(mint, maxt)]⟩, r)

/-- `Decoder.Tombstones`: one single-interval stone per entry -/
def decTombstones (rec : Bytes) : Except RecErr (List Stone) :=
  match rec with
  | [] => .error .badType
  | t :: body =>
    if t ≠ tTombstones then .error .badType
    else liftErr (loopFuel stepTombstone body.length () body)

/-- what a tombstone record can carry: the list of (ref, interval) pairs -/
def flattenStones (xs : List Stone) : List Stone :=
  xs.flatMap fun s => s.intervals.map fun iv => ⟨s.ref, [iv]⟩

/-! ## Exemplars -/

def encExemplarItem (firstRef : Nat) (firstT : Int) (e : RefExemplar) : Bytes :=
  putVarint (wrap64 (toI64 e.ref - toI64 firstRef)) ++ putVarint (wrap64 (e.t - firstT)) ++ putBE64 e.v ++
    encLabels e.labels

/-- `Encoder.Exemplars` -/
def encExemplars (xs : List RefExemplar) : Bytes :=
  match xs with
  | [] => [tExemplars]
  | first :: _ =>
    tExemplars :: (putBE64 first.ref ++ putBE64 (toU64 first.t) ++ encEach (encExemplarItem first.ref first.t) xs)

def stepExemplar (baseRef : Nat) (baseTime : Int) (_ : Unit) (bs : Bytes) :
    Except DecErr (Unit × Option RefExemplar × Bytes) := do
  let (dref, r) ← decVarint bs
  let (dtime, r) ← decVarint r
  let (val, r) ← getBE64 r
  let (ls, r) ← decLabels r
  pure ((), some ⟨(baseRef + toU64 dref) % 18446744073709551616, wrap64 (baseTime + dtime), val, ls⟩, r)

/-- `Decoder.Exemplars` -/
def decExemplars (rec : Bytes) : Except RecErr (List RefExemplar) :=
  match rec with
  | [] => .error .badType
  | t :: body =>
    if t ≠ tExemplars then .error .badType
    else if body.isEmpty then .ok []
    else liftErr do
      let (baseRef, r) ← getBE64 body
      let (baseTime, r) ← getBE64 r
      loopFuel (stepExemplar baseRef (toI64 baseTime)) r.length () r

/-! ## M-map markers -/

def encMmapItem (m : RefMmapMarker) : Bytes := putBE64 m.ref ++ putBE64 m.mmapRef

/-- `Encoder.MmapMarkers` -/
def encMmapMarkers (xs : List RefMmapMarker) : Bytes := tMmapMarkers :: encEach encMmapItem xs

def stepMmap (_ : Unit) (bs : Bytes) : Except DecErr (Unit × Option RefMmapMarker × Bytes) := do
  let (ref, r) ← getBE64 bs
  let (m, r) ← getBE64 r
  pure ((), some ⟨ref, m⟩, r)

/-- `Decoder.MmapMarkers` -/
def decMmapMarkers (rec : Bytes) : Except RecErr (List RefMmapMarker) :=
  match rec with
  | [] => .error .badType
  | t :: body =>
    if t ≠ tMmapMarkers then .error .badType
    else liftErr (loopFuel stepMmap body.length () body)

/-! ## Histograms -/

def customBucketsSchema : Int := -53

/-- `Histogram.UsesCustomBuckets` / `histogram.IsCustomBucketsSchema` -/
def Hist.isCustom (h : Hist) : Bool := h.schema == -53

/-- `histogram.IsKnownSchema` -/
def knownSchema (s : Int) : Bool := s == -53 || (-9 ≤ s && s ≤ 52)

def encSpan (s : Span) : Bytes := putVarint s.offset ++ putUvarint s.length

def encBucket (fl : Bool) (b : Int) : Bytes := if fl then putBE64 b.toNat else putVarint b

def encCount (fl : Bool) (n : Nat) : Bytes := if fl then putBE64 n else putUvarint n

/-- `EncodeHistogram` (`fl = false`) / `EncodeFloatHistogram` (`fl = true`) -/
def encHist (fl : Bool) (h : Hist) : Bytes :=
  [UInt8.ofNat h.hint] ++ putVarint h.schema ++ putBE64 h.zt ++ encCount fl h.zc ++ encCount fl h.c ++
    putBE64 h.sum ++
    (putUvarint h.ps.length ++ h.ps.flatMap encSpan) ++
    (putUvarint h.ns.length ++ h.ns.flatMap encSpan) ++
    (putUvarint h.pb.length ++ h.pb.flatMap (encBucket fl)) ++
    (putUvarint h.nb.length ++ h.nb.flatMap (encBucket fl)) ++
    (if h.isCustom then putUvarint h.cv.length ++ h.cv.flatMap putBE64 else [])

def decSpan (bs : Bytes) : Except DecErr (Span × Bytes) := do
  let (off, r) ← decVarint bs
  let (len, r) ← decUvarint r
  pure (⟨wrap32 off, len % 4294967296⟩, r)

def decBucket (fl : Bool) (bs : Bytes) : Except DecErr (Int × Bytes) :=
  if fl then do
    let (n, r) ← getBE64 bs
    pure ((n : Int), r)
  else decVarint bs

def decCount (fl : Bool) (bs : Bytes) : Except DecErr (Nat × Bytes) :=
  if fl then getBE64 bs else decUvarint bs

/-- `l := buf.Uvarint(); if l > 0 { xs = make([]T, l) }; for i := range xs { … }` with 8-byte elements
    (`Span`, `int64`, `float64`): `make` panics ("len out of range") when `l * 8` exceeds the runtime's
    `maxAlloc` (2^48 on linux/amd64), i.e. for 2^45 < l < 2^63; a negative `int(l)` skips the `make`. -/
def decCounted (get : Bytes → Except DecErr (α × Bytes)) (bs : Bytes) : Except DecErr (List α × Bytes) := do
  let (l, r) ← decUvarint bs
  if 35184372088832 < l ∧ l < 9223372036854775808 then .error .panic
  else readN get (countOf l) r

/-- `DecodeHistogram` / `DecodeFloatHistogram` -/
def decHist (fl : Bool) (bs : Bytes) : Except DecErr (Hist × Bytes) := do
  let (hint, r) ← getByte bs
  let (schema, r) ← decVarint r
  let schema := wrap32 schema
  let (zt, r) ← getBE64 r
  let (zc, r) ← decCount fl r
  let (c, r) ← decCount fl r
  let (sum, r) ← getBE64 r
  let (ps, r) ← decCounted decSpan r
  let (ns, r) ← decCounted decSpan r
  let (pb, r) ← decCounted (decBucket fl) r
  let (nb, r) ← decCounted (decBucket fl) r
  if schema = -53 then do
    let (cv, r) ← decCounted getBE64 r
    pure (⟨hint, schema, zt, zc, c, sum, ps, ns, pb, nb, cv⟩, r)
  else
    pure (⟨hint, schema, zt, zc, c, sum, ps, ns, pb, nb, []⟩, r)

/-- does `reduceResolution` succeed on these spans / this many buckets? -/
def reduceOk (spans : List Span) (nBuckets : Nat) : Bool :=
  (spans.drop 1).all (fun s => 0 ≤ s.offset) && (spans.map (·.length)).sum == nBuckets

/-- after `Decode*Histogram`: skip unknown schemas, reduce schemas 9…52 to 8 (content not modelled). -/
def finishHist (h : Hist) : Except DecErr (Option Hist) :=
  if !knownSchema h.schema then .ok none
  else if 8 < h.schema ∧ h.schema ≤ 52 then
    if reduceOk h.ps h.pb.length && reduceOk h.ns h.nb.length then
      .ok (some { h with schema := 8, ps := [], ns := [], pb := [], nb := [] })
    else .error .invalid
  else .ok (some h)

def encHistItemV1 (fl : Bool) (firstRef : Nat) (firstT : Int) (x : RefHist) : Bytes :=
  putVarint (wrap64 (toI64 x.ref - toI64 firstRef)) ++ putVarint (wrap64 (x.t - firstT)) ++ encHist fl x.h

def tHist (fl : Bool) : UInt8 := if fl then tFloatHistogramSamples else tHistogramSamples
def tCustomHist (fl : Bool) : UInt8 :=
  if fl then tCustomBucketsFloatHistogramSamples else tCustomBucketsHistogramSamples
def tHistV2 (fl : Bool) : UInt8 := if fl then tFloatHistogramSamplesV2 else tHistogramSamplesV2

/-- `Encoder.histogramSamplesV1` / `floatHistogramSamplesV1`: custom-bucket histograms are skipped and
    returned; if *all* are custom the buffer is reset (an empty record, not even the type byte). -/
def encHistsV1 (fl : Bool) (xs : List RefHist) : Bytes × List RefHist :=
  match xs with
  | [] => ([tHist fl], [])
  | first :: _ =>
    let customs := xs.filter (·.h.isCustom)
    let body := putBE64 first.ref ++ putBE64 (toU64 first.t) ++
      encEach (fun x => if x.h.isCustom then [] else encHistItemV1 fl first.ref first.t x) xs
    (if xs.length = customs.length then [] else tHist fl :: body, customs)

/-- `Encoder.customBucketsHistogramSamplesV1` / `customBucketsFloatHistogramSamplesV1` -/
def encCustomHistsV1 (fl : Bool) (xs : List RefHist) : Bytes :=
  match xs with
  | [] => [tCustomHist fl]
  | first :: _ =>
    tCustomHist fl :: (putBE64 first.ref ++ putBE64 (toU64 first.t) ++
      encEach (encHistItemV1 fl first.ref first.t) xs)

def encHistItemV2 (fl : Bool) (s : Option V2St) (x : RefHist) : Bytes :=
  match s with
  | none => putVarint (toI64 x.ref) ++ putVarint x.t ++ putVarint x.st ++ encHist fl x.h
  | some c =>
    putVarint (wrap64 (toI64 x.ref - toI64 c.prevRef)) ++ putVarint (wrap64 (x.t - c.firstT)) ++
      writeSTMarker x.st c.firstST c.prevST ++ encHist fl x.h

/-- `Encoder.histogramSamplesV2` / `floatHistogramSamplesV2` -/
def encHistsV2 (fl : Bool) (xs : List RefHist) : Bytes :=
  tHistV2 fl :: encAll (encHistItemV2 fl) (fun s x => nextV2 s x.ref x.st x.t) none xs

/-- `Encoder.HistogramSamples` / `FloatHistogramSamples` -/
def encHists (enableST fl : Bool) (xs : List RefHist) : Bytes × List RefHist :=
  if enableST then (encHistsV2 fl xs, []) else encHistsV1 fl xs

/-- `Encoder.CustomBucketsHistogramSamples` / `CustomBucketsFloatHistogramSamples` -/
def encCustomHists (enableST fl : Bool) (xs : List RefHist) : Bytes :=
  if enableST then encHistsV2 fl xs else encCustomHistsV1 fl xs

def stepHistV1 (fl : Bool) (baseRef : Nat) (baseTime : Int) (_ : Unit) (bs : Bytes) :
    Except DecErr (Unit × Option RefHist × Bytes) := do
  let (dref, r) ← decVarint bs
  let (dtime, r) ← decVarint r
  let (h, r) ← decHist fl r
  let oh ← finishHist h
  pure ((), oh.map fun h => ⟨(baseRef + toU64 dref) % 18446744073709551616, 0, wrap64 (baseTime + dtime), h⟩, r)

/-- `Decoder.histogramSamplesV1` / `floatHistogramSamplesV1` (after the type byte) -/
def decHistsV1 (fl : Bool) (body : Bytes) : Except DecErr (List RefHist) :=
  if body.isEmpty then .ok [] else do
    let (baseRef, r) ← getBE64 body
    let (baseTime, r) ← getBE64 r
    loopFuel (stepHistV1 fl baseRef (toI64 baseTime)) r.length () r

/-- loop state of the V2 histogram decoders: `none` = `!hasPrev` -/
def stepHistV2 (fl : Bool) (firstRef : Nat) (firstT firstST : Int) (s : Option (Nat × Int)) (bs : Bytes) :
    Except DecErr (Option (Nat × Int) × Option RefHist × Bytes) := do
  let ((ref, t, st), r) ← (match s with
    | none => pure ((firstRef, firstT, firstST), bs)
    | some (prevRef, prevST) => do
      let (dref, r) ← decVarint bs
      let (dt, r) ← decVarint r
      let (st, r) ← readSTMarker prevST firstST r
      pure ((toU64 (toI64 prevRef + dref), wrap64 (firstT + dt), st), r)
    : Except DecErr ((Nat × Int × Int) × Bytes))
  let (h, r) ← decHist fl r
  let oh ← finishHist h
  pure (some (ref, st), oh.map fun h => ⟨ref, st, t, h⟩, r)

/-- `Decoder.histogramSamplesV2` / `floatHistogramSamplesV2` (after the type byte) -/
def decHistsV2 (fl : Bool) (body : Bytes) : Except DecErr (List RefHist) :=
  if body.isEmpty then .ok [] else do
    let (firstRef, r) ← decVarint body
    let (firstT, r) ← decVarint r
    let (firstST, r) ← decVarint r
    loopFuel (stepHistV2 fl (toU64 firstRef) firstT firstST) r.length none r

/-- `Decoder.HistogramSamples` (`fl = false`) / `Decoder.FloatHistogramSamples` (`fl = true`) -/
def decHists (fl : Bool) (rec : Bytes) : Except RecErr (List RefHist) :=
  match rec with
  | [] => .error .badType
  | t :: body =>
    if t = tHist fl ∨ t = tCustomHist fl then liftErr (decHistsV1 fl body)
    else if t = tHistV2 fl then liftErr (decHistsV2 fl body)
    else .error .badType

end Prom.Record
