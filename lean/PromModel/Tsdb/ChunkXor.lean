import PromModel.Tsdb.VarbitInt
/-
  Model of the classic XOR float chunk (`tsdb/chunkenc/xor.go`).

  chunk bytes = 2-byte big-endian sample count ++ `toBytes` of the bit stream.
  sample 0:  varint t, 64 value bits
  sample 1:  uvarint tDelta (= uint64(t - prevT)), value xor code
  sample ≥2: delta-of-delta code `0 | 10·14 | 110·17 | 1110·20 | 1111·64` chosen by the asymmetric `bitRange`,
             then the value xor code `0 | 10·window bits | 11·5 leading·6 sigbits·bits`
             (leading clamped to 31, `sigbits = 64` written as 0, window reuse when it still fits).
  Timestamps are `Int` (int64 range); all Go wrap-around is explicit (`toU`, `toI`, `% two64`).
  Values are 64-bit patterns as `Nat` — never `Float`.
  The decoder keeps `leading/trailing` as uint8 (arithmetic mod 256), as the Go iterator does, so that it
  agrees with the real iterator also on streams the encoder never produces (F11).
-/
namespace Prom.ChunkXor
open Prom.Bits Prom.Varbit

/-- Appender / iterator state (`xorAppender` and `xorIterator` carry the same fields). -/
structure St where
  t : Int
  v : Nat
  tDelta : Nat
  leading : Nat
  trailing : Nat
deriving Repr, DecidableEq, Inhabited

def MinI64 : Int := -9223372036854775808

/-- `&xorAppender{t: math.MinInt64, leading: 0xff}`. -/
def encInit : St := ⟨MinI64, 0, 0, 255, 0⟩
/-- `&xorIterator{t: math.MinInt64}` (fresh iterator: leading = trailing = 0). -/
def decInit : St := ⟨MinI64, 0, 0, 0, 0⟩

/-- Bit length with fuel (structural, so that closed instances reduce in the kernel). -/
def blenF : Nat → Nat → Nat
  | 0, _ => 0
  | f + 1, d => if d = 0 then 0 else blenF f (d / 2) + 1

/-- `bits.LeadingZeros64` (for `d < 2^64`). -/
def clz64 (d : Nat) : Nat := 64 - blenF 64 d

def ctzF : Nat → Nat → Nat
  | 0, _ => 0
  | f + 1, d => if d % 2 = 1 then 0 else ctzF f (d / 2) + 1

/-- `bits.TrailingZeros64`. -/
def ctz64 (d : Nat) : Nat := if d = 0 then 64 else ctzF 64 d

/-- `xorWrite`: emitted bits and the updated `(leading, trailing)`. `delta = new ^ cur`. -/
def xorWrite (delta l t : Nat) : Bits × Nat × Nat :=
  if delta = 0 then ([false], l, t)
  else
    let nl := min (clz64 delta) 31
    let nt := ctz64 delta
    if l ≠ 255 ∧ nl ≥ l ∧ nt ≥ t then
      (true :: false :: natToBits (delta >>> t) (64 - l - t), l, t)
    else
      let sig := 64 - nl - nt
      (true :: true :: (natToBits nl 5 ++ (natToBits sig 6 ++ natToBits (delta >>> nt) sig)), nl, nt)

/-- `xorRead`: new value, `(leading, trailing)` (uint8 arithmetic), remaining bits; `none` = EOF. -/
def xorRead (v l t : Nat) (bits : Bits) : Option (Nat × Nat × Nat × Bits) :=
  match bits with
  | [] => none
  | false :: r => some (v, l, t, r)
  | [true] => none
  | true :: false :: r =>
    let m := (64 + 512 - l - t) % 256
    match readBits m r with
    | none => none
    | some (b, r') => some (v ^^^ ((b <<< t) % two64), l, t, r')
  | true :: true :: r =>
    match readBits 5 r with
    | none => none
    | some (nl, r1) =>
      match readBits 6 r1 with
      | none => none
      | some (mb0, r2) =>
        let mb := if mb0 = 0 then 64 else mb0
        let nt := (64 + 256 - nl - mb) % 256
        match readBits mb r2 with
        | none => none
        | some (b, r3) => some (v ^^^ ((b <<< nt) % two64), nl, nt, r3)

/-- The delta-of-delta code of `xorAppender.Append` (`dod` is an int64). -/
def dodBits (dod : Int) : Bits :=
  if dod = 0 then [false]
  else if bitRange dod 14 then true :: false :: natToBits (toU dod) 14
  else if bitRange dod 17 then true :: true :: false :: natToBits (toU dod) 17
  else if bitRange dod 20 then true :: true :: true :: false :: natToBits (toU dod) 20
  else true :: true :: true :: true :: natToBits (toU dod) 64

/-- The delta-of-delta decoder of `xorIterator.Next`. -/
def readDod (bits : Bits) : Option (Int × Bits) :=
  match readPrefix 4 bits with
  | none => none
  | some (0, r) => some (0, r)
  | some (1, r) => readSigned 14 r
  | some (2, r) => readSigned 17 r
  | some (3, r) => readSigned 20 r
  | some (_, r) =>
    match readBits 64 r with
    | none => none
    | some (b, r') => some (toI b, r')

/-- `xorAppender.Append` when the chunk already holds `num` samples: emitted bits and new state. -/
def encSample (num : Nat) (a : St) (t : Int) (v : Nat) : Bits × St :=
  match num with
  | 0 => (putVarint t ++ natToBits v 64, { a with t := t, v := v, tDelta := 0 })
  | 1 =>
    let td := toU (t - a.t)
    let w := xorWrite (v ^^^ a.v) a.leading a.trailing
    (putUvarint td ++ w.1, ⟨t, v, td, w.2.1, w.2.2⟩)
  | _ + 2 =>
    let td := toU (t - a.t)
    let dod := toI ((td + two64 - a.tDelta) % two64)
    let w := xorWrite (v ^^^ a.v) a.leading a.trailing
    (dodBits dod ++ w.1, ⟨t, v, td, w.2.1, w.2.2⟩)

/-- `xorIterator.Next` when `numRead` samples were read: new state and remaining bits; `none` = error. -/
def decSample (numRead : Nat) (d : St) (bits : Bits) : Option (St × Bits) :=
  match numRead with
  | 0 =>
    match readVarint true bits with
    | none => none
    | some (t, r) =>
      match readBits 64 r with
      | none => none
      | some (v, r') => some ({ d with t := t, v := v }, r')
  | 1 =>
    match readUvarint true bits with
    | none => none
    | some (td, r) =>
      let t := toI ((toU d.t + td) % two64)
      match xorRead d.v d.leading d.trailing r with
      | none => none
      | some (v, l, tr, r') => some (⟨t, v, td, l, tr⟩, r')
  | _ + 2 =>
    match readDod bits with
    | none => none
    | some (dod, r) =>
      let td := (d.tDelta + toU dod) % two64
      let t := toI ((toU d.t + td) % two64)
      match xorRead d.v d.leading d.trailing r with
      | none => none
      | some (v, l, tr, r') => some (⟨t, v, td, l, tr⟩, r')

abbrev Sample := Int × Nat

/-- Bits of a sample sequence appended to a chunk holding `num` samples with appender state `a`. -/
def encodeFrom (num : Nat) (a : St) : List Sample → Bits
  | [] => []
  | (t, v) :: ss =>
    let r := encSample num a t v
    r.1 ++ encodeFrom (num + 1) r.2 ss

/-- Appender state after appending a sample sequence. -/
def encState (num : Nat) (a : St) : List Sample → St
  | [] => a
  | (t, v) :: ss => encState (num + 1) (encSample num a t v).2 ss

def encode (ss : List Sample) : Bits := encodeFrom 0 encInit ss

/-- `chunk.Bytes()`: 2-byte big-endian sample count, then the packed stream. -/
def chunkBytes (num : Nat) (bits : Bits) : List Nat := (num / 256 % 256) :: (num % 256) :: toBytes bits

/-- Iterate `n` further samples: the decoded samples, the final state, the rest, and `ok` (no error). -/
def decodeFrom : Nat → Nat → St → Bits → List Sample × St × Bits × Bool
  | 0, _, d, bits => ([], d, bits, true)
  | n + 1, k, d, bits =>
    match decSample k d bits with
    | none => ([], d, bits, false)
    | some (d', rest) =>
      let r := decodeFrom n (k + 1) d' rest
      ((d'.t, d'.v) :: r.1, r.2)

/-- Read a chunk's bytes with a fresh iterator until `Next` returns `ValNone`. -/
def decodeChunk (bytes : List Nat) : List Sample × Bool :=
  match bytes with
  | h :: l :: rest =>
    let r := decodeFrom (h * 256 + l) 0 decInit (fromBytes rest)
    (r.1, r.2.2.2)
  | _ => ([], false)

/-! ### Iterator (`Next` / `Seek` / `At`) -/

structure Iter where
  numTotal : Nat
  numRead : Nat
  st : St
  bits : Bits
  err : Bool
deriving Repr

/-- `chunk.Iterator(nil)` on the given chunk bytes. -/
def iterNew (bytes : List Nat) : Iter :=
  match bytes with
  | h :: l :: rest => ⟨h * 256 + l, 0, decInit, fromBytes rest, false⟩
  | _ => ⟨0, 0, decInit, [], true⟩

/-- `Next()`: `true` = `ValFloat`. -/
def iterNext (it : Iter) : Iter × Bool :=
  if it.err ∨ it.numRead = it.numTotal then (it, false)
  else match decSample it.numRead it.st it.bits with
    | none => ({ it with err := true }, false)
    | some (d, rest) => ({ it with numRead := it.numRead + 1, st := d, bits := rest }, true)

/-- The `for t > it.t || it.numRead == 0 { if it.Next() == ValNone { return ValNone } }` loop of `Seek`,
    with fuel (each round consumes a sample, so `numTotal + 1` rounds suffice). -/
def seekLoop : Nat → Iter → Int → Iter × Bool
  | 0, it, _ => (it, false)
  | f + 1, it, t =>
    if t > it.st.t ∨ it.numRead = 0 then
      match iterNext it with
      | (it', false) => (it', false)
      | (it', true) => seekLoop f it' t
    else (it, true)

def iterSeek (it : Iter) (t : Int) : Iter × Bool :=
  if it.err then (it, false) else seekLoop (it.numTotal + 2) it t

/-! ### Chunk object with an attached appender (`FromData` + `Appender()`) -/

/-- The chunk's bit stream is kept reversed (`rbits`) so that appending is cheap when executed. -/
structure Chunk where
  num : Nat
  rbits : Bits
  app : St
deriving Repr

def Chunk.empty : Chunk := ⟨0, [], encInit⟩

def Chunk.bits (c : Chunk) : Bits := c.rbits.reverse

def Chunk.bytes (c : Chunk) : List Nat := chunkBytes c.num c.bits

inductive Err | panic
deriving Repr, DecidableEq

/-- `app.Append(0, t, v)`; Go panics with "chunk capacity exceeded" at 65535 samples. -/
def Chunk.append (c : Chunk) (t : Int) (v : Nat) : Except Err Chunk :=
  if c.num = 65535 then .error .panic
  else
    let r := encSample c.num c.app t v
    .ok ⟨c.num + 1, r.1.reverse ++ c.rbits, r.2⟩

/-- Append a sequence through the chunk's appender. -/
def Chunk.appendAll (c : Chunk) : List Sample → Except Err Chunk
  | [] => .ok c
  | (t, v) :: ss =>
    match c.append t v with
    | .error e => .error e
    | .ok c' => c'.appendAll ss

/--
  `chunkenc.FromData(EncXOR, bytes)` followed by `Appender()`: the appender state is rebuilt by iterating.
  `fixed = false` is the code as it stands (F11): `bstream.count` stays 0, so the next write starts a fresh
  byte — the stream is implicitly zero-padded to a byte boundary. `fixed = true` is the repaired code
  (`c.b.count = it.br.valid`): the unread bits of the last byte are free for writing again.
  `none` = `Appender()` returned an error.
-/
def reopenG (fixed : Bool) (bytes : List Nat) : Option Chunk :=
  match bytes with
  | [h, l] => some ⟨h * 256 + l, [], encInit⟩
  | h :: l :: rest =>
    let num := h * 256 + l
    let all := fromBytes rest
    let r := decodeFrom num 0 decInit all
    if r.2.2.2 then
      let valid := r.2.2.1.length
      some ⟨num, (if fixed then all.take (all.length - valid) else all).reverse, r.2.1⟩
    else none
  | _ => none

/-- Whether /repo's `XORChunk.Appender()` restores the bit offset (`c.b.count = it.br.valid`, fix for F11).
    The suite model follows the tree: flip to `true` together with the `fix:` commit in /repo. -/
def repoHasF11Fix : Bool := true

def reopen (bytes : List Nat) : Option Chunk := reopenG repoHasF11Fix bytes

end Prom.ChunkXor
