import PromModel.Tsdb.Merge
import PromModel.Tsdb.Intervals
/-
  Model of block population (property C07): `tsdb/compact.go` `LeveledCompactor.Compact / Write / write`,
  `DefaultBlockPopulator.PopulateBlock`, and of the per-block input it reads through
  `tsdb/querier.go` `blockBaseSeriesSet.Next` / `populateWithDelGenericSeriesIterator.next` /
  `populateWithDelChunkSeriesIterator.Next` / `populateCurrForSingleChunk`.

  * A block (or a head range seen through `RangeHead`) is `(mint, maxt, label-sorted series)`, a series is
    `(labels, chunk metas with their samples in index order, tombstone intervals as `tombstones.Get`
    returns them)`; a chunk is C19's `(mint, maxt, samples)` — the *meta* range, which for the open head
    chunk is `(minTime, MaxInt64)`.
  * `popSeries` — `blockBaseSeriesSet.Next` for one postings entry: the prefilter (chunk entirely before
    `mint`, entirely after `maxt`, or `IsSubrange` of the tombstones — ONE interval holding both ends),
    `trimFront`/`trimBack` computed over the kept chunks only and turned into two extra intervals through
    `Intervals.Add` (C20's model), a series without kept chunks is not yielded at all.
  * `popChunk` — one chunk meta: the intervals that `OverlapsClosedInterval` the meta are re-`Add`ed into
    `bufIter.Intervals`; none → the chunk is handed on untouched (same meta, same bytes); otherwise the
    chunk is re-encoded from what `DeletedIterator.Next` (`drainS`, C20's `skipTo` loop) lets through:
    nothing → no chunk, else `(first t, last t, survivors)`.
    There is no "chunk outside of compacted range" error in this version of the code: trimming is done
    only through those two intervals.
    This single-chunk re-encode (`populateCurrForSingleChunk`) appends with `appendOnly = true`: a native
    histogram the appender cannot take into the same chunk (`Merge.histNewChunk`) would be an ERROR, not a
    cut.  The survivors are a sub-sequence of ONE valid chunk (counts non-decreasing, one schema, stale
    markers only as a suffix), for which `histNewChunk` is false on every adjacent pair, so the model
    keeps the single `Chunk.ofSamples`.
  * re-encoding of OVERLAPPING chunks of several blocks goes through C19's `compactAll` →
    `Merge.encodeChunks` = `seriesToChunkEncoder`, which DOES cut: on a change of sample type, after 120
    samples, and when the (float-)histogram appender hands back a new chunk (`Merge.histNewChunk`: counter
    reset, used bucket gone, schema change, stale → live, gauge ↔ counter); the new chunk's `mint` is that
    sample's timestamp (`Prom.C19.reencode_chunk_meta_matches_samples`).  `index.Writer.AddSeries`
    (`chunksAccepted`) refuses the series otherwise.
  * `populate` — `PopulateBlock`: one `NewBlockChunkSeriesSet(… meta.MinTime, meta.MaxTime-1, false)` per
    block, `set = sets[0]` for one block, else `NewMergeChunkSeriesSet(sets, 0, mergeFunc)` (C19's `MSet`
    over Go's `container/heap`); a label set present in one block only by-passes `mergeFunc`
    (`genericMergeSeriesSet.At`), otherwise `mergeFunc` (the compacting merger `compactAll` by default —
    `PopulateBlock`'s `overlapping` flag only feeds a metric and a log line —, or the concatenating merger
    when the compactor was built with it: `concatIterAll`, the step-by-step transcription of
    `concatenatingChunkIterator.Next`, equal to C19's `concatAll` = `flatten` by `concatIterAll_eq`); series whose chunk iterator yields nothing are skipped;
    `index.Writer.AddSeries` rejects a label set that is not above the previous one and chunks that are
    not strictly ordered / disjoint (so an unsorted result of the concatenating merger is an error, not a
    block); `meta.Stats` is accumulated series by series, histogram/float split by the chunk's encoding.
  * `compactRange` — `CompactBlockMetas` min/max; `Compact` returns no block when `NumSamples = 0`.
-/
namespace Prom.BlockPopulate
open Prom.Merge
open Prom.Intervals (Interval Intervals)

structure Series where
  labels : Labels
  chunks : List Chunk
  tombs : Intervals
deriving Repr, Inhabited

structure Block where
  mint : Int
  maxt : Int
  series : List Series
deriving Repr, Inhabited

inductive Err | err | panic
deriving Repr, DecidableEq, Inhabited

/-- a chunk series as handed from set to merger to writer -/
abbrev CS := Labels × List Chunk

/-- `chunks.Meta.OverlapsClosedInterval` -/
def overlapsClosed (c : Chunk) (a b : Int) : Bool := decide (c.mint ≤ b) && decide (a ≤ c.maxt)

/-- the prefilter loop of `blockBaseSeriesSet.Next` -/
def keepChunk (mint maxt : Int) (ivs : Intervals) (c : Chunk) : Bool :=
  !decide (c.maxt < mint) && !decide (c.mint > maxt) && !(Interval.isSubrange ⟨c.mint, c.maxt⟩ ivs)

def liftAdd (r : Except Intervals.Err Intervals) : Except Err Intervals :=
  match r with
  | .ok x => .ok x
  | .error _ => .error .panic

/-- `for _, interval := range p.intervals { if overlaps { buf = buf.Add(interval) } }` -/
def addOverlapping (c : Chunk) : Intervals → Intervals → Except Err Intervals
  | [], acc => .ok acc
  | i :: r, acc =>
    if overlapsClosed c i.mint i.maxt then
      match Intervals.add acc i with
      | .ok acc' => addOverlapping c r acc'
      | .error _ => .error .panic
    else addOverlapping c r acc

/-- `DeletedIterator.Next` until `ValNone`, over samples (C20's `drain` is the same loop over timestamps) -/
def drainS : List Sample → Intervals → List Sample
  | [], _ => []
  | s :: r, ivs =>
    match Intervals.skipTo s.t ivs with
    | (true, ivs') => drainS r ivs'
    | (false, ivs') => s :: drainS r ivs'

/-- one chunk meta through `populateWithDelChunkSeriesIterator`: `none` = no chunk comes out -/
def popChunk (ivs : Intervals) (c : Chunk) : Except Err (Option Chunk) :=
  match addOverlapping c ivs [] with
  | .error e => .error e
  | .ok [] => .ok (some c)
  | .ok (b :: buf) =>
    match drainS c.samples (b :: buf) with
    | [] => .ok none
    | s :: r => .ok (some (Chunk.ofSamples (s :: r)))

def popChunks (ivs : Intervals) : List Chunk → Except Err (List Chunk)
  | [] => .ok []
  | c :: r =>
    match popChunk ivs c with
    | .error e => .error e
    | .ok oc =>
      match popChunks ivs r with
      | .error e => .error e
      | .ok cs => .ok (oc.toList ++ cs)

/-- the intervals of a series after `trimFront` / `trimBack` -/
def trimIntervals (mint maxt : Int) (tombs : Intervals) (kept : List Chunk) : Except Err Intervals :=
  let trimFront := kept.any fun c => decide (c.mint < mint)
  let trimBack := kept.any fun c => decide (c.maxt > maxt)
  match (if trimFront then liftAdd (Intervals.add tombs ⟨Intervals.MinI64, mint - 1⟩) else .ok tombs) with
  | .error e => .error e
  | .ok i1 => if trimBack then liftAdd (Intervals.add i1 ⟨maxt + 1, Intervals.MaxI64⟩) else .ok i1

/-- `blockBaseSeriesSet.Next` for one postings entry + the chunk iterator of the yielded entry.
    `none` = the series is not yielded. -/
def popSeries (mint maxt : Int) (s : Series) : Except Err (Option CS) :=
  let kept := s.chunks.filter (keepChunk mint maxt s.tombs)
  if kept.isEmpty then .ok none else
  match trimIntervals mint maxt s.tombs kept with
  | .error e => .error e
  | .ok ivs =>
    match popChunks ivs kept with
    | .error e => .error e
    | .ok cs => .ok (some (s.labels, cs))

/-- all series one `NewBlockChunkSeriesSet(…, mint, maxt, false)` yields -/
def blockSet (mint maxt : Int) : List Series → Except Err (List CS)
  | [] => .ok []
  | s :: r =>
    match popSeries mint maxt s with
    | .error e => .error e
    | .ok o =>
      match blockSet mint maxt r with
      | .error e => .error e
      | .ok rest => .ok (o.toList ++ rest)

def blockSets (mint maxt : Int) : List Block → Except Err (List (List CS))
  | [] => .ok []
  | b :: r =>
    match blockSet mint maxt b.series with
    | .error e => .error e
    | .ok s =>
      match blockSets mint maxt r with
      | .error e => .error e
      | .ok rest => .ok (s :: rest)

inductive Merger | compact | concat
deriving Repr, DecidableEq, Inhabited

/-- `concatenatingChunkIterator.Next` (`storage/merge.go`).  The state is `iterators[idx:]`, each input
    iterator as the list of chunks it still holds: `[]` = `idx >= len(iterators)` → `false`;
    the current input has a chunk → `curr` = that chunk, `true`; the current input is exhausted (its `Err()`
    is nil: a failing block reader is an error of `blockSets` before the merge function is ever called) →
    `idx++; return c.Next()`.  The recursion walks over ANY number of exhausted inputs — an input series
    that yields no chunk at all (every sample deleted by partial tombstones) in first, middle or last
    position, or several of them in a row, is stepped over. -/
def concatNext : List (List Chunk) → Option (Chunk × List (List Chunk))
  | [] => none
  | (c :: cs) :: r => some (c, cs :: r)
  | [] :: r => concatNext r

/-- `for it.Next() { … it.At() … }` over the concatenating iterator -/
def concatDrain : Nat → List (List Chunk) → List Chunk
  | 0, _ => []
  | fuel + 1, its =>
    match concatNext its with
    | none => []
    | some (c, its') => c :: concatDrain fuel its'

/-- all chunks `NewConcatenatingChunkSeriesMerger` hands out for the given input series (fuel: one step
    per chunk and one for the final `false`; never exhausted — `Prom.BlockPopulate.concatIterAll_eq`) -/
def concatIterAll (series : List (List Chunk)) : List Chunk :=
  concatDrain ((series.foldl (fun n cs => n + cs.length) 0) + 1) series

/-- `genericMergeSeriesSet.At` + expansion of the chunk iterator -/
def mergeGroup (m : Merger) (g : List CS) : Except Err (Option CS) :=
  match g with
  | [] => .ok none
  | [x] => .ok (some x)
  | x :: _ =>
    match m with
    | .concat => .ok (some (x.1, concatIterAll (g.map (·.2))))
    | .compact =>
      match compactAll (g.map (·.2)) with
      | (cs, .fin) => .ok (some (x.1, cs))
      | (_, .err) => .error .err
      | (_, _) => .error .panic

def mergeGroups (m : Merger) : List (List CS) → Except Err (List CS)
  | [] => .ok []
  | g :: r =>
    match mergeGroup m g with
    | .error e => .error e
    | .ok o =>
      match mergeGroups m r with
      | .error e => .error e
      | .ok rest => .ok (o.toList ++ rest)

/-- label-sorted k-way merge of the block sets: the groups of equal-label series, in output order -/
def groupSets (sets : List (List CS)) : List (List CS) × Bool :=
  MSet.drainAux (·.1) ((sets.foldl (fun n s => n + s.length) 0) + 1)
    (MSet.new (·.1) (sets.zipIdx.map fun (s, i) => SetIt.ofList i s) 0) []

structure Stats where
  numSeries : Nat
  numChunks : Nat
  numSamples : Nat
  numFloat : Nat
  numHist : Nat
deriving Repr, DecidableEq, Inhabited

/-- the encoding of a chunk, as far as `meta.Stats` looks at it -/
def chunkIsHist (c : Chunk) : Bool :=
  match c.samples with
  | s :: _ => s.kind != .float
  | [] => false

/-- the `for _, chk := range chks` loop -/
def addChunkStats (st : Stats) : List Chunk → Stats
  | [] => st
  | c :: r =>
    let n := c.samples.length
    addChunkStats { st with numSamples := st.numSamples + n,
                            numFloat := if chunkIsHist c then st.numFloat else st.numFloat + n,
                            numHist := if chunkIsHist c then st.numHist + n else st.numHist } r

/-- the chunk loop of `index.Writer.AddSeries`: every chunk must start after the previous one ended
    ("chunk minT … is not higher than previous chunk maxT …") and must not end before it starts -/
def chunksAccepted : Option Int → List Chunk → Bool
  | _, [] => true
  | prev, c :: r =>
    (match prev with | some p => decide (p < c.mint) | none => true) && decide (c.mint ≤ c.maxt) &&
      chunksAccepted (some c.maxt) r

/-- the `for set.Next()` loop: what is written, and `meta.Stats`. `last` = `index.Writer.lastSeries`
    (label sets must be strictly increasing: "out-of-order series added"). -/
def writeLoop : List CS → List CS → Stats → Labels → Except Err (List CS × Stats)
  | [], out, st, _ => .ok (out.reverse, st)
  | s :: r, out, st, last =>
    if s.2.isEmpty then writeLoop r out st last
    else if Labels.compare s.1 last != .gt then .error .err
    else if !chunksAccepted none s.2 then .error .err
    else
      let st1 := { st with numChunks := st.numChunks + s.2.length, numSeries := st.numSeries + 1 }
      writeLoop r (s :: out) (addChunkStats st1 s.2) s.1

structure Output where
  series : List CS
  stats : Stats
deriving Repr, Inhabited

/-- `PopulateBlock` for output range `[mint, maxt]` (= `[meta.MinTime, meta.MaxTime-1]`) -/
def populate (m : Merger) (blocks : List Block) (mint maxt : Int) : Except Err Output :=
  if blocks.isEmpty then .error .err else
  match blockSets mint maxt blocks with
  | .error e => .error e
  | .ok sets =>
    match groupSets sets with
    | (_, true) => .error .err
    | (groups, false) =>
      match mergeGroups m groups with
      | .error e => .error e
      | .ok merged =>
        match writeLoop merged [] ⟨0, 0, 0, 0, 0⟩ [] with
        | .error e => .error e
        | .ok (out, st) => .ok ⟨out, st⟩

/-- `CompactBlockMetas`: the output meta range -/
def compactRange : List Block → Int × Int
  | [] => (0, 0)
  | b :: r => r.foldl (fun (acc : Int × Int) x => (if x.mint < acc.1 then x.mint else acc.1, if x.maxt > acc.2 then x.maxt else acc.2)) (b.mint, b.maxt)

inductive Result
  | block (o : Output)
  | empty
  | err
  | panic
deriving Repr, Inhabited

def toResult : Except Err Output → Result
  | .ok o => if o.stats.numSamples = 0 then .empty else .block o
  | .error .err => .err
  | .error .panic => .panic

/-- `LeveledCompactor.Compact(dest, dirs, nil)` as far as the contents of the new block go -/
def compact (m : Merger) (blocks : List Block) : Result :=
  let (mint, maxt) := compactRange blocks
  toResult (populate m blocks mint (maxt - 1))

/-- `LeveledCompactor.Write(dest, b, mint, maxt, nil)` -/
def write (b : Block) (mint maxt : Int) : Result :=
  toResult (populate .compact [b] mint (maxt - 1))

/-- the samples a querier over the written series sees -/
def csSamples (s : CS) : List Sample := s.2.flatMap (·.samples)

end Prom.BlockPopulate
