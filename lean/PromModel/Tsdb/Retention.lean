/-
  Block retention, transcribed from tsdb/db.go:
    deletableBlocks, BeyondTimeRetention, BeyondSizeRetention, the parent marking of reloadBlocks.

  A block is identified by `id` (it stands for the ULID; the correspondence suite uses the index of the
  block in the generated layout).  `mint/maxt/size` are int64 in Go; they are `Int` here and every place
  where the Go code adds or subtracts int64 values goes through `wrap64`, so the model agrees with the
  code also where the arithmetic overflows (the theorems then carry explicit range hypotheses).

  The sort: `slices.SortFunc` is pdqsort, which for n ≤ 12 elements is a plain insertion sort
  (`insertionSortCmpFunc`) and therefore *stable*: blocks with equal MaxTime keep their input order
  (= directory order = ULID order in `reloadBlocks`).  `sortDesc` is that stable insertion sort.  For
  more than 12 blocks the order among equal MaxTime is whatever pdqsort produces; theorems that do not
  depend on the tie order are therefore stated for *every* descending arrangement (`SortedDesc`).

  The percentage limit `int64(float64(diskSize) * maxPercentage / 100)` is modelled with exact rationals
  and an explicit round-to-nearest-even to binary64 after each of the three float operations; the final
  float→int64 conversion truncates, and an out-of-range value yields MinInt64 (amd64 `CVTTSD2SQ`).
  Core Lean only.
-/
namespace Prom.Retention

/-! ## int64 -/

def two63 : Int := 9223372036854775808
def two64 : Int := 18446744073709551616

/-- `x` is representable as int64. -/
def I64 (x : Int) : Prop := -two63 ≤ x ∧ x < two63

instance (x : Int) : Decidable (I64 x) := by unfold I64; exact inferInstance

/-- Go's int64 wrap-around. -/
def wrap64 (x : Int) : Int := (x + two63) % two64 - two63

/-! ## binary64 arithmetic on non-negative rationals (only what the percentage limit needs) -/

def pow2 (e : Int) : Rat :=
  if e ≥ 0 then ((2 ^ e.toNat : Nat) : Rat) else 1 / ((2 ^ (-e).toNat : Nat) : Rat)

/-- ⌊log₂ q⌋ for q > 0. -/
def ilog2 (q : Rat) : Int :=
  let e0 : Int := (q.num.toNat.log2 : Int) - (q.den.log2 : Int)
  if pow2 e0 ≤ q then e0 else e0 - 1

/-- Round a non-negative rational to the nearest integer, ties to even. -/
def roundEven (q : Rat) : Int :=
  let f := q.floor
  let r := q - (f : Rat)
  if r < 1 / 2 then f else if r > 1 / 2 then f + 1 else if f % 2 = 0 then f else f + 1

/-- Round a non-negative rational to binary64 (round-to-nearest-even, gradual underflow);
    `none` = +Inf. -/
def rne (q : Rat) : Option Rat :=
  if q ≤ 0 then some 0 else
  let e := max (ilog2 q - 52) (-1074)
  let v := (roundEven (q / pow2 e) : Rat) * pow2 e
  if v ≥ pow2 1024 then none else some v

/-- `opts.MaxPercentage` (a float64). -/
inductive Pct where
  | nan | posInf | negInf
  | fin (q : Rat)
deriving Repr

/-- Go: `maxPercentage > 0`. -/
def Pct.positive : Pct → Bool
  | .fin q => decide (q > 0)
  | .posInf => true
  | _ => false

/-- Decode a float64 bit pattern. -/
def Pct.ofBits (b : Nat) : Pct :=
  let sign : Nat := b / 2 ^ 63 % 2
  let ex : Nat := b / 2 ^ 52 % 2 ^ 11
  let mant : Nat := b % 2 ^ 52
  if ex = 2047 then (if mant ≠ 0 then .nan else if sign = 1 then .negInf else .posInf)
  else
    let m1 : Nat := 2 ^ 52 + mant
    let mag : Rat := if ex = 0 then (mant : Rat) * pow2 (-1074) else (m1 : Rat) * pow2 ((ex : Int) - 1075)
    .fin (if sign = 1 then -mag else mag)

/-- float64 → int64 conversion of a non-negative value (`none` = +Inf): truncation; out of range gives
    MinInt64 on amd64. -/
def f64ToI64 : Option Rat → Int
  | none => -two63
  | some z => if z.floor ≥ two63 then -two63 else z.floor

/-- `int64(float64(diskSize) * maxPercentage / 100)` for `diskSize > 0`, `maxPercentage > 0`. -/
def pctBytes (diskSize : Nat) : Pct → Int
  | .fin p =>
    match rne (diskSize : Rat) with
    | none => -two63
    | some x =>
      match rne (x * p) with
      | none => -two63
      | some y => f64ToI64 (rne (y / 100))
  | _ => -two63   -- +Inf * x / 100 = +Inf

/-! ## blocks and settings -/

structure Blk where
  id : Nat
  mint : Int
  maxt : Int
  /-- `Block.Size()` -/
  size : Int
  /-- `meta.Compaction.Deletable` -/
  deletable : Bool
  /-- ids named in `meta.Compaction.Parents` (they need not exist) -/
  parents : List Nat
deriving DecidableEq, Repr

structure Settings where
  /-- `opts.RetentionDuration` -/
  retention : Int
  /-- `opts.MaxBytes` -/
  maxBytes : Int
  /-- `opts.MaxPercentage` -/
  pct : Pct
  /-- result of `db.fsSizeFunc(db.dir)` (uint64) -/
  fsSize : Nat
  /-- `db.Head().Size()` = WAL + WBL + head chunk files -/
  headSize : Int
deriving Repr

/-! ## the sort of `deletableBlocks` -/

/-- Insert `b` into a descending list *before* the first element whose MaxTime is not larger. -/
def insertDesc (b : Blk) : List Blk → List Blk
  | [] => [b]
  | x :: xs => if x.maxt ≤ b.maxt then b :: x :: xs else x :: insertDesc b xs

/-- Stable sort by MaxTime, newest first (what `slices.SortFunc` does for up to 12 blocks). -/
def sortDesc : List Blk → List Blk
  | [] => []
  | b :: bs => insertDesc b (sortDesc bs)

/-- Newest first by MaxTime. -/
def SortedDesc (bs : List Blk) : Prop := bs.Pairwise (fun a b => b.maxt ≤ a.maxt)

/-! ## BeyondTimeRetention -/

/-- The loop `for i, block := range blocks { if i > 0 && blocks[0].MaxTime-block.MaxTime >= R {…blocks[i:]…} }`
    over `blocks[1:]`. -/
def timeCut (R newest : Int) : List Blk → List Blk
  | [] => []
  | b :: rest => if wrap64 (newest - b.maxt) ≥ R then b :: rest else timeCut R newest rest

/-- `BeyondTimeRetention(db, blocks)` — `blocks` already sorted by the caller. -/
def beyondTime (R : Int) : List Blk → List Blk
  | [] => []
  | b0 :: rest => if R = 0 then [] else timeCut R b0.maxt rest

/-! ## BeyondSizeRetention -/

/-- The effective byte limit: percentage prevails when positive and the filesystem size is known. -/
def effMaxBytes (s : Settings) : Int :=
  if s.pct.positive then
    (if s.fsSize = 0 then s.maxBytes else pctBytes s.fsSize s.pct)
  else s.maxBytes

/-- `for i, block := range blocks { blocksSize += block.Size(); if blocksSize > maxBytes {…blocks[i:]…} }` -/
def sizeCut (limit acc : Int) : List Blk → List Blk
  | [] => []
  | b :: rest =>
    let acc' := wrap64 (acc + b.size)
    if acc' > limit then b :: rest else sizeCut limit acc' rest

/-- `BeyondSizeRetention(db, blocks)` — `blocks` already sorted by the caller. -/
def beyondSize (s : Settings) (blocks : List Blk) : List Blk :=
  if effMaxBytes s ≤ 0 then [] else sizeCut (effMaxBytes s) s.headSize blocks

/-! ## deletableBlocks and reloadBlocks -/

/-- The blocks `deletableBlocks` selects (as blocks; the Go code returns the set of their ULIDs). -/
def deletableSel (s : Settings) (blocks : List Blk) : List Blk :=
  let sorted := sortDesc blocks
  sorted.filter (·.deletable) ++ beyondTime s.retention sorted ++ beyondSize s sorted

/-- `deletableBlocks(db, blocks)`: the ULID set (as a list of ids, possibly with repetitions). -/
def deletableBlocks (s : Settings) (blocks : List Blk) : List Nat :=
  (deletableSel s blocks).map (·.id)

/-- Keys of the `deletable` map built by `reloadBlocks`: the retention/flag selection plus every ULID
    named as a compaction parent by *any* loadable block. -/
def reloadDeletable (s : Settings) (loadable : List Blk) : List Nat :=
  deletableBlocks s loadable ++ loadable.flatMap (·.parents)

/-- A database as far as retention is concerned.  `head` stands for all head data; no function below
    has a way to change it. -/
structure Db (H : Type) where
  blocks : List Blk
  head : H

/-- `reloadBlocks`: returns the new DB (blocks that stay loaded, in directory order) and the ids of the
    block directories that were removed. -/
def reload {H : Type} (s : Settings) (db : Db H) : Db H × List Nat :=
  let del := reloadDeletable s db.blocks
  ({ db with blocks := db.blocks.filter (fun b => !del.contains b.id) },
   (db.blocks.filter (fun b => del.contains b.id)).map (·.id))

end Prom.Retention
