import PromModel.Prelude.Line
/-
  Layout-level model of native-histogram chunks (properties C11 and C12):
  `tsdb/chunkenc/histogram_meta.go`, `histogram.go`, `float_histogram.go` and the head-level chunk
  cutting of `tsdb/head_append.go` (`appendHistogram`/`histogramsAppendPreprocessor`).

  * `idxs`              — the bucket indices `bucketIterator` yields for a span list
  * `MS`                — the closure `addBucket` (run-length building of merged spans)
  * `expandBoth`        — `expandSpansBothWays` (gauge histograms)
  * `expandCounter`     — `expandIntSpansAndBuckets` / `expandFloatSpansAndBuckets`
  * `insert`            — `insert[BV]` (delta and absolute variants, incl. its panic)
  * `adjustForInserts`  — same name
  * `Chunk.appendable` / `Chunk.appendableGauge` / `appendHist` — the appender decisions and the four
    outcomes of `AppendHistogram`/`AppendFloatHistogram` (append | recode chunk forward | recode the
    incoming histogram backward | cut a new chunk), the counter-reset header of new chunks
  * `Chunk.read`, `hintOf` — what the iterator hands out (`counterResetHint`, stale samples)
  * `Series`            — `memSeries.appendHistogram`: head-level cuts are an oracle input (`cut`), since
    bytes are not modelled at this level.

  Numbers: bucket indices/offsets/deltas are `Int` (the generator keeps them far inside int32/int64,
  where Go's arithmetic coincides).  Floats (sum, zero threshold, custom bounds, and count/zero
  count/bucket values of the float flavour) travel as bit patterns (`Nat` < 2^64); comparisons on
  them are IEEE comparisons on the bit patterns (`fLt`, `fEq`).  One `Hist` structure carries both
  flavours: for `float = false` `count`/`zcount` are integers and `pB`/`nB` deltas; for
  `float = true` they are float bits and absolute bucket values (as bits).
-/
namespace Prom.Hist

inductive Err | panic
deriving DecidableEq, Repr, Inhabited

/-- `histogram.Span{Offset int32, Length uint32}` -/
structure Span where
  offset : Int
  length : Nat
deriving DecidableEq, Repr, Inhabited

/-- `chunkenc.Insert` -/
structure Insert where
  pos : Nat
  num : Nat
  bucketIdx : Int := 0
deriving DecidableEq, Repr, Inhabited

/-! ## bucketIterator -/

/-- `start, start+1, …` (`n` of them) -/
def runIdx (start : Int) : Nat → List Int
  | 0 => []
  | n + 1 => start :: runIdx (start + 1) n

/-- The indices `bucketIterator.Next` yields, `cur` = the index right after the last bucket so far. -/
def idxsFrom (cur : Int) : List Span → List Int
  | [] => []
  | s :: r => runIdx (cur + s.offset) s.length ++ idxsFrom (cur + s.offset + (s.length : Int)) r

def idxs (s : List Span) : List Int := idxsFrom 0 s

/-- `countSpans` -/
def countSpans (s : List Span) : Nat := (s.map (·.length)).sum

/-! ## addBucket -/

/-- `mergedSpans` (newest span first) and `lastBucket`. -/
structure MS where
  rev : List Span
  last : Int
deriving DecidableEq, Repr, Inhabited

def MS.empty : MS := ⟨[], 0⟩

/-- the closure `addBucket` of `expandSpansBothWays` / `adjustForInserts` -/
def MS.add (m : MS) (b : Int) : MS :=
  let offset := b - m.last - 1
  match m.rev with
  | s :: r => if offset = 0 then ⟨{ s with length := s.length + 1 } :: r, b⟩ else ⟨⟨offset, 1⟩ :: s :: r, b⟩
  | [] => ⟨[⟨offset + 1, 1⟩], b⟩

def MS.spans (m : MS) : List Span := m.rev.reverse

/-- spans built by calling `addBucket` on each index in turn -/
def spansOf (l : List Int) : List Span := (l.foldl MS.add MS.empty).spans

/-! ## expandSpansBothWays -/

/-- Loop state: finished inserts (newest first), merged spans, `fInter`/`bInter`. -/
structure BW where
  f : List Insert
  b : List Insert
  m : MS
  fPos : Nat
  fNum : Nat
  bPos : Nat
  bNum : Nat
deriving Repr, Inhabited

def BW.init : BW := ⟨[], [], MS.empty, 0, 0, 0, 0⟩

def BW.flushF (s : BW) : BW :=
  if s.fNum > 0 then { s with f := ⟨s.fPos, s.fNum, 0⟩ :: s.f, fNum := 0 } else s

def BW.flushB (s : BW) : BW :=
  if s.bNum > 0 then { s with b := ⟨s.bPos, s.bNum, 0⟩ :: s.b, bNum := 0 } else s

/-- the `for { switch … }` loop of `expandSpansBothWays` over the two index streams -/
def bothGo : List Int → List Int → BW → BW
  | av :: a, bv :: b, s =>
    if av = bv then
      let s := s.flushF.flushB
      bothGo a b { s with m := s.m.add av, fPos := s.fPos + 1, bPos := s.bPos + 1 }
    else if av < bv then
      let s := ({ s with bNum := s.bNum + 1 } : BW).flushF
      bothGo a (bv :: b) { s with m := s.m.add av, fPos := s.fPos + 1 }
    else
      let s := ({ s with fNum := s.fNum + 1 } : BW).flushB
      bothGo (av :: a) b { s with m := s.m.add bv, bPos := s.bPos + 1 }
  | av :: a, [], s => bothGo a [] { s with bNum := s.bNum + 1, m := s.m.add av }
  | [], bv :: b, s => bothGo [] b { s with fNum := s.fNum + 1, m := s.m.add bv }
  | [], [], s => s.flushF.flushB
termination_by a b => a.length + b.length
decreasing_by all_goals simp_wf <;> omega

/-- `expandSpansBothWays(a, b)` → (forward, backward, mergedSpans) -/
def expandBoth (a b : List Span) : List Insert × List Insert × List Span :=
  let s := bothGo (idxs a) (idxs b) BW.init
  (s.f.reverse, s.b.reverse, s.m.spans)

/-! ## float bit patterns -/

def staleBits : Nat := 0x7ff0000000000002

def fIsNaN (b : Nat) : Bool := decide (b % 2 ^ 63 > 0x7FF0000000000000)

/-- order-preserving key of a non-NaN float (−0 ↦ 0) -/
def fKey (b : Nat) : Int := if b ≥ 2 ^ 63 then -((b - 2 ^ 63 : Nat) : Int) else (b : Int)

def fLt (a b : Nat) : Bool := !fIsNaN a && !fIsNaN b && decide (fKey a < fKey b)
def fEq (a b : Nat) : Bool := !fIsNaN a && !fIsNaN b && decide (fKey a = fKey b)

/-- `x > y` on bucket values (int: absolute counts; float: bit patterns) -/
def vGt (float : Bool) (x y : Int) : Bool := if float then fLt y.toNat x.toNat else decide (x > y)
/-- `x == 0` -/
def vZero (float : Bool) (x : Int) : Bool := if float then fEq x.toNat 0 else decide (x = 0)
/-- `x < y` on count / zero count -/
def cLt (float : Bool) (x y : Nat) : Bool := if float then fLt x y else decide (x < y)

/-! ## expandIntSpansAndBuckets / expandFloatSpansAndBuckets -/

structure CW where
  aIns : List Insert
  bIns : List Insert
  aI : Insert
  bI : Insert
deriving Repr, Inhabited

def CW.init : CW := ⟨[], [], ⟨0, 0, 0⟩, ⟨0, 0, 0⟩⟩

/-- the closure `addInsert` -/
def addInsert (ins : List Insert) (i : Insert) (other : Int) : List Insert × Insert :=
  if i.num = 0 then (ins, { i with bucketIdx := other, num := 1 })
  else if i.bucketIdx + (i.num : Int) ≠ other then (i :: ins, { i with num := 1, bucketIdx := other })
  else (ins, { i with num := i.num + 1 })

/-- `advanceA` without the iterator/count part -/
def CW.advA (s : CW) : CW :=
  let s := if s.aI.num > 0 then { s with aIns := s.aI :: s.aIns, aI := { s.aI with num := 0 } } else s
  { s with aI := { s.aI with pos := s.aI.pos + 1 } }

def CW.advB (s : CW) : CW :=
  let s := if s.bI.num > 0 then { s with bIns := s.bI :: s.bIns, bI := { s.bI with num := 0 } } else s
  { s with bI := { s.bI with pos := s.bI.pos + 1 } }

def CW.addA (s : CW) (idx : Int) : CW :=
  let (ins, i) := addInsert s.aIns s.aI idx
  { s with aIns := ins, aI := i }

def CW.addB (s : CW) (idx : Int) : CW :=
  let (ins, i) := addInsert s.bIns s.bI idx
  { s with bIns := ins, bI := i }

def CW.finish (s : CW) : List Insert × List Insert :=
  ((if s.aI.num > 0 then s.aI :: s.aIns else s.aIns).reverse,
   (if s.bI.num > 0 then s.bI :: s.bIns else s.bIns).reverse)

/-- The loop over (bucket index, absolute count) pairs of both layouts; `none` = `ok == false`. -/
def expandGo (float : Bool) : List (Int × Int) → List (Int × Int) → CW → Option (List Insert × List Insert)
  | (ai, ac) :: a, (bi, bc) :: b, s =>
    if ai = bi then
      if vGt float ac bc then none else expandGo float a b s.advA.advB
    else if ai < bi then
      if vZero float ac then expandGo float a ((bi, bc) :: b) (s.addB ai).advA else none
    else expandGo float ((ai, ac) :: a) b (s.addA bi).advB
  | (ai, ac) :: a, [], s =>
    if vZero float ac then expandGo float a [] (s.addB ai).advA else none
  | [], (bi, _) :: b, s => expandGo float [] b (s.addA bi).advB
  | [], [], s => some s.finish
termination_by a b => a.length + b.length
decreasing_by all_goals simp_wf <;> omega

/-- running sums (absolute counts of delta-encoded buckets) -/
def prefixFrom (v : Int) : List Int → List Int
  | [] => []
  | d :: r => (v + d) :: prefixFrom (v + d) r

def prefixSums (l : List Int) : List Int := prefixFrom 0 l

/-- absolute bucket values of one side -/
def absVals (float : Bool) (bs : List Int) : List Int := if float then bs else prefixSums bs

/-- (index, absolute value) pairs; a bucket slice shorter than the spans need makes Go index out of
    range when it gets there — modelled as a panic up front (never generated: valid histograms have
    matching lengths). -/
def pairs (float : Bool) (spans : List Span) (bs : List Int) : Except Err (List (Int × Int)) :=
  let is := idxs spans
  if bs.length < is.length then .error .panic else .ok (is.zip (absVals float bs))

def expandCounter (float : Bool) (a b : List Span) (aB bB : List Int) :
    Except Err (Option (List Insert × List Insert)) := do
  let pa ← pairs float a aB
  let pb ← pairs float b bB
  pure (expandGo float pa pb CW.init)

/-! ## insert -/

/-- the inner `for ii < len(inserts) && i == inserts[ii].pos` loop: emitted values and the inserts left -/
def takeAt (deltas : Bool) (v : Int) (i : Nat) : Bool → List Insert → List Int × List Insert
  | first, x :: rest =>
    if x.pos = i then
      let r := takeAt deltas v i false rest
      ((if deltas && first then -v else 0) :: List.replicate (x.num - 1) 0 ++ r.1, r.2)
    else ([], x :: rest)
  | _, [] => ([], [])

/-- "Insert empty buckets at the end." `len` = `len(in)` -/
def leftover (deltas : Bool) (len : Nat) : Int → List Insert → Except Err (List Int)
  | _, [] => .ok []
  | v, x :: r =>
    if x.pos < len then .error .panic
    else match leftover deltas len 0 r with
      | .ok tl => .ok ((if deltas then -v else 0) :: List.replicate (x.num - 1) 0 ++ tl)
      | .error e => .error e

/-- the main loop of `insert`; `i` = position in `in`, `v` = the last value seen -/
def insertLoop (deltas : Bool) (len : Nat) : Nat → Int → List Int → List Insert → Except Err (List Int)
  | _, v, [], ins => leftover deltas len v ins
  | i, v, d :: rest, ins =>
    match ins with
    | [] => match insertLoop deltas len (i + 1) (v + d) rest [] with
      | .ok tl => .ok (d :: tl)
      | .error e => .error e
    | x :: _ =>
      if x.pos ≠ i then
        match insertLoop deltas len (i + 1) (v + d) rest ins with
        | .ok tl => .ok (d :: tl)
        | .error e => .error e
      else
        let r := takeAt deltas v i true ins
        match insertLoop deltas len (i + 1) (v + d) rest r.2 with
        | .ok tl => .ok (r.1 ++ (if deltas then d + v else d) :: tl)
        | .error e => .error e

/-- `insert(in, out, inserts, deltas)` with `len(out) = outLen` -/
def insert (deltas : Bool) (xs : List Int) (outLen : Nat) (ins : List Insert) : Except Err (List Int) :=
  match insertLoop deltas xs.length 0 0 xs ins with
  | .error e => .error e
  | .ok r => if r.length > outLen then .error .panic else .ok (r ++ List.replicate (outLen - r.length) 0)

/-! ## adjustForInserts -/

/-- the bucket indices the inserts stand for (`bucketIdx … bucketIdx+num-1`) -/
def insertIdxs (ins : List Insert) : List Int :=
  ins.flatMap fun x => runIdx x.bucketIdx x.num

/-- the two loops of `adjustForInserts`: take the insert index while it is smaller than the next
    bucket, else the bucket; then drain the inserts. (`consumeInsert` walks `insertIdxs`; every insert
    has `num ≥ 1`.) -/
def adjGo : List Int → List Int → MS → MS
  | b :: bs, i :: is, m => if i < b then adjGo (b :: bs) is (m.add i) else adjGo bs (i :: is) (m.add b)
  | b :: bs, [], m => adjGo bs [] (m.add b)
  | [], i :: is, m => adjGo [] is (m.add i)
  | [], [], m => m
termination_by a b => a.length + b.length
decreasing_by all_goals simp_wf <;> omega

def adjustForInserts (spans : List Span) (ins : List Insert) : List Span :=
  if ins.isEmpty then spans else (adjGo (idxs spans) (insertIdxs ins) MS.empty).spans

/-! ## histograms and chunks -/

/-- `histogram.CounterResetHint` (0,1,2,3) -/
inductive Hint | unknown | reset | notReset | gauge
deriving DecidableEq, Repr, Inhabited

/-- `chunkenc.CounterResetHeader` -/
inductive Hdr | unknown | notReset | reset | gauge
deriving DecidableEq, Repr, Inhabited

structure Hist where
  float : Bool
  hint : Hint
  schema : Int
  zt : Nat
  count : Nat
  zcount : Nat
  sum : Nat
  pSpans : List Span
  nSpans : List Span
  pB : List Int
  nB : List Int
  custom : List Nat
deriving DecidableEq, Repr, Inhabited

def Hist.stale (h : Hist) : Bool := h.sum = staleBits

/-- `&histogram.Histogram{Sum: h.Sum}` -/
def Hist.blank (float : Bool) (sum : Nat) : Hist :=
  { float, hint := .unknown, schema := 0, zt := 0, count := 0, zcount := 0, sum, pSpans := [], nSpans := [],
    pB := [], nB := [], custom := [] }

/-- one stored sample (layout lives in the chunk) -/
structure Stored where
  t : Int
  count : Nat
  zcount : Nat
  sum : Nat
  pB : List Int
  nB : List Int
deriving DecidableEq, Repr, Inhabited

structure Chunk where
  float : Bool
  hdr : Hdr
  schema : Int
  zt : Nat
  custom : List Nat
  pSpans : List Span
  nSpans : List Span
  /-- samples, newest first -/
  rev : List Stored
deriving DecidableEq, Repr, Inhabited

def Chunk.empty (float : Bool) : Chunk :=
  { float, hdr := .unknown, schema := 0, zt := 0, custom := [], pSpans := [], nSpans := [], rev := [] }

def Chunk.num (c : Chunk) : Nat := c.rev.length

/-- the appender's `cnt, zCnt, sum, pBuckets, nBuckets` = the newest sample (zero state when empty) -/
def Chunk.last (c : Chunk) : Stored := c.rev.head?.getD ⟨0, 0, 0, 0, [], []⟩

/-- `appendHistogram` / `appendFloatHistogram`: no decisions, just store (a stale sample is emptied;
    the first sample dictates the layout). -/
def Chunk.appendRaw (c : Chunk) (t : Int) (h : Hist) : Chunk :=
  let h := if h.stale then Hist.blank h.float h.sum else h
  let s : Stored := ⟨t, h.count, h.zcount, h.sum, h.pB, h.nB⟩
  if c.rev.isEmpty then
    { c with schema := h.schema, zt := h.zt, custom := h.custom, pSpans := h.pSpans, nSpans := h.nSpans, rev := [s] }
  else { c with rev := s :: c.rev }

/-- `histogram.CustomBucketBoundsMatch` -/
def boundsMatch : List Nat → List Nat → Bool
  | [], [] => true
  | x :: xs, y :: ys => fEq x y && boundsMatch xs ys
  | _, _ => false

def customSchema : Int := -53

/-- result of `appendable`: inserts, or "not ok" with the counter-reset header the int flavour
    returns (float flavour: `.reset` ⇔ `counterReset`, anything else ⇔ not). -/
inductive Dec
  | ok (pf nf pb nb : List Insert)
  | no (hdr : Hdr)
deriving Repr, Inhabited

def Chunk.appendable (c : Chunk) (h : Hist) : Except Err Dec :=
  let a := c.last
  if c.num > 0 ∧ c.hdr = .gauge then .ok (.no (if c.float then .unknown else .notReset))
  else if h.hint = .reset then .ok (.no .reset)
  else if h.stale then .ok (.ok [] [] [] [])
  else if a.sum = staleBits then .ok (.no .unknown)
  else if cLt c.float h.count a.count then .ok (.no .reset)
  else if h.schema ≠ c.schema ∨ !fEq h.zt c.zt then .ok (.no .unknown)
  else if h.schema = customSchema ∧ !boundsMatch h.custom c.custom then .ok (.no .reset)
  else if cLt c.float h.zcount a.zcount then .ok (.no .reset)
  else
    match expandCounter c.float c.pSpans h.pSpans a.pB h.pB with
    | .error e => .error e
    | .ok none => .ok (.no .reset)
    | .ok (some (pf, pb)) =>
      match expandCounter c.float c.nSpans h.nSpans a.nB h.nB with
      | .error e => .error e
      | .ok none => .ok (.no .reset)
      | .ok (some (nf, nb)) => .ok (.ok pf nf pb nb)

structure GDec where
  pf : List Insert
  nf : List Insert
  pb : List Insert
  nb : List Insert
  pM : List Span
  nM : List Span
deriving Repr, Inhabited

def Chunk.appendableGauge (c : Chunk) (h : Hist) : Option GDec :=
  let a := c.last
  if c.num > 0 ∧ c.hdr ≠ .gauge then none
  else if h.stale then some ⟨[], [], [], [], [], []⟩
  else if a.sum = staleBits then none
  else if h.schema ≠ c.schema ∨ !fEq h.zt c.zt then none
  else if h.schema = customSchema ∧ !boundsMatch h.custom c.custom then none
  else
    let (pf, pb, pM) := expandBoth c.pSpans h.pSpans
    let (nf, nb, nM) := expandBoth c.nSpans h.nSpans
    some ⟨pf, nf, pb, nb, pM, nM⟩

/-- `recodeHistogram` (the spans have been replaced by the caller already) -/
def recodeHistogram (h : Hist) (pb nb : List Insert) : Except Err Hist := do
  let pB ← if pb.isEmpty then pure h.pB else insert (!h.float) h.pB (countSpans h.pSpans) pb
  let nB ← if nb.isEmpty then pure h.nB else insert (!h.float) h.nB (countSpans h.nSpans) nb
  pure { h with pB, nB }

/-- What `AtHistogram(nil)` returns for a stored sample, without the hint. -/
def Chunk.histOf (c : Chunk) (s : Stored) : Hist :=
  if s.sum = staleBits then Hist.blank c.float s.sum
  else { float := c.float, hint := .unknown, schema := c.schema, zt := c.zt, count := s.count, zcount := s.zcount,
         sum := s.sum, pSpans := c.pSpans, nSpans := c.nSpans, pB := s.pB, nB := s.nB, custom := c.custom }

/-- re-append the (oldest-first) samples of `c` with the new spans and inserts -/
def recodeGo (c : Chunk) (pf nf : List Insert) (pS nS : List Span) : List Stored → Chunk → Except Err Chunk
  | [], acc => .ok acc
  | s :: rest, acc => do
    let h := c.histOf s
    let pB ← if pf.isEmpty then pure h.pB else insert (!c.float) h.pB (countSpans pS) pf
    let nB ← if nf.isEmpty then pure h.nB else insert (!c.float) h.nB (countSpans nS) nf
    recodeGo c pf nf pS nS rest (acc.appendRaw s.t { h with pSpans := pS, nSpans := nS, pB, nB })

/-- `recode`: decode everything and encode it again with the new span layout; the header is kept. -/
def Chunk.recode (c : Chunk) (pf nf : List Insert) (pS nS : List Span) : Except Err Chunk :=
  recodeGo c pf nf pS nS c.rev.reverse { Chunk.empty c.float with hdr := c.hdr }

inductive Outcome | same | newChunk | recoded
deriving DecidableEq, Repr, Inhabited

structure AppRes where
  out : Outcome
  /-- the chunk the returned appender writes to -/
  chunk : Chunk
  /-- the caller's histogram afterwards -/
  h : Hist
deriving Repr, Inhabited

def hdrOfHint : Hint → Hdr
  | .reset => .reset
  | .notReset => .notReset
  | .gauge => .gauge
  | .unknown => .unknown

/-- `AppendHistogram(prev, _, t, h, false)` / `AppendFloatHistogram`. `prev` = the chunk of the previous
    appender, if one was passed and has the same flavour as `h`. -/
def appendHist (prev : Option Chunk) (c : Chunk) (t : Int) (h : Hist) : Except Err AppRes :=
  if c.num = 65535 then .error .panic
  else if c.num = 0 then
    let c1 := c.appendRaw t h
    if h.hint = .gauge then .ok ⟨.same, { c1 with hdr := .gauge }, h⟩
    else if h.hint = .reset then .ok ⟨.same, { c1 with hdr := .reset }, h⟩
    else match prev with
      | none => .ok ⟨.same, c1, h⟩
      | some p =>
        if p.float ≠ h.float then .ok ⟨.same, c1, h⟩ else
        match p.appendable h with
        | .error e => .error e
        | .ok (.ok ..) => .ok ⟨.same, { c1 with hdr := .notReset }, h⟩
        | .ok (.no hdr) =>
          .ok ⟨.same, { c1 with hdr := if h.float then (if hdr = .reset then .reset else .notReset) else hdr }, h⟩
  else if h.hint ≠ .gauge then
    match c.appendable h with
    | .error e => .error e
    | .ok (.no hdr) =>
      let hdr' := if h.float then (if hdr = .reset then Hdr.reset else Hdr.unknown) else hdr
      .ok ⟨.newChunk, ({ Chunk.empty h.float with hdr := hdr' }).appendRaw t h, h⟩
    | .ok (.ok pf nf pb nb) => do
      let h1 ← if !pb.isEmpty || !nb.isEmpty then
          (if pf.isEmpty && nf.isEmpty then
            recodeHistogram { h with pSpans := c.pSpans, nSpans := c.nSpans } pb nb
          else
            recodeHistogram { h with pSpans := adjustForInserts h.pSpans pb, nSpans := adjustForInserts h.nSpans nb } pb nb)
        else pure h
      if !pf.isEmpty || !nf.isEmpty then
        let c1 ← c.recode pf nf h1.pSpans h1.nSpans
        pure ⟨.recoded, c1.appendRaw t h1, h1⟩
      else pure ⟨.same, c.appendRaw t h1, h1⟩
  else
    match c.appendableGauge h with
    | none => .ok ⟨.newChunk, ({ Chunk.empty h.float with hdr := .gauge }).appendRaw t h, h⟩
    | some g => do
      let h1 ← if g.pb.length + g.nb.length > 0 then
          recodeHistogram { h with pSpans := g.pM, nSpans := g.nM } g.pb g.nb
        else pure h
      if !g.pf.isEmpty || !g.nf.isEmpty then
        let c1 ← c.recode g.pf g.nf h1.pSpans h1.nSpans
        pure ⟨.recoded, c1.appendRaw t h1, h1⟩
      else pure ⟨.same, c.appendRaw t h1, h1⟩

/-! ## reading -/

/-- `counterResetHint(crh, numRead)` -/
def hintOf (hdr : Hdr) (numRead : Nat) : Hint :=
  if hdr = .gauge then .gauge else if numRead > 1 then .notReset else .unknown

/-- oldest-first stored samples → what the iterator hands out; `k` = samples read before -/
def readFrom (c : Chunk) : Nat → List Stored → List (Int × Hist)
  | _, [] => []
  | k, s :: rest =>
    (s.t, if s.sum = staleBits then Hist.blank c.float s.sum else { c.histOf s with hint := hintOf c.hdr (k + 1) })
      :: readFrom c (k + 1) rest

def Chunk.read (c : Chunk) : List (Int × Hist) := readFrom c 0 c.rev.reverse

/-! ## head series (memSeries.appendHistogram) -/

structure Series where
  /-- finished chunks, newest first -/
  done : List Chunk
  cur : Option Chunk
deriving Repr, Inhabited

def Series.empty : Series := ⟨[], none⟩

/-- `cut` = `histogramsAppendPreprocessor` decided to cut a new head chunk (size/time oracle); an
    encoding change and a missing head chunk cut as well. Returns the caller's histogram afterwards. -/
def Series.append (s : Series) (cut : Bool) (t : Int) (h : Hist) : Except Err (Series × Hist × Outcome) :=
  match s.cur with
  | none => do
    let r ← appendHist none (Chunk.empty h.float) t h
    pure (⟨s.done, some r.chunk⟩, r.h, .newChunk)
  | some c =>
    if cut || c.float ≠ h.float then do
      let r ← appendHist (some c) (Chunk.empty h.float) t h
      pure (⟨c :: s.done, some r.chunk⟩, r.h, .newChunk)
    else do
      let r ← appendHist none c t h
      match r.out with
      | .newChunk => pure (⟨c :: s.done, some r.chunk⟩, r.h, .newChunk)
      | o => pure (⟨s.done, some r.chunk⟩, r.h, o)

/-- all chunks, oldest first -/
def Series.chunks (s : Series) : List Chunk := (s.cur.toList ++ s.done).reverse

def Series.read (s : Series) : List (Int × Hist) := s.chunks.flatMap Chunk.read

/-! ## semantic abstraction -/

/-- (bucket index, absolute value) of the populated (non-zero) buckets of one side -/
def bucketMap (float : Bool) (spans : List Span) (bs : List Int) : List (Int × Int) :=
  ((idxs spans).zip (absVals float bs)).filter fun p => !vZero float p.2

/-- What a histogram *means*: everything except the span layout and the hint. -/
structure Sem where
  float : Bool
  schema : Int
  zt : Nat
  count : Nat
  zcount : Nat
  sum : Nat
  pos : List (Int × Int)
  neg : List (Int × Int)
  custom : List Nat
deriving DecidableEq, Repr, Inhabited

def Hist.sem (h : Hist) : Sem :=
  { float := h.float, schema := h.schema, zt := h.zt, count := h.count, zcount := h.zcount, sum := h.sum,
    pos := bucketMap h.float h.pSpans h.pB, neg := bucketMap h.float h.nSpans h.nB, custom := h.custom }



/-! ## the C12 statement as a decidable predicate on a read stream -/

def lookup (m : List (Int × Int)) (i : Int) : Int := ((m.find? (·.1 == i)).map (·.2)).getD 0

/-- every populated bucket of `p` is at most the same bucket of `q` -/
def mapLe (float : Bool) (p q : List (Int × Int)) : Bool := p.all fun e => !vGt float e.2 (lookup q e.1)

def sameKey (a b : Hist) : Bool :=
  a.float == b.float && a.schema == b.schema && a.zt == b.zt && a.custom == b.custom

/-- "no reset actually happened from `prev` to `h`" -/
def noReset (prev h : Hist) : Bool :=
  !prev.stale && sameKey prev h && !cLt h.float h.count prev.count && !cLt h.float h.zcount prev.zcount &&
  mapLe h.float prev.sem.pos h.sem.pos && mapLe h.float prev.sem.neg h.sem.neg

/-- index of the first sample that is marked NotCounterReset (and is not stale) although there is no
    preceding sample, or a reset did happen from the preceding sample -/
def unsoundAt : Option Hist → Nat → List (Int × Hist) → Option Nat
  | _, _, [] => none
  | prev, k, (_, h) :: rest =>
    if h.hint = .notReset ∧ !h.stale ∧ !(match prev with | some p => noReset p h | none => false) then some k
    else unsoundAt (some h) (k + 1) rest

def hintsSound (l : List (Int × Hist)) : Bool := (unsoundAt none 0 l).isNone

end Prom.Hist
