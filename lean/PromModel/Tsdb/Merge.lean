import PromModel.Prelude.GoHeap
/-
  Model of `storage/merge.go` (property C19; reused by C07/C12/C42/C54).

  * `Sample`, `Labels` (+ `labels.Compare`), `It` — a well-behaved sample iterator with the semantics of
    `storage.listSeriesIterator` (what every chunk iterator also implements) and an optional error that
    surfaces when the iterator is exhausted.
  * `Chain` — `chainSampleIterator`: `Next`, `Seek`, `lastT` de-duplication, error short-circuit, the
    `consecutive` flag that makes `AtHistogram` reset counter-reset hints.  The heap is Go's
    `container/heap` (`Prom.GoHeap`), so the winner among equal timestamps is the one the code picks.
  * `SetIt`, `MSet` — `newGenericMergeSeriesSet` / `genericMergeSeriesSet.Next/At/Err` incl. the
    single-set pass-through, the series limit and `errorOnlySeriesSet`.
  * `Chunk`, `compactAll` (`compactChunkIterator`), `concatAll` (`concatenatingChunkIterator`),
    `encodeChunks` (`seriesToChunkEncoder` at the level of abstract chunks = (mint, maxt, samples), incl. the
    cut when the native-histogram appender reports a new chunk: `histNewChunk`), `decodeView` (hints as a
    chunk iterator hands them out).

  Iterators are values that move between `curr`, the heap and `dead` (exhausted ones); `Seek` needs
  them in the order of `c.iterators`, which is recovered from `It.id`.
-/
namespace Prom.Merge

/-! ## Samples and labels -/

inductive Kind | float | hist | fhist
deriving DecidableEq, Repr, Inhabited

/-- One sample. `payload`: float bits for `float`; `4*body + counterResetHint` for histograms (see `Sample.body`). -/
structure Sample where
  t : Int
  kind : Kind
  payload : Nat
deriving DecidableEq, Repr, Inhabited

def MinI64 : Int := -9223372036854775808

abbrev Labels := List (String × String)

/-- `labels.Compare` -/
def Labels.compare : Labels → Labels → Ordering
  | [], [] => .eq
  | [], _ :: _ => .lt
  | _ :: _, [] => .gt
  | (n1, v1) :: r1, (n2, v2) :: r2 =>
    if n1 < n2 then .lt else if n2 < n1 then .gt
    else if v1 < v2 then .lt else if v2 < v1 then .gt
    else Labels.compare r1 r2

/-! ## Input sample iterator -/

structure It where
  id : Nat
  cur : Option Sample
  rest : List Sample
  done : Bool
  errEnd : Bool
deriving DecidableEq, Repr, Inhabited

def It.ofList (id : Nat) (xs : List Sample) (errEnd : Bool := false) : It :=
  { id, cur := none, rest := xs, done := false, errEnd }

def It.next (it : It) : It × Option Sample :=
  match it.rest with
  | [] => ({ it with cur := none, done := true }, none)
  | s :: r => ({ it with cur := some s, rest := r }, some s)

def It.seekRest (it : It) (t : Int) : It × Option Sample :=
  match it.rest.dropWhile (fun s => s.t < t) with
  | [] => ({ it with cur := none, rest := [], done := true }, none)
  | s :: r => ({ it with cur := some s, rest := r }, some s)

def It.seek (it : It) (t : Int) : It × Option Sample :=
  if it.done then (it, none)
  else match it.cur with
    | some s => if s.t ≥ t then (it, some s) else it.seekRest t
    | none => it.seekRest t

/-- `Err() != nil` -/
def It.err (it : It) : Bool := it.done && it.errEnd

/-- `AtT()` of an iterator positioned on a sample (heap members always are). -/
def It.atT (it : It) : Int := match it.cur with | some s => s.t | none => 0

def ltIt (a b : It) : Bool := a.atT < b.atT

/-! ## chainSampleIterator -/

inductive Res
  | val (s : Sample)
  | fin
  | err
  | panic
deriving DecidableEq, Repr, Inhabited

structure Chain where
  its : List It
  h : Option (Array It)
  curr : Option It
  dead : List It
  lastT : Int
  consecutive : Bool
  failed : Bool
deriving Repr, Inhabited

def Chain.mk' (its : List It) : Chain :=
  { its, h := none, curr := none, dead := [], lastT := MinI64, consecutive := false, failed := false }

/-- Chain over sample lists, ids = positions. -/
def Chain.ofLists (xs : List (List Sample × Bool)) : Chain :=
  Chain.mk' (xs.zipIdx.map fun (p, i) => It.ofList i p.1 p.2)

/-- the `for _, iter := range c.iterators[1:]` loop of the first `Next` -/
def initHeap : List It → Array It → List It → Option (Array It × List It)
  | [], h, dead => some (h, dead)
  | it :: tl, h, dead =>
    match it.next with
    | (it', none) => if it'.err then none else initHeap tl h (it' :: dead)
    | (it', some _) => initHeap tl (GoHeap.push ltIt h it') dead

inductive LoopOut
  | brk (cur : It) (s : Sample) (h : Array It) (dead : List It) (changed : Bool)
  | fin (h : Array It) (dead : List It)
  | err
  | fuel
  | cont (cur : It) (h : Array It) (dead : List It) (changed : Bool)
deriving Repr, Inhabited

/-- `c.curr = heap.Pop(&c.h); currT = c.curr.AtT(); if currT != c.lastT { break }` -/
def popStep (lastT : Int) (h : Array It) (dead : List It) : LoopOut :=
  match GoHeap.pop ltIt h with
  | none => .fuel
  | some (x, h') =>
    match x.cur with
    | none => .fuel
    | some s => if s.t ≠ lastT then .brk x s h' dead true else .cont x h' dead true

/-- one pass through the body of the `for { … }` loop of `Next` (`cont` = go round again) -/
def loopStep (lastT : Int) (cur : It) (h : Array It) (dead : List It) (changed : Bool) : LoopOut :=
  match cur.next with
  | (cur', none) =>
    if cur'.err then .err
    else if h.size = 0 then .fin h (cur' :: dead)
    else popStep lastT h (cur' :: dead)
  | (cur', some s) =>
    if s.t = lastT then .cont cur' h dead changed
    else if h.size = 0 then .brk cur' s h dead changed
    else
      let nextT := match h[0]? with | some x => x.atT | none => 0
      if s.t < nextT then .brk cur' s h dead changed
      else popStep lastT (GoHeap.push ltIt h cur') dead

/-- the `for { … }` loop of `Next` -/
def nextLoop (lastT : Int) : Nat → It → Array It → List It → Bool → LoopOut
  | 0, _, _, _, _ => .fuel
  | fuel + 1, cur, h, dead, changed =>
    match loopStep lastT cur h dead changed with
    | .cont cur' h' dead' changed' => nextLoop lastT fuel cur' h' dead' changed'
    | o => o

def loopFuel (cur : It) (h : Array It) : Nat :=
  (cur :: h.toList).foldl (fun n it => n + it.rest.length + 1) 1

def Chain.finishLoop (c : Chain) (o : LoopOut) : Chain × Res :=
  match o with
  | .brk cur s h dead changed =>
    ({ c with curr := some cur, h := some h, dead, consecutive := !changed, lastT := s.t }, .val s)
  | .fin h dead => ({ c with curr := none, h := some h, dead }, .fin)
  | .err => ({ c with failed := true }, .err)
  | .fuel => ({ c with failed := true }, .panic)
  | .cont .. => ({ c with failed := true }, .panic)

def Chain.next (c : Chain) : Chain × Res :=
  if c.failed then (c, .err) else
  match c.h with
  | none =>
    match c.its with
    | [] => ({ c with failed := true }, .panic)
    | i0 :: tl =>
      match initHeap tl #[] [] with
      | none => ({ c with failed := true }, .err)
      | some (h, dead) => c.finishLoop (nextLoop c.lastT (loopFuel i0 h) i0 h dead true)
  | some h =>
    match c.curr with
    | none => (c, .fin)
    | some cur => c.finishLoop (nextLoop c.lastT (loopFuel cur h) cur h c.dead false)

/-- all iterators in the order of `c.iterators` -/
def Chain.all (c : Chain) : List It :=
  match c.h with
  | none => c.its
  | some h => (c.curr.toList ++ h.toList ++ c.dead).mergeSort (fun a b => a.id ≤ b.id)

/-- the `for _, iter := range c.iterators` loop of `Seek` -/
def seekAll (t : Int) : List It → Array It → List It → Option (Array It × List It)
  | [], h, dead => some (h, dead)
  | it :: tl, h, dead =>
    match it.seek t with
    | (it', none) => if it'.err then none else seekAll t tl h (it' :: dead)
    | (it', some _) => seekAll t tl (GoHeap.push ltIt h it') dead

def resOfOpt (it : It) : Option Sample → Res
  | some s => .val s
  | none => if it.err then .err else .fin

def Chain.seek (c : Chain) (t : Int) : Chain × Res :=
  if c.failed then (c, .err) else
  let full : Chain × Res :=
    match seekAll t c.all #[] [] with
    | none => ({ c with failed := true }, .err)
    | some (h, dead) =>
      match GoHeap.pop ltIt h with
      | some (x, h') =>
        let (x', r) := x.seek x.atT
        ({ c with consecutive := false, h := some h', curr := some x', dead, lastT := x.atT }, resOfOpt x' r)
      | none => ({ c with consecutive := false, h := some h, curr := none, dead }, .fin)
  match c.curr with
  | some cur =>
    if c.lastT ≥ t then
      let (cur', r) := cur.seek c.lastT
      ({ c with curr := some cur' }, resOfOpt cur' r)
    else full
  | none => full

/-- What `At`/`AtHistogram`/`AtFloatHistogram` hand out: for histograms that are not direct
    neighbours within one input, a non-gauge counter-reset hint (payload mod 4 ≠ 3) becomes unknown (0). -/
def Chain.atSample (c : Chain) (s : Sample) : Sample :=
  if s.kind ≠ .float ∧ !c.consecutive ∧ s.payload % 4 ≠ 3 then { s with payload := s.payload / 4 * 4 } else s

/-- Iterate `Next` to the end. `none` = error/panic. Returns raw samples (as stored in the inputs)
    and the samples as handed out by `At*`. -/
def Chain.drainAux : Nat → Chain → List Sample → List Sample → Option (List Sample × List Sample)
  | 0, _, _, _ => none
  | fuel + 1, c, raw, out =>
    match c.next with
    | (c', .val s) => Chain.drainAux fuel c' (s :: raw) (c'.atSample s :: out)
    | (_, .fin) => some (raw.reverse, out.reverse)
    | (_, _) => none

def Chain.totalLen (c : Chain) : Nat := c.its.foldl (fun n it => n + it.rest.length) 0

def Chain.drain (c : Chain) : Option (List Sample × List Sample) :=
  Chain.drainAux (c.totalLen + 2) c [] []

/-! ## Series sets -/

/-- A label-sorted series set cursor (a mock `SeriesSet`/`ChunkSeriesSet` over a list) whose `Err()`
    becomes non-nil on exhaustion when `errEnd`. -/
structure SetIt (σ : Type) where
  id : Nat
  cur : Option σ
  rest : List σ
  done : Bool
  errEnd : Bool
deriving Repr, Inhabited

def SetIt.ofList {σ} (id : Nat) (xs : List σ) (errEnd : Bool := false) : SetIt σ :=
  { id, cur := none, rest := xs, done := false, errEnd }

def SetIt.next {σ} (s : SetIt σ) : SetIt σ × Bool :=
  match s.rest with
  | [] => ({ s with cur := none, done := true }, false)
  | x :: r => ({ s with cur := some x, rest := r }, true)

def SetIt.err {σ} (s : SetIt σ) : Bool := s.done && s.errEnd

structure MState (σ : Type) where
  h : Array (SetIt σ)
  current : List (SetIt σ)
  dead : List (SetIt σ)
  limit : Nat
  merged : Nat
deriving Repr, Inhabited

inductive MSet (σ : Type)
  | single (s : SetIt σ)
  | errOnly
  | merged (st : MState σ)
deriving Repr, Inhabited

section
variable {σ : Type} (lab : σ → Labels)

def SetIt.labels (s : SetIt σ) : Labels := match s.cur with | some x => lab x | none => []

def ltSet (a b : SetIt σ) : Bool := Labels.compare (a.labels lab) (b.labels lab) == .lt

/-- pre-advancing loop of `newGenericMergeSeriesSet`; `none` = `errorOnlySeriesSet` -/
def initSets : List (SetIt σ) → Array (SetIt σ) → List (SetIt σ) → Option (Array (SetIt σ) × List (SetIt σ))
  | [], h, dead => some (h, dead)
  | s :: tl, h, dead =>
    match s.next with
    | (s', true) => if s'.err then none else initSets tl (GoHeap.push (ltSet lab) h s') dead
    | (s', false) => if s'.err then none else initSets tl h (s' :: dead)

def MSet.new (sets : List (SetIt σ)) (limit : Nat) : MSet σ :=
  match sets with
  | [s] => .single s
  | _ =>
    match initSets lab sets #[] [] with
    | none => .errOnly
    | some (h, dead) => .merged { h, current := [], dead, limit, merged := 0 }

/-- advance `currentSets`, pushing the live ones back -/
def advanceCurrent : List (SetIt σ) → Array (SetIt σ) → List (SetIt σ) → Array (SetIt σ) × List (SetIt σ)
  | [], h, dead => (h, dead)
  | s :: tl, h, dead =>
    match s.next with
    | (s', true) => advanceCurrent tl (GoHeap.push (ltSet lab) h s') dead
    | (s', false) => advanceCurrent tl h (s' :: dead)

/-- pop while the top has labels `l` -/
def popEqual (l : Labels) : Nat → Array (SetIt σ) → List (SetIt σ) → Array (SetIt σ) × List (SetIt σ)
  | 0, h, acc => (h, acc.reverse)
  | fuel + 1, h, acc =>
    match h[0]? with
    | none => (h, acc.reverse)
    | some top =>
      if top.labels lab = l then
        match GoHeap.pop (ltSet lab) h with
        | some (x, h') => popEqual l fuel h' (x :: acc)
        | none => (h, acc.reverse)
      else (h, acc.reverse)

def MState.next (st : MState σ) : MState σ × Bool :=
  if st.limit > 0 ∧ st.merged ≥ st.limit then (st, false) else
  let (h, dead) := advanceCurrent lab st.current st.h st.dead
  match h[0]? with
  | none => ({ st with h, current := [], dead }, false)
  | some top =>
    let (h', cur) := popEqual lab (top.labels lab) h.size h []
    ({ st with h := h', current := cur, dead, merged := st.merged + 1 }, true)

def MSet.next : MSet σ → MSet σ × Bool
  | .single s => let (s', ok) := s.next; (.single s', ok)
  | .errOnly => (.errOnly, false)
  | .merged st => let (st', ok) := st.next lab; (.merged st', ok)

/-- `At()`: the series of the current sets, in the order they are handed to the merge function. -/
def MSet.at : MSet σ → List σ
  | .single s => s.cur.toList
  | .errOnly => []
  | .merged st => st.current.filterMap (·.cur)

def MSet.err : MSet σ → Bool
  | .single s => s.err
  | .errOnly => true
  | .merged st => (st.h.toList ++ st.current ++ st.dead).any (·.err)

/-- all label sets of the merged set, `none` on error -/
def MSet.drainAux : Nat → MSet σ → List (List σ) → List (List σ) × Bool
  | 0, m, acc => (acc.reverse, m.err)
  | fuel + 1, m, acc =>
    match m.next lab with
    | (m', true) => MSet.drainAux fuel m' (m'.at :: acc)
    | (m', false) => (acc.reverse, m'.err)

end

/-! ## Chunk level -/

structure Chunk where
  mint : Int
  maxt : Int
  samples : List Sample
deriving DecidableEq, Repr, Inhabited

/-- `chunks.ChunkFromSamples`: meta range from the first/last sample (0,0 when empty). -/
def Chunk.ofSamples (xs : List Sample) : Chunk :=
  match xs with
  | [] => ⟨0, 0, []⟩
  | s :: _ => ⟨s.t, (xs.getLast?.getD s).t, xs⟩

structure CIt where
  id : Nat
  cur : Option Chunk
  rest : List Chunk
deriving DecidableEq, Repr, Inhabited

def CIt.ofList (id : Nat) (xs : List Chunk) : CIt := ⟨id, none, xs⟩

def CIt.next (it : CIt) : CIt × Bool :=
  match it.rest with
  | [] => ({ it with cur := none }, false)
  | c :: r => ({ it with cur := some c, rest := r }, true)

def CIt.at (it : CIt) : Chunk := it.cur.getD ⟨0, 0, []⟩

def ltCIt (a b : CIt) : Bool :=
  if a.at.mint = b.at.mint then a.at.maxt < b.at.maxt else a.at.mint < b.at.mint

def splitLimit : Nat := 120

/-! ### Native histogram payloads

  `payload = 4 * body + counterResetHint` (hint: 0 unknown, 1 reset, 2 not-reset, 3 gauge) and
  `body = zeroCount + 2^20*b0 + 2^24*b1 + 2^28*b2 + 2^32*schema + 2^33*stale` with `zeroCount < 2^20`,
  three positive buckets `b_i < 16` at indexes 0..2 (0 = absent or empty), `schema ∈ {0,1}`; `Count` is the sum
  of the four counts; a stale marker (`Sum` = StaleNaN) has body `2^33`. -/

def Sample.hint (s : Sample) : Nat := s.payload % 4
def Sample.body (s : Sample) : Nat := s.payload / 4
def Sample.isGauge (s : Sample) : Bool := s.payload % 4 == 3
def Sample.stale (s : Sample) : Bool := s.body / 8589934592 % 2 == 1
def Sample.schema (s : Sample) : Nat := s.body / 4294967296 % 2
def Sample.zcnt (s : Sample) : Nat := s.body % 1048576
def Sample.b0 (s : Sample) : Nat := s.body / 1048576 % 16
def Sample.b1 (s : Sample) : Nat := s.body / 16777216 % 16
def Sample.b2 (s : Sample) : Nat := s.body / 268435456 % 16
def Sample.count (s : Sample) : Nat := s.zcnt + s.b0 + s.b1 + s.b2

/-- `HistogramAppender.AppendHistogram` / `FloatHistogramAppender.AppendFloatHistogram` on a non-empty
    chunk whose first sample was `first` and newest sample is `last`: does appending `s` hand back a NEW
    chunk (not a recoded one)?  Transcribes `appendable` (explicit reset hint, stale rules, count / zero
    count / bucket decrease incl. a used bucket that disappeared, schema change) and `appendableGauge`
    (stale rules, schema change), plus the gauge-vs-counter header test both start with.  Buckets that only
    appear (forward inserts) or empty buckets that are missing (backward inserts) recode the chunk in
    place: no cut. -/
def histNewChunk (first last s : Sample) : Bool :=
  if s.kind == .float then false
  else if s.isGauge then
    !first.isGauge || (!s.stale && (last.stale || s.schema != last.schema))
  else
    first.isGauge || s.hint == 1 ||
      (!s.stale && (last.stale || decide (s.count < last.count) || s.schema != last.schema ||
        decide (s.zcnt < last.zcnt) || decide (s.b0 < last.b0) || decide (s.b1 < last.b1) || decide (s.b2 < last.b2)))

/-- `seriesToChunkEncoder.Iterator` for samples without start timestamps: a new chunk starts on a change
    of sample type, after 120 samples, or when the histogram appender reports a new chunk
    (`newChk != nil && !recoded`: counter reset, schema change, stale → live, gauge ↔ counter); the new
    chunk's `mint` is that sample's timestamp (`mint = MaxInt64` is re-armed at every cut). -/
def encodeAux : List Sample → List Sample → List Chunk → List Chunk
  | [], cur, acc => (if cur.isEmpty then acc else Chunk.ofSamples cur.reverse :: acc).reverse
  | s :: tl, cur, acc =>
    match cur with
    | [] => encodeAux tl [s] acc
    | p :: _ =>
      if p.kind ≠ s.kind ∨ cur.length ≥ splitLimit ∨ histNewChunk (cur.getLast?.getD p) p s = true then
        encodeAux tl [s] (Chunk.ofSamples cur.reverse :: acc)
      else encodeAux tl (s :: cur) acc

def encodeChunks (xs : List Sample) : List Chunk := encodeAux xs [] []

def Sample.withHint (s : Sample) (h : Nat) : Sample := { s with payload := s.payload / 4 * 4 + h }

def decodeFrom (gauge : Bool) : Nat → List Sample → List Sample
  | _, [] => []
  | i, s :: r =>
    (if s.stale then s.withHint 0 else if gauge then s.withHint 3 else if i = 0 then s.withHint 0 else s.withHint 2)
      :: decodeFrom gauge (i + 1) r

/-- What the iterator of a (float-)histogram chunk holding `xs` hands out (`counterResetHint(header,
    numRead)`): gauge chunk → gauge; otherwise unknown for the first sample, not-reset for later ones; a
    stale marker always comes back as the bare `{Sum: StaleNaN}` (hint unknown). Float chunks: `xs`. -/
def decodeView (xs : List Sample) : List Sample :=
  match xs with
  | [] => []
  | f :: _ => if f.kind == .float then xs else decodeFrom f.isGauge 0 xs

def Chunk.decode (c : Chunk) : Chunk := { c with samples := decodeView c.samples }

def pushIfNext (h : Array CIt) (it : CIt) : Array CIt :=
  match it.next with
  | (it', true) => GoHeap.push ltCIt h it'
  | (_, false) => h

inductive CRes
  | chunk (c : Chunk)
  | fin
  | err
  | panic
deriving DecidableEq, Repr, Inhabited

/-- overlap detection loop of `compactChunkIterator.Next` -/
def overlapLoop : Nat → Array CIt → List Chunk → Int → Chunk → Array CIt × List Chunk
  | 0, h, ov, _, _ => (h, ov)
  | fuel + 1, h, ov, oMax, prev =>
    match h[0]? with
    | none => (h, ov)
    | some top =>
      let nxt := top.at
      if nxt.mint > oMax then (h, ov)
      else
        let dup := nxt.mint = prev.mint ∧ nxt.maxt = prev.maxt ∧ nxt.samples = prev.samples
        let ov' := if dup then ov else ov ++ [nxt]
        let oMax' := if dup then oMax else (if nxt.maxt > oMax then nxt.maxt else oMax)
        let prev' := if dup then prev else nxt
        match GoHeap.pop ltCIt h with
        | none => (h, ov')
        | some (it, h') => overlapLoop fuel (pushIfNext h' it) ov' oMax' prev'

def chunkFuel (h : Array CIt) : Nat :=
  h.toList.foldl (fun n it => n + it.rest.length + 1) 1

/-- One `compactChunkIterator.Next` on an initialised heap. `merge` is the vertical series merge
    (`ChainedSeriesMerge` followed by the re-encoder reading through it). -/
def compactNext (merge : List (List Sample) → Option (List Sample)) (h : Array CIt) : Array CIt × CRes :=
  match GoHeap.pop ltCIt h with
  | none => (h, .fin)
  | some (it, h1) =>
    let curr := it.at
    let h2 := pushIfNext h1 it
    let (h3, ov) := overlapLoop (chunkFuel h2) h2 [] curr.maxt curr
    if ov.isEmpty then (h3, .chunk curr)
    else
      match merge ((ov ++ [curr]).map (·.samples)) with
      | none => (h3, .err)
      | some merged =>
        match encodeChunks merged with
        | [] => (h3, .panic)
        | c :: rest =>
          let h4 := if rest.isEmpty then h3 else GoHeap.push ltCIt h3 ⟨0, some (rest.headD c), rest.drop 1⟩
          (h4, .chunk c)

def chainMerge (xs : List (List Sample)) : Option (List Sample) :=
  (Chain.ofLists (xs.map fun l => (l, false))).drain.map (·.2)

def compactDrain (merge : List (List Sample) → Option (List Sample)) : Nat → Array CIt → List Chunk → List Chunk × CRes
  | 0, _, acc => (acc.reverse, .panic)
  | fuel + 1, h, acc =>
    match compactNext merge h with
    | (h', .chunk c) => compactDrain merge fuel h' (c :: acc)
    | (_, r) => (acc.reverse, r)

/-- All chunks produced by `NewCompactingChunkSeriesMerger(ChainedSeriesMerge)` for the given chunk
    series (each a list of chunks). -/
def compactAll (series : List (List Chunk)) : List Chunk × CRes :=
  let its := series.zipIdx.map fun (cs, i) => CIt.ofList i cs
  let h := its.foldl pushIfNext #[]
  let fuel := 2 * (series.foldl (fun n cs => n + cs.length + (cs.foldl (fun m c => m + c.samples.length) 0)) 0) + 2
  compactDrain chainMerge fuel h []

/-- `NewConcatenatingChunkSeriesMerger` -/
def concatAll (series : List (List Chunk)) : List Chunk := series.flatten

end Prom.Merge
