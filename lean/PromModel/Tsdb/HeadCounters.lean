import PromModel.Tsdb.DbModel
/-
  C52 — the head's hand-maintained counters (tsdb/head.go `numSeries`, `numStaleSeries`, gauges
  `prometheus_tsdb_head_chunks`, `…_active_appenders`; update sites `getOrCreateWithOptionalID`,
  `updateStaleSeriesMetricOnAppend`, `onChunkCreated`, `gc`, appender create / `Commit` / `Rollback`
  incl. `initAppender`, WAL replay `appendChunkAndMmap` / `resetSeriesWithMMappedChunks`) next to a
  RECOUNT over the state, on top of the shared storage model.

  `CDb` = `Db` + the series in memory INCLUDING those without data (`getOrCreate` creates the series
  before the sample is checked; it stays until `gc`), each with its chunk list (`appendPreprocessor`'s
  cutting rule incl. `computeChunkEndTime`; m-mapped and head chunks in one list, oldest first), its
  `pendingCommit` mark and whether its newest in-order sample is a staleness marker; + the counters,
  updated at the code's sites by increments/decrements (never recomputed).
-/
namespace Prom.Counters
open Prom.Db Prom.Intervals

structure Chk where
  mint : Int
  maxt : Int
  n : Nat
deriving Repr, Inhabited, DecidableEq

structure CSeries where
  idx : Nat
  pending : Bool := false
  chks : List Chk := []       -- oldest first; the last one is the open head chunk iff `open_`
  open_ : Bool := false       -- `headChunks != nil`
  nextAt : Int := 0
  lastStale : Bool := false   -- `value.IsStaleNaN(s.lastValue)`
deriving Repr, Inhabited

structure CDb where
  db : Db
  spc : Nat := 120            -- SamplesPerChunk
  ser : List CSeries := []
  numSeries : Int := 0
  numStale : Int := 0
  chunks : Int := 0
  appenders : Int := 0
deriving Repr, Inhabited

def staleBits : Nat := 0x7ff0000000000002

/-- `computeChunkEndTime(start, cur, maxT, 4)` on exact integers (timestamps are far below 2^53). -/
def computeEnd (start cur maxT : Int) : Int :=
  let a := maxT - start
  let b := (cur - start + 1) * 4
  if a ≤ b then maxT else
  let k := a / b
  (start * k + a).tdiv k

/-- `memSeries.append` → `appendPreprocessor` for an in-order sample at `t`; returns the number of
    chunks created. -/
def appendSample (cr : Int) (spc : Nat) (s : CSeries) (t : Int) : CSeries × Nat :=
  let (rest, cur, nextAt, created) : List Chk × Chk × Int × Nat :=
    match s.open_, s.chks.reverse with
    | true, c :: r => (r.reverse, c, s.nextAt, 0)
    | _, _ => (s.chks, ⟨t, MinI64, 0⟩, rangeForTimestamp t cr, 1)
  let nextAt := if cur.n = 0 then rangeForTimestamp t cr else nextAt
  let cur : Chk := if cur.n = 0 then ⟨t, cur.maxt, 0⟩ else cur
  let nextAt := if cur.n = spc / 4 ∧ cur.n ≠ 0 then computeEnd cur.mint cur.maxt nextAt else nextAt
  if t ≥ nextAt ∨ cur.n ≥ spc * 2 then
    ({ s with chks := rest ++ [cur, ⟨t, t, 1⟩], open_ := true, nextAt := rangeForTimestamp t cr }, created + 1)
  else
    ({ s with chks := rest ++ [⟨cur.mint, t, cur.n + 1⟩], open_ := true, nextAt := nextAt }, created)

def CDb.find (c : CDb) (i : Nat) : Option CSeries := c.ser.find? (·.idx = i)

def CDb.setSer (c : CDb) (s : CSeries) : CDb :=
  { c with ser := c.ser.map fun x => if x.idx = s.idx then s else x }

/-- `getOrCreate`: a new series is counted at once. -/
def CDb.ensure (c : CDb) (i : Nat) : CDb :=
  if c.ser.any (·.idx = i) then c
  else { c with ser := c.ser ++ [{ idx := i, pending := true }], numSeries := c.numSeries + 1 }

def CDb.clearPending (c : CDb) : CDb := { c with ser := c.ser.map fun s => { s with pending := false } }

/-- `Commit`/`Rollback` of the open appender as far as the counters go. -/
def CDb.closeApp (c : CDb) : CDb := { c.clearPending with appenders := c.appenders - 1 }

def CDb.rollbackOpen (c : CDb) : CDb := match c.db.app with | some _ => c.closeApp | none => c

def CDb.append (c : CDb) (i : Nat) (t : Int) (v : Nat) : CDb × Out :=
  let (d', res) := c.db.append i t v
  match d'.app with
  | none => ({ c with db := d' }, outOfRes res)
  | some a' =>
    if d'.cfg.oooWin = 0 ∧ t < a'.minValid then ({ c with db := d' }, outOfRes res) else
    let c := c.ensure i
    match res with
    | .ok _ => ({ (match c.find i with | some s => c.setSer { s with pending := true } | none => c) with db := d' }, .ok)
    | .error e => ({ c with db := d' }, .err e)

/-- One committed sample: `commitFloats` default branch. -/
def CDb.store (c : CDb) (i : Nat) (x : Smp) : CDb :=
  match c.find i with
  | none => c
  | some s =>
    let (s', created) := appendSample c.db.cfg.chunkRange c.spc s x.t
    let isStale := decide (x.v = staleBits)
    let c := c.setSer { s' with lastStale := isStale }
    -- `updateStaleSeriesMetricOnAppend(wasStale, isStale)`, `onChunkCreated`
    { c with numStale := c.numStale + (if !s.lastStale && isStale then 1 else 0) - (if s.lastStale && !isStale then 1 else 0),
             chunks := c.chunks + created }

/-- `true`: /repo contains "fix: tsdb: head chunks gauge over-counts when a sample is rejected at commit
    time" (the flag is reset per sample); `false` reproduces finding C52-F1. -/
def repoFixedChunkCreated : Bool := true

def CDb.commit (c : CDb) : CDb × Out :=
  match c.db.app with
  | none => (c, .err .noapp)
  | some a =>
    let (d', res) := c.db.commit
    -- `commitFloats`: which samples the commit-time re-check stores is `Db.commit`'s own fold, replayed
    -- on a scratch copy. `chunkCreated` is declared OUTSIDE the loop in the code: a sample rejected by
    -- the re-check (`err != nil`: "Do nothing here") leaves it at the previous iteration's value, and
    -- `if chunkCreated { a.head.onChunkCreated(…) }` then counts the previous sample's chunk once more.
    let (_, c, _) := a.batch.foldl (fun (acc : Db × CDb × Bool) (p : Nat × Smp) =>
      let (d, c, cc) := acc
      match appendable (d.getSeries p.1).phys p.2.t p.2.v a.headMaxt a.minValid d.cfg.oooWin with
      | .error _ => (d, { c with chunks := c.chunks + (if cc && !repoFixedChunkCreated then 1 else 0) }, cc)
      | .ok _ =>
        let (s', stored) := commitOne (d.getSeries p.1) p.2 a d.cfg.oooWin
        if stored then
          let c' := c.store p.1 p.2
          (d.setSeries s', c', decide (c'.chunks > c.chunks))
        else (d, c, false)) (c.db, c, false)
    ({ c.closeApp with db := d' }, outOfRes res)

def CDb.rollback (c : CDb) : CDb × Out :=
  match c.db.app with
  | none => (c, .err .noapp)
  | some _ => ({ c.closeApp with db := (c.db.rollback).1 }, .ok)

/-- `Head.gc` at truncation time `mint`: `truncateChunksBefore`, then series without chunks and
    without a pending commit are dropped; the counters are decremented by what was removed. -/
def CDb.gc (c : CDb) (mint : Int) : CDb :=
  let trunc : List CSeries := c.ser.map fun s =>
    let keep := s.chks.dropWhile fun k => decide (k.maxt < mint)
    { s with chks := keep, open_ := s.open_ && !keep.isEmpty }
  let removedChunks : Nat := (c.ser.map fun s => (s.chks.takeWhile fun k => decide (k.maxt < mint)).length).sum
  let dead := trunc.filter fun s => s.chks.isEmpty && !s.pending
  { c with ser := trunc.filter (fun s => !(s.chks.isEmpty && !s.pending)),
           numSeries := c.numSeries - dead.length,
           numStale := c.numStale - (dead.filter (·.lastStale)).length,
           chunks := c.chunks - removedChunks }

def CDb.compactHeadOnce (c : CDb) : CDb :=
  let maxt := rangeForTimestamp c.db.minT c.db.cfg.chunkRange
  let runs := !decide (c.db.minT ≥ maxt)
  let c := { c with db := c.db.compactHeadOnce }
  if runs then c.gc maxt else c

def CDb.compactGo : Nat → CDb → CDb
  | 0, c => c
  | fuel + 1, c => if c.db.compactable then CDb.compactGo fuel c.compactHeadOnce else c

/-- Restart: fresh counters; every surviving series gets its m-mapped chunks back
    (`resetSeriesWithMMappedChunks`: `chunks.Add(len(mmc))`), the WAL samples above them are re-appended
    (`appendChunkAndMmap`, `updateStaleSeriesMetricOnAppend`). -/
def CDb.reopen (c : CDb) : CDb :=
  let c := c.rollbackOpen
  let mv : Int := c.db.blocks.foldl (fun m b => max m b.maxt) MinI64
  let d' : Db := { c.db.reopen with app := none }
  let base : CDb := { db := d', spc := c.spc }
  d'.series.foldl (fun (n : CDb) (hs : HSeries) =>
    let disk : List Chk := match c.find hs.idx with
      | some o => ((if o.open_ then o.chks.dropLast else o.chks).filter fun k => decide (k.maxt ≥ mv))
      | none => []
    let mmMax : Int := match disk.getLast? with | some k => k.maxt | none => MinI64
    let n := { n with ser := n.ser ++ [{ idx := hs.idx, chks := disk }], numSeries := n.numSeries + 1,
                      chunks := n.chunks + disk.length }
    (hs.phys.filter fun x => decide (x.t > mmMax)).foldl (fun n x => n.store hs.idx x) n) base

inductive COp
  | base (op : Op)
  | stat
deriving Repr, Inhabited

inductive COut
  | base (o : Out)
  | stat (gauges recount : List Int)     -- [series, stale, chunks, appenders] / [series, stale, chunks]
deriving Repr, Inhabited

/-- The RECOUNT: walk the series. -/
def CDb.recount (c : CDb) : List Int :=
  [c.ser.length, (c.ser.filter (·.lastStale)).length, (c.ser.map (·.chks.length)).sum]

def CDb.gauges (c : CDb) : List Int := [c.numSeries, c.numStale, c.chunks, c.appenders]

def CDb.step (c : CDb) : COp → CDb × COut
  | .stat => (c, .stat c.gauges c.recount)
  | .base .begin =>
    let c := c.rollbackOpen
    ({ c with db := c.db.begin, appenders := c.appenders + 1 }, .base .ok)
  | .base (.app i t v) => let (c, o) := c.append i t v; (c, .base o)
  | .base .commit => let (c, o) := c.commit; (c, .base o)
  | .base .rollback => let (c, o) := c.rollback; (c, .base o)
  | .base (.del a b sel) => ({ c with db := c.db.delete a b sel }, .base .ok)
  | .base .compact => (CDb.compactGo 64 c, .base .ok)
  | .base .cleantomb => ({ c with db := c.db.cleanTombstones }, .base .ok)
  | .base .reopen => (c.reopen, .base .ok)
  | .base (.q a b) => (c, .base (.rows (c.db.query a b)))
  | .base .win => (c, .base (c.db.step .win).2)

def CDb.after (c : CDb) (ops : List COp) : CDb := ops.foldl (fun c op => (c.step op).1) c

def CDb.init (cfg : Cfg) (spc : Nat) : CDb := { db := { cfg := cfg }, spc := spc }

/-- C52's statement on one observation: the reported gauges equal the recount, and the
    active-appender gauge is what the op stream says is open. -/
def statOk (openApps : Int) : COut → Bool
  | .stat [s, st, ch, ap] [rs, rst, rch] => s == rs && st == rst && ch == rch && ap == openApps
  | .stat _ _ => false
  | .base _ => true

end Prom.Counters
