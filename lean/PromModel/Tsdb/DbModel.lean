import PromModel.Tsdb.Intervals
/-
  The shared storage model (DESIGN §7.0), stage A/B: float samples, in-order appends,
  transactions (append / commit / rollback), deletions, head compaction (`DB.Compact`), tombstone
  cleaning, restart (WAL replay), range queries.

  L0 (specification): `Spec` — per series the committed, undeleted samples.
  L1 (mechanism): `Db` — head window scalars (`minT`, `maxT`, `minValid`), per-series physical sample
  lists and tombstones in the head, persisted blocks with their own tombstones, the WAL as the list of
  logged records, and the open appender with its window snapshot and batch.
  All integer arithmetic is the code's (`Int.tdiv` for Go's `/`).
-/
namespace Prom.Db
open Prom.Intervals

structure Smp where
  t : Int
  v : Nat            -- IEEE-754 bit pattern
deriving DecidableEq, Repr, Inhabited

structure HSeries where
  idx : Nat
  phys : List Smp    -- samples physically in the head, strictly increasing in `t`
  tombs : Intervals
deriving Repr, Inhabited

structure BSeries where
  idx : Nat
  smps : List Smp
  tombs : Intervals
deriving Repr, Inhabited

structure Block where
  mint : Int
  maxt : Int         -- half-open [mint, maxt)
  series : List BSeries
deriving Repr, Inhabited

structure Cfg where
  chunkRange : Int
  oooWin : Int
deriving Repr, Inhabited

/-- WAL records at the abstraction level that decides replay. -/
inductive Rec
  | samples (xs : List (Nat × Smp))
  | stones (xs : List (Nat × Interval))
deriving Repr, Inhabited

structure App where
  init : Bool        -- `initAppender` whose real appender is not created yet
  minValid : Int
  headMaxt : Int
  batch : List (Nat × Smp)   -- in append order
deriving Repr, Inhabited

structure Db where
  cfg : Cfg
  minT : Int := MaxI64
  maxT : Int := MinI64
  minValid : Int := MinI64
  series : List HSeries := []
  blocks : List Block := []
  wal : List Rec := []
  app : Option App := none
deriving Repr, Inhabited

inductive AppErr | oob | ooo | tooold | dup | noapp
deriving DecidableEq, Repr

def Db.initialized (d : Db) : Bool := d.minT ≠ MaxI64

/-- `Head.appendableMinValidTime`. -/
def Db.appendableMinValid (d : Db) : Int := max (d.maxT - d.cfg.chunkRange.tdiv 2) d.minValid

def Db.getSeries (d : Db) (i : Nat) : HSeries :=
  (d.series.find? (·.idx = i)).getD ⟨i, [], []⟩

def Db.setSeries (d : Db) (s : HSeries) : Db :=
  if d.series.any (·.idx = s.idx) then
    { d with series := d.series.map fun x => if x.idx = s.idx then s else x }
  else { d with series := d.series ++ [s] }

/-- `memSeries.appendable` for float samples (head_append.go). `inl false` = in order,
    `inl true` = out of order accepted. -/
def appendable (phys : List Smp) (t : Int) (v : Nat) (headMaxt minValid oooWin : Int) : Except AppErr Bool :=
  let inOrder : Option (Except AppErr Bool) :=
    if t ≥ minValid then
      match phys.getLast? with
      | none => some (.ok false)
      | some l =>
        if t > l.t then some (.ok false)
        else if t = l.t then
          if l.v ≠ v then some (.error .dup) else some (.ok false)
        else none
    else none
  match inOrder with
  | some r => r
  | none =>
    if oooWin > 0 ∧ t ≥ headMaxt - oooWin then .ok true
    else if oooWin > 0 then .error .tooold
    else if t < minValid then .error .oob
    else .error .ooo

/-- `Head.Appender`: snapshot of the window, or the lazy init appender. -/
def Db.begin (d : Db) : Db :=
  if d.initialized then
    { d with app := some { init := false, minValid := d.appendableMinValid, headMaxt := d.maxT, batch := [] } }
  else { d with app := some { init := true, minValid := 0, headMaxt := 0, batch := [] } }

/-- `Append` on the open appender. -/
def Db.append (d : Db) (i : Nat) (t : Int) (v : Nat) : Db × Except AppErr Unit :=
  match d.app with
  | none => (d, .error .noapp)
  | some a =>
    -- initAppender: `initTime(t)` then `head.appender()`
    let (d, a) :=
      if a.init then
        let d := if d.maxT = MinI64 then { d with maxT := t, minT := if d.minT = MaxI64 then t else d.minT } else d
        (d, { a with init := false, minValid := d.appendableMinValid, headMaxt := d.maxT })
      else (d, a)
    let d := { d with app := some a }
    if d.cfg.oooWin = 0 ∧ t < a.minValid then (d, .error .oob) else
    let s := d.getSeries i
    match appendable s.phys t v a.headMaxt a.minValid d.cfg.oooWin with
    | .error e => (d, .error e)
    | .ok _ => ({ d with app := some { a with batch := a.batch ++ [(i, ⟨t, v⟩)] } }, .ok ())

/-- One sample of `commitFloats` (in-order part): re-check, then `memSeries.append`. Returns the
    series and whether the sample was stored. -/
def commitOne (s : HSeries) (x : Smp) (a : App) (oooWin : Int) : HSeries × Bool :=
  match appendable s.phys x.t x.v a.headMaxt a.minValid oooWin with
  | .ok false =>
    match s.phys.getLast? with
    | some l => if l.t ≥ x.t then (s, false) else ({ s with phys := s.phys ++ [x] }, true)
    | none => ({ s with phys := [x] }, true)
  | _ => (s, false)

def Db.commit (d : Db) : Db × Except AppErr Unit :=
  match d.app with
  | none => (d, .error .noapp)
  | some a =>
    if a.batch.isEmpty then ({ d with app := none }, .ok ()) else
    let d : Db := { d with wal := d.wal ++ [Rec.samples a.batch] }
    let step := fun (acc : Db × Int × Int) (p : Nat × Smp) =>
      let (d, lo, hi) := acc
      let (s', stored) := commitOne (d.getSeries p.1) p.2 a d.cfg.oooWin
      if stored then (d.setSeries s', min lo p.2.t, max hi p.2.t) else (d, lo, hi)
    let (d, lo, hi) := a.batch.foldl step (d, MaxI64, MinI64)
    -- `updateMinMaxTime(inOrderMint, inOrderMaxt)`
    let d := { d with minT := if lo < d.minT then lo else d.minT, maxT := if hi > d.maxT then hi else d.maxT }
    ({ d with app := none }, .ok ())

def Db.rollback (d : Db) : Db × Except AppErr Unit :=
  match d.app with
  | none => (d, .error .noapp)
  | some _ => ({ d with app := none }, .ok ())

def clampInterval (a b mint maxt : Int) : Int × Int :=
  (if a < mint then mint else a, if b > maxt then maxt else b)

def addTomb (ts : Intervals) (iv : Interval) : Intervals :=
  match add ts iv with
  | .ok r => r
  | .error _ => ts

/-- `Block.Delete` for one series: a tombstone clamped to the series' first/last sample in the block. -/
def blockDeleteSeries (mint maxt : Int) (s : BSeries) : BSeries :=
  match s.smps.head?, s.smps.getLast? with
  | some f, some l =>
    if s.smps.any (fun x => mint ≤ x.t ∧ x.t ≤ maxt) then
      let (a, b) := clampInterval mint maxt f.t l.t
      { s with tombs := addTomb s.tombs ⟨a, b⟩ }
    else s
  | _, _ => s

/-- `DB.Delete mint maxt` on series `sel` (`none` = all series). -/
def Db.delete (d : Db) (mint maxt : Int) (sel : Option Nat) : Db :=
  let hit := fun (i : Nat) => match sel with | none => true | some j => i = j
  let blocks := d.blocks.map fun b =>
    if b.mint ≤ maxt ∧ mint < b.maxt then
      { b with series := b.series.map fun s => if hit s.idx then blockDeleteSeries mint maxt s else s }
    else b
  let d := { d with blocks := blocks }
  -- head: OverlapsClosedInterval, clamp to head range, per series clamp to its own range
  if d.minT ≤ maxt ∧ mint ≤ d.maxT then
    let (hm, hM) := clampInterval mint maxt d.minT d.maxT
    let stones : List (Nat × Interval) := d.series.filterMap fun s =>
      if hit s.idx then
        match s.phys.head?, s.phys.getLast? with
        | some f, some l =>
          let (a, b) := clampInterval hm hM f.t l.t
          -- the requested range misses the series' own range: nothing to delete (F35, fixed in /repo by
          -- "fix: tsdb: Head.Delete stores inverted tombstone intervals …": `if t0 > t1 { continue }`)
          if a > b then none else some (s.idx, ⟨a, b⟩)
        | _, _ => none
      else none
    let d : Db := { d with wal := d.wal ++ [Rec.stones stones] }
    { d with series := d.series.map fun (s : HSeries) =>
        match stones.find? (fun (p : Nat × Interval) => p.1 = s.idx) with
        | some (_, iv) => { s with tombs := addTomb s.tombs iv }
        | none => s }
  else d

def visible (tombs : Intervals) (x : Smp) : Bool := !coversB tombs x.t

/-- `rangeStartForTimestamp`: start of the width-aligned range containing `t` (Go's `/` truncates
    toward zero, so negative non-multiples step down once more — repaired in /repo by
    "fix: tsdb: align negative timestamps to the block range that contains them"). -/
def rangeStartForTimestamp (t width : Int) : Int :=
  let start := (t.tdiv width) * width
  if t < 0 ∧ t.tmod width ≠ 0 then start - width else start

/-- `rangeForTimestamp` -/
def rangeForTimestamp (t width : Int) : Int := rangeStartForTimestamp t width + width

def Db.compactable (d : Db) : Bool :=
  d.initialized && decide (d.maxT - d.minT > d.cfg.chunkRange.tdiv 2 * 3)

/-- One head compaction: write block [mint, maxt) from visible head samples, then `truncateMemory maxt`. -/
def Db.compactHeadOnce (d : Db) : Db :=
  let mint := d.minT
  let maxt := rangeForTimestamp mint d.cfg.chunkRange
  let bser : List BSeries := d.series.filterMap fun s =>
    let xs := s.phys.filter fun x => mint ≤ x.t ∧ x.t ≤ maxt - 1 ∧ visible s.tombs x
    if xs.isEmpty then none else some ⟨s.idx, xs, []⟩
  let d := if bser.isEmpty then d else { d with blocks := d.blocks ++ [⟨mint, maxt, bser⟩] }
  -- truncateMemory(maxt)
  if d.minT ≥ maxt then d else
  let d := { d with minT := maxt, minValid := maxt, maxT := if d.maxT < maxt then maxt else d.maxT }
  -- gc: chunks are cut at range boundaries, so exactly the samples < maxt go away
  let series := d.series.filterMap fun s =>
    let xs := s.phys.filter fun x => x.t ≥ maxt
    if xs.isEmpty then none else some { s with phys := xs, tombs := s.tombs.filter fun iv => iv.maxt ≥ maxt }
  let d := { d with series := series }
  let actualMint : Int := d.series.foldl (fun m s => match s.phys.head? with | some f => min m f.t | none => m) MaxI64
  if actualMint > d.minT then
    let amv := d.appendableMinValid
    if actualMint < amv then { d with minT := actualMint, minValid := actualMint }
    else { d with minT := amv, minValid := amv }
  else d

/-- `DB.Compact`: head compactions while compactable (block merging is abstracted: it preserves contents). -/
def Db.compact (d : Db) : Db :=
  let rec go (fuel : Nat) (d : Db) : Db :=
    match fuel with
    | 0 => d
    | fuel + 1 => if d.compactable then go fuel d.compactHeadOnce else d
  go 64 d

/-- `DB.CleanTombstones`: rewrite blocks without their deleted samples; empty blocks disappear. -/
def Db.cleanTombstones (d : Db) : Db :=
  { d with blocks := d.blocks.filterMap fun b =>
      if b.series.all (·.tombs.isEmpty) then some b else
      let ser := b.series.filterMap fun s =>
        let xs := s.smps.filter (visible s.tombs)
        if xs.isEmpty then none else some { s with smps := xs, tombs := [] }
      if ser.isEmpty then none else some { b with series := ser } }

/-- Restart: blocks stay, the head is rebuilt from the WAL with `minValidTime := max block maxt`. -/
def Db.reopen (d : Db) : Db :=
  let mv : Int := d.blocks.foldl (fun m b => max m b.maxt) MinI64
  -- `DB.reload` → `Head.Truncate(maxt)` on the not yet initialised head sets all three scalars
  let base : Db :=
    if d.blocks.isEmpty then { cfg := d.cfg, blocks := d.blocks, wal := d.wal }
    else { cfg := d.cfg, minT := mv, maxT := mv, minValid := mv, blocks := d.blocks, wal := d.wal }
  let step := fun (acc : Db × Int × Int) (r : Rec) =>
    let (h, lo, hi) := acc
    match r with
    | .samples xs =>
      xs.foldl (fun (acc : Db × Int × Int) (p : Nat × Smp) =>
        let (h, lo, hi) := acc
        if p.2.t < mv then (h, lo, hi) else
        let s := h.getSeries p.1
        let s' := match s.phys.getLast? with
          | some l => if l.t ≥ p.2.t then s else { s with phys := s.phys ++ [p.2] }
          | none => { s with phys := [p.2] }
        (h.setSeries s', min lo p.2.t, max hi p.2.t)) (h, lo, hi)
    | .stones xs =>
      (xs.foldl (fun (h : Db) (p : Nat × Interval) =>
        if p.2.maxt < mv then h else
        if h.series.any (·.idx = p.1) then
          let s := h.getSeries p.1
          h.setSeries { s with tombs := addTomb s.tombs p.2 }
        else h) h, lo, hi)
  let (h, lo, hi) := d.wal.foldl step (base, MaxI64, MinI64)
  let h := { h with minT := if lo < h.minT then lo else h.minT, maxT := if hi > h.maxT then hi else h.maxT }
  -- deferred in Init: `if MinTime < minValidTime then minTime := minValidTime`; then gc
  let h := if h.minT < h.minValid then { h with minT := h.minValid } else h
  { h with series := h.series.filter fun s => !s.phys.isEmpty }

/-- Restart with the m-mapped-chunk oracle. At start-up the head loads the m-mapped chunks of each
    series from `chunks_head` and the WAL replay skips every sample at or below the series' `mmMaxTime`
    (the max time of those chunks). Chunk boundaries are not modelled, so `mm : series ↦ mmMaxTime` is
    supplied by the harness (read from the real head after the restart). What it decides is only which
    *physical* samples are in the head and hence `Head.MinTime()`: samples at or below `mmMaxTime` are
    exactly those that were physically in the head before the restart (`d.series`), samples above it come
    from the WAL. With the empty oracle this is `Db.reopen`. -/
def Db.reopenWith (mm : List (Nat × Int)) (d : Db) : Db :=
  let mmOf := fun (i : Nat) => ((mm.find? (·.1 = i)).map (·.2)).getD MinI64
  let mv : Int := d.blocks.foldl (fun m b => max m b.maxt) MinI64
  let base0 : Db :=
    if d.blocks.isEmpty then { cfg := d.cfg, blocks := d.blocks, wal := d.wal }
    else { cfg := d.cfg, minT := mv, maxT := mv, minValid := mv, blocks := d.blocks, wal := d.wal }
  -- m-mapped chunks: what was in the head, at or below mmMaxTime, not older than the blocks
  let kept : List HSeries := d.series.filterMap fun s =>
    let xs := s.phys.filter fun x => x.t ≤ mmOf s.idx ∧ x.t ≥ mv
    if xs.isEmpty then none else some ⟨s.idx, xs, []⟩
  let base : Db := { base0 with series := kept }
  let lo0 : Int := kept.foldl (fun m s => match s.phys.head? with | some f => min m f.t | none => m) MaxI64
  let hi0 : Int := kept.foldl (fun m s => match s.phys.getLast? with | some l => max m l.t | none => m) MinI64
  let step := fun (acc : Db × Int × Int) (r : Rec) =>
    let (h, lo, hi) := acc
    match r with
    | .samples xs =>
      xs.foldl (fun (acc : Db × Int × Int) (p : Nat × Smp) =>
        let (h, lo, hi) := acc
        if p.2.t < mv ∨ p.2.t ≤ mmOf p.1 then (h, lo, hi) else
        let s := h.getSeries p.1
        let s' := match s.phys.getLast? with
          | some l => if l.t ≥ p.2.t then s else { s with phys := s.phys ++ [p.2] }
          | none => { s with phys := [p.2] }
        (h.setSeries s', min lo p.2.t, max hi p.2.t)) (h, lo, hi)
    | .stones xs =>
      (xs.foldl (fun (h : Db) (p : Nat × Interval) =>
        if p.2.maxt < mv then h else
        if h.series.any (·.idx = p.1) then
          let s := h.getSeries p.1
          h.setSeries { s with tombs := addTomb s.tombs p.2 }
        else h) h, lo, hi)
  let (h, lo, hi) := d.wal.foldl step (base, lo0, hi0)
  let h := { h with minT := if lo < h.minT then lo else h.minT, maxT := if hi > h.maxT then hi else h.maxT }
  let h := if h.minT < h.minValid then { h with minT := h.minValid } else h
  { h with series := h.series.filter fun s => !s.phys.isEmpty }

/-- Merge two strictly increasing sample lists, first list wins on equal timestamps
    (structural in the fuel, which `mergeSmps` sets to the total length). -/
def mergeSmpsAux : Nat → List Smp → List Smp → List Smp
  | 0, xs, ys => xs ++ ys
  | _ + 1, [], ys => ys
  | _ + 1, xs, [] => xs
  | n + 1, x :: xs, y :: ys =>
    if x.t < y.t then x :: mergeSmpsAux n xs (y :: ys)
    else if y.t < x.t then y :: mergeSmpsAux n (x :: xs) ys
    else x :: mergeSmpsAux n xs ys

def mergeSmps (xs ys : List Smp) : List Smp := mergeSmpsAux (xs.length + ys.length) xs ys

/-- Insertion into an increasing list of series indices (no duplicates). -/
def insertIdx (i : Nat) : List Nat → List Nat
  | [] => [i]
  | j :: js => if i < j then i :: j :: js else if i = j then j :: js else j :: insertIdx i js

def sortIdxs (xs : List Nat) : List Nat := xs.foldr insertIdx []

/-- `DB.Querier(mint,maxt).Select(all)`: per series index the visible samples in range, head and blocks merged. -/
def Db.query (d : Db) (mint maxt : Int) : List (Nat × List Smp) :=
  let inR := fun (x : Smp) => decide (mint ≤ x.t ∧ x.t ≤ maxt)
  let headPart : List (Nat × List Smp) :=
    if maxt ≥ d.minT then d.series.map fun s => (s.idx, s.phys.filter fun x => inR x && visible s.tombs x) else []
  let blockParts : List (Nat × List Smp) := d.blocks.flatMap fun b =>
    if b.mint ≤ maxt ∧ mint < b.maxt then b.series.map fun s => (s.idx, s.smps.filter fun x => inR x && visible s.tombs x) else []
  let all := headPart ++ blockParts
  let idxs := sortIdxs (all.map (·.1))
  idxs.filterMap fun i =>
    let xs := (all.filter (·.1 = i)).foldl (fun acc p => mergeSmps acc p.2) []
    if xs.isEmpty then none else some (i, xs)

/-! ### Typed operations and runs -/

inductive Op
  | begin
  | app (s : Nat) (t : Int) (v : Nat)
  | commit
  | rollback
  | del (mint maxt : Int) (sel : Option Nat)
  | compact
  | cleantomb
  | reopen
  | q (mint maxt : Int)
  | win
deriving Repr, Inhabited

inductive Out
  | ok
  | err (e : AppErr)
  | rows (r : List (Nat × List Smp))
  | win (minT maxT : Int) (amv : Option Int)
  | other (s : String)      -- anything else the implementation may print (panic, internal error)
deriving Repr, Inhabited

def outOfRes : Except AppErr Unit → Out
  | .ok _ => .ok
  | .error e => .err e

def Db.step (d : Db) : Op → Db × Out
  | .begin => (d.begin, .ok)
  | .app s t v => let (d, r) := d.append s t v; (d, outOfRes r)
  | .commit => let (d, r) := d.commit; (d, outOfRes r)
  | .rollback => let (d, r) := d.rollback; (d, outOfRes r)
  | .del a b sel => (d.delete a b sel, .ok)
  | .compact => (d.compact, .ok)
  | .cleantomb => (d.cleanTombstones, .ok)
  | .reopen => ({ d.reopen with app := none }, .ok)
  | .q a b => (d, .rows (d.query a b))
  | .win => (d, .win d.minT d.maxT (if d.initialized then some d.appendableMinValid else none))

/-- Run a history from a state, collecting the outputs. -/
def Db.run (d : Db) : List Op → List Out
  | [] => []
  | op :: ops => let (d', o) := d.step op; o :: Db.run d' ops

/-- The state after a history. -/
def Db.after (d : Db) (ops : List Op) : Db := ops.foldl (fun d op => (d.step op).1) d

/-! ### L0 specification: C01's statement as a decidable predicate on observed behaviour

  Reference state = per series the committed, undeleted samples, maintained from the op stream and
  from the *observed* acknowledgements (an append counts only if it was answered `ok` and its
  transaction was committed). Commit applies the documented in-order rule: a sample not newer than
  the newest stored sample of its series is not stored (first writer wins). Deletion removes the
  samples of the selected series inside the closed range. Every query must return exactly the
  reference restricted to its range. Nothing here mentions `Db`. -/

structure Ref where
  store : List (Nat × List Smp) := []
  pending : List (Nat × Smp) := []
  open_ : Bool := false
deriving Repr, Inhabited

def Ref.get (r : Ref) (i : Nat) : List Smp := ((r.store.find? (·.1 = i)).map (·.2)).getD []

def Ref.set (r : Ref) (i : Nat) (xs : List Smp) : Ref :=
  if r.store.any (·.1 = i) then { r with store := r.store.map fun p => if p.1 = i then (i, xs) else p }
  else { r with store := r.store ++ [(i, xs)] }

def Ref.commit (r : Ref) : Ref :=
  let r' := r.pending.foldl (fun (r : Ref) (p : Nat × Smp) =>
    let xs := r.get p.1
    match xs.getLast? with
    | some l => if l.t ≥ p.2.t then r else r.set p.1 (xs ++ [p.2])
    | none => r.set p.1 [p.2]) r
  { r' with pending := [], open_ := false }

def Ref.query (r : Ref) (a b : Int) : List (Nat × List Smp) :=
  (sortIdxs (r.store.map (·.1))).filterMap fun i =>
    let xs := (r.get i).filter fun x => a ≤ x.t ∧ x.t ≤ b
    if xs.isEmpty then none else some (i, xs)

def Out.isOk : Out → Bool
  | .ok => true
  | _ => false

/-- One observed step of the reference; `none` = the observation contradicts the statement. -/
def Ref.step (r : Ref) (op : Op) (o : Out) : Option Ref :=
  match op with
  | .begin => some { r with pending := [], open_ := true }
  | .app s t v => some (if o.isOk ∧ r.open_ then { r with pending := r.pending ++ [(s, ⟨t, v⟩)] } else r)
  | .commit => some (if o.isOk then r.commit else { r with pending := [], open_ := false })
  | .rollback => some { r with pending := [], open_ := false }
  | .reopen => some { r with pending := [], open_ := false }
  | .del a b sel =>
    let hit := fun (i : Nat) => match sel with | none => true | some j => i = j
    some { r with store := r.store.map fun p =>
            if hit p.1 then (p.1, p.2.filter fun x => ¬ (a ≤ x.t ∧ x.t ≤ b)) else p }
  | .q a b =>
    match o with
    | .rows got => if got = r.query a b then some r else none
    | _ => none
  | _ => some r

/-- `holds history`: every query in the observed history returned exactly the committed,
    undeleted samples in range. Returns the index of the first offending step. -/
def holdsFrom (r : Ref) : List (Op × Out) → Nat → Option Nat
  | [], _ => none
  | (op, o) :: rest, k =>
    match r.step op o with
    | none => some k
    | some r' => holdsFrom r' rest (k + 1)

def holds (h : List (Op × Out)) : Bool := (holdsFrom {} h 0).isNone

end Prom.Db
