import PromModel.Prelude.Line
/-
  C06 — the compaction / truncation protocol of tsdb as a transition system (tie kind T4).

  Data is abstract: a fixed set `data` of committed samples; each sample is physically in the head
  (in-order: `headGc ≤ t`; out-of-order: `oooGc < ref`), in blocks, or both.

  ONE maintenance thread (db.cmtx) whose atomic steps are the code's protocol steps:

    head compaction (db.compactHead + Head.truncateMemory)
      hWrite       compactor.Write of the RangeHead [lo, T-1]
      hSwap        reloadBlocks: `db.blocks = toLoad` under db.mtx.Lock
      hStoreTrunc  lastMemoryTruncationTime.Store(T)
      hSetFlag     memTruncationInProcess.Store(true)
      hWait        WaitForPendingReadersInTimeRange(head.MinTime(), T)   (guard: no overlapping reader)
      hSetMin      minTime.Store(T); minValidTime.Store(T)
      hGc          truncateSeriesAndChunkDiskMapper (gc; may advance minTime to the first remaining sample)
      hClear       deferred memTruncationInProcess.Store(false)
    out-of-order compaction (db.compactOOOHead + Head.truncateOOO)
      oSnap        NewOOOCompactionHead (m-maps every OOO head chunk; r = last m-map ref, 0 if none)
      oWrite       compactOOO: one block per block range
      oSwap        reloadBlocks swap
      oSetLastGC   db.lastGarbageCollectedMmapRef = r under db.mtx.Lock
      oWait        WaitForPendingReadersForOOOChunksAtOrBefore(r)
      oGc          minOOOMmapRef.Store(r); truncateSeriesAndChunkDiskMapper (same gc as hGc)
    block compaction / deletion (db.compactBlocks, reloadBlocks, deleteBlocks)
      cWrite       compactor.Compact(parents) ;  cSwap  reloadBlocks swap (parents leave db.blocks)
      dSwap        reloadBlocks swap that drops blocks beyond retention (their samples become `retired`)
      bClose p     Block.Close: pendingReaders.Wait()          (guard: no open reader holds p)
      bRemove p    rename to tmp-for-deletion + RemoveAll

  and any number of reader threads (DB.Querier) with program

      rlock (db.mtx.RLock; read db.blocks — and db.lastGarbageCollectedMmapRef, which like db.blocks only
             changes under db.mtx.Lock, so reading it here or later inside the section is the same);
      readMin (head.MinTime(), Min/MaxOOOTime); register (head querier: iso.State(mint,maxt));
      loadFlag (memTruncationInProcess); loadTrunc (lastMemoryTruncationTime: close | re-open from T);
      trackOOO (oooIso.TrackReadAfter(lastGC)); runlock; …iterate…; close.

  `head.MinTime()` is loaded up to four times between RLock and the registration (gate, inoMint,
  indexRange, chunksRange); it only grows, the effective lower bound of the head part is the largest
  load, so the single load of the model (the last one before the registration) is the least visibility.
-/
namespace Prom.CompactionProtocol

structure Sample where
  ser : Nat
  t : Int
  v : Int
  ooo : Bool
  /-- abstract m-map chunk reference of an out-of-order sample (≥ 1); 0 for in-order samples -/
  ref : Nat
deriving DecidableEq, Repr, Inhabited

structure Blk where
  id : Nat
  /-- meta.MinTime -/
  lo : Int
  /-- meta.MaxTime - 1 (closed interval) -/
  hi : Int
  samples : List Sample
deriving DecidableEq, Repr, Inhabited

/-- Closed intervals [a,b] and [c,d] overlap. -/
def ovl (a b c d : Int) : Bool := decide (a ≤ d) && decide (c ≤ b)

inductive RPc
  | idle | locked | gotMin | registered | sawFlag | checked | tracked | reading | closed
deriving DecidableEq, Repr, Inhabited

structure Reader where
  lo : Int
  hi : Int
  pc : RPc := .idle
  /-- the blocks taken from db.blocks (those overlapping [lo,hi]); their readers stay pending until close -/
  blocks : List Blk := []
  /-- db.lastGarbageCollectedMmapRef as read under the RLock -/
  lastGC : Nat := 0
  /-- ghost: the samples already dropped by retention when the query started -/
  retired0 : List Sample := []
  /-- head.MinTime() as loaded -/
  hm : Int := 0
  /-- overlapsClosedInterval(mint, maxt, MinOOOTime, MaxOOOTime) -/
  ovOOO : Bool := false
  /-- the registered isolation state of the head querier (what truncation waits on) -/
  reg : Option (Int × Int) := none
  /-- lower bound of the in-order head part actually read (`none`: no in-order head part) -/
  headLo : Option Int := none
  /-- oooIsolation state: reads OOO chunks with ref > minRef -/
  oooReg : Option Nat := none
deriving Repr, Inhabited

inductive MPc
  | idle
  | hWritten (T : Int) (b : Blk)
  | hSwapped (T : Int) | hTimeStored (T : Int) | hFlagSet (T : Int) | hWaited (T : Int)
  | hMinSet (T : Int) | hGcDone (T : Int)
  | oSnapped (r : Nat) | oWritten (r : Nat) (bs : List Blk) | oSwapped (r : Nat)
  | oLastGC (r : Nat) | oWaited (r : Nat)
  | cWritten (ps : List Nat) (b : Blk)
  | deleting (ps : List Nat) (closed : Option Nat)
deriving Repr, Inhabited

structure State where
  data : List Sample := []
  headMin : Int := 0
  headGc : Int := 0
  truncTime : Int := -9223372036854775808
  inProcess : Bool := false
  oooGc : Nat := 0
  lastGC : Nat := 0
  oooLo : Int := 9223372036854775807
  oooHi : Int := -9223372036854775808
  blocks : List Blk := []
  removed : List Nat := []
  retired : List Sample := []
  mpc : MPc := .idle
  readers : List Reader := []
deriving Repr, Inhabited

inductive RAct
  | rlock | readMin | register | loadFlag | loadTrunc | trackOOO | runlock | close
deriving DecidableEq, Repr, Inhabited

inductive MAct
  | hWrite (lo T : Int) (id : Nat)
  | hSwap | hStoreTrunc | hSetFlag | hWait | hSetMin
  | hGc (newMin newOLo : Int)
  | hClear
  | oSnap (r : Nat)
  | oWrite (metas : List (Nat × Int × Int))
  | oSwap | oSetLastGC | oWait
  | oGc (newMin newOLo : Int)
  | cWrite (ps : List Nat) (id : Nat) (lo hi : Int)
  | cSwap
  | dSwap (ps : List Nat)
  | bClose (p : Nat)
  | bRemove (p : Nat)
deriving Repr, Inhabited

inductive Act
  | spawn (lo hi : Int)
  | reader (i : Nat) (a : RAct)
  | maint (a : MAct)
deriving Repr, Inhabited

/-! ### Readers -/

/-- Holds db.mtx.RLock. -/
def Reader.holdsLock (r : Reader) : Bool :=
  match r.pc with
  | .locked | .gotMin | .registered | .sawFlag | .checked | .tracked => true
  | _ => false

/-- Has taken its blocks and not closed yet (its block readers are pending). -/
def Reader.isOpen (r : Reader) : Bool :=
  match r.pc with
  | .idle | .closed => false
  | _ => true

def Blk.overlaps (b : Blk) (lo hi : Int) : Bool := ovl b.lo b.hi lo hi

/-- One atomic step of a reader; it only reads the shared state. -/
def rstep (σ : State) (r : Reader) : RAct → Option Reader
  | .rlock =>
    if r.pc = .idle then
      some { r with pc := .locked, blocks := σ.blocks.filter (·.overlaps r.lo r.hi),
                    lastGC := σ.lastGC, retired0 := σ.retired }
    else none
  | .readMin =>
    if r.pc = .locked then
      some { r with pc := .gotMin, hm := σ.headMin, ovOOO := ovl r.lo r.hi σ.oooLo σ.oooHi }
    else none
  | .register =>
    if r.pc = .gotMin then
      if decide (r.hm ≤ r.hi) || r.ovOOO then some { r with pc := .registered, reg := some (r.lo, r.hi) }
      else some { r with pc := .checked, headLo := none }
    else none
  | .loadFlag =>
    if r.pc = .registered then
      if σ.inProcess then some { r with pc := .sawFlag }
      else some { r with pc := .checked, headLo := some (max r.lo r.hm) }
    else none
  | .loadTrunc =>
    if r.pc = .sawFlag then
      let T := σ.truncTime
      if r.hi < T then some { r with pc := .checked, reg := none, headLo := none }
      else if r.lo < T then some { r with pc := .checked, reg := some (T, r.hi), headLo := some T }
      else some { r with pc := .checked, headLo := some (max r.lo r.hm) }
    else none
  | .trackOOO =>
    if r.pc = .checked then
      some { r with pc := .tracked, oooReg := if r.ovOOO then some r.lastGC else none }
    else none
  | .runlock => if r.pc = .tracked then some { r with pc := .reading } else none
  | .close =>
    if r.pc = .reading then some { r with pc := .closed, reg := none, oooReg := none, blocks := [] }
    else none

/-! ### Maintenance thread -/

def noLockHeld (σ : State) : Bool := σ.readers.all fun r => !r.holdsLock

/-- WaitForPendingReadersInTimeRange(head.MinTime(), T): no registered head reader overlaps [headMin, T-1]. -/
def headWaitDone (σ : State) (T : Int) : Bool :=
  σ.readers.all fun r => match r.reg with
    | some (a, b) => !ovl a b σ.headMin (T - 1)
    | none => true

/-- WaitForPendingReadersForOOOChunksAtOrBefore(r): no open OOO read with minRef < r. -/
def oooWaitDone (σ : State) (r : Nat) : Bool :=
  σ.readers.all fun rd => match rd.oooReg with
    | some m => decide (r ≤ m)
    | none => true

/-- Block.Close: no pending reader of block `p`. -/
def blockFree (σ : State) (p : Nat) : Bool :=
  σ.readers.all fun r => !r.isOpen || r.blocks.all fun b => b.id != p

def blockIds (σ : State) : List Nat := σ.blocks.map (·.id)

def inHead (σ : State) (s : Sample) : Bool :=
  if s.ooo then decide (σ.oooGc < s.ref) else decide (σ.headGc ≤ s.t)

def mkOOOBlock (σ : State) (r : Nat) (m : Nat × Int × Int) : Blk :=
  { id := m.1, lo := m.2.1, hi := m.2.2,
    samples := σ.data.filter fun s => s.ooo && decide (σ.oooGc < s.ref) && decide (s.ref ≤ r)
                                        && decide (m.2.1 ≤ s.t) && decide (s.t ≤ m.2.2) }

def mstep (σ : State) : MAct → Option State
  | .hWrite lo T id =>
    match σ.mpc with
    | .idle =>
      if decide (σ.headMin < T) && decide (lo ≤ σ.headMin) && !(blockIds σ).contains id && !σ.removed.contains id then
        let b : Blk := { id := id, lo := lo, hi := T - 1,
                         samples := σ.data.filter fun s => !s.ooo && decide (σ.headGc ≤ s.t)
                                      && decide (lo ≤ s.t) && decide (s.t ≤ T - 1) }
        some { σ with mpc := .hWritten T b }
      else none
    | _ => none
  | .hSwap =>
    match σ.mpc with
    | .hWritten T b => if noLockHeld σ then some { σ with blocks := σ.blocks ++ [b], mpc := .hSwapped T } else none
    | _ => none
  | .hStoreTrunc =>
    match σ.mpc with
    | .hSwapped T => some { σ with truncTime := T, mpc := .hTimeStored T }
    | _ => none
  | .hSetFlag =>
    match σ.mpc with
    | .hTimeStored T => some { σ with inProcess := true, mpc := .hFlagSet T }
    | _ => none
  | .hWait =>
    match σ.mpc with
    | .hFlagSet T => if headWaitDone σ T then some { σ with mpc := .hWaited T } else none
    | _ => none
  | .hSetMin =>
    match σ.mpc with
    | .hWaited T => some { σ with headMin := T, mpc := .hMinSet T }
    | _ => none
  | .hGc newMin newOLo =>
    match σ.mpc with
    | .hMinSet T =>
      if decide (T ≤ newMin)
         && (σ.data.all fun s => s.ooo || decide (s.t < T) || decide (newMin ≤ s.t))
         && (σ.data.all fun s => !s.ooo || decide (s.ref ≤ σ.oooGc) || decide (newOLo ≤ s.t)) then
        some { σ with headGc := T, headMin := newMin, oooLo := newOLo, mpc := .hGcDone T }
      else none
    | _ => none
  | .hClear =>
    match σ.mpc with
    | .hGcDone _ => some { σ with inProcess := false, mpc := .idle }
    | _ => none
  | .oSnap r =>
    match σ.mpc with
    | .idle =>
      if (σ.data.all fun s => !s.ooo || decide (s.ref ≤ r) || decide (s.ref ≤ σ.oooGc))
         && (decide (σ.lastGC < r) || (decide (r = 0) && σ.data.all fun s => !s.ooo || decide (s.ref ≤ σ.oooGc))) then
        some { σ with mpc := .oSnapped r }
      else none
    | _ => none
  | .oWrite metas =>
    match σ.mpc with
    | .oSnapped r =>
      -- every collected sample lies in one of the written block ranges
      if (σ.data.all fun s => !s.ooo || decide (s.ref ≤ σ.oooGc) || decide (r < s.ref)
            || metas.any fun m => decide (m.2.1 ≤ s.t) && decide (s.t ≤ m.2.2))
         && (metas.all fun m => !(blockIds σ).contains m.1 && !σ.removed.contains m.1) then
        some { σ with mpc := .oWritten r (metas.map (mkOOOBlock σ r)) }
      else none
    | _ => none
  | .oSwap =>
    match σ.mpc with
    | .oWritten r bs =>
      if noLockHeld σ then
        some { σ with blocks := σ.blocks ++ bs, mpc := if r = 0 then .idle else .oSwapped r }
      else none
    | _ => none
  | .oSetLastGC =>
    match σ.mpc with
    | .oSwapped r => if noLockHeld σ then some { σ with lastGC := r, mpc := .oLastGC r } else none
    | _ => none
  | .oWait =>
    match σ.mpc with
    | .oLastGC r => if oooWaitDone σ r then some { σ with mpc := .oWaited r } else none
    | _ => none
  | .oGc newMin newOLo =>
    match σ.mpc with
    | .oWaited r =>
      -- the same gc also collects in-order chunks below head.MinTime() and may advance it
      if decide (σ.headMin ≤ newMin)
         && (σ.data.all fun s => s.ooo || decide (s.t < σ.headMin) || decide (newMin ≤ s.t))
         && (σ.data.all fun s => !s.ooo || decide (s.ref ≤ r) || decide (newOLo ≤ s.t)) then
        some { σ with oooGc := r, headGc := σ.headMin, headMin := newMin, oooLo := newOLo, mpc := .idle }
      else none
    | _ => none
  | .cWrite ps id lo hi =>
    match σ.mpc with
    | .idle =>
      let samples := (σ.blocks.filter fun b => ps.contains b.id).flatMap (·.samples)
      if !ps.isEmpty && !(blockIds σ).contains id && !σ.removed.contains id && !ps.contains id
         && (ps.all fun p => (blockIds σ).contains p)
         && (samples.all fun s => decide (lo ≤ s.t) && decide (s.t ≤ hi)) then
        some { σ with mpc := .cWritten ps { id := id, lo := lo, hi := hi, samples := samples } }
      else none
    | _ => none
  | .cSwap =>
    match σ.mpc with
    | .cWritten ps b =>
      if noLockHeld σ then
        some { σ with blocks := (σ.blocks.filter fun x => !ps.contains x.id) ++ [b], mpc := .deleting ps none }
      else none
    | _ => none
  | .dSwap ps =>
    match σ.mpc with
    | .idle =>
      if !ps.isEmpty && noLockHeld σ then
        some { σ with retired := σ.retired ++ (σ.blocks.filter fun b => ps.contains b.id).flatMap (·.samples),
                      blocks := σ.blocks.filter fun x => !ps.contains x.id,
                      mpc := .deleting ps none }
      else none
    | _ => none
  | .bClose p =>
    match σ.mpc with
    | .deleting ps none =>
      if ps.contains p && blockFree σ p then some { σ with mpc := .deleting ps (some p) } else none
    | _ => none
  | .bRemove p =>
    match σ.mpc with
    | .deleting ps (some q) =>
      if p = q then
        some { σ with removed := p :: σ.removed,
                      mpc := if (ps.erase p).isEmpty then .idle else .deleting (ps.erase p) none }
      else none
    | _ => none

def step (σ : State) : Act → Option State
  | .spawn lo hi => some { σ with readers := σ.readers ++ [{ lo := lo, hi := hi }] }
  | .reader i a =>
    match σ.readers[i]? with
    | some r => (rstep σ r a).map fun r' => { σ with readers := σ.readers.set i r' }
    | none => none
  | .maint a => mstep σ a

def run (σ : State) : List Act → Option State
  | [] => some σ
  | a :: rest => match step σ a with
    | some σ' => run σ' rest
    | none => none

/-! ### What a reader sees -/

def inRange (r : Reader) (s : Sample) : Bool := decide (r.lo ≤ s.t) && decide (s.t ≤ r.hi)

/-- Served by the in-order head part. -/
def viaHead (σ : State) (r : Reader) (s : Sample) : Bool :=
  !s.ooo && (match r.headLo with | some l => decide (l ≤ s.t) | none => false) && decide (σ.headGc ≤ s.t)

/-- Served by the out-of-order head part. -/
def viaOOO (σ : State) (r : Reader) (s : Sample) : Bool :=
  s.ooo && (match r.oooReg with | some m => decide (m < s.ref) | none => false) && decide (σ.oooGc < s.ref)

/-- Served by a block of the reader's list whose files still exist. -/
def viaBlock (σ : State) (r : Reader) (s : Sample) : Bool :=
  r.blocks.any fun b => b.samples.contains s && !σ.removed.contains b.id

def visible (σ : State) (r : Reader) (s : Sample) : Bool :=
  viaHead σ r s || viaOOO σ r s || viaBlock σ r s

/-- The parts a querier merges (with repetitions: a sample may come from the head and from blocks). -/
def parts (σ : State) (r : Reader) : List Sample :=
  (σ.data.filter fun s => inRange r s && (viaHead σ r s || viaOOO σ r s))
  ++ r.blocks.flatMap fun b => if σ.removed.contains b.id then [] else b.samples.filter (inRange r)

/-- The merged result (ChainedSeriesMerge de-duplicates equal (series, t); C19). -/
def view (σ : State) (r : Reader) : List Sample := (parts σ r).eraseDups

/-! ### Initial states -/

def initState (data : List Sample) (headMin oooLo oooHi : Int) : State :=
  { data := data, headMin := headMin, headGc := headMin, oooLo := oooLo, oooHi := oooHi }

/-- Well-formed data for an initial state: in-order samples are in the head window, out-of-order samples
    have a positive ref and lie inside the published OOO bounds. -/
def initOk (data : List Sample) (headMin oooLo oooHi : Int) : Bool :=
  data.all fun s => if s.ooo then decide (0 < s.ref) && decide (oooLo ≤ s.t) && decide (s.t ≤ oooHi)
                    else decide (headMin ≤ s.t)

end Prom.CompactionProtocol
