import PromModel.Tsdb.DbModel
/-
  C53 — the read-only open (`tsdb.DBReadOnly`, tsdb/db.go) on top of the shared storage model.

  The on-disk state of a closed (or uncleanly stopped) database is what `Db` keeps besides the head:
  `blocks` and `wal` (an open appender has nothing on disk). From it

  * the read-write open (`Db.reopen`, DbModel) rebuilds the head with `Head.Init(minValidTime)` where
    `minValidTime := inOrderBlocksMaxTime()` = the largest `MaxTime` over *all* blocks without an
    out-of-order / stale-series / selected-series hint (the model has no hinted blocks yet: stage C/D),
    after `DB.reload` has truncated the still empty head to that time;
  * the read-only open (`Db.openReadOnly`) lists the blocks sorted by `MinTime` (`DBReadOnly.Blocks`),
    takes `maxBlockTime := MaxTime of the LAST block of that list` (`math.MinInt64` without blocks) and,
    per query, `loadDataAsQueryable(maxt)` replays the WAL into a *fresh* head with
    `Head.Init(maxBlockTime)` iff `maxBlockTime ≤ maxt`, else the head stays empty.

  `initHead` is the common `Head.Init` (the WAL replay of `Db.reopen`, parametrised by the start state
  and the cutoff); `Db.reopen_eq_initHead` shows `Db.reopen` is exactly `initHead (rwBase d) (rwCut d)`.
-/
namespace Prom.Db
open Prom.Intervals

/-! ### `Head.Init(minValidTime)`: WAL replay with a cutoff -/

/-- One WAL record of the replay (`Head.loadWAL`): samples below the cutoff are skipped, a sample not
    newer than the series' newest one is dropped, tombstones are applied to known series. -/
def replayStep (mv : Int) (acc : Db × Int × Int) (r : Rec) : Db × Int × Int :=
  let (h, lo, hi) := acc
  match r with
  | .samples xs =>
    xs.foldl (fun (acc : Db × Int × Int) (p : Nat × Smp) =>
      let (h, lo, hi) := acc
      if p.2.t < mv then (h, lo, hi) else
      let s := h.getSeries p.1
      let s' := match s.phys.getLast? with
        | some l => if l.t ≥ p.2.t then s else { s with phys := s.phys ++ [p.2] }
        | none => { s with phys := [p.2] }
      (h.setSeries s', min lo p.2.t, max hi p.2.t)) (h, lo, hi)
  | .stones xs =>
    (xs.foldl (fun (h : Db) (p : Nat × Interval) =>
      if p.2.maxt < mv then h else
      if h.series.any (·.idx = p.1) then
        let s := h.getSeries p.1
        h.setSeries { s with tombs := addTomb s.tombs p.2 }
      else h) h, lo, hi)

/-- `Head.Init(mv)` on the head scalars of `base`, replaying `base.wal`. -/
def initHead (base : Db) (mv : Int) : Db :=
  let (h, lo, hi) := base.wal.foldl (replayStep mv) (base, MaxI64, MinI64)
  let h := { h with minT := if lo < h.minT then lo else h.minT, maxT := if hi > h.maxT then hi else h.maxT }
  let h := if h.minT < h.minValid then { h with minT := h.minValid } else h
  { h with series := h.series.filter fun s => !s.phys.isEmpty }

/-- `inOrderBlocksMaxTime()` (no block of the model carries a hint). -/
def Db.rwCut (d : Db) : Int := d.blocks.foldl (fun m b => max m b.maxt) MinI64

/-- The head before `Head.Init` in the read-write open: `DB.reload` → `Head.Truncate(maxt)` on the
    not yet initialised head sets all three scalars when there is a block. -/
def Db.rwBase (d : Db) : Db :=
  if d.blocks.isEmpty then { cfg := d.cfg, blocks := d.blocks, wal := d.wal }
  else { cfg := d.cfg, minT := d.rwCut, maxT := d.rwCut, minValid := d.rwCut, blocks := d.blocks, wal := d.wal }

theorem Db.reopen_eq_initHead (d : Db) : d.reopen = initHead d.rwBase d.rwCut := by
  have hw : d.rwBase.wal = d.wal := by unfold Db.rwBase; split <;> rfl
  simp only [Db.reopen, initHead, hw]
  rfl

/-! ### The read-only open -/

/-- Stable insertion sort by `MinTime` (`slices.SortFunc` in `DBReadOnly.Blocks`; the directory
    listing is in creation (ULID) order). -/
def insertByMint (b : Block) : List Block → List Block
  | [] => [b]
  | c :: cs => if b.mint ≤ c.mint then b :: c :: cs else c :: insertByMint b cs

def sortByMint (bs : List Block) : List Block := bs.foldr insertByMint []

/-- What `OpenDBReadOnly(dir)` + `Blocks()` see. `disk` is the directory content the view reads from
    (never written: see `roSession` below for the file-system side). -/
structure RoView where
  disk : Db
  blocks : List Block       -- `DBReadOnly.Blocks()`: sorted by MinTime
  maxBlockTime : Int        -- MaxTime of the last block of that list, `math.MinInt64` if none
deriving Repr, Inhabited

def Db.openReadOnly (d : Db) : RoView :=
  let bs := sortByMint d.blocks
  { disk := d, blocks := bs,
    maxBlockTime := match bs.getLast? with | some b => b.maxt | none => MinI64 }

/-- The fresh head handed to `Head.Init(maxBlockTime)`: no `DB.reload`/`Truncate` happens on this
    path, so the head window starts uninitialised (`minT = MaxInt64`, `maxT = MinInt64`).
    Block order: the merge querier is fed the blocks in the order of `d.blocks` on both the read-write
    and the read-only side (the real code sorts by MinTime in both, DbModel keeps creation order in
    both); the sorted list decides only `maxBlockTime`. -/
def RoView.headBase (v : RoView) : Db :=
  { cfg := v.disk.cfg, minValid := v.maxBlockTime, blocks := v.disk.blocks, wal := v.disk.wal }

/-- `loadDataAsQueryable(maxt)`: the WAL is added iff `maxBlockTime ≤ maxt`. -/
def RoView.queryable (v : RoView) (maxt : Int) : Db :=
  if v.maxBlockTime ≤ maxt then initHead v.headBase v.maxBlockTime
  else { cfg := v.disk.cfg, blocks := v.disk.blocks, wal := v.disk.wal }

/-- `DBReadOnly.Querier(mint, maxt)` + `Select(all)`. -/
def RoView.query (v : RoView) (mint maxt : Int) : List (Nat × List Smp) :=
  (v.queryable maxt).query mint maxt

/-- All visible samples of a head (what a block cut from the whole head contains). -/
def Db.headRows (h : Db) : List (Nat × List Smp) :=
  (sortIdxs (h.series.map (·.idx))).filterMap fun i =>
    let xs := (h.getSeries i).phys.filter (visible (h.getSeries i).tombs)
    if xs.isEmpty then none else some (i, xs)

/-- `DBReadOnly.FlushWAL`: `Head.Init(maxBlockTime)` on a fresh head, then one block
    `[head.MinTime, head.MaxTime+1)` with the head's visible samples. The rows of that block. -/
def RoView.flushRows (v : RoView) : List (Nat × List Smp) :=
  (initHead v.headBase v.maxBlockTime).headRows

/-- The head of the read-write open of the same directory. -/
def Db.rwHeadRows (d : Db) : List (Nat × List Smp) := d.reopen.headRows

/-- A clean `DB.Close` (the open appender is rolled back; everything else is on disk already). -/
def Db.closeState (d : Db) : Db := { d with app := none }

/-! ### Histories with read-only opens -/

abbrev Rows := List (Nat × List Smp)

inductive XOp
  | base (op : Op)
  | roq (a b : Int) (clean : Bool)   -- clean: Close, read-only open + query, read-write reopen + query
                                     -- ¬clean: the same on a copy taken while the DB stays open
  | rofl (clean : Bool)              -- FlushWAL from a read-only open vs the head of the read-write open
deriving Repr, Inhabited

inductive XOut
  | base (o : Out)
  | roq (ro rw : Rows) (rocut rwcut : Option Int)
  | rofl (fl hd : Rows) (rocut rwcut : Option Int)
deriving Repr, Inhabited

def Db.roCutObs (d : Db) : Option Int := if d.blocks.isEmpty then none else some d.openReadOnly.maxBlockTime
def Db.rwCutObs (d : Db) : Option Int := if d.blocks.isEmpty then none else some d.rwCut

def Db.xstep (d : Db) : XOp → Db × XOut
  | .base op => let (d', o) := d.step op; (d', .base o)
  | .roq a b clean =>
    let disk := d.closeState
    let d' : Db := { disk.reopen with app := none }
    (if clean then d' else d, .roq (disk.openReadOnly.query a b) (d'.query a b) disk.roCutObs disk.rwCutObs)
  | .rofl clean =>
    let disk := d.closeState
    let d' : Db := { disk.reopen with app := none }
    (if clean then d' else d, .rofl disk.openReadOnly.flushRows d'.headRows disk.roCutObs disk.rwCutObs)

def Db.xrun (d : Db) : List XOp → List XOut
  | [] => []
  | op :: ops => let (d', o) := d.xstep op; o :: Db.xrun d' ops

def Db.xafter (d : Db) (ops : List XOp) : Db := ops.foldl (fun d op => (d.xstep op).1) d

/-- C53's first clause on one observation: the read-only rows are the read-write rows. -/
def XOut.roOk : XOut → Bool
  | .base _ => true
  | .roq ro rw _ _ => ro == rw
  | .rofl fl hd _ _ => fl == hd

/-! ### File-system side of a read-only session

  Names map to inodes, inodes to contents; a hard link is a second name for an inode. The session of
  one `OpenDBReadOnly … Querier … Close` is the script

    MkdirTemp(sandboxRoot)                       -- fresh name, inside or outside the data dir
    link dataDir/chunks_head/f → sandbox/chunks_head/f        (`chunks.HardLinkChunkFiles`)
    Head.Init on the sandbox: remove corrupted / empty head chunk files (unlink), cut new ones (create)
    RemoveAll(sandbox)                            -- `DBReadOnly.Close`

  Every action names only paths below the sandbox; none writes through an existing inode. -/

abbrev Path := List String

structure Fs where
  names : List (Path × Nat)        -- path ↦ inode
  inodes : List (Nat × List Nat)   -- inode ↦ content
deriving Repr, Inhabited, DecidableEq

inductive FsAct
  | mkdir (p : Path)                    -- recorded as a name with a fresh empty inode
  | link (src dst : Path)
  | unlink (p : Path)
  | create (p : Path) (content : List Nat)
  | removeAll (p : Path)
deriving Repr

def Fs.fresh (fs : Fs) : Nat := fs.inodes.foldl (fun m p => max m (p.1 + 1)) 0

def Fs.lookup (fs : Fs) (p : Path) : Option Nat := (fs.names.find? (·.1 = p)).map (·.2)

def Fs.act (fs : Fs) : FsAct → Fs
  | .mkdir p => { names := fs.names ++ [(p, fs.fresh)], inodes := fs.inodes ++ [(fs.fresh, [])] }
  | .link src dst =>
    match fs.lookup src with
    | some i => { fs with names := fs.names ++ [(dst, i)] }
    | none => fs
  | .unlink p => { fs with names := fs.names.filter (·.1 ≠ p) }
  | .create p c => { names := fs.names.filter (·.1 ≠ p) ++ [(p, fs.fresh)], inodes := fs.inodes ++ [(fs.fresh, c)] }
  | .removeAll p => { fs with names := fs.names.filter fun q => !(p.isPrefixOf q.1) }

def FsAct.target : FsAct → Path
  | .mkdir p => p | .link _ d => d | .unlink p => p | .create p _ => p | .removeAll p => p

/-- What an observer of the data directory sees: every name with its content. -/
def Fs.view (fs : Fs) : List (Path × Option (List Nat)) :=
  fs.names.map fun q => (q.1, (fs.inodes.find? (·.1 = q.2)).map (·.2))

/-- The script of one read-only session with sandbox directory `sb`: hard links of the head chunk
    files `chunkFiles` (paths relative to the data dir `dir`), the head's own file operations `work`
    (unlink / create below the sandbox), `Close`. -/
def roSession (dir sb : Path) (chunkFiles : List String) (work : List FsAct) : List FsAct :=
  [FsAct.mkdir sb, FsAct.mkdir (sb ++ ["chunks_head"])] ++
  chunkFiles.map (fun f => FsAct.link (dir ++ ["chunks_head", f]) (sb ++ ["chunks_head", f])) ++
  work ++ [FsAct.removeAll sb]

def Fs.run (fs : Fs) (as : List FsAct) : Fs := as.foldl Fs.act fs

end Prom.Db
