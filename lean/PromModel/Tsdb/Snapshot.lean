import PromModel.Tsdb.ReadOnly
/-
  C23 — restart from a memory snapshot (`chunk_snapshot.<segment>.<offset>`, tsdb/head_wal.go) on top
  of the shared storage model (`Db`, DbModel) and of `Head.Init`'s WAL replay (`replayStep`/`initHead`,
  ReadOnly.lean).

  What is on disk besides `Db.blocks` / `Db.wal`:
    * `mm`   — the m-mapped head chunks (`chunks_head/`), per series the samples they hold. `Head.Close`
               m-maps every chunk except the newest one of each series (`mmapHeadChunks`);
    * `snap` — the chunk snapshot written by `Head.Close` → `performChunkSnapshot` when
               `EnableMemorySnapshotOnShutdown` is set: per series (labels = its index here) the samples of
               the HEAD chunk only, the head tombstones, and the WAL position (last segment, offset) —
               here the segment index and the number of records logged so far. (Exemplars: judged on the
               implementation only, see SnapSuite.)
    * `seg`  — index of the WAL segment being written (`wlog.New` starts a new segment at every open).

  `Head.Init` with snapshots enabled (`reopenWithSnapshot`):
    1. `endAt < idx` (last WAL segment older than the snapshot)  ⇒ snapshots deleted, full replay;
    2. `loadChunkSnapshot` fails (damaged file)                  ⇒ `resetInMemoryState`, full replay
                                                                    (the snapshot directory stays; the
                                                                    head window scalars are reset too);
    3. otherwise series := head chunk from the snapshot, tombstones from the snapshot,
       `updateMinMaxTime(chunk.minTime, chunk.maxTime)`; then `loadMmappedChunks(refSeries)`: every
       m-mapped chunk with `maxt ≥ minValidTime` goes in front of the head chunk
       (`updateMinMaxTime` again); then the WAL from the snapshot position only.
       QUIRK (finding F31): a series created by `loadChunkSnapshot` keeps `memSeries.mmMaxTime = 0`
       (Go zero value; only `resetSeriesWithMMappedChunks`, reached through a WAL *series record*,
       sets it), and `processWALSamples` skips `s.T <= ms.mmMaxTime`: samples with timestamp ≤ 0
       logged after the snapshot are dropped for those series. `mm0 = some 0` is the code as found,
       `mm0 = none` the repaired code (fixes/F31.patch).
  Without snapshot directory / with snapshots disabled: `Db.reopen` (DbModel).
-/
namespace Prom.Db
open Prom.Intervals

/-- Content of one `chunk_snapshot.<seg>.<offset>` directory. -/
structure Snap where
  series : List (Nat × List Smp)      -- per series: the samples of its head chunk (`[]` = no head chunk)
  tombs : List (Nat × Intervals)      -- head tombstones (one snapshot record)
  pos : Nat                           -- number of WAL records logged before the snapshot was taken
  seg : Nat                           -- WAL segment index of that position
  loads : Bool := true                -- `false`: some record fails to decode / checksum (damaged file)
deriving Repr, Inhabited

/-- A database together with the on-disk state that `Db` does not carry. -/
structure SnapDb where
  db : Db
  seg : Nat := 0
  mm : List (Nat × List Smp) := []
  snap : Option Snap := none
deriving Repr, Inhabited

def mmOf (mm : List (Nat × List Smp)) (i : Nat) : List Smp := ((mm.find? (·.1 = i)).map (·.2)).getD []

def tombsOf (ts : List (Nat × Intervals)) (i : Nat) : Intervals := ((ts.find? (·.1 = i)).map (·.2)).getD []

/-- Number of samples that stay in the head chunk of a series with `n` samples under the cut oracle
    (`cut i` = size of the newest chunk of series `i`; the real rule — `samplesPerChunk`, chunk-range
    boundaries, `nextAt = maxTime` after a snapshot load — is not modelled: nothing observable depends
    on it, see `C23.cut_irrelevant`). -/
def headLen (cut : Nat → Nat) (i n : Nat) : Nat := min (cut i) n

/-- Clean `DB.Close` with `EnableMemorySnapshotOnShutdown`: the open appender is rolled back, all but
    the newest chunk of every series are m-mapped, the snapshot is written at the end of the WAL. -/
def SnapDb.closeWithSnapshot (cut : Nat → Nat) (x : SnapDb) : SnapDb :=
  let d := x.db.closeState
  { db := d, seg := x.seg,
    mm := d.series.map fun s => (s.idx, s.phys.take (s.phys.length - headLen cut s.idx s.phys.length)),
    snap := some {
      series := d.series.map fun s => (s.idx, s.phys.drop (s.phys.length - headLen cut s.idx s.phys.length)),
      tombs := d.series.map fun s => (s.idx, s.tombs),
      pos := d.wal.length, seg := x.seg } }

/-- `updateMinMaxTime(chunk.minTime, chunk.maxTime)` for the chunks of one series on the running
    minimum / maximum (`minTime`/`maxTime` of a chunk = its smallest / largest timestamp). -/
def physLoHi (acc : Int × Int) (phys : List Smp) : Int × Int :=
  phys.foldl (fun a x => (min a.1 x.t, max a.2 x.t)) acc

/-- The head series after `loadChunkSnapshot` + `loadMmappedChunks(refSeries)` with cutoff `mv`. -/
def Snap.headSeries (s : Snap) (mm : List (Nat × List Smp)) (mv : Int) : List HSeries :=
  s.series.map fun p => ⟨p.1, (mmOf mm p.1).filter (fun x => decide (mv ≤ x.t)) ++ p.2, tombsOf s.tombs p.1⟩

/-- `processWALSamples`' `s.T <= ms.mmMaxTime` skip for the series that came from the snapshot. -/
def tailFilter (mm0 : Option Int) (snapIdx : List Nat) : Rec → Rec
  | .samples xs =>
    .samples (match mm0 with
      | none => xs
      | some m => xs.filter fun p => !(snapIdx.contains p.1 && decide (p.2.t ≤ m)))
  | r => r

/-- `Head.Init(mv)` from given start series and running bounds over the records `recs`
    (`initHead` is the instance `base.series = []`, bounds `(MaxInt64, MinInt64)`, `recs = base.wal`). -/
def initHeadFrom (base : Db) (mv : Int) (lo hi : Int) (recs : List Rec) : Db :=
  let (h, lo, hi) := recs.foldl (replayStep mv) (base, lo, hi)
  let h := { h with minT := if lo < h.minT then lo else h.minT, maxT := if hi > h.maxT then hi else h.maxT }
  let h := if h.minT < h.minValid then { h with minT := h.minValid } else h
  { h with series := h.series.filter fun s => !s.phys.isEmpty }

theorem initHead_eq_initHeadFrom (base : Db) (mv : Int) :
    initHead base mv = initHeadFrom base mv MaxI64 MinI64 base.wal := rfl

/-- The snapshot path of `Head.Init`: snapshot + m-mapped chunks, then the WAL behind the position. -/
def loadSnapshot (mm0 : Option Int) (d : Db) (mm : List (Nat × List Smp)) (s : Snap) : Db :=
  let mv := d.rwCut
  let ser := s.headSeries mm mv
  let lh := ser.foldl (fun acc h => physLoHi acc h.phys) (MaxI64, MinI64)
  initHeadFrom { d.rwBase with series := ser } mv lh.1 lh.2
    ((d.wal.drop s.pos).map (tailFilter mm0 (s.series.map (·.1))))

/-- `Head.Init` after `loadChunkSnapshot` returned an error: `resetInMemoryState` wipes the head —
    including `minTime`/`maxTime`, which `DB.reload` → `Head.Truncate` had set to the blocks' end
    (`rwBase`); `minValidTime` stays — and the whole WAL is replayed. The head window may therefore
    start later than after a plain open (`Head.MinTime()` = oldest replayed sample instead of the
    blocks' end); the series are the same (`C23.bad_snapshot_falls_back_without_loss`). -/
def reopenAfterFailedLoad (d : Db) : Db :=
  initHead { cfg := d.cfg, minValid := d.rwCut, blocks := d.blocks, wal := d.wal } d.rwCut

/-- What `Head.Init` does with the snapshot found in the directory. `walEnd` = index of the last WAL
    segment present at that moment. -/
inductive SnapUse | absent | outdated | unreadable | used
deriving DecidableEq, Repr

def snapUse (walEnd : Nat) : Option Snap → SnapUse
  | none => .absent
  | some s => if walEnd < s.seg then .outdated else if !s.loads then .unreadable else .used

/-- Open the directory with `EnableMemorySnapshotOnShutdown` (`mm0`: see the header). -/
def SnapDb.reopenWithSnapshot (mm0 : Option Int) (x : SnapDb) : SnapDb :=
  let walEnd := x.seg + 1            -- `wlog.New` has already started the next segment
  let d := x.db.closeState
  match x.snap with
  | some s =>
    match snapUse walEnd (some s) with
    | .used => { x with db := { loadSnapshot mm0 d x.mm s with app := none }, seg := walEnd }
    | .outdated => { x with db := { d.reopen with app := none }, seg := walEnd, snap := none }
    | _ => { x with db := { reopenAfterFailedLoad d with app := none }, seg := walEnd }
  | none => { x with db := { d.reopen with app := none }, seg := walEnd }

/-- Open the directory after `chunk_snapshot.*` was removed (or with snapshots disabled). -/
def SnapDb.reopenPlain (x : SnapDb) : SnapDb :=
  { x with db := { x.db.closeState.reopen with app := none }, seg := x.seg + 1, snap := none }

/-! ### Histories -/

/-- Damage done to the snapshot of copy A before it is opened. -/
inductive Dmg | none | unreadable
deriving DecidableEq, Repr, Inhabited

def SnapDb.damage (x : SnapDb) : Dmg → SnapDb
  | .none => x
  | .unreadable => { x with snap := x.snap.map fun s => { s with loads := false } }

inductive SOp
  | base (op : Op)                              -- `reopen` = clean shutdown with snapshot + open with snapshot
  | snapq (dmg : Dmg) (clean : Bool) (a b : Int) -- compare copy A (snapshot) with copy B (snapshot removed)
  | fork (dmg : Dmg) (clean : Bool)             -- the same, and the history continues on BOTH copies
deriving Repr, Inhabited

structure Cmp where
  a : Rows
  b : Rows
  awin : Int × Int × Option Int
  bwin : Int × Int × Option Int
deriving Repr, Inhabited

inductive SOut
  | one (o : Out)
  | two (oa ob : Out)
  | cmp (c : Cmp)
deriving Repr, Inhabited

def Db.winOf (d : Db) : Int × Int × Option Int :=
  (d.minT, d.maxT, if d.initialized then some d.appendableMinValid else none)

/-- The two copies of the directory at a comparison point, opened. -/
def SnapDb.copies (mm0 : Option Int) (cut : Nat → Nat) (x : SnapDb) (dmg : Dmg) (clean : Bool) : SnapDb × SnapDb :=
  let disk := if clean then x.closeWithSnapshot cut else { x with db := x.db.closeState }
  ((disk.damage dmg).reopenWithSnapshot mm0, disk.reopenPlain)

def cmpOf (A B : SnapDb) (a b : Int) : Cmp :=
  { a := A.db.query a b, b := B.db.query a b, awin := A.db.winOf, bwin := B.db.winOf }

/-- One step on a single database. -/
def SnapDb.step1 (mm0 : Option Int) (cut : Nat → Nat) (x : SnapDb) (op : Op) : SnapDb × Out :=
  match op with
  | .reopen => ((x.closeWithSnapshot cut).reopenWithSnapshot mm0, .ok)
  | op => let (d, o) := x.db.step op; ({ x with db := d }, o)

/-- State of a history: one database, or (after `fork`) the two copies. -/
inductive SState
  | one (x : SnapDb)
  | two (A B : SnapDb)
deriving Repr, Inhabited

def SState.step (mm0 : Option Int) (cut : Nat → Nat) : SState → SOp → SState × SOut
  | .one x, .base op => let (x', o) := x.step1 mm0 cut op; (.one x', .one o)
  | .one x, .snapq dmg clean a b =>
    let (A, B) := x.copies mm0 cut dmg clean
    -- after a clean comparison the original directory (undamaged) is opened with its snapshot
    (.one (if clean then (x.closeWithSnapshot cut).reopenWithSnapshot mm0 else x), .cmp (cmpOf A B a b))
  | .one x, .fork dmg clean =>
    let (A, B) := x.copies mm0 cut dmg clean
    (.two A B, .cmp (cmpOf A B MinI64 MaxI64))
  | .two A B, .base op =>
    let (A', oa) := A.step1 mm0 cut op
    let (B', ob) := B.step1 mm0 cut op
    (.two A' B', .two oa ob)
  | .two A B, _ => (.two A B, .one (.other "bad-op"))

def SState.run (mm0 : Option Int) (cut : Nat → Nat) : SState → List SOp → List SOut
  | _, [] => []
  | s, op :: ops => let (s', o) := s.step mm0 cut op; o :: SState.run mm0 cut s' ops

/-- The value of `memSeries.mmMaxTime` of a snapshot-loaded series in the code as found. -/
def codeMm0 : Option Int := none

end Prom.Db
