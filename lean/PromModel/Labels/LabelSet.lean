import PromModel.Prelude.Line
/-
  Label sets, `Builder`, `ScratchBuilder` (prometheus `model/labels`), core Lean only.

  A `LabelSet` is the *sequence* of (name, value) pairs a `labels.Labels` value iterates over
  (`Range`).  Canonical sets are strictly name-sorted in byte order (`Canonical`); everything
  here is also defined on non-canonical sequences (duplicates, unsorted, empty values), because
  the real constructors accept them ("raw behaviour").

  The three build-tag implementations differ *outside* their contract (unsorted input, empty
  label names, `ScratchBuilder` reuse without `Reset`, the opaque `Bytes` encoding).  Where they
  do, the definition takes a `Flavor`; `PromProps/C39.lean` proves the flavours coincide on
  canonical input.  Flavour-free definitions (`get`, `has`, …) are the API other models reuse.

  Strings are valid UTF-8 (Lean `String`); order is byte-wise on the UTF-8 encoding (`slt`),
  which is what Go's `<` / `strings.Compare` do.
-/
namespace Prom.Labels

abbrev Label := String × String
abbrev LabelSet := List Label

inductive Flavor | string | slice | dedupe
  deriving DecidableEq, Repr

inductive Err | panic
  deriving DecidableEq, Repr

/-! ### byte-wise string order -/

/-- UTF-8 bytes of a string. -/
def sbytes (s : String) : List UInt8 := s.toUTF8.data.toList

/-- Go `a < b` on strings: lexicographic on bytes. -/
def slt (a b : String) : Bool := decide (sbytes a < sbytes b)

def sle (a b : String) : Bool := !slt b a

/-- Length in bytes (Go `len(s)`). -/
def blen (s : String) : Nat := (sbytes s).length

/-- First byte of a string (`s[0]`), `none` for the empty string (Go would panic). -/
def firstByte (s : String) : Option UInt8 := (sbytes s).head?

/-! ### sorting (`slices.SortFunc` by name; stable — Go uses insertion sort up to 12 elements,
    and for distinct names every sort gives the same result) -/

def insertByName (x : Label) : LabelSet → LabelSet
  | [] => [x]
  | y :: ys => if slt x.1 y.1 then x :: y :: ys else y :: insertByName x ys

/-- Stable sort by name: elements are inserted left to right, each after its equals. -/
def sortByName (ls : LabelSet) : LabelSet := ls.foldl (fun acc x => insertByName x acc) []

def insertStr (x : String) : List String → List String
  | [] => [x]
  | y :: ys => if slt x y then x :: y :: ys else y :: insertStr x ys

def sortStrs (ls : List String) : List String := ls.foldl (fun acc x => insertStr x acc) []

/-! ### predicates -/

def names (ls : LabelSet) : List String := ls.map (·.1)

/-- strictly increasing names -/
def sortedB : LabelSet → Bool
  | [] => true
  | [_] => true
  | a :: b :: rest => slt a.1 b.1 && sortedB (b :: rest)

def noEmptyValuesB (ls : LabelSet) : Bool := ls.all (fun l => l.2 ≠ "")
def noEmptyNamesB (ls : LabelSet) : Bool := ls.all (fun l => l.1 ≠ "")

/-- The canonical form: strictly name-sorted (hence duplicate-free), no empty values. -/
def canonicalB (ls : LabelSet) : Bool := sortedB ls && noEmptyValuesB ls

/-! ### constructors -/

/-- `labels.New`: sorts, keeps everything (duplicates, empty values). -/
def new (ls : LabelSet) : LabelSet := sortByName ls

def pairUp : List String → Except Err LabelSet
  | [] => .ok []
  | [_] => .error .panic
  | n :: v :: rest => do let r ← pairUp rest; pure ((n, v) :: r)

/-- `labels.FromStrings`: panics on an odd number of strings. -/
def fromStrings (ss : List String) : Except Err LabelSet := do
  let ls ← pairUp ss
  pure (new ls)

/-- Go map built from a pair list: later assignment wins. -/
def mapOfPairs (ls : LabelSet) : LabelSet :=
  ls.foldl (fun acc l => acc.filter (·.1 ≠ l.1) ++ [l]) []

/-- `labels.FromMap` (the map has distinct keys, so the iteration order does not matter). -/
def fromMap (ls : LabelSet) : LabelSet := new (mapOfPairs ls)

/-! ### queries -/

/-- First label with that name (the flavour-independent lookup). -/
def get (ls : LabelSet) (name : String) : String :=
  match ls.find? (·.1 = name) with
  | some l => l.2
  | none => ""

def has (ls : LabelSet) (name : String) : Bool := ls.any (·.1 = name)

def lookup (ls : LabelSet) (name : String) : Option String :=
  (ls.find? (·.1 = name)).map (·.2)

/-- first byte of the length prefix of `s` in the stringlabels encoding -/
def sizeByte (s : String) : UInt8 := if blen s < 255 then UInt8.ofNat (blen s) else 255

/-- `Labels.Get`/`Has` of stringlabels and dedupelabels scan with an early exit on the first byte;
    returns the matching label. -/
def findEarly (fl : Flavor) (name : String) (nb : UInt8) : LabelSet → Except Err (Option Label)
  | [] => .ok none
  | (n, v) :: rest =>
    match fl with
    | .slice => if n = name then .ok (some (n, v)) else findEarly fl name nb rest
    | .string =>
      -- with an empty label name the byte inspected is the value's length prefix
      let fb := match firstByte n with | some b => b | none => sizeByte v
      if fb = nb then (if n = name then .ok (some (n, v)) else findEarly fl name nb rest)
      else if fb > nb then .ok none else findEarly fl name nb rest
    | .dedupe =>
      if n = name then .ok (some (n, v)) else
      match firstByte n with
      | none => .error .panic
      | some fb => if fb > nb then .ok none else findEarly fl name nb rest

def findF (fl : Flavor) (ls : LabelSet) (name : String) : Except Err (Option Label) :=
  match fl, firstByte name with
  | .slice, _ => findEarly .slice name 0 ls
  | _, none => .ok none
  | fl, some nb => findEarly fl name nb ls

def getF (fl : Flavor) (ls : LabelSet) (name : String) : Except Err String := do
  match ← findF fl ls name with
  | some l => pure l.2
  | none => pure ""

def hasF (fl : Flavor) (ls : LabelSet) (name : String) : Except Err Bool := do
  pure (← findF fl ls name).isSome

def len (ls : LabelSet) : Nat := ls.length

def equal (a b : LabelSet) : Bool := a == b

def cmpStr (a b : String) : Int := if a = b then 0 else if slt a b then -1 else 1

/-- `labels.Compare`, sign only: lexicographic over name₁, value₁, name₂, value₂, …; a proper
    prefix compares lower. -/
def compare : LabelSet → LabelSet → Int
  | [], [] => 0
  | [], _ :: _ => -1
  | _ :: _, [] => 1
  | (an, av) :: as, (bn, bv) :: bs =>
    if an ≠ bn then (if slt an bn then -1 else 1)
    else if av ≠ bv then (if slt av bv then -1 else 1)
    else compare as bs

/-! ### String() -/

def isLegacyNameChar (c : Char) (first : Bool) : Bool :=
  ('a' ≤ c && c ≤ 'z') || ('A' ≤ c && c ≤ 'Z') || c = '_' || (!first && '0' ≤ c && c ≤ '9')

def allLegacy (colon : Bool) : List Char → Bool → Bool
  | [], _ => true
  | c :: cs, first => (isLegacyNameChar c first || (colon && c = ':')) && allLegacy colon cs false

/-- `model.LegacyValidation.IsValidLabelName` -/
def isValidLegacyLabelName (s : String) : Bool := s ≠ "" && allLegacy false s.toList true
/-- `model.LegacyValidation.IsValidMetricName` -/
def isValidLegacyMetricName (s : String) : Bool := s ≠ "" && allLegacy true s.toList true

def hex2 (n : Nat) : List Char := [hexDigit (n / 16 % 16), hexDigit (n % 16)]
def hex4 (n : Nat) : List Char := hex2 (n / 256) ++ hex2 (n % 256)

/-- `unicode.IsPrint` as far as it is modelled: exact for U+0000–U+00FF; code points above are
    *assumed printable* (the generator only draws printable ones; see checks/C39.json). -/
def isPrint (c : Char) : Bool :=
  let n := c.toNat
  if n < 0x20 then false
  else if n < 0x7f then true
  else if n < 0xa1 then false
  else if n = 0xad then false
  else true

/-- `strconv.Quote` on valid UTF-8. -/
def quoteChar (c : Char) : List Char :=
  if c = '"' then ['\\', '"']
  else if c = '\\' then ['\\', '\\']
  else if isPrint c then [c]
  else
    let n := c.toNat
    if n = 7 then ['\\', 'a'] else if n = 8 then ['\\', 'b'] else if n = 12 then ['\\', 'f']
    else if n = 10 then ['\\', 'n'] else if n = 13 then ['\\', 'r'] else if n = 9 then ['\\', 't']
    else if n = 11 then ['\\', 'v']
    else if n < 0x20 || n = 0x7f then ['\\', 'x'] ++ hex2 n
    else if n < 0x10000 then ['\\', 'u'] ++ hex4 n
    else ['\\', 'U'] ++ hex4 (n / 65536) ++ hex4 (n % 65536)

def quote (s : String) : String := String.ofList (['"'] ++ s.toList.flatMap quoteChar ++ ['"'])

/-- `Labels.String()` -/
def toStr (ls : LabelSet) : String :=
  "{" ++ ", ".intercalate (ls.map fun (n, v) =>
    (if isValidLegacyLabelName n then n else quote n) ++ "=" ++ quote v) ++ "}"

/-! ### Bytes (opaque, implementation specific) -/

def sepB : UInt8 := 0xff
def labelSepB : UInt8 := 0xfe

/-- stringlabels length prefix -/
def encSize (n : Nat) : List UInt8 :=
  if n < 255 then [UInt8.ofNat n]
  else [255, UInt8.ofNat (n % 256), UInt8.ofNat (n / 256 % 256), UInt8.ofNat (n / 65536 % 256)]

def encStr (s : String) : List UInt8 := encSize (blen s) ++ sbytes s
def encLabel (l : Label) : List UInt8 := encStr l.1 ++ encStr l.2

/-- `name 0xFF value` -/
def sepLabel (l : Label) : List UInt8 := sbytes l.1 ++ [sepB] ++ sbytes l.2

/-- append one label to a slicelabels/dedupelabels byte buffer; `first` = what the code tests
    to decide whether a separator is needed -/
def pushSep (needSep : Bool) (buf : List UInt8) (l : Label) : List UInt8 :=
  (if needSep then buf ++ [sepB] else buf) ++ sepLabel l

/-- `name 0xFF value` joined by `0xFF` (separator decided by the label index) -/
def bytesSepGo (i : Nat) (buf : List UInt8) : LabelSet → List UInt8
  | [] => buf
  | l :: rest => bytesSepGo (i + 1) (pushSep (i > 0) buf l) rest

def bytes (fl : Flavor) (ls : LabelSet) : List UInt8 :=
  match fl with
  | .string => ls.flatMap encLabel
  | .slice => bytesSepGo 0 [labelSepB] ls
  | .dedupe => bytesSepGo 0 [] ls

/-- `for j < len(names) && names[j] < name { j++ }` -/
def skipLt (nm : List String) (name : String) : List String := nm.dropWhile (fun x => slt x name)

/-- how one selected label is appended to the buffer -/
def pushF (fl : Flavor) (buf : List UInt8) (l : Label) : List UInt8 :=
  match fl with
  | .string => buf ++ encLabel l
  | _ => pushSep (buf.length > 1) buf l

/-- stringlabels/dedupelabels `BytesWithLabels` loop (`j` is not advanced on a match) -/
def bytesWithScan (fl : Flavor) (buf : List UInt8) (nm : List String) : LabelSet → List UInt8
  | [] => buf
  | l :: rest =>
    match skipLt nm l.1 with
    | [] => buf
    | x :: nm' => bytesWithScan fl (if l.1 = x then pushF fl buf l else buf) (x :: nm') rest

/-- slicelabels `BytesWithLabels` merge loop -/
def bytesWithMerge (fuel : Nat) (buf : List UInt8) (nm : List String) (ls : LabelSet) : List UInt8 :=
  match fuel with
  | 0 => buf
  | fuel + 1 =>
    match ls, nm with
    | [], _ => buf
    | _, [] => buf
    | l :: rest, x :: nm' =>
      if slt x l.1 then bytesWithMerge fuel buf nm' (l :: rest)
      else if slt l.1 x then bytesWithMerge fuel buf (x :: nm') rest
      else bytesWithMerge fuel (pushSep (buf.length > 1) buf l) nm' rest

/-- `BytesWithLabels` -/
def bytesWith (fl : Flavor) (ls : LabelSet) (nm : List String) : List UInt8 :=
  match fl with
  | .slice => bytesWithMerge (ls.length + nm.length + 1) [labelSepB] nm ls
  | fl => bytesWithScan fl [] nm ls

def bytesWithoutGo (fl : Flavor) (buf : List UInt8) (nm : List String) : LabelSet → List UInt8
  | [] => buf
  | l :: rest =>
    let nm' := skipLt nm l.1
    let hit : Bool := match nm' with | x :: _ => l.1 = x | [] => false
    if hit then bytesWithoutGo fl buf nm' rest
    else bytesWithoutGo fl (pushF fl buf l) nm' rest

/-- `BytesWithoutLabels` -/
def bytesWithout (fl : Flavor) (ls : LabelSet) (nm : List String) : List UInt8 :=
  bytesWithoutGo fl (match fl with | .slice => [labelSepB] | _ => []) nm ls

/-! ### derived sets -/

def withoutEmpty (ls : LabelSet) : LabelSet := ls.filter (fun l => l.2 ≠ "")

/-- `HasDuplicateLabelNames`: adjacent equal names; stringlabels starts with `prevName = ""`. -/
def hasDupF (fl : Flavor) (ls : LabelSet) : Option String :=
  let rec go (prev : Option String) : LabelSet → Option String
    | [] => none
    | l :: rest => if prev = some l.1 then some l.1 else go (some l.1) rest
  go (match fl with | .string => some "" | _ => none) ls

def hasDup (ls : LabelSet) : Option String := hasDupF .slice ls

def underscoreB : UInt8 := 95

/-- `DropReserved(shouldDrop)`: removes the chosen names among the leading labels whose first
    byte is ≤ '_'; an empty label name panics (`lName[0]`) in every build. -/
def dropReserved (drop : String → Bool) : LabelSet → Except Err LabelSet
  | [] => .ok []
  | (n, v) :: rest =>
    match firstByte n with
    | none => .error .panic
    | some b =>
      if b > underscoreB then .ok ((n, v) :: rest)
      else if drop n then dropReserved drop rest
      else do let r ← dropReserved drop rest; pure ((n, v) :: r)

def metricName : String := "__name__"

def dropMetricName (ls : LabelSet) : Except Err LabelSet := dropReserved (· = metricName) ls

inductive Scheme | legacy | utf8
  deriving DecidableEq

/-- `Labels.IsValid(scheme)`; label values are valid UTF-8 by construction here. -/
def isValid (sch : Scheme) (ls : LabelSet) : Bool :=
  ls.all fun (n, v) =>
    (if n = metricName then
       (match sch with | .legacy => isValidLegacyMetricName v | .utf8 => v ≠ "") else true) &&
    (match sch with | .legacy => isValidLegacyLabelName n | .utf8 => n ≠ "")

/-! ### Builder -/

structure Builder where
  base : LabelSet := []
  add : LabelSet := []
  del : List String := []
  deriving Repr, DecidableEq

namespace Builder

/-- `NewBuilder(base)` / `Reset(base)`: empty-valued base labels are recorded as deleted. -/
def reset (base : LabelSet) : Builder :=
  { base := base, add := [], del := base.filterMap (fun l => if l.2 = "" then some l.1 else none) }

def delOne (b : Builder) (n : String) : Builder :=
  { b with add := b.add.filter (·.1 ≠ n), del := b.del ++ [n] }

def delAll (b : Builder) (ns : List String) : Builder := ns.foldl delOne b

def keep (b : Builder) (ns : List String) : Builder :=
  { b with del := b.del ++ (b.base.filter (fun l => !ns.contains l.1)).map (·.1) }

def set (b : Builder) (n v : String) : Builder :=
  if v = "" then b.delOne n
  else if b.add.any (·.1 = n) then { b with add := b.add.map (fun l => if l.1 = n then (n, v) else l) }
  else { b with add := b.add ++ [(n, v)] }

def getF (fl : Flavor) (b : Builder) (n : String) : Except Err String :=
  match b.add.find? (·.1 = n) with
  | some l => .ok l.2
  | none => if b.del.contains n then .ok "" else Labels.getF fl b.base n

/-- `Builder.Range`: surviving base labels in base order, then the added ones in insertion order. -/
def range (b : Builder) : LabelSet :=
  b.base.filter (fun l => !b.del.contains l.1 && !b.add.any (·.1 = l.1)) ++ b.add

/-- the merge loop of stringlabels/dedupelabels `Builder.Labels` (`add`, `del` already sorted) -/
def merge : LabelSet → LabelSet → List String → LabelSet
  | [], add, _ => add
  | (n, v) :: base, add, del =>
    let del' := del.dropWhile (fun x => slt x n)
    if del'.head? = some n then merge base add del'
    else
      let lo := add.takeWhile (fun a => slt a.1 n)
      let add' := add.dropWhile (fun a => slt a.1 n)
      match add' with
      | (an, av) :: add'' =>
        if an = n then lo ++ (an, av) :: merge base add'' del'
        else lo ++ (n, v) :: merge base add' del'
      | [] => lo ++ (n, v) :: merge base [] del'

/-- `Builder.Labels()`; stringlabels and dedupelabels sort `add`/`del` in place. -/
def labelsF (fl : Flavor) (b : Builder) : LabelSet × Builder :=
  if b.del.isEmpty && b.add.isEmpty then (b.base, b)
  else match fl with
  | .slice =>
    let res := b.base.filter (fun l => !b.del.contains l.1 && !b.add.any (·.1 = l.1))
    (if b.add.isEmpty then res else sortByName (res ++ b.add), b)
  | _ =>
    let add := sortByName b.add
    let del := sortStrs b.del
    (merge b.base add del, { b with add := add, del := del })

/-- flavour-free result (the slicelabels formulation). -/
def labels (b : Builder) : LabelSet := (labelsF .slice b).1

end Builder

/-- `Labels.MatchLabels(on, names…)`: stringlabels/dedupelabels go through a `Builder`
    (drops empty values), slicelabels filters. -/
def matchLabels (fl : Flavor) (ls : LabelSet) (on : Bool) (nm : List String) : LabelSet :=
  match fl with
  | .slice => ls.filter fun l => (on == nm.contains l.1) && (on || l.1 ≠ metricName)
  | _ =>
    let b := Builder.reset ls
    let b := if on then b.keep nm else (b.delOne metricName).delAll nm
    (b.labelsF fl).1

/-! ### ScratchBuilder -/

structure Scratch where
  add : LabelSet := []
  /-- stringlabels/dedupelabels cache the result; empty = not set -/
  output : LabelSet := []
  deriving Repr, DecidableEq

namespace Scratch

def reset (_ : Scratch) : Scratch := {}
def addL (s : Scratch) (n v : String) : Scratch := { s with add := s.add ++ [(n, v)] }
def sort (s : Scratch) : Scratch := { s with add := sortByName s.add }

def assign (fl : Flavor) (s : Scratch) (l : LabelSet) : Scratch :=
  match fl with
  | .slice => { s with add := l }
  | _ => { s with output := l }

def labelsF (fl : Flavor) (s : Scratch) : LabelSet × Scratch :=
  match fl with
  | .slice => (s.add, s)
  | _ => if s.output.isEmpty then (s.add, { s with output := s.add }) else (s.output, s)

/-- `Overwrite(&ls)`: always the labels added so far. -/
def overwrite (s : Scratch) : LabelSet := s.add

end Scratch

end Prom.Labels
