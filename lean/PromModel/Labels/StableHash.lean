/-
  Model of `labels.StableHash` (model/labels/sharding*.go, three build variants) and of the query
  sharding filter (`headIndexReader.ShardedPostings`, `index.Reader.ShardedPostings`,
  `selectSeriesSet`/`selectChunkSeriesSet` in tsdb/querier.go) — property C18.  Core Lean only.

  * Label names/values are byte strings (`List UInt8`); a label set is the list of its labels in the
    canonical order (sorted by name), which is what all three `Labels` representations iterate over.
  * `serialise`: `name 0xFF value 0xFF …`, the byte string all three variants feed to xxhash.
  * `xxhash64`: executable XXH64 with seed 0 (transcribed from cespare/xxhash/v2 `Sum64`), plus the
    streaming `Digest` (`New`/`Write`/`Sum64`) which the variants switch to once the buffered
    serialisation would reach 1 KiB.  `Digest.total` is a `Nat` (Go: uint64; inputs are < 2^64 bytes).
  * `stableHashGo`: the code path of the Go functions (buffer until the next label would make the
    buffer reach its 1024-byte capacity, then `Write` the buffer and stream every remaining piece).
    `stableHash ls = xxhash64 (serialise ls)` is the specification; their equality is a theorem
    (PromProofs/StableHash.lean), not a definition.
  * `shardOf h n = h % n`, `shardedPostings`, and a small two-reader storage model (`Db`): a head whose
    series cache `shardHash` at creation (only when sharding is enabled, else 0), a block whose
    reader hashes the decoded labels on the fly, `Select` = postings → shard filter → sort → merge.
-/
namespace Prom.StableHash

abbrev Bytes := List UInt8

structure Label where
  name : Bytes
  value : Bytes
  deriving DecidableEq, Repr, Inhabited

abbrev Labels := List Label

/-! ## Serialisation -/

def sep : UInt8 := 0xFF

def serialiseLabel (l : Label) : Bytes := l.name ++ sep :: (l.value ++ [sep])

/-- `name 0xFF value 0xFF …` over the labels in their (canonical) order. -/
def serialise : Labels → Bytes
  | [] => []
  | l :: ls => serialiseLabel l ++ serialise ls

/-! ## XXH64 (seed 0) -/

def prime1 : UInt64 := 11400714785074694791
def prime2 : UInt64 := 14029467366897019727
def prime3 : UInt64 := 1609587929392839161
def prime4 : UInt64 := 9650029242287828579
def prime5 : UInt64 := 2870177450012600261

@[inline] def rol (x : UInt64) (k : UInt64) : UInt64 := (x <<< k) ||| (x >>> (64 - k))

def round (acc input : UInt64) : UInt64 := rol (acc + input * prime2) 31 * prime1

def mergeRound (acc val : UInt64) : UInt64 := (acc ^^^ round 0 val) * prime1 + prime4

/-- little-endian value of a byte string -/
def leNat : Bytes → Nat
  | [] => 0
  | b :: bs => b.toNat + 256 * leNat bs

/-- `binary.LittleEndian.Uint64(b[:8])` -/
def u64le (b : Bytes) : UInt64 := UInt64.ofNat (leNat (b.take 8))
/-- `uint64(binary.LittleEndian.Uint32(b[:4]))` -/
def u32le (b : Bytes) : UInt64 := UInt64.ofNat (leNat (b.take 4))

/-- the four lane accumulators -/
structure Acc where
  v1 : UInt64
  v2 : UInt64
  v3 : UInt64
  v4 : UInt64
  deriving DecidableEq, Repr

/-- `ResetWithSeed(0)` -/
def Acc.init : Acc := ⟨prime1 + prime2, prime2, 0, 0 - prime1⟩

/-- one 32-byte stripe -/
def Acc.block (a : Acc) (b : Bytes) : Acc :=
  ⟨round a.v1 (u64le b), round a.v2 (u64le (b.drop 8)), round a.v3 (u64le (b.drop 16)),
   round a.v4 (u64le (b.drop 24))⟩

def Acc.merge (a : Acc) : UInt64 :=
  let h := rol a.v1 1 + rol a.v2 7 + rol a.v3 12 + rol a.v4 18
  mergeRound (mergeRound (mergeRound (mergeRound h a.v1) a.v2) a.v3) a.v4

/-- `writeBlocks` / the main loop of `Sum64`: consume every complete 32-byte stripe; returns the
    accumulators and the unconsumed tail (< 32 bytes). -/
def blocks (a : Acc) (b : Bytes) : Acc × Bytes :=
  if 32 ≤ b.length then blocks (a.block (b.take 32)) (b.drop 32) else (a, b)
termination_by b.length
decreasing_by simp only [List.length_drop]; omega

/-- `for ; len(b) >= 8; b = b[8:]` -/
def tail8 (h : UInt64) (b : Bytes) : UInt64 × Bytes :=
  if 8 ≤ b.length then tail8 (rol (h ^^^ round 0 (u64le b)) 27 * prime1 + prime4) (b.drop 8) else (h, b)
termination_by b.length
decreasing_by simp only [List.length_drop]; omega

def tail1 (h : UInt64) : Bytes → UInt64
  | [] => h
  | x :: bs => tail1 (rol (h ^^^ (x.toUInt64 * prime5)) 11 * prime1) bs

def avalanche (h : UInt64) : UInt64 :=
  let h := (h ^^^ (h >>> 33)) * prime2
  let h := (h ^^^ (h >>> 29)) * prime3
  h ^^^ (h >>> 32)

/-- everything after `h += n`: the < 32 remaining bytes and the final mix -/
def finish (h : UInt64) (b : Bytes) : UInt64 :=
  let (h, b) := tail8 h b
  let (h, b) := if 4 ≤ b.length then (rol (h ^^^ (u32le b * prime1)) 23 * prime2 + prime3, b.drop 4) else (h, b)
  avalanche (tail1 h b)

/-- `xxhash.Sum64(b)` -/
def xxhash64 (b : Bytes) : UInt64 :=
  if 32 ≤ b.length then
    let (a, r) := blocks Acc.init b
    finish (a.merge + UInt64.ofNat b.length) r
  else finish (prime5 + UInt64.ofNat b.length) b

/-! ### streaming digest -/

structure Digest where
  acc : Acc
  total : Nat
  /-- `d.mem[:d.n]` -/
  mem : Bytes
  deriving Repr

/-- `xxhash.New()` -/
def Digest.new : Digest := ⟨Acc.init, 0, []⟩

/-- `(*Digest).Write` -/
def Digest.write (d : Digest) (b : Bytes) : Digest :=
  let total := d.total + b.length
  if d.mem.length + b.length < 32 then
    -- This new data doesn't even fill the current block.
    { d with total := total, mem := d.mem ++ b }
  else
    -- Finish off the partial block.
    let c := 32 - d.mem.length
    let (acc1, b1) := if 0 < d.mem.length then (d.acc.block (d.mem ++ b.take c), b.drop c) else (d.acc, b)
    -- One or more full blocks left; store any remaining partial block.
    let (acc2, b2) := if 32 ≤ b1.length then blocks acc1 b1 else (acc1, b1)
    { acc := acc2, total := total, mem := b2 }

/-- `(*Digest).Sum64` -/
def Digest.sum64 (d : Digest) : UInt64 :=
  let h := if 32 ≤ d.total then d.acc.merge else d.acc.v3 + prime5
  finish (h + UInt64.ofNat d.total) d.mem

/-! ## `labels.StableHash` -/

/-- specification: XXH64 of the serialisation -/
def stableHash (ls : Labels) : UInt64 := xxhash64 (serialise ls)

/-- the streaming loop: `WriteString(name); Write(seps); WriteString(value); Write(seps)` per label -/
def streamLabels (d : Digest) : Labels → Digest
  | [] => d
  | l :: ls => streamLabels ((((d.write l.name).write [sep]).write l.value).write [sep]) ls

/-- capacity of the stack buffer `b := make([]byte, 0, 1024)` -/
def bufCap : Nat := 1024

/-- The Go loop, common to the three variants: `b` is the buffer filled so far. -/
def stableHashLoop (b : Bytes) : Labels → UInt64
  | [] => xxhash64 b
  | l :: ls =>
    if bufCap ≤ b.length + l.name.length + l.value.length + 2 then
      -- 1 KiB+: switch to the Write API, copy in the values up to this point, stream the rest
      (streamLabels (Digest.new.write b) (l :: ls)).sum64
    else stableHashLoop (b ++ serialiseLabel l) ls

/-- `labels.StableHash(ls)` as the code computes it. -/
def stableHashGo (ls : Labels) : UInt64 := stableHashLoop [] ls

/-! ## Sharding -/

/-- the shard a hash belongs to, out of `n` -/
def shardOf (h n : UInt64) : UInt64 := h % n

/-- `ShardedPostings(p, shardIndex, shardCount)` for an arbitrary per-series hash: keeps, in order,
    the postings whose hash mod `n` is `i`. -/
def shardedPostings {α : Type} (hash : α → UInt64) (p : List α) (i n : UInt64) : List α :=
  p.filter fun s => shardOf (hash s) n == i

/-! ## Label order (`labels.Compare`) -/

def cmpBytes : Bytes → Bytes → Ordering := List.compareLex compare

def cmpLabel (a b : Label) : Ordering := (cmpBytes a.name b.name).then (cmpBytes a.value b.value)

/-- `labels.Compare`: pairwise by name, then value; a proper prefix sorts first. -/
def compareLabels : Labels → Labels → Ordering := List.compareLex cmpLabel

/-! ## A two-reader storage model -/

/-- `labels.Matcher` restricted to what the suite generates -/
inductive Matcher
  | all                          -- the single matcher `{""=""}` → AllPostings
  | eq (name value : Bytes)      -- `name="value"`, value non-empty
  | neq (name value : Bytes)     -- `name!="value"`, value non-empty
  deriving Repr, DecidableEq

def labelGet (ls : Labels) (n : Bytes) : Bytes :=
  match ls.find? (fun l => l.name == n) with
  | some l => l.value
  | none => []

def Matcher.matches (m : Matcher) (ls : Labels) : Bool :=
  match m with
  | .all => true
  | .eq n v => labelGet ls n == v
  | .neq n v => !(labelGet ls n == v)

/-- `memSeries`: labels plus the shard hash cached at creation -/
structure MemSeries where
  lset : Labels
  shardHash : UInt64
  deriving Repr

structure Head where
  enableSharding : Bool
  /-- in ref order -/
  series : List MemSeries
  deriving Repr

/-- `Head.getOrCreateWithOptionalID` (the part relevant here): a new series caches
    `labels.StableHash(lset)` iff sharding is enabled, else 0. -/
def Head.getOrCreate (h : Head) (ls : Labels) : Head :=
  if h.series.any (fun s => s.lset == ls) then h
  else { h with series := h.series ++ [⟨ls, if h.enableSharding then stableHashGo ls else 0⟩] }

/-- A persisted block: the index holds the series sorted by labels. -/
structure Block where
  series : List Labels
  deriving Repr

def insertBy {α : Type} (cmp : α → α → Ordering) (a : α) : List α → List α
  | [] => [a]
  | b :: bs => if cmp a b == .gt then b :: insertBy cmp a bs else a :: b :: bs

/-- stable insertion sort -/
def sortBy {α : Type} (cmp : α → α → Ordering) (l : List α) : List α := l.foldr (insertBy cmp) []

/-- merge of two sorted series sets; equal label sets are one series (`storage.NewMergeQuerier`) -/
def mergeDedup {α : Type} (cmp : α → α → Ordering) : List α → List α → List α
  | [], ys => ys
  | xs, [] => xs
  | x :: xs, y :: ys =>
    match cmp x y with
    | .lt => x :: mergeDedup cmp xs (y :: ys)
    | .gt => y :: mergeDedup cmp (x :: xs) ys
    | .eq => x :: mergeDedup cmp xs ys

structure Hints where
  shardIndex : UInt64
  shardCount : UInt64
  deriving Repr

inductive SelErr
  | shardingDisabled
  deriving Repr, DecidableEq

/-- `headIndexReader.ShardedPostings` (uses the cached `shardHash`) + sorted select on the head. -/
def Head.select (h : Head) (m : Matcher) (hints : Option Hints) : Except SelErr (List Labels) :=
  let p := h.series.filter fun s => m.matches s.lset
  match hints with
  | some ⟨i, n⟩ =>
    if n > 0 then
      if !h.enableSharding then .error .shardingDisabled
      else .ok (sortBy compareLabels ((shardedPostings (·.shardHash) p i n).map (·.lset)))
    else .ok (sortBy compareLabels (p.map (·.lset)))
  | none => .ok (sortBy compareLabels (p.map (·.lset)))

/-- `index.Reader.ShardedPostings` (hashes the decoded labels) + select on a block. -/
def Block.select (b : Block) (m : Matcher) (hints : Option Hints) : List Labels :=
  let p := b.series.filter fun ls => m.matches ls
  match hints with
  | some ⟨i, n⟩ => if n > 0 then shardedPostings stableHashGo p i n else p
  | none => p

structure Db where
  head : Head
  block : Option Block
  deriving Repr

inductive Where
  | head | block | both
  deriving Repr, DecidableEq

def Db.blockSelect (db : Db) (m : Matcher) (hints : Option Hints) : List Labels :=
  match db.block with
  | some b => b.select m hints
  | none => []

def Db.select (db : Db) (w : Where) (m : Matcher) (hints : Option Hints) : Except SelErr (List Labels) :=
  let blk := db.blockSelect m hints
  match w with
  | .block => .ok blk
  | .head => db.head.select m hints
  | .both => do
    let hd ← db.head.select m hints
    pure (mergeDedup compareLabels blk hd)

end Prom.StableHash
