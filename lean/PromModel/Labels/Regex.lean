/-
  Model of `model/labels/regexp.go` (property C17): the `FastRegexMatcher` optimiser and the regular
  expression semantics it has to agree with.

  * `Re`      — the tree `regexp/syntax.Parse(v, Perl|DotNL)` returns (NOT simplified: that is what
                `NewFastRegexMatcher` works on), n-ary concat/alternate, literal / class / empty-match with
                their FoldCase flag.
  * `BRe`, `M`, `L` — binary core, the denotational semantics (`M r b e s`: `r` matches exactly `s`, where
                `b`/`e` say whether `s` starts at the beginning / ends at the end of the text, so that `\A`
                and `\z` anywhere in the expression have their real meaning), `L r s := M (toBin r) true true s`
                = "the fully anchored expression, `.` matching newline, matches `s`".
  * `matchD`  — executable Brzozowski-derivative matcher (proved equal to `M` in `PromProps/C17.lean`);
                it also stands for the fallback to the regexp engine (`m.re.MatchString`).
  * `SM`      — the `StringMatcher` node types with `SM.matches`; the optimiser transcribed function by
                function: `optimizeAlternatingLiterals`, `optimizeAlternatingSimpleContains`, `clearCapture`,
                `clearBeginEndText`, `findSetMatches*`, `optimizeConcatRegex`, `isSimpleConcatenationPattern`,
                `stringMatcherFromRegexp*`, `optimizeEqualOrPrefixStringMatchers`, `newEqualMultiStringMatcher`,
                `toNormalisedLower`, `compileMatchStringFunction`.

  Strings are lists of code points (`Str`); only valid UTF-8 is modelled. Byte-level operations of the Go code
  (`len`, `s[:n]`) go through `utf8Len` / `rawTake`. Case folding / lower-casing / NFKD are explicit finite
  tables: exact for ASCII (incl. the non-ASCII members K (U+212A) and ſ (U+017F) of the orbits of k and s) and
  for the handful of non-ASCII runes the generator uses; identity elsewhere.
-/
namespace Prom.Regex

abbrev Str := List Nat

/-! ## Unicode tables (ASCII exact; a few explicit non-ASCII runes) -/

def isUpperAscii (c : Nat) : Bool := 65 ≤ c && c ≤ 90
def isLowerAscii (c : Nat) : Bool := 97 ≤ c && c ≤ 122

/-- The runes different from `c` that are equal to `c` under Unicode simple case folding
    (`unicode.SimpleFold` orbit minus `c`). -/
def foldOthers (c : Nat) : List Nat :=
  if c = 75 then [107, 0x212A] else if c = 107 then [0x212A, 75] else if c = 0x212A then [75, 107]
  else if c = 83 then [115, 0x17F] else if c = 115 then [0x17F, 83] else if c = 0x17F then [83, 115]
  else if isUpperAscii c then [c + 32] else if isLowerAscii c then [c - 32]
  else if c = 0xC9 then [0xE9] else if c = 0xE9 then [0xC9]
  else if c = 0x3A3 then [0x3C2, 0x3C3] else if c = 0x3C2 then [0x3C3, 0x3A3] else if c = 0x3C3 then [0x3A3, 0x3C2]
  else []

/-- `a == b || runeFoldEqual(a, b)` -/
def foldEq (a b : Nat) : Bool := a == b || (foldOthers a).contains b

/-- `unicode.ToLower` -/
def toLowerRune (c : Nat) : Nat :=
  if isUpperAscii c then c + 32
  else if c = 0x212A then 107
  else if c = 0xC9 then 0xE9
  else if c = 0x3A3 then 0x3C3
  else c

/-- NFKD decomposition of one rune. -/
def nfkd (c : Nat) : List Nat :=
  if c = 0xE9 then [101, 0x301]
  else if c = 0xC9 then [69, 0x301]
  else if c = 0xFB01 then [102, 105]
  else if c = 0x17F then [115]
  else if c = 0x212A then [75]
  else [c]

def utf8Len (c : Nat) : Nat :=
  if c < 0x80 then 1 else if c < 0x800 then 2 else if c < 0x10000 then 3 else 4

def byteLen (s : Str) : Nat := (s.map utf8Len).sum

def utf8Bytes (c : Nat) : List Nat :=
  if c < 0x80 then [c]
  else if c < 0x800 then [0xC0 + c / 64, 0x80 + c % 64]
  else if c < 0x10000 then [0xE0 + c / 4096, 0x80 + (c / 64) % 64, 0x80 + c % 64]
  else [0xF0 + c / 262144, 0x80 + (c / 4096) % 64, 0x80 + (c / 64) % 64, 0x80 + c % 64]

/-- `s[:n]` (n bytes). Whole runes stay; the bytes of a rune cut in the middle appear as `0x110000 + byte`
    (an invalid byte on the Go side). -/
def rawTake : Nat → Str → List Nat
  | 0, _ => []
  | _, [] => []
  | n + 1, c :: s =>
    if utf8Len c ≤ n + 1 then c :: rawTake (n + 1 - utf8Len c) s
    else ((utf8Bytes c).take (n + 1)).map (· + 0x110000)

/-- `strings.EqualFold` -/
def equalFold : Str → Str → Bool
  | [], [] => true
  | a :: s, b :: t => foldEq a b && equalFold s t
  | _, _ => false

/-- `toNormalisedLower`: ASCII → lower-case ASCII; otherwise `strings.Map(unicode.ToLower, norm.NFKD.String(s))`
    (which on ASCII runes is the same lower-casing). Invalid bytes become U+FFFD. -/
def toNormalisedLower (s : List Nat) : List Nat :=
  s.flatMap fun c => if c ≥ 0x110000 then [0xFFFD] else (nfkd c).map toLowerRune

/-- `strings.ToLower` -/
def stringsToLower (s : List Nat) : List Nat :=
  if s.all (· < 0x80) then s.map toLowerRune
  else s.map fun c => if c ≥ 0x110000 then 0xFFFD else toLowerRune c

/-- `prefixCaseInsensitiveMatchLen(s, prefix)`: the rest of `s` after a prefix equal to `p` under simple folding. -/
def stripPrefixFold : Str → Str → Option Str
  | s, [] => some s
  | [], _ :: _ => none
  | c :: s, p :: ps => if foldEq c p then stripPrefixFold s ps else none

def stripPrefix : Str → Str → Option Str
  | s, [] => some s
  | [], _ :: _ => none
  | c :: s, p :: ps => if c = p then stripPrefix s ps else none

/-- `strings.HasSuffix` + cut, via reversal. -/
def stripSuffix (s p : Str) : Option Str := (stripPrefix s.reverse p.reverse).map List.reverse
/-- `suffixCaseInsensitiveMatchLen` + cut. -/
def stripSuffixFold (s p : Str) : Option Str := (stripPrefixFold s.reverse p.reverse).map List.reverse

/-- `lengthMask` as the bit index. -/
def lenBit (s : Str) : Nat := min (byteLen s) 63

/-- first occurrence: the text after the first occurrence of `sub` in `s` (`strings.Index` + cut) -/
def afterFirst (sub : Str) : Str → Option Str
  | [] => if sub.isEmpty then some [] else none
  | c :: s => match stripPrefix (c :: s) sub with
    | some r => some r
    | none => afterFirst sub s

def containsStr (s sub : Str) : Bool := (afterFirst sub s).isSome

/-- `containsInOrder` -/
def containsInOrder (s : Str) : List Str → Bool
  | [] => true
  | sub :: rest => match afterFirst sub s with
    | some r => containsInOrder r rest
    | none => false

/-- some occurrence `s = a ++ sub ++ b` (in order of position) with `f a b` -/
def anyOccur (sub : Str) (f : Str → Str → Bool) : (pre : Str) → Str → Bool
  | pre, [] => (sub.isEmpty && f pre.reverse [])
  | pre, c :: s =>
    (match stripPrefix (c :: s) sub with
     | some r => f pre.reverse r
     | none => false) || anyOccur sub f (c :: pre) s

/-! ## The parsed expression -/

inductive Re
  | lit (fold : Bool) (rs : List Nat)
  | cls (fold : Bool) (ranges : List Nat)
  | any
  | anyNotNL
  | noMatch
  | empty (fold : Bool)
  | bot
  | eot
  | cat (subs : List Re)
  | alt (subs : List Re)
  | star (r : Re)
  | plus (r : Re)
  | quest (r : Re)
  | rep (min : Nat) (max : Option Nat) (r : Re)
  | cap (r : Re)
deriving Repr, Inhabited

/-! ## Semantics: binary core, denotation, derivative matcher -/

inductive Pred
  | one (fold : Bool) (r : Nat)
  | cls (ranges : List Nat)
  | any
  | notNL
deriving Repr, DecidableEq

def inRanges (c : Nat) : List Nat → Bool
  | lo :: hi :: rest => (lo ≤ c && c ≤ hi) || inRanges c rest
  | _ => false

def Pred.test : Pred → Nat → Bool
  | .one fold r, c => if fold then foldEq r c else r == c
  | .cls rs, c => inRanges c rs
  | .any, _ => true
  | .notNL, c => c != 10

inductive BRe
  | fail
  | eps
  | bol
  | eol
  | chr (p : Pred)
  | cat (a b : BRe)
  | alt (a b : BRe)
  | star (a : BRe)
deriving Repr, DecidableEq

/-- `M r b e s`: `r` matches exactly the piece `s` of the text, `b` = the piece starts at the beginning of the
    text, `e` = it ends at the end of the text. -/
inductive M : BRe → Bool → Bool → Str → Prop
  | eps {b e} : M .eps b e []
  | bol {e} : M .bol true e []
  | eol {b} : M .eol b true []
  | chr {p c b e} : p.test c = true → M (.chr p) b e [c]
  | cat {x y b e s1 s2} : M x b (e && s2.isEmpty) s1 → M y (b && s1.isEmpty) e s2 → M (.cat x y) b e (s1 ++ s2)
  | altL {x y b e s} : M x b e s → M (.alt x y) b e s
  | altR {x y b e s} : M y b e s → M (.alt x y) b e s
  | starNil {x b e} : M (.star x) b e []
  | starCons {x b e s1 s2} : s1 ≠ [] → M x b (e && s2.isEmpty) s1 → M (.star x) false e s2 →
      M (.star x) b e (s1 ++ s2)

def catN : Nat → BRe → BRe → BRe
  | 0, _, tail => tail
  | n + 1, r, tail => .cat r (catN n r tail)

/-- `(r(r(r)?)?)?` nested `k` times -/
def questN : Nat → BRe → BRe
  | 0, _ => .eps
  | k + 1, r => .alt (.cat r (questN k r)) .eps

def litB (fold : Bool) : List Nat → BRe
  | [] => .eps
  | [r] => .chr (.one fold r)
  | r :: rs => .cat (.chr (.one fold r)) (litB fold rs)

mutual
def toBin : Re → BRe
  | .lit fold rs => litB fold rs
  | .cls _ rs => .chr (.cls rs)
  | .any => .chr .any
  | .anyNotNL => .chr .notNL
  | .noMatch => .fail
  | .empty _ => .eps
  | .bot => .bol
  | .eot => .eol
  | .cat subs => toBinCat subs
  | .alt subs => toBinAlt subs
  | .star r => .star (toBin r)
  | .plus r => .cat (toBin r) (.star (toBin r))
  | .quest r => .alt (toBin r) .eps
  | .rep mn none r => catN mn (toBin r) (.star (toBin r))
  | .rep mn (some mx) r => catN mn (toBin r) (questN (mx - mn) (toBin r))
  | .cap r => toBin r
def toBinCat : List Re → BRe
  | [] => .eps
  | r :: rs => .cat (toBin r) (toBinCat rs)
def toBinAlt : List Re → BRe
  | [] => .fail
  | r :: rs => .alt (toBin r) (toBinAlt rs)
end

/-- The language of the fully anchored expression (`.` matches newline: the tree was parsed with DotNL). -/
def L (r : Re) (s : Str) : Prop := M (toBin r) true true s

def nullable : BRe → Bool → Bool → Bool
  | .fail, _, _ => false
  | .eps, _, _ => true
  | .bol, b, _ => b
  | .eol, _, e => e
  | .chr _, _, _ => false
  | .cat x y, b, e => nullable x b e && nullable y b e
  | .alt x y, b, e => nullable x b e || nullable y b e
  | .star _, _, _ => true

/-- smart constructors (language preserving) that keep derivatives small -/
def mkCat : BRe → BRe → BRe
  | .fail, _ => .fail
  | _, .fail => .fail
  | .eps, y => y
  | x, y => .cat x y

def mkAlt : BRe → BRe → BRe
  | .fail, y => y
  | x, .fail => x
  | x, y => if x = y then x else .alt x y

/-- derivative w.r.t. the first character `c`; `b` = the piece starts at the beginning of the text.
    The result is to be matched with `b = false`. -/
def deriv (c : Nat) : BRe → Bool → BRe
  | .fail, _ => .fail
  | .eps, _ => .fail
  | .bol, _ => .fail
  | .eol, _ => .fail
  | .chr p, _ => if p.test c then .eps else .fail
  | .cat x y, b => mkAlt (mkCat (deriv c x b) y) (if nullable x b false then deriv c y b else .fail)
  | .alt x y, b => mkAlt (deriv c x b) (deriv c y b)
  | .star x, b => mkCat (deriv c x b) (.star x)

def matchB : BRe → Bool → Str → Bool
  | r, b, [] => nullable r b true
  | r, b, c :: s => matchB (deriv c r b) false s

/-- The derivative matcher: does the fully anchored expression match `s`? -/
def matchD (r : Re) (s : Str) : Bool := matchB (toBin r) true s

/-! ## StringMatcher nodes -/

inductive SM
  | eq (s : Str) (cs : Bool)
  | multiSlice (cs : Bool) (values : List Str)
  /-- `values` as stored (already normalised when case insensitive); `prefixes`: key ↦ matchers, in insertion
      order of first key occurrence -/
  | multiMap (cs : Bool) (values : List Str) (minPrefixLen : Nat) (prefixes : List (List Nat × List SM))
  | contains (left : Option SM) (subs : List Str) (right : Option SM)
  | prefixS (p : Str) (right : SM)
  | prefixI (p : Str) (right : SM)
  | suffix (left : SM) (s : Str) (cs : Bool)
  | or (ms : List SM)
  | emptyM
  | trueM
  | anyNoNL
  | anyNonEmpty (nl : Bool)
  | zeroOrOne (nl : Bool)
deriving Repr, Inhabited

def noNL (s : Str) : Bool := !s.contains 10

mutual
def SM.matches : SM → Str → Bool
  | .eq v cs, s => if cs then v == s else equalFold v s
  | .multiSlice cs vs, s =>
    if cs then (vs.any fun v => lenBit v == lenBit s) && vs.contains s
    else vs.any fun v => equalFold s v
  | .multiMap cs vs mpl pfx, s =>
    (!vs.isEmpty &&
      !(mpl == 0 && cs && !(vs.any fun v => lenBit v == lenBit s)) &&
      vs.contains (if cs then s else toNormalisedLower s))
    || (mpl > 0 && byteLen s ≥ mpl &&
        lookupMatches pfx (if cs then rawTake mpl s else toNormalisedLower (rawTake mpl s)) s)
  | .contains l subs r, s =>
    match l, r with
    | some l, some r => subs.any fun sub => anyOccur sub (fun a b => l.matches a && r.matches b) [] s
    | some l, none => subs.any fun sub => match stripSuffix s sub with | some a => l.matches a | none => false
    | none, some r => subs.any fun sub => match stripPrefix s sub with | some b => r.matches b | none => false
    | none, none => false
  | .prefixS p r, s => match stripPrefix s p with | some b => r.matches b | none => false
  | .prefixI p r, s => match stripPrefixFold s p with | some b => r.matches b | none => false
  | .suffix l p cs, s =>
    match (if cs then stripSuffix s p else stripSuffixFold s p) with
    | some a => l.matches a
    | none => false
  | .or ms, s => anyMatches ms s
  | .emptyM, s => s.isEmpty
  | .trueM, _ => true
  | .anyNoNL, s => noNL s
  | .anyNonEmpty nl, s => !s.isEmpty && (nl || noNL s)
  | .zeroOrOne nl, s =>
    match s with
    | [] => true
    | [c] => nl || c != 10
    | _ => false
def anyMatches : List SM → Str → Bool
  | [], _ => false
  | m :: ms, s => m.matches s || anyMatches ms s
def lookupMatches : List (List Nat × List SM) → List Nat → Str → Bool
  | [], _, _ => false
  | (k, ms) :: rest, key, s => if k = key then anyMatches ms s else lookupMatches rest key s
end

/-! ## The optimiser -/

/-- Is finding F14 repaired in /repo (a character class' FoldCase flag is honoured only if the class is closed
    under case folding)? -/
def repoFixedF14 : Bool := true

def clearCap : Re → Re
  | .cap r => clearCap r
  | r => r

def Re.isBot : Re → Bool | .bot => true | _ => false
def Re.isEot : Re → Bool | .eot => true | _ => false
def Re.isLit : Re → Bool | .lit _ _ => true | _ => false
def Re.isAnyKind : Re → Bool | .any => true | .anyNotNL => true | _ => false
def Re.isRepeatKind : Re → Bool | .plus _ => true | .star _ => true | .quest _ => true | _ => false

/-- `re.Sub` -/
def Re.subs : Re → List Re
  | .cat l => l
  | .alt l => l
  | .star r => [r]
  | .plus r => [r]
  | .quest r => [r]
  | .rep _ _ r => [r]
  | .cap r => [r]
  | _ => []

def stripEnds (subs : List Re) : List Re :=
  let s1 := match subs with
    | x :: rest => if x.isBot then rest else subs
    | [] => []
  match s1.getLast? with
  | some y => if y.isEot then s1.dropLast else s1
  | none => s1

/-- `clearBeginEndText` -/
def clearBeginEndText (re : Re) : Re :=
  match re with
  | .alt _ => re
  | _ =>
    match re.subs with
    | [] => re
    | [x] => if x.isBot || x.isEot then .empty false else re
    | subs =>
      match re with
      | .cat _ => .cat (stripEnds subs)
      | _ => re

def isMatchAny : Re → Bool
  | .star .any => true
  | _ => false

def isCaseSensitiveLiteral : Re → Bool
  | .lit fold _ => !fold
  | _ => false

/-- `optimizeAlternatingSimpleContains` -/
def optimizeAlternatingSimpleContains (r : Re) : Re :=
  match r with
  | .alt subs =>
    let lits := subs.filterMap fun sub =>
      match sub with
      | .cat [a, l, b] => if isCaseSensitiveLiteral l && isMatchAny a && isMatchAny b then some l else none
      | _ => none
    if lits.length = subs.length && lits.length > 1 then .cat [.star .any, .alt lits, .star .any] else r
  | _ => r

structure ConcatOpt where
  ciPrefix : Bool := false
  pfx : Str := []
  sfx : Str := []
  contains : List Str := []
deriving Repr

/-- `optimizeConcatRegex` on the (capture-cleared) sub-expressions of the top-level concat -/
def optimizeConcatRegex (subs0 : List Re) : ConcatOpt :=
  let sub := stripEnds subs0
  match sub with
  | [] => {}
  | first :: _ =>
    let (ci, pfx) := match first with
      | .lit fold rs => (fold, rs)
      | _ => (false, [])
    let sfx := match sub.getLast? with
      | some (.lit false rs) => rs
      | _ => []
    let mid := (sub.drop 1).dropLast
    let contains := mid.filterMap fun r => match r with | .lit false rs => some rs | _ => none
    { ciPrefix := ci, pfx := pfx, sfx := sfx, contains := contains }

def expandClass : List Nat → List Nat
  | lo :: hi :: rest => (List.range (hi + 1 - lo)).map (· + lo) ++ expandClass rest
  | _ => []

def classSize : List Nat → Nat
  | lo :: hi :: rest => (hi - lo) + 1 + classSize rest
  | _ => 0

/-- every rune of the class has all its case variants in the class -/
def classClosed (ranges : List Nat) : Bool :=
  (expandClass ranges).all fun c => (foldOthers c).all fun f => inRanges f ranges

def maxSetMatches : Nat := 256

/-- the inner loop of `findSetMatchesFromConcat` over the current bases -/
def concatStep (f : Str → Option (List Str × Bool)) :
    List Str → (acc : List Str) → (expected : Option Bool) → Option (List Str × Option Bool)
  | [], acc, exp => some (acc, exp)
  | b :: bs, acc, exp =>
    match f b with
    | none => none
    | some (m, cs) =>
      if acc.length + m.length > maxSetMatches then none
      else
        let exp' := exp.getD cs
        if exp' != cs then none else concatStep f bs (acc ++ m) (some exp')

mutual
/-- `findSetMatchesInternal` (`none` = nil) -/
def fsm (fixed : Bool) : Re → Str → Option (List Str × Bool)
  | .lit fold rs, base => some ([base ++ rs], !fold)
  | .empty fold, base => if base.isEmpty then none else some ([base], !fold)
  | .alt subs, base => fsmAlt fixed subs base [] none
  | .cap r, base => fsm fixed r base
  | .cat subs, base =>
    match subs with
    | [] => none
    | _ => fsmCat fixed subs [base] none
  | .cls fold ranges, base =>
    if ranges.length % 2 != 0 then none
    else if classSize ranges > maxSetMatches then none
    else
      let ms := (expandClass ranges).map fun c => base ++ [c]
      if ms.isEmpty then none
      else some (ms, if fixed then (!fold || !classClosed ranges) else !fold)
  | _, _ => none
/-- `findSetMatchesFromAlternate` loop -/
def fsmAlt (fixed : Bool) : List Re → Str → List Str → Option Bool → Option (List Str × Bool)
  | [], _, acc, exp => if acc.isEmpty then none else some (acc, exp.getD false)
  | sub :: rest, base, acc, exp =>
    match fsm fixed sub base with
    | none => none
    | some (found, cs) =>
      if acc.length + found.length > maxSetMatches then none
      else
        let exp' := exp.getD cs
        if exp' != cs then none else fsmAlt fixed rest base (acc ++ found) (some exp')
/-- `findSetMatchesFromConcat` outer loop; the expected sensitivity is fixed by the very first result -/
def fsmCat (fixed : Bool) : List Re → List Str → Option Bool → Option (List Str × Bool)
  | [], cur, exp => some (cur, exp.getD false)
  | sub :: rest, cur, exp =>
    match concatStep (fun b => fsm fixed sub b) cur [] exp with
    | none => none
    | some (newMatches, exp') => fsmCat fixed rest newMatches exp'
end

def fsmL (fixed : Bool) (re : Re) (base : Str) : List Str × Bool :=
  match fsm fixed re base with
  | some (m, cs) => (m, cs)
  | none => ([], false)

/-- `newEqualMultiStringMatcher` followed by `add` of every value (no prefixes) -/
def newMulti (cs : Bool) (estimated : Nat) (values : List Str) : SM :=
  if estimated < 16 then .multiSlice cs values
  else .multiMap cs (if cs then values else values.map toNormalisedLower) 0 []

def insertPrefix (key : List Nat) (m : SM) : List (List Nat × List SM) → List (List Nat × List SM)
  | [] => [(key, [m])]
  | (k, ms) :: rest => if k = key then (k, ms ++ [m]) :: rest else (k, ms) :: insertPrefix key m rest

inductive Item
  | eq (s : Str) (cs : Bool)
  | pref (p : Str) (cs : Bool) (m : SM)

mutual
/-- `findEqualOrPrefixStringMatchers`: the flattened alternation, `none` if some node is of another kind -/
def flattenItems : SM → Option (List Item)
  | .or ms => flattenList ms
  | _ => none
def flattenList : List SM → Option (List Item)
  | [] => some []
  | m :: rest =>
    match flattenOne m, flattenList rest with
    | some a, some b => some (a ++ b)
    | _, _ => none
def flattenOne : SM → Option (List Item)
  | .or ms => flattenList ms
  | .eq s cs => some [.eq s cs]
  | .prefixS p r => some [.pref p true (.prefixS p r)]
  | .prefixI p r => some [.pref p false (.prefixI p r)]
  | _ => none
end

def Item.cs : Item → Bool
  | .eq _ cs => cs
  | .pref _ cs _ => cs

/-- `optimizeEqualOrPrefixStringMatchers(input, threshold)` -/
def optimizeEqualOrPrefix (input : SM) (threshold : Nat) : SM :=
  match flattenItems input with
  | none => input
  | some items =>
    match items with
    | [] => input   -- empty alternation: numValues + numPrefixes = 0 < threshold
    | it0 :: _ =>
      let cs := it0.cs
      if !(items.all fun it => it.cs == cs) then input
      else
        let values := items.filterMap fun it => match it with | .eq s _ => some s | _ => none
        let prefs := items.filterMap fun it => match it with | .pref p _ m => some (p, m) | _ => none
        if values.length + prefs.length < threshold then input
        else
          let mpl := match prefs with
            | [] => 0
            | (p, _) :: rest => rest.foldl (fun acc (q : Str × SM) => if byteLen q.1 < acc then byteLen q.1 else acc) (byteLen p)
          if values.length < 16 && prefs.isEmpty then .multiSlice cs values
          else
            let vs := if cs then values else values.map toNormalisedLower
            let pm := prefs.foldl (fun acc (q : Str × SM) =>
              let key := if cs then rawTake mpl q.1 else stringsToLower (rawTake mpl q.1)
              insertPrefix key q.2 acc) []
            .multiMap cs vs mpl pm

def allSome {α} : List (Option α) → Option (List α)
  | [] => some []
  | none :: _ => none
  | some a :: rest => (allSome rest).map (a :: ·)

/-- the `OpConcat` case of `stringMatcherFromRegexpInternal`, given the (capture-cleared) sub-expressions paired
    with their own matchers -/
def smConcat (fixed : Bool) (subs : List (Re × Option SM)) : Option SM :=
  match subs with
  | [] => some .emptyM
  | [(_, m)] => m
  | (r0, m0) :: rest0 =>
    -- left
    let leftStep : Option (Option SM × List (Re × Option SM)) :=
      if r0.isRepeatKind then (match m0 with | none => none | some l => some (some l, rest0))
      else some (none, subs)
    match leftStep with
    | none => none
    | some (left, subs1) =>
      let rightStep : Option (Option SM × List (Re × Option SM)) :=
        match subs1.getLast? with
        | some (rl, ml) =>
          if rl.isRepeatKind then (match ml with | none => none | some r => some (some r, subs1.dropLast))
          else some (none, subs1)
        | none => some (none, subs1)
      match rightStep with
      | none => none
      | some (right, subs2) =>
        let (mset0, mcs0) := fsmL fixed (.cat (subs2.map (·.1))) []
        let (left, right, mset, mcs) :=
          if mset0.isEmpty then
            match subs2 with
            | [(a, ma), (b, mb)] =>
              match right, a with
              | none, .lit fold rs =>
                (match mb with
                 | some r => (left, some r, [rs], !fold)
                 | none => (left, none, mset0, mcs0))
              | _, _ =>
                match left, b with
                | none, .lit fold rs =>
                  (match ma with
                   | some l => (some l, right, [rs], !fold)
                   | none => (none, right, mset0, mcs0))
                | _, _ => (left, right, mset0, mcs0)
            | _ => (left, right, mset0, mcs0)
          else (left, right, mset0, mcs0)
        if mset.isEmpty then none
        else
          match left, right, mset with
          | none, none, _ => some (.or (mset.map fun m => .eq m mcs))
          | none, some r, [m] => some (if mcs then .prefixS m r else .prefixI m r)
          | some l, none, [m] => some (.suffix l m mcs)
          | _, _, _ => if mcs then some (.contains left mset right) else none

mutual
/-- `stringMatcherFromRegexpInternal` -/
def smInternal (fixed : Bool) : Re → Option SM
  | .cap r => smInternal fixed r
  | .bot => none
  | .eot => none
  | .plus r => match r with
    | .any => some (.anyNonEmpty true)
    | .anyNotNL => some (.anyNonEmpty false)
    | _ => none
  | .star r => match r with
    | .any => some .trueM
    | .anyNotNL => some .anyNoNL
    | _ => none
  | .quest r => match r with
    | .any => some (.zeroOrOne true)
    | .anyNotNL => some (.zeroOrOne false)
    | _ => none
  | .empty _ => some .emptyM
  | .lit fold rs => some (.eq rs (!fold))
  | .alt subs => (allSome (smList fixed subs)).map .or
  | .cat subs => smConcat fixed ((subs.map clearCap).zip (smList fixed subs))
  | _ => none
def smList (fixed : Bool) : List Re → List (Option SM)
  | [] => []
  | r :: rs => smInternal fixed r :: smList fixed rs
end

/-- `isSimpleConcatenationPattern` -/
def isSimpleConcatenationPattern : Re → Bool
  | .cat subs =>
    match subs, subs.getLast? with
    | first :: _ :: _, some last =>
      isMatchAny first && isMatchAny last &&
        ((subs.drop 1).dropLast.all fun r => isMatchAny r || isCaseSensitiveLiteral r)
    | _, _ => false
  | _ => false

/-- `regexp.QuoteMeta(s) == s` -/
def isPlainLiteral (s : Str) : Bool :=
  s.all fun c => !([92, 46, 43, 42, 63, 40, 41, 124, 91, 93, 123, 125, 94, 36].contains c)

def splitBar : Str → List Str
  | [] => [[]]
  | c :: s =>
    match splitBar s with
    | [] => [[]]   -- unreachable
    | h :: t => if c = 124 then [] :: h :: t else (c :: h) :: t

def dedup : List Str → List Str
  | [] => []
  | x :: xs => if xs.contains x then dedup xs else x :: dedup xs

/-- `optimizeAlternatingLiterals`: the matcher (if any) and the set matches -/
def optimizeAlternatingLiterals (v : Str) : Option SM × List Str :=
  if v.isEmpty then (some .emptyM, [])
  else
    let parts := splitBar v
    if parts.length = 1 then
      if isPlainLiteral v then (some (.eq v true), [v]) else (none, [])
    else if !(parts.all isPlainLiteral) then (none, [])
    else
      let m := newMulti true parts.length parts
      let set := if parts.length < 16 then parts
        else (let d := dedup parts; if d.length ≥ maxSetMatches then [] else d)
      (some m, set)

/-- The compiled `FastRegexMatcher`. -/
structure Fast where
  setMatches : List Str := []
  sm : Option SM := none
  opt : ConcatOpt := {}
  /-- the expression `m.re` was compiled from (`none`: literal fast path, nothing compiled) -/
  re : Option Re := none
  direct : Bool := false
deriving Repr

/-- `NewFastRegexMatcher` for the pattern text `v` whose parse tree is `parsed`; `reast` is the tree of the
    expression handed to `regexp.Compile`. -/
def compile (fixed : Bool) (v : Str) (parsed reast : Re) : Fast :=
  match optimizeAlternatingLiterals v with
  | (some m, set) => { setMatches := set, sm := some m, direct := true }
  | (none, _) =>
    let p1 := clearCap (optimizeAlternatingSimpleContains parsed)
    let (p2, opt) : Re × ConcatOpt := match p1 with
      | .cat subs => let subs' := subs.map clearCap; (.cat subs', optimizeConcatRegex subs')
      | _ => (p1, {})
    -- findSetMatches
    let p3 := clearBeginEndText p2
    let (mset, cs) := fsmL fixed p3 []
    let set := if !mset.isEmpty && cs then mset else []
    let sm1 : Option SM := if mset.length > 1 then some (newMulti cs mset.length mset) else none
    let sm2 : Option SM := match sm1 with
      | some m => some m
      | none =>
        if isSimpleConcatenationPattern p3 then some .trueM
        else (smInternal fixed (clearBeginEndText p3)).map fun m => optimizeEqualOrPrefix m 16
    { setMatches := set, sm := sm2, opt := opt, re := some reast }

/-- `compileMatchStringFunction` / `MatchString` -/
def Fast.matches (f : Fast) (s : Str) : Bool :=
  let reMatch := fun (_ : Unit) => match f.re with | some r => matchD r s | none => false
  if f.direct then (match f.sm with | some m => m.matches s | none => false)
  else
    match f.setMatches with
    | [v] => s == v
    | _ =>
      let o := f.opt
      if o.pfx.isEmpty && o.sfx.isEmpty && o.contains.isEmpty && f.sm.isSome then
        (match f.sm with | some m => m.matches s | none => false)
      else if o.ciPrefix && !o.pfx.isEmpty then
        (stripPrefixFold s o.pfx).isSome && reMatch ()
      else
        if !o.pfx.isEmpty && (stripPrefix s o.pfx).isNone then false
        else if !o.sfx.isEmpty && (stripSuffix s o.sfx).isNone then false
        else if !o.contains.isEmpty && !containsInOrder s o.contains then false
        else match f.sm with
          | some m => m.matches s
          | none => reMatch ()

end Prom.Regex
