import PromModel.Prelude.Line
/-
  Model of the query API's JSON codec (property C51):
    util/jsonutil/marshal.go      MarshalTimestamp / MarshalFloat / MarshalHistogram
    web/api/v1/json_codec.go      labels, sample, series, vector, matrix encoders (jsoniter streams)
    promql/value.go               Scalar.MarshalJSON / String.MarshalJSON (encoding/json)
  transcribed at the level of the bytes written, plus an independent decoder for exactly the
  grammar those encoders emit (prefix parsers `Bytes → Option (α × Bytes)`).

  Floats are bit patterns (`Nat` < 2^64).  The shortest decimal digits of a float (what
  `strconv` computes) are NOT computed here: every float travels as `FTok` = bits + the digits
  and decimal exponent Go's `strconv.FormatFloat(|f|,'e',-1,64)` produced (parameter
  `fmtShortest` of DESIGN §7 C51).  The `%e`/`%f` layouts, the `'f'`/`'e'` switch, signs and the
  NaN/Inf spellings are transcribed.  `parseF` (decimal text → correctly rounded double) is
  implemented exactly with `Nat` arithmetic and is used for execution only; theorems take the
  float-text round trip as an explicit hypothesis.
-/
namespace Prom.Api.Json

abbrev Bytes := List UInt8

def MinI64 : Int := -9223372036854775808
def MaxI64 : Int := 9223372036854775807

/-- two's-complement wrap to int64 -/
def wrap64 (x : Int) : Int := (x + 9223372036854775808) % 18446744073709551616 - 9223372036854775808

/-- ASCII literal → bytes (reduces by `decide`/`simp`/`rfl`). -/
def kw (s : String) : Bytes := s.toList.map (fun c => c.toNat.toUInt8)

/-! ## decimal integers -/

def digitByte (d : Nat) : UInt8 := (48 + d).toUInt8

/-- most-significant-first decimal digits, structural on fuel -/
def digitsF : Nat → Nat → List Nat
  | 0, _ => []
  | f + 1, n => if n < 10 then [n] else digitsF f (n / 10) ++ [n % 10]

def digits (n : Nat) : List Nat := digitsF (n + 1) n

def natDec (n : Nat) : Bytes := (digits n).map digitByte

/-- jsoniter `Stream.WriteInt64`: `-` and `uint64(-nval)` for negatives (`-MinInt64` wraps to
    MinInt64 whose uint64 is 2^63 = the mathematical negation, so no wrap is visible here). -/
def writeInt64 (v : Int) : Bytes :=
  if v < 0 then 45 :: natDec (-v).toNat else natDec v.toNat

/-- `jsonutil.MarshalTimestamp`, transcribed (`t = -t` wraps at MinInt64; Go `/` and `%` truncate). -/
def marshalTimestamp (t : Int) : Bytes :=
  let pre : Bytes := if t < 0 then [45] else []
  let t := if t < 0 then wrap64 (-t) else t
  let fraction := Int.tmod t 1000
  pre ++ writeInt64 (Int.tdiv t 1000) ++
    (if fraction ≠ 0 then
      [46] ++ (if fraction < 100 then [48] else []) ++ (if fraction < 10 then [48] else []) ++ writeInt64 fraction
     else [])

/-! ## floats -/

/-- A float as it travels in the op lines: bit pattern, shortest digits `d1 d2 … dn` and decimal
    exponent `e` with |f| = d1.d2…dn × 10^e (Go's `%e` with precision -1). -/
structure FTok where
  bits : Nat
  digs : List Nat
  exp : Int
deriving Repr, DecidableEq, Inhabited

def absBits (b : Nat) : Nat := b % 9223372036854775808
def isNeg (b : Nat) : Bool := b ≥ 9223372036854775808
def infBits : Nat := 0x7ff0000000000000
def isNaNBits (b : Nat) : Bool := absBits b > infBits
def isInfBits (b : Nat) : Bool := absBits b == infBits
def isZeroBits (b : Nat) : Bool := absBits b == 0
def bits1em6 : Nat := 0x3eb0c6f7a0b5ed8d   -- 1e-6
def bits1e21 : Nat := 0x444b1ae4d6e2ef50   -- 1e21

/-- `abs != 0 && (abs < 1e-6 || abs >= 1e21)` on bit patterns (all comparisons false for NaN). -/
def useExpFormat (b : Nat) : Bool :=
  !isZeroBits b && !isNaNBits b && (absBits b < bits1em6 || absBits b ≥ bits1e21)

def digitBytes (ds : List Nat) : Bytes := ds.map digitByte

/-- strconv `%e` with shortest digits: `d[.ddd]e±XX` (at least two exponent digits).
    `clean` = encoding/json's rewrite of `e-07` to `e-7`. -/
def fmtE (ds : List Nat) (e : Int) (clean : Bool := false) : Bytes :=
  let first := match ds with | [] => [48] | d :: _ => [digitByte d]
  let frac := match ds with | _ :: r@(_ :: _) => 46 :: digitBytes r | _ => []
  let ae := e.natAbs
  let eds := if ae < 10 ∧ !clean then 48 :: natDec ae else natDec ae
  first ++ frac ++ [101, if e < 0 then 45 else 43] ++ eds

/-- strconv `%f` with shortest digits (`dp = e + 1` is the decimal point position). -/
def fmtF (ds : List Nat) (e : Int) : Bytes :=
  let nd := ds.length
  let dp := e + 1
  let intPart : Bytes :=
    if dp > 0 then
      let m := min nd dp.toNat
      digitBytes (ds.take m) ++ List.replicate (dp.toNat - m) 48
    else [48]
  let prec : Nat := (Int.ofNat nd - dp).toNat
  let frac : Bytes :=
    if prec > 0 then
      46 :: (List.range prec).map fun i =>
        let j := dp + Int.ofNat i
        if 0 ≤ j ∧ j < Int.ofNat nd then digitByte (ds.getD j.toNat 0) else 48
    else []
  intPart ++ frac

/-- `strconv.AppendFloat(buf, f, fmt, -1, 64)` given the shortest digits. -/
def formatFloat (x : FTok) (expFmt : Bool) (clean : Bool := false) : Bytes :=
  if isNaNBits x.bits then kw "NaN"
  else if isInfBits x.bits then (if isNeg x.bits then kw "-Inf" else kw "+Inf")
  else (if isNeg x.bits then [45] else []) ++ (if expFmt then fmtE x.digs x.exp clean else fmtF x.digs x.exp)

/-- the text between the quotes written by `jsonutil.MarshalFloat` -/
def floatText (x : FTok) : Bytes := formatFloat x (useExpFormat x.bits)

/-- `jsonutil.MarshalFloat` -/
def marshalFloat (x : FTok) : Bytes := [34] ++ floatText x ++ [34]

/-! ## histograms -/

/-- One element of `FloatHistogram.AllBucketIterator` (the iterator itself is outside this model). -/
structure Bucket where
  lower : FTok
  upper : FTok
  li : Bool
  ui : Bool
  count : FTok
deriving Repr, DecidableEq, Inhabited

structure Hist where
  count : FTok
  sum : FTok
  buckets : List Bucket
deriving Repr, DecidableEq, Inhabited

/-- the `boundaries` switch of `MarshalHistogram` -/
def boundariesCode (li ui : Bool) : Nat :=
  if li then (if ui then 3 else 1) else (if ui then 0 else 2)

/-- independent decoder of the documented meaning: 0 = (lo,up], 1 = [lo,up), 2 = (lo,up), 3 = [lo,up] -/
def parseBoundaries : Nat → Option (Bool × Bool)
  | 0 => some (false, true)
  | 1 => some (true, false)
  | 2 => some (false, false)
  | 3 => some (true, true)
  | _ => none

def marshalBucket (b : Bucket) : Bytes :=
  [91] ++ natDec (boundariesCode b.li b.ui) ++ [44] ++ marshalFloat b.lower ++ [44] ++ marshalFloat b.upper ++
    [44] ++ marshalFloat b.count ++ [93]

/-- `bucket.Count == 0` (float comparison: +0 and -0) -/
def bucketEmpty (b : Bucket) : Bool := isZeroBits b.count.bits

def nonEmpty (bs : List Bucket) : List Bucket := bs.filter (fun b => !bucketEmpty b)

def sepBy (sep : Bytes) : List Bytes → Bytes
  | [] => []
  | [x] => x
  | x :: rest => x ++ sep ++ sepBy sep rest

/-- `jsonutil.MarshalHistogram` -/
def marshalHistogram (h : Hist) : Bytes :=
  kw "{\"count\":" ++ marshalFloat h.count ++ kw ",\"sum\":" ++ marshalFloat h.sum ++
    (match nonEmpty h.buckets with
     | [] => []
     | bs => kw ",\"buckets\":[" ++ sepBy [44] (bs.map marshalBucket) ++ [93]) ++ [125]

/-! ## strings -/

def hexLow (n : Nat) : UInt8 := if n < 10 then (48 + n).toUInt8 else (87 + n).toUInt8

/-- jsoniter `safeSet` (used by `Stream.WriteString`): printable ASCII except `"` and `\`. -/
def jsoniterSafe (b : UInt8) : Bool := b ≥ 32 && b < 128 && b != 34 && b != 92

def escByteJsoniter (b : UInt8) : Bytes :=
  if b ≥ 128 || jsoniterSafe b then [b]
  else if b == 92 || b == 34 then [92, b]
  else if b == 10 then [92, 110]
  else if b == 13 then [92, 114]
  else if b == 9 then [92, 116]
  else [92, 117, 48, 48, hexLow (b.toNat / 16), hexLow (b.toNat % 16)]

/-- jsoniter `Stream.WriteString` (no HTML escaping; bytes ≥ 0x80 pass through unvalidated). -/
def writeString (s : Bytes) : Bytes := [34] ++ s.flatMap escByteJsoniter ++ [34]

/-- Go's `utf8.DecodeRune` on the head of `s`: `(rune, size)`; invalid → `(0xFFFD, 1)`. -/
def decodeRune (s : Bytes) : Nat × Nat :=
  match s with
  | [] => (0xFFFD, 1)
  | b0 :: rest =>
    let b0 := b0.toNat
    let cont (b : UInt8) (lo hi : Nat) : Bool := lo ≤ b.toNat && b.toNat ≤ hi
    if b0 < 0x80 then (b0, 1)
    else if 0xC2 ≤ b0 ∧ b0 ≤ 0xDF then
      match rest with
      | b1 :: _ => if cont b1 0x80 0xBF then ((b0 % 32) * 64 + b1.toNat % 64, 2) else (0xFFFD, 1)
      | _ => (0xFFFD, 1)
    else if 0xE0 ≤ b0 ∧ b0 ≤ 0xEF then
      let lo := if b0 = 0xE0 then 0xA0 else 0x80
      let hi := if b0 = 0xED then 0x9F else 0xBF
      match rest with
      | b1 :: b2 :: _ =>
        if cont b1 lo hi && cont b2 0x80 0xBF then ((b0 % 16) * 4096 + (b1.toNat % 64) * 64 + b2.toNat % 64, 3) else (0xFFFD, 1)
      | _ => (0xFFFD, 1)
    else if 0xF0 ≤ b0 ∧ b0 ≤ 0xF4 then
      let lo := if b0 = 0xF0 then 0x90 else 0x80
      let hi := if b0 = 0xF4 then 0x8F else 0xBF
      match rest with
      | b1 :: b2 :: b3 :: _ =>
        if cont b1 lo hi && cont b2 0x80 0xBF && cont b3 0x80 0xBF then
          ((b0 % 8) * 262144 + (b1.toNat % 64) * 4096 + (b2.toNat % 64) * 64 + b3.toNat % 64, 4) else (0xFFFD, 1)
      | _ => (0xFFFD, 1)
    else (0xFFFD, 1)

/-- encoding/json `htmlSafeSet`: printable ASCII except `"`, `\`, `<`, `>`, `&`. -/
def stdSafe (b : UInt8) : Bool := jsoniterSafe b && b != 60 && b != 62 && b != 38

/-- encoding/json `appendString` with `escapeHTML = true` (Go ≥ 1.22: `\b`, `\f` short forms). -/
def escStd : Nat → Bytes → Bytes
  | 0, _ => []
  | _, [] => []
  | fuel + 1, b :: rest =>
    if b < 128 then
      (if stdSafe b then [b]
       else if b == 92 || b == 34 then [92, b]
       else if b == 8 then [92, 98]
       else if b == 12 then [92, 102]
       else if b == 10 then [92, 110]
       else if b == 13 then [92, 114]
       else if b == 9 then [92, 116]
       else kw "\\u00" ++ [hexLow (b.toNat / 16), hexLow (b.toNat % 16)]) ++ escStd fuel rest
    else
      let (r, size) := decodeRune (b :: rest)
      if r = 0xFFFD ∧ size = 1 then kw "\\ufffd" ++ escStd fuel rest
      else if r = 0x2028 ∨ r = 0x2029 then kw "\\u202" ++ [hexLow (r % 16)] ++ escStd fuel (rest.drop (size - 1))
      else (b :: rest).take size ++ escStd fuel (rest.drop (size - 1))

def writeStringStd (s : Bytes) : Bytes := [34] ++ escStd s.length s ++ [34]

/-! ## labels, samples, series, envelopes -/

abbrev Labels := List (Bytes × Bytes)

/-- `marshalLabelsJSON` (labels arrive in `Range` order) -/
def marshalLabels (ls : Labels) : Bytes :=
  [123] ++ sepBy [44] (ls.map fun l => writeString l.1 ++ [58] ++ writeString l.2) ++ [125]

inductive Val
  | f (x : FTok)
  | h (x : Hist)
deriving Repr, DecidableEq, Inhabited

structure Sample where
  metric : Labels
  t : Int
  v : Val
deriving Repr, DecidableEq, Inhabited

def marshalPoint (t : Int) (v : Val) : Bytes :=
  [91] ++ marshalTimestamp t ++ [44] ++
    (match v with | .f x => marshalFloat x | .h x => marshalHistogram x) ++ [93]

/-- `marshalSampleJSON` -/
def marshalSample (s : Sample) : Bytes :=
  kw "{\"metric\":" ++ marshalLabels s.metric ++ [44] ++
    (match s.v with | .f _ => kw "\"value\":" | .h _ => kw "\"histogram\":") ++ marshalPoint s.t s.v ++ [125]

structure Series where
  metric : Labels
  floats : List (Int × FTok)
  hists : List (Int × Hist)
deriving Repr, DecidableEq, Inhabited

/-- `marshalSeriesJSON` -/
def marshalSeries (s : Series) : Bytes :=
  kw "{\"metric\":" ++ marshalLabels s.metric ++
    (match s.floats with
     | [] => []
     | fs => kw ",\"values\":[" ++ sepBy [44] (fs.map fun p => marshalPoint p.1 (.f p.2)) ++ [93]) ++
    (match s.hists with
     | [] => []
     | hs => kw ",\"histograms\":[" ++ sepBy [44] (hs.map fun p => marshalPoint p.1 (.h p.2)) ++ [93]) ++ [125]

def marshalVector (v : List Sample) : Bytes := [91] ++ sepBy [44] (v.map marshalSample) ++ [93]
def marshalMatrix (m : List Series) : Bytes := [91] ++ sepBy [44] (m.map marshalSeries) ++ [93]

/-- `Scalar.MarshalJSON` / `String.MarshalJSON`: `json.Marshal([...]any{float64(T)/1000, v})`.
    `tsF` = the float `float64(T)/1000` with its shortest digits; encoding/json writes it with
    `'f'` unless `abs < 1e-6 || abs >= 1e21` (then `'e'` with the exponent cleaned up). -/
def marshalStdFloat (x : FTok) : Bytes := formatFloat x (useExpFormat x.bits) true

def marshalScalar (tsF : FTok) (v : FTok) : Bytes :=
  [91] ++ marshalStdFloat tsF ++ [44, 34] ++ formatFloat v false ++ [34, 93]

def marshalString (tsF : FTok) (s : Bytes) : Bytes :=
  [91] ++ marshalStdFloat tsF ++ [44] ++ writeStringStd s ++ [93]

/-- `JSONCodec.Encode(&Response{Status:"success", Data:&QueryData{ResultType, Result}})` -/
def envelope (resultType : String) (result : Bytes) : Bytes :=
  kw "{\"status\":\"success\",\"data\":{\"resultType\":\"" ++ kw resultType ++ kw "\",\"result\":" ++ result ++ kw "}}"

/-! ## exact float arithmetic for execution: int64 → float64, /1000, decimal text → float64 -/

/-- nearest-even double (|bits|) of the positive rational n/d; 0 for n = 0; overflow → Inf. -/
def ratToF64 (n d : Nat) : Nat :=
  if n = 0 ∨ d = 0 then 0 else
  let q (e : Int) : Nat := if e < 0 then (n * 2 ^ e.natAbs) / d else n / (d * 2 ^ e.toNat)
  let e0 : Int := (Nat.log2 n : Int) - (Nat.log2 d : Int) - 52
  let e := if q e0 ≥ 2 ^ 53 then e0 + 1 else if q e0 < 2 ^ 52 then e0 - 1 else e0
  let e := if e < -1074 then -1074 else e
  let num := if e < 0 then n * 2 ^ e.natAbs else n
  let den := if e < 0 then d else d * 2 ^ e.toNat
  let q0 := num / den
  let r := num % den
  let q1 := if 2 * r > den ∨ (2 * r = den ∧ q0 % 2 = 1) then q0 + 1 else q0
  let bits := (e + 1074).toNat * 2 ^ 52 + q1
  if bits ≥ infBits then infBits else bits

/-- |value| of finite bits as n / 2^1074 -/
def f64Num (b : Nat) : Nat :=
  let a := absBits b
  let ef := a / 2 ^ 52
  let man := a % 2 ^ 52
  if ef = 0 then man else (2 ^ 52 + man) * 2 ^ (ef - 1)

/-- bits of `float64(t) / 1000` (both operations correctly rounded) -/
def tsFloatBits (t : Int) : Nat :=
  let a := ratToF64 t.natAbs 1
  let r := ratToF64 (f64Num a) (2 ^ 1074 * 1000)
  if t < 0 ∧ r ≠ 0 then r + 2 ^ 63 else r

def isDigitB (b : UInt8) : Bool := 48 ≤ b && b ≤ 57

/-- consume decimal digits: (digit values, rest) -/
def spanDigits : Bytes → List Nat × Bytes
  | [] => ([], [])
  | b :: bs =>
    if isDigitB b then
      let (ds, rest) := spanDigits bs
      ((b.toNat - 48) :: ds, rest)
    else ([], b :: bs)

def ofDigits (ds : List Nat) : Nat := ds.foldl (fun acc d => acc * 10 + d) 0

inductive FVal
  | nan
  | bits (b : Nat)
deriving Repr, DecidableEq, Inhabited

/-- `strconv.ParseFloat(s, 64)` for the texts that occur here (decimal with optional exponent,
    `NaN`, `±Inf`), correctly rounded. -/
def parseF (s : Bytes) : Option FVal :=
  if s = kw "NaN" then some .nan
  else if s = kw "+Inf" ∨ s = kw "Inf" then some (.bits infBits)
  else if s = kw "-Inf" then some (.bits (infBits + 2 ^ 63))
  else
    let (neg, s) := match s with | 45 :: r => (true, r) | 43 :: r => (false, r) | _ => (false, s)
    let (ip, s) := spanDigits s
    let (fp, s, hasDot) := match s with
      | 46 :: r => let (fp, r') := spanDigits r; (fp, r', true)
      | _ => ([], s, false)
    if ip.isEmpty ∧ fp.isEmpty then none else
    let _ := hasDot
    let ex : Option Int := match s with
      | [] => some 0
      | c :: r =>
        if c = 101 ∨ c = 69 then
          let (eneg, r) := match r with | 45 :: r' => (true, r') | 43 :: r' => (false, r') | _ => (false, r)
          match spanDigits r with
          | (ed@(_ :: _), []) => some (if eneg then -(ofDigits ed : Int) else ofDigits ed)
          | _ => none
        else none
    match ex with
    | none => none
    | some ex =>
      let m := ofDigits (ip ++ fp)
      let e10 : Int := ex - fp.length
      let a := if e10 ≥ 0 then ratToF64 (m * 10 ^ e10.toNat) 1 else ratToF64 m (10 ^ e10.natAbs)
      some (.bits (if neg then a + 2 ^ 63 else a))

/-! ## the independent decoder (prefix parsers) -/

abbrev P (α : Type) := Bytes → Option (α × Bytes)

def pLit (lit : Bytes) : P Unit := fun s =>
  if lit.isPrefixOf s then some ((), s.drop lit.length) else none

/-- a timestamp recovered from a JSON number: the exact decimal × 1000 when that is an integer -/
inductive TsVal
  | exact (t : Int)
  | inexact
deriving Repr, DecidableEq, Inhabited

/-- JSON number without its sign: `digits(.digits)?` → ± value × 1000 -/
def pTsAbs (neg : Bool) : P TsVal := fun s =>
  match spanDigits s with
  | ([], _) => none
  | (ip, rest) =>
    let sign (n : Nat) : Int := if neg then -(n : Int) else n
    match rest with
    | 46 :: r =>
      match spanDigits r with
      | ([], _) => none
      | (fp, rest') =>
        let k := fp.length
        if k ≤ 3 then some (.exact (sign (ofDigits ip * 1000 + ofDigits fp * 10 ^ (3 - k))), rest')
        else if ofDigits fp % 10 ^ (k - 3) = 0 then
          some (.exact (sign (ofDigits ip * 1000 + ofDigits fp / 10 ^ (k - 3))), rest')
        else some (.inexact, rest')
    | _ => some (.exact (sign (ofDigits ip * 1000)), rest)

/-- JSON number `-?digits(.digits)?` → value × 1000 -/
def pTs : P TsVal := fun s =>
  match s with
  | [] => none
  | b :: r => if b = 45 then pTsAbs true r else pTsAbs false (b :: r)

/-- whole-input timestamp parser -/
def parseTs (s : Bytes) : Option Int :=
  match pTs s with
  | some (.exact t, []) => some t
  | _ => none

def hexValB (b : UInt8) : Option Nat :=
  if 48 ≤ b ∧ b ≤ 57 then some (b.toNat - 48)
  else if 97 ≤ b ∧ b ≤ 102 then some (b.toNat - 87)
  else if 65 ≤ b ∧ b ≤ 70 then some (b.toNat - 55)
  else none

/-- UTF-8 encoding of a code point below 0x10000 (what `\uXXXX` can denote without surrogates) -/
def utf8Enc (r : Nat) : Bytes :=
  if r < 0x80 then [r.toUInt8]
  else if r < 0x800 then [(0xC0 + r / 64).toUInt8, (0x80 + r % 64).toUInt8]
  else [(0xE0 + r / 4096).toUInt8, (0x80 + r / 64 % 64).toUInt8, (0x80 + r % 64).toUInt8]

def unescapeChar (c : UInt8) : Option UInt8 :=
  if c = 34 ∨ c = 92 ∨ c = 47 then some c
  else if c = 110 then some 10 else if c = 114 then some 13 else if c = 116 then some 9
  else if c = 98 then some 8 else if c = 102 then some 12 else none

/-- body of a JSON string up to the closing quote, unescaping -/
def unescape : Bytes → Option (Bytes × Bytes)
  | [] => none
  | b :: rest =>
    if b = 34 then some ([], rest)
    else if b = 92 then
      match rest with
      | [] => none
      | c :: rest' =>
        if c = 117 then
          match rest' with
          | h1 :: h2 :: h3 :: h4 :: r =>
            match hexValB h1, hexValB h2, hexValB h3, hexValB h4, unescape r with
            | some a, some b, some c, some d, some (s, r') =>
              let cp := ((a * 16 + b) * 16 + c) * 16 + d
              if 0xD800 ≤ cp ∧ cp < 0xE000 then none else some (utf8Enc cp ++ s, r')
            | _, _, _, _, _ => none
          | _ => none
        else
          match unescapeChar c, unescape rest' with
          | some x, some (s, r) => some (x :: s, r)
          | _, _ => none
    else if b < 32 then none
    else
      match unescape rest with
      | some (s, r) => some (b :: s, r)
      | none => none

def pString : P Bytes := fun s =>
  match s with
  | 34 :: rest => unescape rest
  | _ => none

/-- raw text between quotes (no escapes expected: float texts) -/
def spanToQuote : Bytes → Option (Bytes × Bytes)
  | [] => none
  | b :: rest =>
    if b = 34 then some ([], rest)
    else match spanToQuote rest with
      | some (s, r) => some (b :: s, r)
      | none => none

/-- a quoted float; `pf` is the text → float function (`parseF` in the driver) -/
def pFloat (pf : Bytes → Option FVal) : P FVal := fun s =>
  match s with
  | 34 :: rest =>
    match spanToQuote rest with
    | some (txt, r) => (pf txt).map (·, r)
    | none => none
  | _ => none

/-- `p (sep p)* close`, at least one element; fuel bounds the number of elements -/
def pSepBy {α : Type} (p : P α) (sep close : UInt8) : Nat → P (List α)
  | 0 => fun _ => none
  | fuel + 1 => fun s =>
    match p s with
    | some (a, c :: rest) =>
      if c = close then some ([a], rest)
      else if c = sep then
        match pSepBy p sep close fuel rest with
        | some (as, r) => some (a :: as, r)
        | none => none
      else none
    | _ => none

/-- decoded bucket / histogram / sample values (floats as recovered values) -/
structure DBucket where
  lower : FVal
  upper : FVal
  li : Bool
  ui : Bool
  count : FVal
deriving Repr, DecidableEq, Inhabited

structure DHist where
  count : FVal
  sum : FVal
  buckets : List DBucket
deriving Repr, DecidableEq, Inhabited

inductive DVal
  | f (x : FVal)
  | h (x : DHist)
deriving Repr, DecidableEq, Inhabited

def pBucket (pf : Bytes → Option FVal) : P DBucket := fun s => do
  let (_, s) ← pLit [91] s
  let (ds, s) := spanDigits s
  let (li, ui) ← match ds with | [d] => parseBoundaries d | _ => none
  let (_, s) ← pLit [44] s
  let (lo, s) ← pFloat pf s
  let (_, s) ← pLit [44] s
  let (up, s) ← pFloat pf s
  let (_, s) ← pLit [44] s
  let (c, s) ← pFloat pf s
  let (_, s) ← pLit [93] s
  pure (⟨lo, up, li, ui, c⟩, s)

def pHist (pf : Bytes → Option FVal) : P DHist := fun s => do
  let (_, s) ← pLit (kw "{\"count\":") s
  let (c, s) ← pFloat pf s
  let (_, s) ← pLit (kw ",\"sum\":") s
  let (sm, s) ← pFloat pf s
  match pLit (kw ",\"buckets\":[") s with
  | some (_, s') =>
    let (bs, s'') ← pSepBy (pBucket pf) 44 93 s'.length s'
    let (_, s3) ← pLit [125] s''
    pure (⟨c, sm, bs⟩, s3)
  | none =>
    let (_, s') ← pLit [125] s
    pure (⟨c, sm, []⟩, s')

def pLabel : P (Bytes × Bytes) := fun s => do
  let (n, s) ← pString s
  let (_, s) ← pLit [58] s
  let (v, s) ← pString s
  pure ((n, v), s)

def pLabels : P Labels := fun s => do
  let (_, s) ← pLit [123] s
  match s with
  | 125 :: rest => pure ([], rest)
  | _ => pSepBy pLabel 44 125 s.length s

/-- `[ts,"float"]` (`wantHist = false`) or `[ts,{hist}]` -/
def pPoint (pf : Bytes → Option FVal) (wantHist : Bool) : P (TsVal × DVal) := fun s => do
  let (_, s) ← pLit [91] s
  let (t, s) ← pTs s
  let (_, s) ← pLit [44] s
  let (v, s) ← if wantHist then (pHist pf s).map (fun (h, r) => (DVal.h h, r))
               else (pFloat pf s).map (fun (x, r) => (DVal.f x, r))
  let (_, s) ← pLit [93] s
  pure ((t, v), s)

structure DSample where
  metric : Labels
  t : TsVal
  v : DVal
deriving Repr, DecidableEq, Inhabited

def pSample (pf : Bytes → Option FVal) : P DSample := fun s => do
  let (_, s) ← pLit (kw "{\"metric\":") s
  let (ls, s) ← pLabels s
  let (_, s) ← pLit [44] s
  let ((t, v), s) ← match pLit (kw "\"value\":") s with
    | some (_, s') => pPoint pf false s'
    | none => do
      let (_, s') ← pLit (kw "\"histogram\":") s
      pPoint pf true s'
  let (_, s) ← pLit [125] s
  pure (⟨ls, t, v⟩, s)

structure DSeries where
  metric : Labels
  floats : List (TsVal × DVal)
  hists : List (TsVal × DVal)
deriving Repr, DecidableEq, Inhabited

def pSeries (pf : Bytes → Option FVal) : P DSeries := fun s => do
  let (_, s) ← pLit (kw "{\"metric\":") s
  let (ls, s) ← pLabels s
  let (fs, s) ← match pLit (kw ",\"values\":[") s with
    | some (_, s') => pSepBy (pPoint pf false) 44 93 s'.length s'
    | none => pure ([], s)
  let (hs, s) ← match pLit (kw ",\"histograms\":[") s with
    | some (_, s') => pSepBy (pPoint pf true) 44 93 s'.length s'
    | none => pure ([], s)
  let (_, s) ← pLit [125] s
  pure (⟨ls, fs, hs⟩, s)

/-- `[` elements `]`, possibly empty -/
def pArray {α : Type} (p : P α) : P (List α) := fun s => do
  let (_, s) ← pLit [91] s
  match s with
  | 93 :: rest => pure ([], rest)
  | _ => pSepBy p 44 93 s.length s

def pVector (pf : Bytes → Option FVal) : P (List DSample) := pArray (pSample pf)
def pMatrix (pf : Bytes → Option FVal) : P (List DSeries) := pArray (pSeries pf)

def pScalar (pf : Bytes → Option FVal) : P (TsVal × FVal) := fun s => do
  let ((t, v), s) ← pPoint pf false s
  match v with
  | .f x => pure ((t, x), s)
  | .h _ => none

def pStringVal : P (TsVal × Bytes) := fun s => do
  let (_, s) ← pLit [91] s
  let (t, s) ← pTs s
  let (_, s) ← pLit [44] s
  let (v, s) ← pString s
  let (_, s) ← pLit [93] s
  pure ((t, v), s)

/-- strip the response envelope for a given result type; the result parser must consume everything -/
def pEnvelope {α : Type} (resultType : String) (p : P α) : Bytes → Option α := fun s => do
  let (_, s) ← pLit (kw "{\"status\":\"success\",\"data\":{\"resultType\":\"" ++ kw resultType ++ kw "\",\"result\":") s
  let (a, s) ← p s
  let (_, s) ← pLit (kw "}}") s
  if s.isEmpty then pure a else none

end Prom.Api.Json
