import PromModel.Ingest.Relabel
/-
  Model of the scrape loop's append path (property C37), core Lean only.

  Transcribed from `scrape/scrape.go` and `scrape/scrape_append_v2.go` (pinned tree):
  `scrapeCache` (`get`, `addRef`, `addDropped`, `getDropped`, `updateRef`/`moveStaleness`,
  `trackStaleness`, `forEachStale`, `iterDone` incl. the forced-flush heuristic),
  `scrapeLoopAppender.append` / `scrapeLoopAppenderV2.append` over a PARSED item stream (the text
  parser is property C35's), `appenderWithLimits` (`limitAppender` over `timeLimitAppender`),
  `checkAddError`, `updateStaleMarkers`, `scrapeAndReport` (rollback + empty append on failure),
  `report` / `reportStale`, `addReportSample`, `endOfRunStaleness`.

  Abstractions (all explicit parameters, the theorems quantify over them):
  * `Params.mutate`   = `sampleMutator` (target labels + metric relabeling; `[]` = dropped),
  * `Params.check`    = the three fatal per-series checks (`__name__` present, `IsValid`, label limits),
  * `Store σ`         = the storage behind `Appender`/`AppenderV2`: an arbitrary state machine
                        answering each `Append(ref, lset, t, v)` with `ok ref' | ooo | dup`.
  Go pointers `*cacheEntry` are heap indices (`Cache.heap`), because `moveStaleness` compares
  entries by identity and `forEachStale` reads `ce.ref` at iteration time.
  Quirks kept: a failing `append` does not call `iterDone`, so the series it had already tracked
  are NOT marked stale by the fall-back empty append (finding, see the suite's judge); the report
  values of a failed append are those of the failed call; an empty body is a successful scrape
  that marks everything stale and does not flush the cache.
  Not modelled: exemplars, native histograms (bucket limit, schema reduction), start timestamps,
  metadata (`setType/Help/Unit` only feed the cache-size heuristic), forced errors (target_limit).
-/
namespace Prom.Scrape
open Prom.Relabel (Label)

abbrev Labels := List Label

/-- `value.StaleNaN`. -/
def staleBits : Nat := 0x7ff0000000000002

/-! ## Input: the parsed entry stream of one body -/

structure Sample where
  /-- the series text the parser returns as `met` (the cache key) -/
  key : String
  /-- the parsed label set (sorted, with `__name__`) -/
  labels : Labels
  bits : Nat
  ts : Option Int
  deriving Repr, DecidableEq

inductive Item where
  | sample (s : Sample)
  /-- a line the parser rejects: `p.Next()` returns an error here -/
  | bad
  /-- a comment line (keeps the body non-empty, otherwise ignored) -/
  | comment
  deriving Repr, DecidableEq

/-! ## The storage behind the appender -/

inductive Res where | ok | ooo | dup
  deriving Repr, DecidableEq

structure Resp where
  res : Res
  /-- the returned series ref (0 on error) -/
  ref : Nat
  /-- the series the storage attributed the sample to (for the log only) -/
  series : Labels
  deriving Repr

structure Store (σ : Type) where
  app : σ → Nat → Labels → Int → Nat → σ × Resp
  commit : σ → σ
  rollback : σ → σ

/-- One observable storage event of a cycle. -/
inductive Ev where
  /-- an `Append` that reached the storage; `val = none` is the scripted-out duration value -/
  | call (passed : Labels) (series : Labels) (t : Int) (val : Option Nat) (res : Res)
  | commit
  | rollback
  deriving Repr

/-! ## Parameters of a scrape loop -/

structure Params where
  v2 : Bool
  mutate : Labels → Labels
  check : Labels → Bool
  honorTs : Bool
  trackTs : Bool
  sampleLimit : Nat
  /-- `now + maxAheadTime` of `timeLimitAppender` -/
  maxTime : Int
  /-- `reportSampleMutator({__name__=n})` -/
  reportLabels : String → Labels
  /-- order used to canonicalise the (map-ordered) staleness markers -/
  lsetLt : Labels → Labels → Bool

/-! ## scrapeCache -/

structure CE where
  ref : Nat
  lastIter : Nat
  lset : Labels
  deriving Repr, Inhabited

structure Cache where
  iter : Nat := 0
  successfulCount : Nat := 0
  heap : List CE := []
  series : List (String × Nat) := []
  dropped : List (String × Nat) := []
  cur : List (Nat × Nat) := []
  prev : List (Nat × Nat) := []
  deriving Repr

def alookup {α β} [BEq α] (m : List (α × β)) (k : α) : Option β :=
  match m.find? (fun p => p.1 == k) with
  | some p => some p.2
  | none => none

def aerase {α β} [BEq α] (m : List (α × β)) (k : α) : List (α × β) := m.filter (fun p => !(p.1 == k))

/-- map assignment `m[k] = v` -/
def ainsert {α β} [BEq α] (m : List (α × β)) (k : α) (v : β) : List (α × β) :=
  if m.any (fun p => p.1 == k) then m.map (fun p => if p.1 == k then (k, v) else p) else m ++ [(k, v)]

def Cache.ce (c : Cache) (id : Nat) : CE := c.heap.getD id default

def Cache.setCE (c : Cache) (id : Nat) (e : CE) : Cache := { c with heap := c.heap.set id e }

/-- `scrapeCache.get`: `(id, alreadyScraped)`. -/
def Cache.get (c : Cache) (key : String) : Cache × Option (Nat × Bool) :=
  match alookup c.series key with
  | none => (c, none)
  | some id =>
    let e := c.ce id
    (c.setCE id { e with lastIter := c.iter }, some (id, e.lastIter == c.iter))

/-- `scrapeCache.addRef`: returns the new entry's id. -/
def Cache.addRef (c : Cache) (key : String) (ref : Nat) (lset : Labels) : Cache × Nat :=
  ({ c with heap := c.heap ++ [⟨ref, c.iter, lset⟩], series := ainsert c.series key c.heap.length },
    c.heap.length)

def Cache.addDropped (c : Cache) (key : String) : Cache :=
  { c with dropped := ainsert c.dropped key c.iter }

def Cache.getDropped (c : Cache) (key : String) : Cache × Bool :=
  match alookup c.dropped key with
  | some _ => ({ c with dropped := ainsert c.dropped key c.iter }, true)
  | none => (c, false)

/-- `moveStaleness`. -/
def moveStaleness (tracked : List (Nat × Nat)) (id oldRef ref : Nat) : List (Nat × Nat) :=
  if alookup tracked oldRef == some id then ainsert (aerase tracked oldRef) ref id else tracked

/-- `scrapeCache.updateRef`. -/
def Cache.updateRef (c : Cache) (id ref : Nat) : Cache :=
  let e := c.ce id
  if e.ref == ref then c
  else
    let c := if e.ref != 0 then
        { c with prev := moveStaleness c.prev id e.ref ref, cur := moveStaleness c.cur id e.ref ref }
      else c
    c.setCE id { e with ref := ref }

def Cache.trackStaleness (c : Cache) (ref id : Nat) : Cache := { c with cur := ainsert c.cur ref id }

/-- `forEachStale`: the entries of `seriesPrev` whose ref is not in `seriesCur` (map order). -/
def Cache.stale (c : Cache) : List (Nat × Labels) :=
  (c.prev.filter fun p => (alookup c.cur p.1).isNone).map fun p => ((c.ce p.2).ref, (c.ce p.2).lset)

/-- `scrapeCache.iterDone` (no metadata entries). -/
def Cache.iterDone (c : Cache) (flushCache : Bool) : Cache :=
  let count := c.series.length + c.dropped.length
  let succ := if flushCache then count else c.successfulCount
  let flush := flushCache || decide (count > c.successfulCount * 2 + 1000)
  let series := if flush then c.series.filter (fun p => (c.ce p.2).lastIter == c.iter) else c.series
  let dropped := if flush then c.dropped.filter (fun p => p.2 == c.iter) else c.dropped
  { c with successfulCount := succ, series := series, dropped := dropped,
           prev := c.cur, cur := [], iter := c.iter + 1 }

/-! ## Appending through the limit wrappers -/

inductive AppErr where
  | ooo | dup | oob | limit
  deriving Repr, DecidableEq

/-- State threaded through one `append` call. -/
structure LoopSt (σ : Type) where
  c : Cache
  st : σ
  /-- `limitAppender.i` -/
  i : Nat := 0
  evs : List Ev := []   -- reversed

/-- `Append` on the bare storage appender (used by the empty-body path and the report). -/
def baseAppend {σ} (S : Store σ) (s : LoopSt σ) (ref : Nat) (lset : Labels) (t : Int) (bits : Nat)
    (val : Option Nat) : LoopSt σ × Except AppErr Nat :=
  let (st', r) := S.app s.st ref lset t bits
  let s' := { s with st := st', evs := Ev.call lset r.series t val r.res :: s.evs }
  match r.res with
  | .ok => (s', .ok r.ref)
  | .ooo => (s', .error .ooo)
  | .dup => (s', .error .dup)

/-- `appenderWithLimits(...)`.Append: `limitAppender` (if `sample_limit > 0`) over `timeLimitAppender`. -/
def limitedAppend {σ} (S : Store σ) (P : Params) (s : LoopSt σ) (ref : Nat) (lset : Labels) (t : Int)
    (bits : Nat) : LoopSt σ × Except AppErr Nat :=
  let counted := P.sampleLimit > 0 && (ref == 0 || bits != staleBits)
  let s := if counted then { s with i := s.i + 1 } else s
  if counted && s.i > P.sampleLimit then (s, .error .limit)
  else if t > P.maxTime then (s, .error .oob)
  else baseAppend S s ref lset t bits (some bits)

/-! ## One sample of a body -/

structure Counters where
  total : Nat := 0
  added : Nat := 0
  seriesAdded : Nat := 0
  limitErr : Bool := false
  deriving Repr, DecidableEq

/-- The cache/counter bookkeeping after the `Append` of one sample (no storage access):
    `updateRef`, `trackStaleness`, `checkAddError`, `addRef`, `seriesAdded`, `added`. -/
def afterAppend (P : Params) (c : Cache) (k : Counters) (key : String) (lset : Labels) (track : Bool)
    (hit : Option (Nat × Bool)) (r : Except AppErr Nat) : Cache × Counters :=
  -- v1: `if err == nil { updateRef; trackStaleness }`; v2: updateRef inside, then the same tracking
  let c := match r, hit with
    | .ok ref', some (id, _) =>
      let c := if ref' != 0 then c.updateRef id ref' else c
      if track && (c.ce id).ref != 0 then c.trackStaleness (c.ce id).ref id else c
    | _, _ => c
  -- checkAddError
  let k := match r with
    | .error .limit => { k with limitErr := true }
    | _ => k
  let sampleAdded := match r with
    | .ok _ => true
    | .error _ => false
  -- new series: addRef (+ trackStaleness)
  let (c, k) := match r, hit with
    | .ok ref', none =>
      let (c, id) := c.addRef key ref' lset
      let c := if ref' != 0 && track then c.trackStaleness ref' id else c
      (c, if k.limitErr then k else { k with seriesAdded := k.seriesAdded + 1 })
    | _, _ => (c, k)
  -- v2 tracks once more after addRef (`ce != nil && ce.ref != 0 && shouldTrack && sampleAdded`)
  let c := if P.v2 && sampleAdded then
      match hit with
      | some (id, _) => if track && (c.ce id).ref != 0 then c.trackStaleness (c.ce id).ref id else c
      | none => c
    else c
  (c, { k with added := k.added + 1 })

/-- timestamp of a sample: the explicit one if timestamps are honoured, else the scrape time -/
def Params.tsOf (P : Params) (defT : Int) (x : Sample) : Int :=
  (if P.honorTs then x.ts else none).getD defT

/-- Result of processing one sample: `false` = the loop breaks with a fatal error. -/
def stepSample {σ} (S : Store σ) (P : Params) (defT : Int) (s : LoopSt σ) (k : Counters) (x : Sample) :
    LoopSt σ × Counters × Bool :=
  let k := { k with total := k.total + 1 }
  let parsedTs : Option Int := if P.honorTs then x.ts else none
  let d := s.c.getDropped x.key
  if d.2 then ({ s with c := d.1 }, k, true) else
  let g := d.1.get x.key
  let lset := match g.2 with
    | some (id, _) => (g.1.ce id).lset
    | none => P.mutate x.labels
  if g.2.isNone && lset.isEmpty then ({ s with c := g.1.addDropped x.key }, k, true) else
  if g.2.isNone && !P.check lset then ({ s with c := g.1 }, k, false) else
  let ref := match g.2 with
    | some (id, _) => (g.1.ce id).ref
    | none => 0
  let already := match g.2 with
    | some (_, a) => a
    | none => false
  let track := parsedTs.isNone || P.trackTs
  -- the append itself
  let r : LoopSt σ × Except AppErr Nat :=
    if already && parsedTs.isNone then ({ s with c := g.1 }, .error .dup)
    else limitedAppend S P { s with c := g.1 } ref lset (P.tsOf defT x) x.bits
  let ck := afterAppend P r.1.c k x.key lset track g.2 r.2
  ({ r.1 with c := ck.1 }, ck.2, true)

/-- The body loop: `true` = reached EOF, `false` = broke with a fatal error (parse error, missing
    name, invalid labels, label limit). -/
def runItems {σ} (S : Store σ) (P : Params) (defT : Int) : LoopSt σ → Counters → List Item →
    LoopSt σ × Counters × Bool
  | s, k, [] => (s, k, true)
  | s, k, .comment :: rest => runItems S P defT s k rest
  | s, k, .bad :: _ => (s, k, false)
  | s, k, .sample x :: rest =>
    let r := stepSample S P defT s k x
    if r.2.2 then runItems S P defT r.1 r.2.1 rest else (r.1, r.2.1, false)

/-- Insertion sort of the staleness markers by series (Go iterates a map; the harness sorts too). -/
def insertBy {α} (lt : α → α → Bool) (x : α) : List α → List α
  | [] => [x]
  | y :: ys => if lt y x then y :: insertBy lt x ys else x :: y :: ys

def sortBy {α} (lt : α → α → Bool) (xs : List α) : List α := xs.foldr (insertBy lt) []

/-- `updateStaleMarkers` over an appender `app`; `ooo`/`dup` are ignored, any other error stops. -/
def staleMarkers {σ} (app : LoopSt σ → Nat → Labels → Int → Nat → LoopSt σ × Except AppErr Nat)
    (defT : Int) : LoopSt σ → List (Nat × Labels) → LoopSt σ × Bool
  | s, [] => (s, true)
  | s, (ref, lset) :: rest =>
    match app s ref lset defT staleBits with
    | (s', .ok _) => staleMarkers app defT s' rest
    | (s', .error .ooo) => staleMarkers app defT s' rest
    | (s', .error .dup) => staleMarkers app defT s' rest
    | (s', .error _) => (s', false)

def Params.sortStale (P : Params) (xs : List (Nat × Labels)) : List (Nat × Labels) :=
  sortBy (fun a b => P.lsetLt a.2 b.2) xs

structure AppendOut (σ : Type) where
  s : LoopSt σ
  k : Counters
  ok : Bool

/-- `append(b, contentType, ts)`; `items = []` is the empty body. -/
def appendBody {σ} (S : Store σ) (P : Params) (defT : Int) (c : Cache) (st : σ) (items : List Item) :
    AppendOut σ :=
  let s0 : LoopSt σ := { c := c, st := st }
  if items.isEmpty then
    let (s, ok) := staleMarkers (fun s r l t b => baseAppend S s r l t b (some b)) defT s0 (P.sortStale c.stale)
    { s := { s with c := s.c.iterDone false }, k := {}, ok := ok }
  else
    let (s, k, ok) := runItems S P defT s0 {} items
    let ok := ok && !k.limitErr
    if !ok then { s := s, k := k, ok := false }
    else
      let (s, ok) := staleMarkers (limitedAppend S P) defT s (P.sortStale s.c.stale)
      if ok then { s := { s with c := s.c.iterDone true }, k := k, ok := true }
      else { s := s, k := k, ok := false }

/-! ## Reports -/

def reportNames : List String :=
  ["up", "scrape_duration_seconds", "scrape_samples_scraped", "scrape_samples_post_metric_relabeling",
   "scrape_series_added"]

/-- cache key of a report series (`name + "\xff"` in Go: cannot collide with a parsed series) -/
def reportKey (n : String) : String := n ++ "ÿ"

def reportRefLset (P : Params) (g : Cache × Option (Nat × Bool)) (name : String) : Nat × Labels :=
  match g.2 with
  | some (id, _) => ((g.1.ce id).ref, (g.1.ce id).lset)
  | none => (0, P.reportLabels name)

def addReportSample {σ} (S : Store σ) (P : Params) (s : LoopSt σ) (name : String) (t : Int) (bits : Nat)
    (val : Option Nat) : LoopSt σ :=
  let g := s.c.get (reportKey name)
  let rl := reportRefLset P g name
  let r := baseAppend S { s with c := g.1 } rl.1 rl.2 t bits val
  match r.2 with
  | .ok ref' => if g.2.isNone then { r.1 with c := (r.1.c.addRef (reportKey name) ref' rl.2).1 } else r.1
  | .error _ => r.1

/-- bit pattern of `float64(n)` for the small counts that occur (exact up to 2^53) -/
def natToF64Bits (n : Nat) : Nat :=
  if n = 0 then 0 else
  let e := n.log2
  (1023 + e) * 2 ^ 52 + (n * 2 ^ (52 - e) - 2 ^ 52)

def report {σ} (S : Store σ) (P : Params) (s : LoopSt σ) (t : Int) (up : Bool) (k : Counters) : LoopSt σ :=
  let s := addReportSample S P s "up" t (if up then natToF64Bits 1 else 0) (some (if up then natToF64Bits 1 else 0))
  let s := addReportSample S P s "scrape_duration_seconds" t 0 none
  let s := addReportSample S P s "scrape_samples_scraped" t (natToF64Bits k.total) (some (natToF64Bits k.total))
  let s := addReportSample S P s "scrape_samples_post_metric_relabeling" t (natToF64Bits k.added) (some (natToF64Bits k.added))
  addReportSample S P s "scrape_series_added" t (natToF64Bits k.seriesAdded) (some (natToF64Bits k.seriesAdded))

def reportStale {σ} (S : Store σ) (P : Params) (s : LoopSt σ) (t : Int) : LoopSt σ :=
  reportNames.foldl (fun s n => addReportSample S P s n t staleBits (some staleBits)) s

/-! ## One cycle -/

structure Loop (σ : Type) where
  c : Cache := {}
  st : σ
  /-- `!last.IsZero()` -/
  scraped : Bool := false

/-- The scripted outcome of the scrape itself. -/
inductive Scrape where
  /-- `scraper.scrape` failed: no response, nothing was read -/
  | err
  | body (items : List Item)
  /-- `scraper.scrape` succeeded but `readResponse` failed (connection cut / timeout in the middle of
      the body, `body_size_limit` reached, gzip error) AFTER it had copied `read` — an arbitrary part
      of the body, possibly ending inside a line — into the scrape buffer `buf` -/
  | readFail (read : List Item)
  deriving Repr

/-- the body handed to `append`: `b = buf.Bytes()` is taken only `if scrapeErr == nil`; otherwise `b`
    is still the empty pooled slice (`nil` when the request itself failed), whatever `readResponse`
    had already written into `buf` -/
def Scrape.items : Scrape → List Item
  | .err => []
  | .body items => items
  | .readFail _ => []

/-- `up`: the scrape itself succeeded (the append is checked separately) -/
def Scrape.isBody : Scrape → Bool
  | .err => false
  | .body _ => true
  | .readFail _ => false

def rollbackSt {σ} (S : Store σ) (s : LoopSt σ) : LoopSt σ :=
  { s with st := S.rollback s.st, evs := Ev.rollback :: s.evs, i := 0 }

/-- `scrapeAndReport(last, appendTime)`: events of the cycle (in order) and the next loop state. -/
def cycle {σ} (S : Store σ) (P : Params) (l : Loop σ) (t : Int) (sc : Scrape) : Loop σ × List Ev :=
  let a := appendBody S P t l.c l.st sc.items
  let s := a.s
  let s :=
    if a.ok then s
    else
      -- Rollback, new appender, empty append for the stale markers
      let s := rollbackSt S s
      let b := appendBody S P t s.c s.st []
      let s' : LoopSt σ := { b.s with evs := b.s.evs ++ s.evs }
      if b.ok then s' else rollbackSt S s'
  let up := a.ok && sc.isBody
  let s := report S P s t up a.k
  let s := { s with st := S.commit s.st, evs := Ev.commit :: s.evs }
  ({ c := s.c, st := s.st, scraped := true }, s.evs.reverse)

/-- the (wall-clock) time `endOfRunStaleness` stamps its markers with: later than anything scripted -/
def nowT : Int := 2 ^ 62

/-- `endOfRunStaleness` (not disabled, parent context alive). -/
def endOfRun {σ} (S : Store σ) (P : Params) (l : Loop σ) : Loop σ × List Ev :=
  if !l.scraped then (l, [])
  else
    let b := appendBody S P nowT l.c l.st []
    let s := if b.ok then b.s else rollbackSt S b.s
    let s := reportStale S P s nowT
    let s := { s with st := S.commit s.st, evs := Ev.commit :: s.evs }
    ({ l with c := s.c, st := s.st }, s.evs.reverse)

/-! ## The recording storage double of the harness -/

structure Dbl where
  next : Nat := 1
  refs : List (Nat × Labels) := []
  last : List (Labels × (Int × Nat)) := []
  pending : List (Labels × (Int × Nat)) := []
  deriving Repr

/-- ref-directed like the TSDB head: a known ref selects the series, else lookup/creation by labels -/
def Dbl.app (d : Dbl) (ref : Nat) (l : Labels) (t : Int) (bits : Nat) : Dbl × Resp :=
  let byRef := if ref == 0 then none else alookup d.refs ref
  let (d, key, r) : Dbl × Labels × Nat := match byRef with
    | some key => (d, key, ref)
    | none =>
      match d.refs.find? (fun p => p.2 == l) with
      | some p => (d, l, p.1)
      | none => ({ d with next := d.next + 1, refs := d.refs ++ [(d.next, l)] }, l, d.next)
  let res : Res := match alookup d.last key with
    | some (lt, lb) => if t < lt then .ooo else if t == lt && bits != lb then .dup else .ok
    | none => .ok
  match res with
  | .ok => ({ d with pending := d.pending ++ [(key, (t, bits))] }, ⟨.ok, r, key⟩)
  | e => (d, ⟨e, 0, key⟩)

def Dbl.commit (d : Dbl) : Dbl :=
  { d with pending := [],
           last := d.pending.foldl (fun last p =>
             match alookup last p.1 with
             | some (lt, _) => if p.2.1 ≥ lt then ainsert last p.1 p.2 else last
             | none => ainsert last p.1 p.2) d.last }

def Dbl.rollback (d : Dbl) : Dbl := { d with pending := [] }

def Dbl.gc (d : Dbl) : Dbl := { d with refs := [] }

def dblStore : Store Dbl := { app := Dbl.app, commit := Dbl.commit, rollback := Dbl.rollback }

end Prom.Scrape
