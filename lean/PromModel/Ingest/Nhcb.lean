import PromModel.Prelude.Line
import PromModel.Num.F64
/-
  `textparse.NHCBParser` (model/textparse/nhcbparse.go) and `convertnhcb.TempHistogram`
  (util/convertnhcb/convertnhcb.go), transcribed as a transformer over the ENTRY STREAM of the wrapped
  parser.

  The Go parser is pull based (`Next` loops over the inner parser); here one `step` consumes one inner
  entry (or the inner EOF) and returns the wrapped entries that `Next` hands out while that inner entry
  is the last one pulled (0, 1 or 2: a converted histogram and/or the entry itself). `stateEmitting` is
  therefore transient inside a step.

  Strings (metric names, label names/values) stay hex encoded as they travel on the line protocol:
  lowercase hex preserves equality, byte order and suffixes.  Floats are bit patterns (`Nat`);
  comparisons and subtraction go through the exact decoding of `Prom.F64` (no Lean `Float`).

  Quirks of the code that are kept on purpose (see PromProps/C36.lean for witnesses):
  * `Histogram()` returns `p.ts`, the timestamp of the inner series/histogram parsed last (finding F23;
    `fixed = true` models the repaired code which remembers the first collated series' timestamp);
  * a histogram that fails `Validate` leaves the parser in `stateCollecting` with its buckets;
  * an exponential histogram entry while collecting silently drops what was collected (but not the
    buckets already stored in the TempHistogram);
  * in `stateCollecting` `StartTimestamp()` answers with the start timestamp of the first collated series
    and the exemplars of collated series are consumed even when the classic series are kept.
-/
namespace Prom.Nhcb

/-! ### floats as bit patterns -/

def posInf : Nat := F64.posInfBits
def nanBits : Nat := 0x7ff8000000000001
def negZero : Nat := 2 ^ 63

/-- Total order key of a non-NaN double. -/
def key (b : Nat) : Option (Int × Rat) :=
  match F64.decode b with
  | .nan => none
  | .negInf => some (-1, 0)
  | .posInf => some (1, 0)
  | .fin q => some (0, q)

def isNaN (b : Nat) : Bool := (key b).isNone

/-- IEEE `a < b`. -/
def flt (a b : Nat) : Bool :=
  match key a, key b with
  | some (i, x), some (j, y) => decide (i < j) || (i == j && decide (x < y))
  | _, _ => false

/-- IEEE `a == b`. -/
def feq (a b : Nat) : Bool :=
  match key a, key b with
  | some x, some y => x == y
  | _, _ => false

/-- IEEE `a - b` (round to nearest even); a NaN result is the canonical `nanBits`. -/
def fsub (a b : Nat) : Nat :=
  match F64.decode a, F64.decode b with
  | .nan, _ => nanBits
  | _, .nan => nanBits
  | .posInf, .posInf => nanBits
  | .negInf, .negInf => nanBits
  | .posInf, _ => posInf
  | .negInf, _ => F64.negInfBits
  | _, .posInf => F64.negInfBits
  | _, .negInf => posInf
  | .fin x, .fin y =>
    if x - y = 0 then (if a = negZero ∧ b = 0 then negZero else 0) else F64.roundBits (x - y)

/-- The integer value of a double that converts to `int64` and back unchanged. -/
def asI64? (b : Nat) : Option Int :=
  match F64.decode b with
  | .fin q => if q.den = 1 ∧ -(2 ^ 63 : Int) ≤ q.num ∧ q.num < 2 ^ 63 then some q.num else none
  | _ => none

/-- The integer value of a double that converts to `uint64` and back unchanged. -/
def asU64? (b : Nat) : Option Int :=
  match F64.decode b with
  | .fin q => if q.den = 1 ∧ 0 ≤ q.num ∧ q.num < 2 ^ 64 then some q.num else none
  | _ => none

/-! ### strconv.ParseFloat on the grammar the parsers emit -/

def lower (c : Char) : Char := if 'A' ≤ c ∧ c ≤ 'Z' then Char.ofNat (c.toNat + 32) else c

def digitsVal (ds : List Char) : Nat := ds.foldl (fun a c => a * 10 + (c.toNat - 48)) 0

/-- `strconv.ParseFloat(s, 64)` for decimal literals, `inf`/`infinity`, `nan`; `none` = error or NaN
    (the only two things the caller distinguishes). Hex floats and `_` separators are answered `none`. -/
def parseFloat? (s : String) : Option Nat :=
  let cs := s.toList
  let (neg, signed, body) :=
    match cs with
    | '+' :: r => (false, true, r)
    | '-' :: r => (true, true, r)
    | r => (false, false, r)
  let low := body.map lower
  if low = "inf".toList ∨ low = "infinity".toList then some (if neg then F64.negInfBits else posInf)
  else if low = "nan".toList ∧ ¬ signed then none
  else
    let ip := body.takeWhile Char.isDigit
    let r1 := body.dropWhile Char.isDigit
    let (fp, r2) :=
      match r1 with
      | '.' :: r => (r.takeWhile Char.isDigit, r.dropWhile Char.isDigit)
      | r => ([], r)
    if ip.isEmpty ∧ fp.isEmpty then none else
    let ex? : Option Int :=
      match r2 with
      | [] => some 0
      | e :: r =>
        if e = 'e' ∨ e = 'E' then
          let (eneg, ds) :=
            match r with
            | '+' :: d => (false, d)
            | '-' :: d => (true, d)
            | d => (false, d)
          if ds.isEmpty ∨ ¬ ds.all Char.isDigit then none
          else some (if eneg then -(digitsVal ds : Int) else (digitsVal ds : Int))
        else none
    match ex? with
    | none => none
    | some ex =>
      let mant : Nat := digitsVal (ip ++ fp)
      if mant = 0 then some (if neg then negZero else 0) else
      let e10 : Int := ex - fp.length
      if e10 > 400 then none
      else if e10 < -800 then some (if neg then negZero else 0)
      else
        let q : Rat := if e10 ≥ 0 then (mant * 10 ^ e10.toNat : Nat) else (mant : Rat) / ((10 ^ (-e10).toNat : Nat) : Rat)
        let b := F64.roundBits (if neg then -q else q)
        if b % 2 ^ 63 = posInf then none else some b

/-! ### labels (hex encoded names and values, sorted by name) -/

abbrev Lbl := String × String
abbrev Labels := List Lbl

def hName : String := "5f5f6e616d655f5f"   -- __name__
def hLe : String := "6c65"                 -- le
def hHistogram : String := "686973746f6772616d"

def Labels.get (ls : Labels) (n : String) : String :=
  match ls.find? (·.1 = n) with
  | some l => l.2
  | none => "-"

def Labels.has (ls : Labels) (n : String) : Bool := ls.any (·.1 = n)

/-- what `HashWithoutLabels(names…)` hashes: everything except `__name__` and the given names. -/
def Labels.without (ls : Labels) (names : List String) : Labels :=
  ls.filter fun l => l.1 ≠ hName ∧ ¬ names.contains l.1

def hexEmpty (s : String) : Bool := s = "-" ∨ s = ""
def hexStr (s : String) : String := if s = "-" then "" else s
def hexShow (s : String) : String := if s = "" then "-" else s

inductive Suffix | none | bucket | sum | count
  deriving DecidableEq, Repr

def cutSuffix (s suf : String) : Option String :=
  if s.endsWith suf then some (String.ofList (s.toList.take (s.length - suf.length))) else none

/-- `convertnhcb.GetHistogramMetricBaseName` on a hex string. -/
def baseName (n : String) : Suffix × String :=
  let n := hexStr n
  match cutSuffix n "5f6275636b6574" with
  | some r => (.bucket, r)
  | none =>
    match cutSuffix n "5f73756d" with
    | some r => (.sum, r)
    | none =>
      match cutSuffix n "5f636f756e74" with
      | some r => (.count, r)
      | none => (.none, n)

def insertLbl (l : Lbl) : Labels → Labels
  | [] => [l]
  | x :: xs => if l.1 < x.1 then l :: x :: xs else x :: insertLbl l xs

/-- `convertnhcb.GetHistogramMetricBase`: `Builder(m).Set(__name__, name).Del(le).Labels()`. -/
def metricBase (ls : Labels) (name : String) : Labels :=
  -- `Builder.Reset` marks empty-valued labels of the base as deleted
  let rest := ls.filter fun l => l.1 ≠ hName ∧ l.1 ≠ hLe ∧ ¬ hexEmpty l.2
  if name = "" then rest else insertLbl (hName, name) rest

/-- series text of a converted histogram: `name` or `name{k="v",…}` (values that need no escaping). -/
def metricString (ls : Labels) : String :=
  let name := hexStr (ls.get hName)
  let rest := ls.filter (·.1 ≠ hName)
  if rest.isEmpty then hexShow name
  else hexShow (name ++ "7b" ++ "2c".intercalate (rest.map fun l => hexStr l.1 ++ "3d22" ++ hexStr l.2 ++ "22") ++ "7d")

/-! ### convertnhcb.TempHistogram -/

structure Bucket where
  le : Nat
  count : Nat
  deriving DecidableEq, Repr

structure Temp where
  buckets : List Bucket := []
  count : Nat := 0
  sum : Nat := 0
  err : Bool := false
  hasCount : Bool := false
  deriving DecidableEq, Repr

def Temp.setBucketCount (h : Temp) (boundary count : Nat) : Temp :=
  if h.err then h
  else if isNaN boundary then { h with err := true }
  else if flt count 0 then { h with err := true }
  else
    match h.buckets.getLast? with
    | none => { h with buckets := [⟨boundary, count⟩] }
    | some last =>
      if flt last.le boundary then
        if flt count last.count then { h with err := true }
        else { h with buckets := h.buckets ++ [⟨boundary, count⟩] }
      else if feq last.le boundary then h
      else
        -- sort.Search: first index whose bound is ≥ boundary
        let pre := h.buckets.takeWhile fun b => flt b.le boundary
        let post := h.buckets.dropWhile fun b => flt b.le boundary
        match post with
        | [] => h -- unreachable (last.le > boundary)
        | nxt :: _ =>
          if feq nxt.le boundary then h
          else
            match pre.getLast? with
            | some p =>
              if flt count p.count then { h with err := true }
              else if flt nxt.count count then { h with err := true }
              else { h with buckets := pre ++ ⟨boundary, count⟩ :: post }
            | none =>
              if flt nxt.count count then { h with err := true }
              else { h with buckets := pre ++ ⟨boundary, count⟩ :: post }

def Temp.setCount (h : Temp) (count : Nat) : Temp :=
  if h.err then h
  else if flt count 0 then { h with err := true }
  else { h with count := count, hasCount := true }

def Temp.setSum (h : Temp) (sum : Nat) : Temp :=
  if h.err then h else { h with sum := sum }

/-- A converted histogram before `Compact`: one absolute count per bucket (the last one is `+Inf`). -/
inductive Conv
  | int (count : Int) (sum : Nat) (cv : List Nat) (abs : List Int)
  | float (count : Nat) (sum : Nat) (cv : List Nat) (abs : List Nat)
  deriving DecidableEq, Repr

/-- adjacent differences of cumulative counts, starting from 0 -/
def decumulate : Int → List Int → List Int
  | _, [] => []
  | prev, c :: cs => (c - prev) :: decumulate c cs

def cumulate : Int → List Int → List Int
  | _, [] => []
  | acc, d :: ds => (acc + d) :: cumulate (acc + d) ds

def fdecumulate : Nat → List Nat → List Nat
  | _, [] => []
  | prev, c :: cs => fsub c prev :: fdecumulate c cs

/-- the buckets `Convert` works on: count defaulting and the missing `+Inf` rule -/
def Temp.effCount (h : Temp) : Nat :=
  if !h.hasCount then
    match h.buckets.getLast? with
    | some l => l.count
    | none => h.count
  else h.count

def Temp.effBuckets (h : Temp) : List Bucket :=
  match h.buckets.getLast? with
  | some l => if l.le = posInf then h.buckets else h.buckets ++ [⟨posInf, h.effCount⟩]
  | none => [⟨posInf, h.effCount⟩]

def customValues (bs : List Bucket) : List Nat := (bs.filter (·.le ≠ posInf)).map (·.le)

def lastCount (bs : List Bucket) : Nat :=
  match bs.getLast? with
  | some l => l.count
  | none => 0

/-- `TempHistogram.Convert`; `none` = error. -/
def Temp.convert (h : Temp) : Option Conv :=
  if h.err then none else
  let count := h.effCount
  let bs := h.effBuckets
  let toFloat : Option Conv :=
    if feq count (lastCount bs) then some (.float count h.sum (customValues bs) (fdecumulate 0 (bs.map (·.count))))
    else none
  match bs.mapM (fun b => asI64? b.count), asU64? count with
  | some ints, some c =>
    if c = (ints.getLast?.getD 0) % 2 ^ 64 then some (.int c h.sum (customValues bs) (decumulate 0 ints))
    else none
  | _, _ => toFloat

/-- `Validate()` of the converted histogram (the only clauses that can fail here). -/
def Conv.valid : Conv → Bool
  | .int _ _ _ abs => abs.all (0 ≤ ·)
  | .float count _ _ abs => !flt count 0 && abs.all fun a => !flt a 0

/-! ### Compact: spans and kept buckets of one span of absolute counts -/

structure Span where
  offset : Nat
  length : Nat
  deriving DecidableEq, Repr

def dropTrailing {α} (isZ : α → Bool) (xs : List α) : List α :=
  (xs.reverse.dropWhile isZ).reverse

/-- `acc`: finished spans (reversed), `off`: gap before the current span, `cur`: its buckets (reversed),
    `pend`: zeros seen since the last non-zero bucket (reversed). -/
def compactGo {α} (isZ : α → Bool) (maxE : Nat) :
    List α → List (Nat × List α) → Nat → List α → List α → List (Nat × List α)
  | [], acc, off, cur, _ => (if cur.isEmpty then acc else (off, cur.reverse) :: acc).reverse
  | x :: xs, acc, off, cur, pend =>
    if isZ x then
      if cur.isEmpty then compactGo isZ maxE xs acc (off + 1) cur pend
      else compactGo isZ maxE xs acc off cur (x :: pend)
    else if pend.isEmpty then compactGo isZ maxE xs acc off (x :: cur) []
    else if pend.length ≤ maxE then compactGo isZ maxE xs acc off (x :: (pend ++ cur)) []
    else compactGo isZ maxE xs ((off, cur.reverse) :: acc) pend.length [x] []

def compact {α} (isZ : α → Bool) (maxE : Nat) (xs : List α) : List Span × List α :=
  let segs := compactGo isZ maxE (dropTrailing isZ xs) [] 0 [] []
  (segs.map fun s => ⟨s.1, s.2.length⟩, segs.flatMap (·.2))

def fIsZero (b : Nat) : Bool := b = 0 ∨ b = negZero

/-! ### entries -/

inductive Entry
  | typ (name typ : String)
  | help (name text : String)
  | unit (name text : String)
  | comment (text : String)
  | series (bytes : String) (ls : Labels) (v : Nat) (ts : Option Int) (st : Int) (ex : List String)
  | hist (bytes : String) (ls : Labels) (ts : Option Int) (st : Int) (ex : List String) (h : String)
  | err
  deriving DecidableEq, Repr

inductive Out
  | typ (name typ : String)
  | help (name text : String)
  | unit (name text : String)
  | comment (text : String)
  | series (bytes : String) (ls : Labels) (v : Nat) (ts : Option Int) (st : Int) (ex : List String)
  | hist (bytes : String) (ls : Labels) (ts : Option Int) (st : Int) (ex : List String) (h : String)
  | nhcb (bytes : String) (ls : Labels) (ts : Option Int) (st : Int) (ex : List String) (c : Conv)
  | err
  deriving DecidableEq, Repr

inductive CState | start | collecting | inhibiting
  deriving DecidableEq, Repr

/-- `tempExemplars`/`tempExemplarCount`: a reused slice (`buf` = backing array, its length = capacity) of
    which `len` elements are in use and the first `count` are filled. -/
structure ExBuf where
  buf : List String := []
  len : Nat := 0
  count : Nat := 0
  deriving DecidableEq, Repr

def zeroEx : String := "-/0000000000000000/-"

/-- What `parser.Exemplar(ex)` leaves in a reused slot: the text and protobuf parsers only write
    `HasTs`/`Ts` when the exemplar has a timestamp (`partialWrite`), so an older timestamp survives. -/
def mergeEx (partialWrite : Bool) (old new : String) : String :=
  if !partialWrite then new else
  match new.splitOn "/", old.splitOn "/" with
  | [l, v, t], [_, _, ot] => if t = "-" then l ++ "/" ++ v ++ "/" ++ ot else new
  | _, _ => new

/-- `nextExemplarPtr` -/
def ExBuf.nextPtr (b : ExBuf) : ExBuf :=
  if b.count + 1 = b.len then b
  else if b.len = b.buf.length then
    let cap' := if b.buf.length = 0 then 1 else 2 * b.buf.length
    let buf := b.buf ++ List.replicate (cap' - b.buf.length) zeroEx
    { b with buf := buf.set b.len zeroEx, len := b.len + 1 }
  else { b with len := b.len + 1 }

/-- `storeExemplars` -/
def ExBuf.store (partialWrite : Bool) (b : ExBuf) : List String → ExBuf
  | [] => b.nextPtr
  | e :: es =>
    let b := b.nextPtr
    ExBuf.store partialWrite
      { b with buf := b.buf.set (b.len - 1) (mergeEx partialWrite (b.buf.getD (b.len - 1) zeroEx) e), count := b.count + 1 } es

structure Cfg where
  keep : Bool
  parseST : Bool
  /-- the wrapped parser's `Exemplar` leaves `HasTs`/`Ts` untouched for exemplars without timestamp -/
  partialEx : Bool := false
  /-- the repaired `Histogram()` (fixes/F23.patch) -/
  fixed : Bool
  deriving DecidableEq, Repr

structure St where
  state : CState := .start
  typ : String := "-"
  bName : String := "-"
  lastName : String := ""
  lastKey : Option Labels := none
  temp : Temp := {}
  tempLset : Labels := []
  exb : ExBuf := {}
  tempST : Int := 0
  tempTS : Option Int := none
  ts : Option Int := none
  deriving DecidableEq, Repr

def St.isHist (s : St) : Bool := s.typ = hHistogram

/-- `differentMetric()` for the series with labels `ls`. -/
def differentMetric (s : St) (ls : Labels) : Bool :=
  if !s.isHist then true
  else if s.lastName ≠ (baseName (ls.get hName)).2 then true
  else s.lastKey ≠ some (ls.without [hLe])

/-- `processNHCB()`: `(converted histogram if one is emitted, new state)`. -/
def processNHCB (cfg : Cfg) (s : St) : Option Out × St :=
  if s.state ≠ .collecting then (none, s)
  else
    match s.temp.convert with
    | some c =>
      if !c.valid then (none, s)   -- early `return false`: nothing is reset
      else
        let ts := if cfg.fixed then s.tempTS else s.ts
        (some (.nhcb (metricString s.tempLset) s.tempLset ts s.tempST (s.exb.buf.take s.exb.count) c),
          { s with state := .start, temp := {}, exb := { s.exb with len := 0, count := 0 }, tempST := 0 })
    | none => (none, { s with state := .start, temp := {}, exb := { s.exb with count := 0 }, tempST := 0 })

/-- `processClassicHistogramSeries` -/
def collect (cfg : Cfg) (s : St) (ls : Labels) (name : String) (ts : Option Int) (st : Int) (ex : List String)
    (upd : Temp → Temp) : St :=
  let s :=
    if s.state ≠ .collecting then
      { s with lastName := name, lastKey := some (ls.without [hLe]),
               tempST := if cfg.parseST then st else 0, tempTS := ts,
               state := .collecting, tempLset := metricBase ls name }
    else s
  { s with exb := s.exb.store cfg.partialEx ex, temp := upd s.temp }

/-- `handleClassicHistogramSeries`: `(isNHCB, state)` -/
def handleClassic (cfg : Cfg) (s : St) (ls : Labels) (v : Nat) (ts : Option Int) (st : Int) (ex : List String) : Bool × St :=
  if !s.isHist then (false, s)
  else
    let (suf, name) := baseName (ls.get hName)
    if name ≠ hexStr s.bName then (false, s)
    else
      match suf with
      | .bucket =>
        if !ls.has hLe then (false, s)
        else
          match (hexDec? (ls.get hLe)).bind parseFloat? with
          | some le => (true, collect cfg s ls name ts st ex (·.setBucketCount le v))
          | none => (false, s)
      | .count => (true, collect cfg s ls name ts st ex (·.setCount v))
      | .sum => (true, collect cfg s ls name ts st ex (·.setSum v))
      | .none => (false, s)

/-- what `StartTimestamp()` answers for a passed-through series/histogram in the given state -/
def passST (s : St) (st : Int) : Int :=
  match s.state with
  | .collecting => s.tempST
  | _ => st

/-- One inner entry. -/
def step (cfg : Cfg) (s : St) : Entry → List Out × St
  | .series bytes ls v ts st ex =>
    let s := { s with ts := ts }
    -- optional emission of what was collected so far
    let (pre, s) :=
      match s.state with
      | .collecting => if differentMetric s ls then processNHCB cfg s else (none, s)
      | .inhibiting => if differentMetric s ls then (none, { s with state := .start }) else (none, s)
      | .start => (none, s)
    let (isNHCB, s) :=
      if s.state = .inhibiting then (false, s) else handleClassic cfg s ls v ts st ex
    let self : List Out :=
      if isNHCB && !cfg.keep then []
      else [.series bytes ls v ts (passST s st) (if isNHCB then [] else ex)]
    (pre.toList ++ self, s)
  | .hist bytes ls ts st ex h =>
    let s := { s with state := .inhibiting, ts := ts, lastName := hexStr (ls.get hName), lastKey := some (ls.without []) }
    ([.hist bytes ls ts st ex h], s)
  | .typ name typ =>
    let s := { s with bName := name, typ := typ }
    let (pre, s) := processNHCB cfg s
    (pre.toList ++ [.typ name typ], s)
  | .help name text =>
    let (pre, s) := processNHCB cfg s
    (pre.toList ++ [.help name text], s)
  | .unit name text =>
    let (pre, s) := processNHCB cfg s
    (pre.toList ++ [.unit name text], s)
  | .comment text =>
    let (pre, s) := processNHCB cfg s
    (pre.toList ++ [.comment text], s)
  | .err => ([.err], s)

/-- The inner EOF. -/
def atEof (cfg : Cfg) (s : St) : List Out := (processNHCB cfg s).1.toList

/-- The whole stream: one list of wrapped entries per inner entry, then those of the EOF.
    An inner error ends the stream. -/
def run (cfg : Cfg) : St → List Entry → List (List Out)
  | s, [] => [atEof cfg s]
  | s, .err :: rest => [Out.err] :: (rest.map fun _ => []) ++ [[]]
  | s, e :: rest => (step cfg s e).1 :: run cfg (step cfg s e).2 rest

def transform (cfg : Cfg) (es : List Entry) : List Out := (run cfg {} es).flatten

end Prom.Nhcb
