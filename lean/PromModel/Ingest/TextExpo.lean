import PromModel.Api.Json
/-
  C35 — exposition formats, part 1: floats, the family model, the reference ENCODERS of
  `prometheus/common/expfmt` (text_create.go, openmetrics_create.go) and the classic text-format PARSER
  (`model/textparse/promparse.go` + the golex-generated `promlex.l.go`).

  The lexer is transcribed at the level of the generated DFA: no backtracking (a dead end in a
  non-accepting state aborts with `tInvalid` wherever the scan stopped), `next()` swallowing NUL bytes in the
  states sLValue / sMeta2 / sComment, the `consumeComment` work-around, a NUL in the initial state read as
  end of input.  A lexer state is the remaining input plus the start condition; a token carries the bytes it
  consumed, so that `p.series = b[p.start:l.i]` is the concatenation of everything consumed since `p.start`.

  Floats travel as bit patterns (`Nat`).  Shortest formatting (`strconv.AppendFloat(…,'g',-1,64)`) and
  `strconv.ParseFloat` are implemented exactly on rationals (decimal grammar, `inf`/`infinity`/`nan`;
  hexadecimal floats are not modelled — `parseFloat` of the parsers rejects them anyway, they can only
  matter inside an `le`/`quantile` label value).
-/
namespace Prom.Expo

open Prom.Api.Json (kw natDec digitByte ratToF64 f64Num absBits isNeg infBits isNaNBits isInfBits isZeroBits
  fmtE fmtF isDigitB spanDigits ofDigits writeInt64)

abbrev Bytes := List UInt8

/-! ## floats -/

def canonNaN : Nat := 0x7ff8000000000001
def negBit : Nat := 2 ^ 63
def MinI64 : Int := -9223372036854775808

def natDigits (n : Nat) : List Nat := (Nat.toDigits 10 n).map (fun c => c.toNat - 48)

/-- number of decimal digits of a positive number (0 for 0) -/
def numDigits (n : Nat) : Nat := if n = 0 then 0 else (Nat.toDigits 10 n).length

def stripTrailingZeros (ds : List Nat) : List Nat := (ds.reverse.dropWhile (· == 0)).reverse

/-- bits of the double nearest to `n·10^e`, `infBits` on overflow, 0 for n = 0 -/
def decToF64 (n : Nat) (e : Int) : Nat :=
  if e ≥ 0 then ratToF64 (n * 10 ^ e.toNat) 1 else ratToF64 n (10 ^ e.natAbs)

/-- Shortest decimal digits `d1 d2 … dn` and exponent `e` (|x| = d1.d2…dn × 10^e) that round-trip, as
    `strconv`'s `roundShortest` finds them: the first digit count at which truncation or rounding up stays
    inside the rounding interval; the nearer one (ties to even) when both do. `a` = |bits|, finite, ≠ 0. -/
def shortest (a : Nat) : List Nat × Int :=
  let p := f64Num a                         -- value = p / 2^1074
  let q : Nat := 2 ^ 1074
  let k0 : Int := (numDigits p : Int) - 324   -- 2^1074 has 324 digits: the decimal exponent is k0 or k0 ± 1
  let ge (k : Int) : Bool := if k ≥ 0 then p ≥ q * 10 ^ k.toNat else p * 10 ^ k.natAbs ≥ q
  let k : Int := if ge (k0 + 1) then k0 + 1 else if ge k0 then k0 else k0 - 1
  if decToF64 1 (k + 1) == a then ([1], k + 1) else
  let rec go (fuel n : Nat) : List Nat × Int :=
    match fuel with
    | 0 => ([0], k)
    | fuel + 1 =>
      let sc : Int := k + 1 - n            -- candidate = D × 10^sc with n digits
      let (num, den) : Nat × Nat := if sc ≥ 0 then (p, q * 10 ^ sc.toNat) else (p * 10 ^ sc.natAbs, q)
      let d := num / den
      let r := num % den
      let fin (x : Nat) : List Nat × Int :=
        let ds := natDigits x
        (stripTrailingZeros ds, sc + (ds.length : Int) - 1)
      if r = 0 then fin d
      else
        let okDown := decToF64 d sc == a
        let okUp := decToF64 (d + 1) sc == a
        if okDown && okUp then
          (if 2 * r > den ∨ (2 * r = den ∧ d % 2 = 1) then fin (d + 1) else fin d)
        else if okDown then fin d
        else if okUp then fin (d + 1)
        else go fuel (n + 1)
  go 18 1

/-- `strconv.AppendFloat(nil, f, 'g', -1, 64)`: `%e` iff the decimal exponent is `< -4` or `≥ 6`
    (`eprec = 6` for the shortest precision). -/
def fmtG (b : Nat) : Bytes :=
  if isNaNBits b then kw "NaN"
  else if isInfBits b then (if isNeg b then kw "-Inf" else kw "+Inf")
  else
    let sign : Bytes := if isNeg b then [45] else []
    if isZeroBits b then sign ++ [48] else
    let (ds, e) := shortest (absBits b)
    sign ++ (if e < -4 ∨ e ≥ 6 then fmtE ds e else fmtF ds e)

def oneBits : Nat := 0x3ff0000000000000
def posInf : Nat := infBits
def negInf : Nat := infBits + negBit

/-- expfmt `writeFloat` -/
def writeFloat (b : Nat) : Bytes :=
  if b = oneBits then [49]
  else if isZeroBits b then [48]
  else if b = oneBits + negBit then kw "-1"
  else fmtG b   -- NaN / ±Inf are spelled the same by fmtG

/-- expfmt `writeOpenMetricsFloat` = `labels.FormatOpenMetricsFloat` -/
def writeOMFloat (b : Nat) : Bytes :=
  if b = oneBits then kw "1.0"
  else if isZeroBits b then kw "0.0"
  else if b = oneBits + negBit then kw "-1.0"
  else if isNaNBits b ∨ isInfBits b then fmtG b
  else
    let s := fmtG b
    if s.any (fun c => c == 101 || c == 46) then s else s ++ kw ".0"

def lowerB (b : UInt8) : UInt8 := if 65 ≤ b && b ≤ 90 then b + 32 else b

/-- the decimal part of `strconv.ParseFloat` (after the specials): digits with an optional point and exponent -/
def parseDecimal (ls : Bytes) : Option Nat :=
  let (neg, r) : Bool × Bytes := match ls with | 43 :: r => (false, r) | 45 :: r => (true, r) | _ => (false, ls)
  let (ip, r1) := spanDigits r
  let (fp, r2) : List Nat × Bytes := match r1 with
    | 46 :: r' => spanDigits r'
    | _ => ([], r1)
  if ip.isEmpty ∧ fp.isEmpty then none else
  let ex : Option Int := match r2 with
    | [] => some 0
    | c :: r3 =>
      if c = 101 then
        let (eneg, r4) : Bool × Bytes := match r3 with | 45 :: r' => (true, r') | 43 :: r' => (false, r') | _ => (false, r3)
        match spanDigits r4 with
        | (ed@(_ :: _), []) =>
          -- Go stops accumulating at 10000; anything beyond is far out of range either way
          let v : Nat := ofDigits (ed.dropWhile (· == 0) |>.take 6)
          let v := if (ed.dropWhile (· == 0)).length > 6 then 1000000 else v
          some (if eneg then -(v : Int) else v)
        | _ => none
      else none
  match ex with
  | none => none
  | some ex =>
    let ds := (ip ++ fp).dropWhile (· == 0)
    let m := ofDigits ds
    let sgn := if neg then negBit else 0
    if m = 0 then some sgn else
    let e10 : Int := ex - fp.length
    let mag : Int := e10 + ds.length      -- value < 10^mag, ≥ 10^(mag-1)
    if mag > 310 then none
    else if mag < -330 then some sgn
    else
      let a := decToF64 m e10
      if a ≥ infBits then none else some (a + sgn)

/-- strconv `underscoreOK` for decimal literals: an underscore must separate two digits -/
def underscoreOK (s : Bytes) : Bool :=
  let s := match s with | 43 :: r => r | 45 :: r => r | _ => s
  -- saw: 0 = start/other, 1 = digit, 2 = underscore
  let rec go (saw : Nat) : Bytes → Bool
    | [] => saw != 2
    | c :: r =>
      if isDigitB c then go 1 r
      else if c == 95 then (if saw != 1 then false else go 2 r)
      else if saw == 2 then false else go 0 r
  go 0 s

/-- `strconv.ParseFloat(s, 64)` with a nil error, as bits (NaN ↦ the quiet NaN 0x7ff8000000000001):
    `none` = error (syntax, or out of range). Decimal grammar (with digit-separating underscores) + specials. -/
def strconvParseFloat (s : Bytes) : Option Nat :=
  let ls := s.map lowerB
  if ls = kw "nan" then some canonNaN else
  let (neg, r) : Bool × Bytes := match ls with | 43 :: r => (false, r) | 45 :: r => (true, r) | _ => (false, ls)
  if r = kw "inf" ∨ r = kw "infinity" then some (if neg then negInf else posInf) else
  if ls.contains 95 then
    (if underscoreOK ls then parseDecimal (ls.filter (· != 95)) else none)
  else parseDecimal ls

/-- textparse `parseFloat`: pre-Go-1.13 formats only. -/
def parseFloat (s : Bytes) : Option Nat :=
  if s.any (fun c => c == 112 || c == 80 || c == 95) then none else strconvParseFloat s

/-- `int64(f * 1000)` on amd64 (out of range and NaN give MinInt64) -/
def mul1000ToInt (b : Nat) : Int :=
  if isNaNBits b ∨ isInfBits b then MinI64 else
  let p := ratToF64 (f64Num b * 1000) (2 ^ 1074)
  if p ≥ infBits then MinI64 else
  let n : Nat := f64Num p / 2 ^ 1074
  if isNeg b then (if n > 2 ^ 63 then MinI64 else -(n : Int))
  else (if n ≥ 2 ^ 63 then MinI64 else (n : Int))

/-- bits of `float64(n)` -/
def intToF64 (n : Int) : Nat :=
  let a := ratToF64 n.natAbs 1
  if n < 0 then a + negBit else a

/-- bits of `x / d` for a positive integer constant `d` (correctly rounded) -/
def divConst (b : Nat) (d : Nat) : Nat :=
  let r := ratToF64 (f64Num b) (2 ^ 1074 * d)
  if isNeg b then r + negBit else r

def wrap64 (x : Int) : Int := (x + 9223372036854775808) % 18446744073709551616 - 9223372036854775808

/-! ## UTF-8 -/

/-- `utf8.Valid` -/
def utf8Valid : Bytes → Bool
  | [] => true
  | b0 :: r =>
    if b0 < 0x80 then utf8Valid r
    else if 0xC2 ≤ b0 ∧ b0 ≤ 0xDF then
      match r with
      | b1 :: r' => (0x80 ≤ b1 && b1 ≤ 0xBF) && utf8Valid r'
      | _ => false
    else if 0xE0 ≤ b0 ∧ b0 ≤ 0xEF then
      match r with
      | b1 :: b2 :: r' =>
        let lo : UInt8 := if b0 = 0xE0 then 0xA0 else 0x80
        let hi : UInt8 := if b0 = 0xED then 0x9F else 0xBF
        (lo ≤ b1 && b1 ≤ hi) && (0x80 ≤ b2 && b2 ≤ 0xBF) && utf8Valid r'
      | _ => false
    else if 0xF0 ≤ b0 ∧ b0 ≤ 0xF4 then
      match r with
      | b1 :: b2 :: b3 :: r' =>
        let lo : UInt8 := if b0 = 0xF0 then 0x90 else 0x80
        let hi : UInt8 := if b0 = 0xF4 then 0x8F else 0xBF
        (lo ≤ b1 && b1 ≤ hi) && (0x80 ≤ b2 && b2 ≤ 0xBF) && (0x80 ≤ b3 && b3 ≤ 0xBF) && utf8Valid r'
      | _ => false
    else false

/-! ## escaping -/

/-- expfmt `escaper`: `\` ↦ `\\`, newline ↦ `\n` (text-format HELP) -/
def escHelp : Bytes → Bytes
  | [] => []
  | c :: r => (if c = 92 then [92, 92] else if c = 10 then [92, 110] else [c]) ++ escHelp r

/-- expfmt `quotedEscaper`: additionally `"` ↦ `\"` (label values, quoted names, OpenMetrics HELP/UNIT) -/
def escQuoted : Bytes → Bytes
  | [] => []
  | c :: r => (if c = 92 then [92, 92] else if c = 10 then [92, 110] else if c = 34 then [92, 34] else [c]) ++ escQuoted r

/-- textparse `helpReplacer` -/
def unescHelp : Bytes → Bytes
  | 92 :: 92 :: r => 92 :: unescHelp r
  | 92 :: 110 :: r => 10 :: unescHelp r
  | c :: r => c :: unescHelp r
  | [] => []

/-- textparse `lvalReplacer` (= `unreplace`) -/
def unescQuoted : Bytes → Bytes
  | 92 :: 34 :: r => 34 :: unescQuoted r
  | 92 :: 92 :: r => 92 :: unescQuoted r
  | 92 :: 110 :: r => 10 :: unescQuoted r
  | c :: r => c :: unescQuoted r
  | [] => []

/-! ## families -/

abbrev Lbl := Bytes × Bytes

structure Stamp where
  sec : Int
  nanos : Int
deriving Repr, DecidableEq, Inhabited

structure Ex where
  lbls : List Lbl
  val : Nat
  ts : Option Stamp
deriving Repr, DecidableEq, Inhabited

structure Bucket where
  ub : Nat
  cc : Nat
  ccf : Nat
  ex : Option Ex
deriving Repr, DecidableEq, Inhabited

inductive MKind | c | g | u | s | h
deriving Repr, DecidableEq, Inhabited

structure Metric where
  kind : MKind
  lbls : List Lbl
  ts : Option Int
  created : Option Stamp
  val : Nat := 0
  ex : Option Ex := none
  count : Nat := 0
  countF : Nat := 0
  sum : Nat := 0
  quants : List (Nat × Nat) := []
  buckets : List Bucket := []
deriving Repr, DecidableEq, Inhabited

inductive FType | counter | gauge | untyped | summary | histogram | gaugehistogram
deriving Repr, DecidableEq, Inhabited

def FType.kind : FType → MKind
  | .counter => .c | .gauge => .g | .untyped => .u | .summary => .s | .histogram => .h | .gaugehistogram => .h

structure Family where
  typ : FType
  name : Bytes
  help : Option Bytes
  unit : Option Bytes
  metrics : List Metric
deriving Repr, DecidableEq, Inhabited

/-- the metrics the harness turns into `dto.Metric`s (those of the family's kind) -/
def Family.ms (f : Family) : List Metric := f.metrics.filter (fun m => m.kind == f.typ.kind)

/-! ## encoders -/

def isAlphaU (c : UInt8) : Bool := (65 ≤ c && c ≤ 90) || (97 ≤ c && c ≤ 122) || c == 95
def isMStart (c : UInt8) : Bool := isAlphaU c || c == 58
def isMChar (c : UInt8) : Bool := isMStart c || isDigitB c
def isLChar (c : UInt8) : Bool := isAlphaU c || isDigitB c

/-- `model.LegacyValidation.IsValidMetricName` -/
def legacyName (n : Bytes) : Bool :=
  match n with
  | [] => false
  | c :: r => isMStart c && r.all isMChar

/-- expfmt `writeName` -/
def writeName (n : Bytes) : Bytes := if legacyName n then n else [34] ++ escQuoted n ++ [34]

/-- expfmt `writeNameAndLabelPairs` / `writeOpenMetricsNameAndLabelPairs` (`ff` formats the additional
    `le`/`quantile` value) -/
def writeNameAndLabels (ff : Nat → Bytes) (name : Bytes) (lbls : List Lbl) (extra : Option (Bytes × Nat)) : Bytes :=
  let inside := !name.isEmpty && !legacyName name
  let head : Bytes := if name.isEmpty then [] else (if inside then [123] else []) ++ writeName name
  if lbls.isEmpty ∧ extra.isNone then head ++ (if inside then [125] else [])
  else
    let pairs : List Bytes :=
      lbls.map (fun l => writeName l.1 ++ [61, 34] ++ escQuoted l.2 ++ [34]) ++
      (match extra with | some (n, v) => [n ++ [61, 34] ++ ff v ++ [34]] | none => [])
    -- the first separator is '{' unless the name already opened the braces
    let rec joinP (first : Bool) : List Bytes → Bytes
      | [] => []
      | p :: ps => [if first then 123 else 44] ++ p ++ joinP false ps
    head ++ joinP (!inside) pairs ++ [125]

def intDec (i : Int) : Bytes := writeInt64 i

/-- text `writeSample` -/
def textSample (name suffix : Bytes) (m : Metric) (extra : Option (Bytes × Nat)) (v : Nat) : Bytes :=
  writeNameAndLabels writeFloat (name ++ suffix) m.lbls extra ++ [32] ++ writeFloat v ++
    (match m.ts with | some t => [32] ++ intDec t | none => []) ++ [10]

def kwLe : Bytes := kw "le"
def kwQuantile : Bytes := kw "quantile"
def u64ToF (n : Nat) : Nat := ratToF64 n 1

/-- `v := b.GetCumulativeCountFloat(); if v == 0 { v = float64(b.GetCumulativeCount()) }` -/
def floatOr (f : Nat) (n : Nat) : Nat := if isZeroBits f then u64ToF n else f

def hasInfBucket (bs : List Bucket) : Bool := bs.any (fun b => b.ub == posInf)

def textMetric (typ : FType) (name : Bytes) (m : Metric) : Bytes :=
  match typ with
  | .counter | .gauge | .untyped => textSample name [] m none m.val
  | .summary =>
    (m.quants.flatMap fun q => textSample name [] m (some (kwQuantile, q.1)) q.2) ++
    textSample name (kw "_sum") m none m.sum ++ textSample name (kw "_count") m none (u64ToF m.count)
  | .histogram | .gaugehistogram =>
    (m.buckets.flatMap fun b => textSample name (kw "_bucket") m (some (kwLe, b.ub)) (floatOr b.ccf b.cc)) ++
    (if hasInfBucket m.buckets then [] else textSample name (kw "_bucket") m (some (kwLe, posInf)) (floatOr m.countF m.count)) ++
    textSample name (kw "_sum") m none m.sum ++ textSample name (kw "_count") m none (floatOr m.countF m.count)

def textTypeWord : FType → Bytes
  | .counter => kw "counter" | .gauge => kw "gauge" | .summary => kw "summary" | .untyped => kw "untyped"
  | .histogram => kw "histogram" | .gaugehistogram => kw "histogram"

/-- `expfmt.MetricFamilyToText`; `none` = the encoder returns an error. -/
def encodeTextFamily (f : Family) : Option Bytes :=
  if f.ms.isEmpty ∨ f.name.isEmpty then none else
  some ((match f.help with
         | some h => kw "# HELP " ++ writeName f.name ++ [32] ++ escHelp h ++ [10]
         | none => []) ++
        kw "# TYPE " ++ writeName f.name ++ [32] ++ textTypeWord f.typ ++ [10] ++
        f.ms.flatMap (textMetric f.typ f.name))

def encodeText (fs : List Family) : Option Bytes :=
  (fs.mapM encodeTextFamily).map List.flatten

/-! ### OpenMetrics -/

/-- `x > 0` on bits -/
def posFloat (b : Nat) : Bool := b ≠ 0 && b ≤ infBits

def stampNanos (s : Stamp) : Int := wrap64 (s.sec * 1000000000 + s.nanos)

/-- `float64(ts.UnixNano()) / 1e9` -/
def stampSeconds (s : Stamp) : Nat := divConst (intToF64 (stampNanos s)) 1000000000

def omExemplar (e : Ex) : Bytes :=
  kw " # " ++ writeNameAndLabels writeOMFloat [] e.lbls none ++ [32] ++ writeOMFloat e.val ++
    (match e.ts with | some t => [32] ++ writeOMFloat (stampSeconds t) | none => [])

/-- `writeOpenMetricsSample`; the value is either a float (`inl`) or a uint64 (`inr`) -/
def omSample (name suffix : Bytes) (m : Metric) (extra : Option (Bytes × Nat)) (v : Nat ⊕ Nat) (ex : Option Ex) : Bytes :=
  writeNameAndLabels writeOMFloat (name ++ suffix) m.lbls extra ++ [32] ++
    (match v with | .inl f => writeOMFloat f | .inr n => natDec n) ++
    (match m.ts with | some t => [32] ++ writeOMFloat (divConst (intToF64 t) 1000) | none => []) ++
    (match ex with | some e => if e.lbls.isEmpty then [] else omExemplar e | none => []) ++ [10]

def hasSuffix (s suf : Bytes) : Bool := suf.length ≤ s.length && s.drop (s.length - suf.length) == suf

def trimSuffix (s suf : Bytes) : Bytes := if hasSuffix s suf then s.take (s.length - suf.length) else s

/-- `writeOpenMetricsCreated` -/
def omCreated (name trim : Bytes) (m : Metric) (t : Stamp) : Bytes :=
  writeNameAndLabels writeOMFloat (trimSuffix name trim ++ kw "_created") m.lbls none ++ [32] ++
    writeOMFloat (stampSeconds t) ++ [10]

def omMetric (created : Bool) (typ : FType) (name : Bytes) (m : Metric) : Option Bytes :=
  let cr (trim : Bytes) : Bytes :=
    match m.created with | some t => if created then omCreated name trim m t else [] | none => []
  match typ with
  | .counter => some (omSample name [] m none (.inl m.val) m.ex ++ cr (kw "_total"))
  | .gauge | .untyped => some (omSample name [] m none (.inl m.val) none)
  | .summary =>
    some ((m.quants.flatMap fun q => omSample name [] m (some (kwQuantile, q.1)) (.inl q.2) none) ++
      omSample name (kw "_sum") m none (.inl m.sum) none ++ omSample name (kw "_count") m none (.inr m.count) none ++ cr [])
  | .histogram | .gaugehistogram =>
    if m.buckets.any (fun b => posFloat b.ccf) ∨ posFloat m.countF then none else
    some ((m.buckets.flatMap fun b => omSample name (kw "_bucket") m (some (kwLe, b.ub)) (.inr b.cc) b.ex) ++
      (if hasInfBucket m.buckets then [] else omSample name (kw "_bucket") m (some (kwLe, posInf)) (.inr m.count) none) ++
      omSample name (kw "_sum") m none (.inl m.sum) none ++ omSample name (kw "_count") m none (.inr m.count) none ++ cr [])

def kwTotal : Bytes := kw "_total"

/-- the family name on the `# HELP/TYPE/UNIT` lines: counters lose their `_total` -/
def omMetaName (f : Family) : Bytes :=
  if f.typ == .counter && hasSuffix f.name kwTotal then f.name.take (f.name.length - 6) else f.name

def omTypeWord (f : Family) : Bytes :=
  match f.typ with
  | .counter => if hasSuffix f.name kwTotal then kw "counter" else kw "unknown"
  | .gauge => kw "gauge" | .summary => kw "summary" | .untyped => kw "unknown"
  | .histogram => kw "histogram" | .gaugehistogram => kw "gaugehistogram"

/-- `expfmt.MetricFamilyToOpenMetrics` -/
def encodeOMFamily (created : Bool) (f : Family) : Option Bytes :=
  if f.name.isEmpty then none else
  let cn := omMetaName f
  match f.ms.mapM (omMetric created f.typ f.name) with
  | none => none
  | some ls =>
    some ((match f.help with
           | some h => kw "# HELP " ++ writeName cn ++ [32] ++ escQuoted h ++ [10]
           | none => []) ++
          kw "# TYPE " ++ writeName cn ++ [32] ++ omTypeWord f ++ [10] ++
          (match f.unit with
           | some u => kw "# UNIT " ++ writeName cn ++ [32] ++ escQuoted u ++ [10]
           | none => []) ++
          ls.flatten)

def encodeOM (created : Bool) (fs : List Family) : Option Bytes :=
  (fs.mapM (encodeOMFamily created)).map (fun ls => ls.flatten ++ kw "# EOF\n")

/-! ## tokens and the text-format lexer -/

inductive Tok
  | invalid | eof | linebreak | whitespace | help | type | unit | eofWord | text | comment | mname | qstring
  | braceOpen | braceClose | lname | lvalue | comma | equal | timestamp | value
deriving Repr, DecidableEq, Inhabited

/-- start conditions -/
def sInit : Nat := 0
def sComment : Nat := 1
def sMeta1 : Nat := 2
def sMeta2 : Nat := 3
def sLabels : Nat := 4
def sLValue : Nat := 5
def sValue : Nat := 6
def sTimestamp : Nat := 7
def sExemplar : Nat := 8
def sEValue : Nat := 9
def sETimestamp : Nat := 10

def skipNul (st : Nat) : Bool := st == sLValue || st == sMeta2 || st == sComment

def cur (r : Bytes) : UInt8 := r.headD 0

/-- `c = l.next()`: consume the current byte and, in the NUL-swallowing states, the NULs after it.
    Returns (consumed, rest). -/
def adv (st : Nat) : Bytes → Bytes × Bytes
  | [] => ([], [])
  | c :: r => if skipNul st then (c :: r.takeWhile (· == 0), r.dropWhile (· == 0)) else ([c], r)

/-- `for class(c) { c = next() }`: (consumed, rest) -/
def scanWhile (st : Nat) (p : UInt8 → Bool) : Nat → Bytes → Bytes × Bytes
  | 0, r => ([], r)
  | fuel + 1, r =>
    match r with
    | [] => ([], [])
    | c :: _ =>
      if p c then
        let (a, r1) := adv st r
        let (b, r2) := scanWhile st p fuel r1
        (a ++ b, r2)
      else ([], r)

def isWs (c : UInt8) : Bool := c == 32 || c == 9

/-- the body of a quoted string after the opening quote: `(\\.|[^\\"])*\"` (newline allowed iff `nl`),
    without backtracking. (ok, consumed, rest) -/
def scanQuotedBody (st : Nat) (nl : Bool) : Nat → Bytes → Bool × Bytes × Bytes
  | 0, r => (false, [], r)
  | fuel + 1, r =>
    match r with
    | [] => (false, [], [])
    | c :: _ =>
      if c == 34 then
        let (a, r1) := adv st r
        (true, a, r1)
      else if c == 92 then
        let (a, r1) := adv st r
        match r1 with
        | [] => (false, a, [])
        | e :: _ =>
          if e == 0 || e == 10 then (false, a, r1) else
          let (b, r2) := adv st r1
          let (ok, c3, r3) := scanQuotedBody st nl fuel r2
          (ok, a ++ b ++ c3, r3)
      else if c == 0 || (c == 10 && !nl) then (false, [], r)
      else
        let (a, r1) := adv st r
        let (ok, c3, r3) := scanQuotedBody st nl fuel r1
        (ok, a ++ c3, r3)

/-- a quoted string starting at the opening quote -/
def scanQuoted (st : Nat) (nl : Bool) (r : Bytes) : Bool × Bytes × Bytes :=
  let (a, r1) := adv st r
  let (ok, b, r2) := scanQuotedBody st nl (r.length + 1) r1
  (ok, a ++ b, r2)

/-- result of one `Lex()` call -/
structure LexR where
  tok : Tok
  buf : Bytes      -- bytes consumed (= `l.b[l.start:l.i]`)
  st : Nat         -- new start condition
  rest : Bytes
deriving Repr, Inhabited

/-- promlexer.consumeComment (from the current position) -/
def consumeComment (st : Nat) : Nat → Bytes → Bytes → LexR
  | 0, acc, r => ⟨.eof, acc, st, r⟩
  | fuel + 1, acc, r =>
    match r with
    | [] => ⟨.eof, acc, st, []⟩
    | c :: _ =>
      if c == 0 then ⟨.eof, acc, st, r⟩
      else if c == 10 then ⟨.comment, acc, sInit, r⟩
      else
        let (a, r1) := adv st r
        consumeComment st fuel (acc ++ a) r1

def isTextStart (c : UInt8) : Bool := c != 0 && c != 10 && !isWs c
def isTextChar (c : UInt8) : Bool := c != 0 && c != 10
def isValChar (c : UInt8) : Bool := c != 0 && c != 10 && !isWs c && c != 123

/-- expect the literal `lit` byte by byte (each via `next()`); (matched, consumed, rest) -/
def expectLit (st : Nat) : List UInt8 → Bytes → Bool × Bytes × Bytes
  | [], r => (true, [], r)
  | x :: xs, r =>
    match r with
    | [] => (false, [], [])
    | c :: _ =>
      if c == x then
        let (a, r1) := adv st r
        let (ok, b, r2) := expectLit st xs r1
        (ok, a ++ b, r2)
      else (false, [], r)

/-- Does /repo carry the repair of finding F21 (`<sTimestamp>-?{D}+`, fixes/F21.patch)? The model follows the
    code: flip this when the patch is applied. -/
def repoF21Fixed : Bool := false

/-- `promlexer.Lex` in start condition `st` with consumed prefix `acc` (non-empty after `#[ \t]+`). -/
def textLexFrom (st : Nat) (acc : Bytes) (r : Bytes) : LexR :=
  let n := r.length + 1
  let c := cur r
  let abort (acc : Bytes) (r : Bytes) : LexR :=
    if st == sComment then consumeComment st (r.length + 1) acc r else ⟨.invalid, acc, st, r⟩
  let ws : LexR :=
    let (a, r1) := scanWhile st isWs n r
    ⟨.whitespace, acc ++ a, st, r1⟩
  if st == sComment then
    if c == 72 || c == 84 then
      let word : List UInt8 := if c == 72 then [72, 69, 76, 80] else [84, 89, 80, 69]
      let (ok, a, r1) := expectLit st word r
      if !ok then abort (acc ++ a) r1 else
      if !isWs (cur r1) then abort (acc ++ a) r1 else
      let (b, r2) := scanWhile st isWs n r1
      ⟨if c == 72 then .help else .type, acc ++ a ++ b, sMeta1, r2⟩
    else if isWs c then ws
    else abort acc r
  else if st == sMeta1 then
    if c == 34 then
      let (ok, a, r1) := scanQuoted st true r
      if ok then ⟨.mname, acc ++ a, sMeta2, r1⟩ else abort (acc ++ a) r1
    else if isMStart c then
      let (a, r1) := scanWhile st isMChar n r
      ⟨.mname, acc ++ a, sMeta2, r1⟩
    else if isWs c then ws
    else abort acc r
  else if st == sMeta2 then
    if isWs c then
      let (a, r1) := scanWhile st isWs n r
      if isTextStart (cur r1) then
        let (b, r2) := scanWhile st isTextChar n r1
        ⟨.text, acc ++ a ++ b, sInit, r2⟩
      else ⟨.whitespace, acc ++ a, st, r1⟩
    else if isTextStart c then
      let (a, r1) := scanWhile st isTextChar n r
      ⟨.text, acc ++ a, sInit, r1⟩
    else ⟨.text, acc, sInit, r⟩
  else if st == sLabels then
    if c == 34 then
      let (ok, a, r1) := scanQuoted st true r
      if ok then ⟨.qstring, acc ++ a, sLabels, r1⟩ else abort (acc ++ a) r1
    else if c == 44 then let (a, r1) := adv st r; ⟨.comma, acc ++ a, st, r1⟩
    else if c == 61 then let (a, r1) := adv st r; ⟨.equal, acc ++ a, sLValue, r1⟩
    else if isWs c then ws
    else if c == 125 then let (a, r1) := adv st r; ⟨.braceClose, acc ++ a, sValue, r1⟩
    else if isAlphaU c then
      let (a, r1) := scanWhile st isLChar n r
      ⟨.lname, acc ++ a, st, r1⟩
    else abort acc r
  else if st == sLValue then
    if c == 34 then
      let (ok, a, r1) := scanQuoted st true r
      if ok then ⟨.lvalue, acc ++ a, sLabels, r1⟩ else abort (acc ++ a) r1
    else if isWs c then ws
    else abort acc r
  else if st == sValue then
    if isWs c then ws
    else if c == 123 then let (a, r1) := adv st r; ⟨.braceOpen, acc ++ a, sLabels, r1⟩
    else if isValChar c then
      let (a, r1) := scanWhile st isValChar n r
      ⟨.value, acc ++ a, sTimestamp, r1⟩
    else abort acc r
  else if st == sTimestamp then
    if c == 10 then let (a, r1) := adv st r; ⟨.linebreak, acc ++ a, sInit, r1⟩
    else if isWs c then ws
    else if isDigitB c then
      let (a, r1) := scanWhile st isDigitB n r
      ⟨.timestamp, acc ++ a, st, r1⟩
    else if repoF21Fixed && c == 45 then
      let (m, r0) := adv st r
      if isDigitB (cur r0) then
        let (a, r1) := scanWhile st isDigitB n r0
        ⟨.timestamp, acc ++ m ++ a, st, r1⟩
      else abort (acc ++ m) r0
    else abort acc r
  else ⟨.invalid, acc, st, r⟩

/-- `promlexer.Lex` -/
def textLex (st : Nat) (r : Bytes) : LexR :=
  if r.isEmpty then ⟨.eof, [], st, []⟩ else
  if st == sInit then
    let n := r.length + 1
    let c := cur r
    if c == 35 then
      let (a, r1) := adv st r
      if isWs (cur r1) then
        let (b, r2) := scanWhile st isWs n r1
        textLexFrom sComment (a ++ b) r2          -- `l.state = sComment; goto yystate0`
      else consumeComment st (r1.length + 1) a r1
    else if isMStart c then
      let (a, r1) := scanWhile st isMChar n r
      ⟨.mname, a, sValue, r1⟩
    else if c == 10 then let (a, r1) := adv st r; ⟨.linebreak, a, sInit, r1⟩
    else if isWs c then
      let (a, r1) := scanWhile st isWs n r
      ⟨.whitespace, a, st, r1⟩
    else if c == 0 then let (a, r1) := adv st r; ⟨.eof, a, st, r1⟩
    else if c == 123 then let (a, r1) := adv st r; ⟨.braceOpen, a, sLabels, r1⟩
    else ⟨.invalid, [], st, r⟩
  else textLexFrom st [] r

/-! ## the text-format parser -/

/-- an exemplar as returned by `Parser.Exemplar` -/
structure PEx where
  lbls : List Lbl
  val : Nat
  ts : Option Int
deriving Repr, DecidableEq, Inhabited

inductive Entry
  | typ (name t : Bytes)
  | help (name text : Bytes)
  | unit (name u : Bytes)
  | comment (text : Bytes)
  | series (raw : Bytes) (lbls : List Lbl) (val : Nat) (ts : Option Int) (ex : Option PEx) (st : Int)
deriving Repr, DecidableEq, Inhabited

inductive PErr | err | hang | panic
deriving Repr, DecidableEq, Inhabited

/-- how a parse ends -/
inductive Fin | eof | err | hang | panic | fuel
deriving Repr, DecidableEq, Inhabited

def PErr.fin : PErr → Fin
  | .err => .err | .hang => .hang | .panic => .panic

/-- insertion of one label into a list sorted (stably) by name: `slices.SortFunc` on ≤ 12 elements is an
    insertion sort, hence stable -/
def insLbl (x : Lbl) : List Lbl → List Lbl
  | [] => [x]
  | y :: ys => if x.1 < y.1 then x :: y :: ys else y :: insLbl x ys

def sortLbls (ls : List Lbl) : List Lbl := ls.foldl (fun acc x => insLbl x acc) []

def kwName : Bytes := kw "__name__"
def kwTypeL : Bytes := kw "__type__"
def kwUnitL : Bytes := kw "__unit__"
def kwSummary : Bytes := kw "summary"
def kwHistogram : Bytes := kw "histogram"
def kwUnknown : Bytes := kw "unknown"

/-- `normalizeFloatsInLabelValues` -/
def normalizeLV (mtype l v : Bytes) : Bytes :=
  if (mtype == kwSummary && l == kwQuantile) || (mtype == kwHistogram && l == kwLe) then
    match strconvParseFloat v with
    | some f => writeOMFloat f
    | none => v
  else v

/-- `Labels()` of both text parsers: raw name, raw (name, value) pairs, current type and unit. -/
def buildLabels (tu : Bool) (mtype unit : Bytes) (rawName : Bytes) (raw : List Lbl) : List Lbl :=
  let name := unescQuoted rawName
  let typeEmpty := mtype.isEmpty || mtype == kwUnknown
  let metaL : List Lbl :=
    if tu then
      (if name.isEmpty then [] else [(kwName, name)]) ++ (if typeEmpty then [] else [(kwTypeL, mtype)]) ++
      (if unit.isEmpty then [] else [(kwUnitL, unit)])
    else [(kwName, name)]
  let overridden (l : Bytes) : Bool :=
    tu && ((l == kwName && !name.isEmpty) || (l == kwTypeL && !typeEmpty) || (l == kwUnitL && !unit.isEmpty))
  let user := raw.filterMap fun (ln, lv) =>
    let l := unescQuoted ln
    if overridden l then none else some (l, normalizeLV mtype l (unescQuoted lv))
  sortLbls (metaL ++ user)

/-- strip the quotes of a `tMName`/`tQString` token when both ends are quotes -/
def stripQuotes (b : Bytes) : Bytes :=
  if b.length ≥ 2 && b.head? == some 34 && b.getLast? == some 34 then (b.drop 1).dropLast else b

/-- the inside of a token whose first and last byte are dropped (`start+1 … i-1`) -/
def inner (b : Bytes) : Bytes := (b.drop 1).dropLast

structure TP where
  rest : Bytes
  lst : Nat := sInit
  mtype : Bytes := []
  tu : Bool := false
deriving Repr, Inhabited

/-- `nextToken`: skips whitespace tokens; the skipped bytes still count as consumed. -/
def tNextToken : Nat → Nat → Bytes → Bytes → LexR
  | 0, st, acc, r => ⟨.invalid, acc, st, r⟩
  | fuel + 1, st, acc, r =>
    let x := textLex st r
    if x.tok == .whitespace then tNextToken fuel x.st (acc ++ x.buf) x.rest
    else { x with buf := x.buf }   -- `buf` is the token alone; the caller adds `acc ++ buf` to the line

/-- a token together with the whitespace skipped before it -/
structure TokR where
  tok : Tok
  pre : Bytes      -- skipped whitespace
  buf : Bytes
  st : Nat
  rest : Bytes
deriving Repr, Inhabited

def tNext : Nat → Nat → Bytes → Bytes → TokR
  | 0, st, pre, r => ⟨.invalid, pre, [], st, r⟩
  | fuel + 1, st, pre, r =>
    let x := textLex st r
    if x.tok == .whitespace then tNext fuel x.st (pre ++ x.buf) x.rest
    else ⟨x.tok, pre, x.buf, x.st, x.rest⟩

def tTok (st : Nat) (r : Bytes) : TokR := tNext (r.length + 2) st [] r

/-- result of `parseLVals`: consumed bytes, metric name set inside the braces, raw label pairs, lexer -/
structure LVals where
  consumed : Bytes
  name : Option Bytes
  lbls : List Lbl
  st : Nat
  rest : Bytes
deriving Repr, Inhabited

/-- `PromParser.parseLVals` after the opening brace. `t` is the pending token. -/
def tParseLVals : Nat → TokR → Bytes → Option Bytes → List Lbl → Except PErr LVals
  | 0, _, _, _, _ => .error .err
  | fuel + 1, t, acc, name, lbls =>
    let acc := acc ++ t.pre ++ t.buf
    match t.tok with
    | .braceClose => .ok ⟨acc, name, lbls, t.st, t.rest⟩
    | .lname | .qstring =>
      let isQ := t.tok == .qstring
      let t2 := tTok t.st t.rest
      if isQ && (t2.tok == .comma || t2.tok == .braceClose) then
        if name.isSome then .error .err else
        let name := some (inner t.buf)
        if t2.tok == .braceClose then .ok ⟨acc ++ t2.pre ++ t2.buf, name, lbls, t2.st, t2.rest⟩
        else tParseLVals fuel (tTok t2.st t2.rest) (acc ++ t2.pre ++ t2.buf) name lbls
      else
        let ln := if t.buf.head? == some 34 then inner t.buf else t.buf
        if t2.tok != .equal then .error .err else
        let t3 := tTok t2.st t2.rest
        if t3.tok != .lvalue then .error .err else
        if !utf8Valid t3.buf then .error .err else
        let lbls := lbls ++ [(ln, inner t3.buf)]
        let acc := acc ++ t2.pre ++ t2.buf ++ t3.pre ++ t3.buf
        let t4 := tTok t3.st t3.rest
        if t4.tok == .comma then
          tParseLVals fuel (tTok t4.st t4.rest) (acc ++ t4.pre ++ t4.buf) name lbls
        else tParseLVals fuel t4 acc name lbls
    | _ => .error .err

def maxI64 : Nat := 9223372036854775807

/-- `parseMetricSuffix`: value, optional timestamp, linebreak. Returns (val, ts, lexer state, rest). -/
def tParseSuffix (t : TokR) : Except PErr (Nat × Option Int × Nat × Bytes) :=
  if t.tok != .value then .error .err else
  match parseFloat t.buf with
  | none => .error .err
  | some v =>
    let v := if isNaNBits v then canonNaN else v
    let t2 := tTok t.st t.rest
    match t2.tok with
    | .linebreak => .ok (v, none, t2.st, t2.rest)
    | .timestamp =>
      -- strconv.ParseInt(buf, 10, 64); a sign only reaches here with the F21 repair
      let neg := t2.buf.head? == some 45
      let n := ofDigits ((if neg then t2.buf.drop 1 else t2.buf).map (fun c => c.toNat - 48))
      if n > (if neg then maxI64 + 1 else maxI64) then .error .err else
      let t3 := tTok t2.st t2.rest
      if t3.tok != .linebreak then .error .err else .ok (v, some (if neg then -(n : Int) else (n : Int)), t3.st, t3.rest)
    | _ => .error .err

def textTypes : List Bytes := [kw "counter", kw "gauge", kw "histogram", kw "summary", kw "untyped"]

def hasBackslash (b : Bytes) : Bool := b.any (· == 92)

/-- `PromParser.Next`: `none` = io.EOF. -/
def tNextEntry : Nat → TP → Except PErr (Option (Entry × TP))
  | 0, _ => .error .err
  | fuel + 1, p =>
    let t := tTok p.lst p.rest
    match t.tok with
    | .eof => .ok none
    | .linebreak => tNextEntry fuel { p with lst := t.st, rest := t.rest }
    | .help | .type =>
      let t2 := tTok t.st t.rest
      if t2.tok != .mname then .error .err else
      let name := stripQuotes t2.buf
      let t3 := tTok t2.st t2.rest
      if t3.tok != .text then .error .err else
      let text := if t3.buf.length > 1 then t3.buf.drop 1 else []
      if t.tok == .type then
        if !textTypes.contains text then .error .err else
        let mt := if text == kw "untyped" then kwUnknown else text
        let t4 := tTok t3.st t3.rest
        if t4.tok != .linebreak then .error .err else
        .ok (some (.typ name mt, { p with lst := t4.st, rest := t4.rest, mtype := mt }))
      else
        if !utf8Valid text then .error .err else
        let t4 := tTok t3.st t3.rest
        if t4.tok != .linebreak then .error .err else
        .ok (some (.help name (if hasBackslash text then unescHelp text else text), { p with lst := t4.st, rest := t4.rest }))
    | .comment =>
      let t2 := tTok t.st t.rest
      if t2.tok != .linebreak then .error .err else
      .ok (some (.comment t.buf, { p with lst := t2.st, rest := t2.rest }))
    | .braceOpen =>
      match tParseLVals (t.rest.length + 2) (tTok t.st t.rest) (t.pre ++ t.buf) none [] with
      | .error e => .error e
      | .ok lv =>
        match lv.name with
        | none => .error .err
        | some name =>
          match tParseSuffix (tTok lv.st lv.rest) with
          | .error e => .error e
          | .ok (v, ts, st, rest) =>
            .ok (some (.series lv.consumed (buildLabels p.tu p.mtype [] name lv.lbls) v ts none 0,
                       { p with lst := st, rest := rest }))
    | .mname =>
      -- offsets are (p.start, l.i): whitespace skipped before the name is part of it
      let name := t.pre ++ t.buf
      let t2 := tTok t.st t.rest
      if t2.tok == .braceOpen then
        match tParseLVals (t2.rest.length + 2) (tTok t2.st t2.rest) (name ++ t2.pre ++ t2.buf) (some name) [] with
        | .error e => .error e
        | .ok lv =>
          match tParseSuffix (tTok lv.st lv.rest) with
          | .error e => .error e
          | .ok (v, ts, st, rest) =>
            .ok (some (.series lv.consumed (buildLabels p.tu p.mtype [] name lv.lbls) v ts none 0,
                       { p with lst := st, rest := rest }))
      else
        match tParseSuffix t2 with
        | .error e => .error e
        | .ok (v, ts, st, rest) =>
          .ok (some (.series name (buildLabels p.tu p.mtype [] name []) v ts none 0, { p with lst := st, rest := rest }))
    | _ => .error .err

/-- drive a parser to the end: entries and how it ended -/
def tRun : Nat → TP → List Entry → List Entry × Fin
  | 0, _, acc => (acc.reverse, .fuel)
  | fuel + 1, p, acc =>
    match tNextEntry (p.rest.length + 2) p with
    | .error e => (acc.reverse, e.fin)
    | .ok none => (acc.reverse, .eof)
    | .ok (some (e, p')) => tRun fuel p' (e :: acc)

/-- `textparse.NewPromParser(b, …)` appends a newline. -/
def parseText (tu : Bool) (b : Bytes) : List Entry × Fin :=
  tRun (b.length + 3) { rest := b ++ [10], tu := tu } []

end Prom.Expo
