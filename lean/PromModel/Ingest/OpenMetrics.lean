import PromModel.Ingest.TextExpo
/-
  C35 — exposition formats, part 2: the OpenMetrics parser (`model/textparse/openmetricsparse.go` + the
  golex-generated `openmetricslex.l.go`), including exemplars, `# EOF`, `_created` series skipping and
  `StartTimestamp()` (peeking ahead with a copy of the lexer, the series-hash cache — modelled by the hashed
  byte string itself —, its slice arithmetic on `p.series` that can panic, and the token-skipping loop of
  `parseComment` that can spin forever on a malformed exemplar).
-/
namespace Prom.Expo

open Prom.Api.Json (kw isNaNBits isInfBits isDigitB)

def isOMValChar (c : UInt8) : Bool := c != 0 && c != 10 && c != 32

/-- `openMetricsLexer.Lex` in start condition `st` with consumed prefix `acc`. -/
def omLexFrom (st : Nat) (acc : Bytes) (r : Bytes) : LexR :=
  let n := r.length + 1
  let c := cur r
  let abort (acc : Bytes) (r : Bytes) : LexR := ⟨.invalid, acc, st, r⟩
  let one (t : Tok) (ns : Nat) : LexR := let (a, r1) := adv st r; ⟨t, acc ++ a, ns, r1⟩
  -- `{S}[^ \n]+`
  let spaceWord (t : Tok) (ns : Nat) : LexR :=
    let (a, r1) := adv st r
    if !isOMValChar (cur r1) then abort (acc ++ a) r1 else
    let (b, r2) := scanWhile st isOMValChar n r1
    ⟨t, acc ++ a ++ b, ns, r2⟩
  let quoted (nl : Bool) (t : Tok) (ns : Nat) : LexR :=
    let (ok, a, r1) := scanQuoted st nl r
    if ok then ⟨t, acc ++ a, ns, r1⟩ else abort (acc ++ a) r1
  let lname (t : Tok) : LexR :=
    let (a, r1) := scanWhile st isLChar n r
    ⟨t, acc ++ a, st, r1⟩
  if st == sComment then
    if c == 69 then
      let (ok, a, r1) := expectLit st [69, 79, 70] r
      if !ok then abort (acc ++ a) r1 else
      if cur r1 == 10 && !r1.isEmpty then
        let (b, r2) := adv st r1
        ⟨.eofWord, acc ++ a ++ b, sInit, r2⟩
      else ⟨.eofWord, acc ++ a, sInit, r1⟩
    else if c == 72 || c == 84 || c == 85 then
      let word : List UInt8 := if c == 72 then [72, 69, 76, 80, 32] else if c == 84 then [84, 89, 80, 69, 32] else [85, 78, 73, 84, 32]
      let (ok, a, r1) := expectLit st word r
      if !ok then abort (acc ++ a) r1 else
      ⟨if c == 72 then .help else if c == 84 then .type else .unit, acc ++ a, sMeta1, r1⟩
    else abort acc r
  else if st == sMeta1 then
    if c == 34 then quoted true .mname sMeta2
    else if isMStart c then
      let (a, r1) := scanWhile st isMChar n r
      ⟨.mname, acc ++ a, sMeta2, r1⟩
    else abort acc r
  else if st == sMeta2 then
    if c != 32 then abort acc r else
    let (a, r1) := adv st r
    let (b, r2) := scanWhile st isTextChar n r1
    if cur r2 == 10 && !r2.isEmpty then
      let (d, r3) := adv st r2
      ⟨.text, acc ++ a ++ b ++ d, sInit, r3⟩
    else abort (acc ++ a ++ b) r2
  else if st == sLabels || st == sExemplar then
    if c == 34 then quoted (st == sLabels) .qstring st
    else if c == 44 then one .comma st
    else if c == 61 then one .equal (if st == sLabels then sLValue else sEValue)
    else if c == 125 then one .braceClose (if st == sLabels then sValue else sEValue)
    else if isAlphaU c then lname .lname
    else abort acc r
  else if st == sLValue then
    if c == 34 then quoted false .lvalue sLabels else abort acc r
  else if st == sValue then
    if c == 32 then spaceWord .value sTimestamp
    else if c == 123 then one .braceOpen sLabels
    else abort acc r
  else if st == sTimestamp then
    if c == 10 then one .linebreak sInit
    else if c == 32 then
      let (a, r1) := adv st r
      let c1 := cur r1
      if c1 == 35 then
        let (b, r2) := adv st r1
        let c2 := cur r2
        if c2 == 32 && !r2.isEmpty then
          let (d, r3) := adv st r2
          if cur r3 == 123 then
            let (e, r4) := adv st r3
            ⟨.comment, acc ++ a ++ b ++ d ++ e, sExemplar, r4⟩
          else abort (acc ++ a ++ b ++ d) r3
        else if isOMValChar c2 then
          let (d, r3) := scanWhile st isOMValChar n r2
          ⟨.timestamp, acc ++ a ++ b ++ d, st, r3⟩
        else ⟨.timestamp, acc ++ a ++ b, st, r2⟩
      else if isOMValChar c1 then
        let (b, r2) := scanWhile st isOMValChar n r1
        ⟨.timestamp, acc ++ a ++ b, st, r2⟩
      else abort (acc ++ a) r1
    else abort acc r
  else if st == sEValue then
    if c == 32 then spaceWord .value sETimestamp
    else if c == 34 then quoted false .lvalue sExemplar
    else abort acc r
  else if st == sETimestamp then
    if c == 32 then spaceWord .timestamp st
    else if c == 10 then one .linebreak sInit
    else abort acc r
  else abort acc r

/-- `openMetricsLexer.Lex` -/
def omLex (st : Nat) (r : Bytes) : LexR :=
  if r.isEmpty then ⟨.eof, [], st, []⟩ else
  if st == sInit then
    let c := cur r
    if c == 35 then
      let (a, r1) := adv st r
      if cur r1 == 32 && !r1.isEmpty then
        let (b, r2) := adv st r1
        omLexFrom sComment (a ++ b) r2     -- `l.state = sComment; goto yystate0`
      else ⟨.invalid, a, st, r1⟩
    else if isMStart c then
      let (a, r1) := scanWhile st isMChar (r.length + 1) r
      ⟨.mname, a, sValue, r1⟩
    else if c == 123 then let (a, r1) := adv st r; ⟨.braceOpen, a, sLabels, r1⟩
    else ⟨.invalid, [], st, r⟩
  else omLexFrom st [] r

/-! ## parser -/

/-- positions are relative to `p.start` -/
structure OffLbl where
  a : Nat
  b : Nat
  c : Nat
  d : Nat
deriving Repr, DecidableEq, Inhabited

structure OP where
  rest : Bytes
  lst : Nat := sInit
  mtype : Bytes := []
  unit : Bytes := []
  mfNameLen : Nat := 0
  skipST : Bool := false
  tu : Bool := false
  ignoreEx : Bool := false
  stVal : Int := 0
  stKey : Option Bytes := none
  -- the current series, as `StartTimestamp` sees it
  line : Bytes := []        -- b[p.start:]
  seriesLen : Nat := 0      -- len(p.series)
  nameOff : Nat × Nat := (0, 0)
  offs : List OffLbl := []
  val : Nat := 0
deriving Repr, Inhabited

def omTypes : List Bytes :=
  [kw "counter", kw "gauge", kw "histogram", kw "gaugehistogram", kw "summary", kw "info", kw "stateset", kw "unknown"]

def typeRequiresST (t : Bytes) : Bool := t == kw "counter" || t == kwSummary || t == kwHistogram

def kwCreated : Bytes := kw "_created"

/-- result of OM `parseLVals` -/
structure OLVals where
  consumed : Bytes
  name : Option (Nat × Nat)
  offs : List OffLbl
  st : Nat
  rest : Bytes
deriving Repr, Inhabited

/-- `OpenMetricsParser.parseLVals`; `acc` = bytes consumed since `p.start`, `t` the pending token
    (already part of `acc`), `tStart` its start position. -/
def oParseLVals (isEx : Bool) : Nat → LexR → Nat → Bytes → Option (Nat × Nat) → List OffLbl → Except PErr OLVals
  | 0, _, _, _, _, _ => .error .err
  | fuel + 1, t, tStart, acc, name, offs =>
    match t.tok with
    | .braceClose => .ok ⟨acc, name, offs, t.st, t.rest⟩
    | .lname | .qstring =>
      let isQ := t.tok == .qstring
      let tEnd := acc.length
      let t2 := omLex t.st t.rest
      let acc2 := acc ++ t2.buf
      if isQ && (t2.tok == .comma || t2.tok == .braceClose) then
        if isEx then .error .err else
        if name.isSome then .error .err else
        let name := some (tStart + 1, tEnd - 1)
        if t2.tok == .braceClose then .ok ⟨acc2, name, offs, t2.st, t2.rest⟩
        else
          let t3 := omLex t2.st t2.rest
          oParseLVals isEx fuel t3 acc2.length (acc2 ++ t3.buf) name offs
      else
        let (ls, le) := if t.buf.head? == some 34 then (tStart + 1, tEnd - 1) else (tStart, tEnd)
        if t2.tok != .equal then .error .err else
        let t3 := omLex t2.st t2.rest
        if t3.tok != .lvalue then .error .err else
        if !utf8Valid t3.buf then .error .err else
        let acc3 := acc2 ++ t3.buf
        let offs := offs ++ [⟨ls, le, acc2.length + 1, acc3.length - 1⟩]
        let t4 := omLex t3.st t3.rest
        let acc4 := acc3 ++ t4.buf
        if t4.tok == .comma then
          let t5 := omLex t4.st t4.rest
          oParseLVals isEx fuel t5 acc4.length (acc4 ++ t5.buf) name offs
        else if t4.tok != .braceClose then .error .err
        else oParseLVals isEx fuel t4 acc3.length acc4 name offs
    | _ => .error .err

def slice (b : Bytes) (lo hi : Nat) : Bytes := (b.take hi).drop lo

/-- `getFloatValue` -/
def oFloat (t : LexR) : Except PErr Nat :=
  if t.tok != .value then .error .err else
  match parseFloat (t.buf.drop 1) with
  | none => .error .err
  | some v => .ok (if isNaNBits v then canonNaN else v)

/-- a timestamp token: `int64(ts * 1000)` -/
def oTs (t : LexR) : Except PErr Int :=
  match parseFloat (t.buf.drop 1) with
  | none => .error .err
  | some v => if isNaNBits v ∨ isInfBits v then .error .err else .ok (mul1000ToInt v)

/-- exemplar data kept by the parser -/
structure ExState where
  consumed : Bytes       -- p.exemplar = b[p.start:l.i] after the exemplar labels
  offs : List OffLbl
  val : Nat
  ts : Option Int
deriving Repr, Inhabited

/-- `parseComment` in the peeking mode of `StartTimestamp`: swallow tokens up to the linebreak. A `tInvalid`
    that consumed nothing repeats forever. -/
def oSkipComment : Nat → Nat → Bytes → Except PErr (Nat × Bytes)
  | 0, _, _ => .error .hang
  | fuel + 1, st, r =>
    let t := omLex st r
    match t.tok with
    | .linebreak => .ok (t.st, t.rest)
    | .eof => .error .err
    | .invalid => if t.buf.isEmpty then .error .hang else oSkipComment fuel t.st t.rest
    | _ => oSkipComment fuel t.st t.rest

/-- `parseComment` (exemplar) after the `tComment` token; `acc` = consumed since start. -/
def oParseComment (ignoreEx : Bool) (acc : Bytes) (st : Nat) (r : Bytes) : Except PErr (Option ExState × Nat × Bytes) :=
  if ignoreEx then
    match oSkipComment (r.length + 2) st r with
    | .error e => .error e
    | .ok (st, r) => .ok (none, st, r)
  else
    let t := omLex st r
    match oParseLVals true (r.length + 2) t acc.length (acc ++ t.buf) none [] with
    | .error e => .error e
    | .ok lv =>
      let tv := omLex lv.st lv.rest
      match oFloat tv with
      | .error e => .error e
      | .ok v =>
        let t2 := omLex tv.st tv.rest
        match t2.tok with
        | .eof => .error .err
        | .linebreak => .ok (some ⟨lv.consumed, lv.offs, v, none⟩, t2.st, t2.rest)
        | .timestamp =>
          match oTs t2 with
          | .error e => .error e
          | .ok ts =>
            let t3 := omLex t2.st t2.rest
            if t3.tok != .linebreak then .error .err else .ok (some ⟨lv.consumed, lv.offs, v, some ts⟩, t3.st, t3.rest)
        | _ => .error .err

/-- what `parseSeriesEndOfLine` yields: value, timestamp, exemplar, lexer -/
structure EOL where
  val : Nat
  ts : Option Int
  ex : Option ExState
  st : Nat
  rest : Bytes
deriving Repr, Inhabited

/-- `parseSeriesEndOfLine` with pending token `t`; `acc` = consumed since start including `t`. -/
def oParseEOL (ignoreEx : Bool) (acc : Bytes) (t : LexR) : Except PErr EOL :=
  match oFloat t with
  | .error e => .error e
  | .ok v =>
    let t2 := omLex t.st t.rest
    let acc2 := acc ++ t2.buf
    match t2.tok with
    | .eof => .error .err
    | .linebreak => .ok ⟨v, none, none, t2.st, t2.rest⟩
    | .comment =>
      match oParseComment ignoreEx acc2 t2.st t2.rest with
      | .error e => .error e
      | .ok (ex, st, r) => .ok ⟨v, none, ex, st, r⟩
    | .timestamp =>
      match oTs t2 with
      | .error e => .error e
      | .ok ts =>
        let t3 := omLex t2.st t2.rest
        let acc3 := acc2 ++ t3.buf
        match t3.tok with
        | .linebreak => .ok ⟨v, some ts, none, t3.st, t3.rest⟩
        | .comment =>
          match oParseComment ignoreEx acc3 t3.st t3.rest with
          | .error e => .error e
          | .ok (ex, st, r) => .ok ⟨v, some ts, ex, st, r⟩
        | _ => .error .err
    | _ => .ok ⟨v, none, none, t2.st, t2.rest⟩   -- the switch has no default: any other token is accepted

/-- what `Next` hands out for a series: the data of `Series`, `Labels`, `Exemplar` -/
structure OSeries where
  raw : Bytes
  lbls : List Lbl
  val : Nat
  ts : Option Int
  ex : Option PEx
deriving Repr, Inhabited

inductive OEntry
  | typ (name t : Bytes)
  | help (name text : Bytes)
  | unit (name u : Bytes)
  | series (s : OSeries)
deriving Repr, Inhabited

def rawLbls (line : Bytes) (offs : List OffLbl) : List Lbl :=
  offs.map fun o => (slice line o.a o.b, slice line o.c o.d)

/-- finish a series line: returns `none` when it is a skipped `_created` series -/
def oFinishSeries (p : OP) (startRest : Bytes) (consumed : Bytes) (name : Nat × Nat) (offs : List OffLbl) (e : EOL) :
    Option OEntry × OP :=
  let rawName := slice startRest name.1 name.2
  let p' : OP := { p with lst := e.st, rest := e.rest, line := startRest, seriesLen := consumed.length,
                          nameOff := name, offs := offs, val := e.val }
  if p.skipST && typeRequiresST p.mtype && hasSuffix rawName kwCreated then (none, p')
  else
    let ex : Option PEx := e.ex.map fun x =>
      -- `Exemplar()`: raw label bytes, sorted
      ⟨sortLbls (rawLbls startRest x.offs), x.val, x.ts⟩
    (some (.series ⟨consumed, buildLabels p.tu p.mtype p.unit rawName (rawLbls startRest offs), e.val, e.ts, ex⟩), p')

/-- `OpenMetricsParser.Next`; `none` = io.EOF. -/
def oNextEntry : Nat → OP → Except PErr (Option (OEntry × OP))
  | 0, _ => .error .err
  | fuel + 1, p =>
    let start := p.rest
    let t := omLex p.lst p.rest
    match t.tok with
    | .eofWord =>
      let t2 := omLex t.st t.rest
      if t2.tok != .eof then .error .err else .ok none
    | .eof => .error .err
    | .help | .type | .unit =>
      let t2 := omLex t.st t.rest
      if t2.tok != .mname then .error .err else
      let name := stripQuotes t2.buf
      let p := { p with mfNameLen := name.length }
      let t3 := omLex t2.st t2.rest
      if t3.tok != .text then .error .err else
      let text := if t3.buf.length > 1 then inner t3.buf else []
      let p := { p with lst := t3.st, rest := t3.rest }
      if t.tok == .type then
        if !omTypes.contains text then .error .err else
        .ok (some (.typ name text, { p with mtype := text }))
      else if t.tok == .help then
        if !utf8Valid text then .error .err else
        .ok (some (.help name (if hasBackslash text then unescQuoted text else text), p))
      else
        -- `p.unit` is assigned before the suffix check
        if !text.isEmpty && !(hasSuffix name text && name.length ≥ text.length + 1 &&
            name.getD (name.length - text.length - 1) 0 == 95) then .error .err
        else .ok (some (.unit name text, { p with unit := text }))
    | .braceOpen =>
      let t1 := omLex t.st t.rest
      match oParseLVals false (t.rest.length + 2) t1 t.buf.length (t.buf ++ t1.buf) none [] with
      | .error e => .error e
      | .ok lv =>
        match lv.name with
        | none => .error .err
        | some name =>
          let tv := omLex lv.st lv.rest
          match oParseEOL p.ignoreEx (lv.consumed ++ tv.buf) tv with
          | .error e => .error e
          | .ok e =>
            match oFinishSeries p start lv.consumed name lv.offs e with
            | (none, p') => oNextEntry fuel p'
            | (some en, p') => .ok (some (en, p'))
    | .mname =>
      let name := (0, t.buf.length)
      let t2 := omLex t.st t.rest
      if t2.tok == .braceOpen then
        let t3 := omLex t2.st t2.rest
        match oParseLVals false (t2.rest.length + 2) t3 (t.buf ++ t2.buf).length (t.buf ++ t2.buf ++ t3.buf) (some name) [] with
        | .error e => .error e
        | .ok lv =>
          let tv := omLex lv.st lv.rest
          match oParseEOL p.ignoreEx (lv.consumed ++ tv.buf) tv with
          | .error e => .error e
          | .ok e =>
            match oFinishSeries p start lv.consumed name lv.offs e with
            | (none, p') => oNextEntry fuel p'
            | (some en, p') => .ok (some (en, p'))
      else
        match oParseEOL p.ignoreEx (t.buf ++ t2.buf) t2 with
        | .error e => .error e
        | .ok e =>
          match oFinishSeries p start t.buf name [] e with
          | (none, p') => oNextEntry fuel p'
          | (some en, p') => .ok (some (en, p'))
    | _ => .error .err

/-! ### StartTimestamp -/

/-- the byte string hashed by `seriesHash` (label names and values except le/quantile, then the family name) -/
def seriesKey (mtype : Bytes) (line : Bytes) (offs : List OffLbl) (mfName : Bytes) : Bytes :=
  (offs.flatMap fun o =>
    let l := slice line o.a o.b
    if (mtype == kwSummary && l == kwQuantile) || (mtype == kwHistogram && l == kwLe) then []
    else l ++ slice line o.c o.d) ++ mfName

/-- What a `Next` that fails (or not) on a `# HELP/TYPE/UNIT` line leaves behind in the fields that
    `StartTimestamp` does not restore: `p.mfNameLen` is assigned after the name token, `p.unit` after the text
    token of a UNIT line (before the suffix check). -/
def metaClobber (q : OP) : Nat × Bytes :=
  let t := omLex q.lst q.rest
  if t.tok == .help || t.tok == .type || t.tok == .unit then
    let t2 := omLex t.st t.rest
    if t2.tok != .mname then (q.mfNameLen, q.unit) else
    let len := (stripQuotes t2.buf).length
    let t3 := omLex t2.st t2.rest
    if t3.tok != .text then (len, q.unit) else
    let text := if t3.buf.length > 1 then inner t3.buf else []
    if t.tok == .unit then (len, text) else (len, q.unit)
  else (q.mfNameLen, q.unit)

/-- the peek loop of `StartTimestamp`: `some st` = created line found; plus the `mfNameLen` and `unit` the
    peeking leaves in the parser (they are not restored afterwards) -/
def oPeek : Nat → OP → Bytes → Except PErr (Option Int × Nat × Bytes)
  | 0, q, _ => .ok (none, q.mfNameLen, q.unit)
  | fuel + 1, q, key =>
    match oNextEntry (q.rest.length + 2) q with
    | .error .hang => .error .hang
    | .error .panic => .error .panic
    | .error .err => .ok (none, metaClobber q)
    | .ok none => .ok (none, q.mfNameLen, q.unit)          -- io.EOF is an error for the loop as well
    | .ok (some (.series _, q')) =>
      let peeked := slice q'.line q'.nameOff.1 q'.nameOff.2
      if !hasSuffix peeked kwCreated then oPeek fuel q' key
      else
        let k := seriesKey q'.mtype q'.line q'.offs (peeked.take (peeked.length - 8))
        if k != key then .ok (none, q'.mfNameLen, q'.unit) else .ok (some (mul1000ToInt q'.val), q'.mfNameLen, q'.unit)
    | .ok (some (_, q')) => .ok (none, q'.mfNameLen, q'.unit)

/-- `OpenMetricsParser.StartTimestamp()` for the series just returned by `Next`. -/
def oStartTimestamp (p : OP) : Except PErr (Int × OP) :=
  if !typeRequiresST p.mtype then .ok (0, { p with stKey := none }) else
  let series := p.line.take p.seriesLen
  let (lo, hi) : Nat × Nat :=
    if p.seriesLen > 1 && series.head? == some 123 && series.getD 1 0 == 34 then (p.nameOff.1, p.mfNameLen + 2)
    else (p.nameOff.1, p.mfNameLen)
  -- p.series[lo:hi] with cap(p.series) = len(b) - p.start
  if hi > p.line.length ∨ lo > hi then .error .panic else
  let currName := slice p.line lo hi
  let key := seriesKey p.mtype p.line p.offs currName
  if p.stKey == some key && p.stVal > 0 then .ok (p.stVal, p) else
  match oPeek (p.rest.length + 2) { p with skipST := false, ignoreEx := true } key with
  | .error e => .error e
  | .ok (none, len, unit) => .ok (0, { p with stKey := none, skipST := true, mfNameLen := len, unit := unit })
  | .ok (some st, len, unit) => .ok (st, { p with stVal := st, stKey := some key, skipST := true, mfNameLen := len, unit := unit })

def OEntry.toEntry (st : Int) : OEntry → Entry
  | .typ n t => .typ n t
  | .help n t => .help n t
  | .unit n u => .unit n u
  | .series s => .series s.raw s.lbls s.val s.ts s.ex st

/-- drive the parser the way the scrape loop does: Next; for a series Series, Labels, StartTimestamp (if
    `callST`), Exemplar. -/
def oRun (callST : Bool) : Nat → OP → List Entry → List Entry × Fin
  | 0, _, acc => (acc.reverse, .fuel)
  | fuel + 1, p, acc =>
    match oNextEntry (p.rest.length + 2) p with
    | .error e => (acc.reverse, e.fin)
    | .ok none => (acc.reverse, .eof)
    | .ok (some (e, p')) =>
      match e with
      | .series _ =>
        if callST then
          match oStartTimestamp p' with
          | .error er => (acc.reverse, er.fin)
          | .ok (st, p'') => oRun callST fuel p'' (e.toEntry st :: acc)
        else oRun callST fuel p' (e.toEntry 0 :: acc)
      | _ => oRun callST fuel p' (e.toEntry 0 :: acc)

def parseOM (tu skip callST : Bool) (b : Bytes) : List Entry × Fin :=
  oRun callST (b.length + 3) { rest := b, tu := tu, skipST := skip } []

end Prom.Expo
