/-
  Model of `model/relabel/relabel.go` (property C38), core Lean only.

  Self-contained: it carries its own minimal label / `labels.Builder` model (namespace
  `Prom.Relabel`); the coordinator unifies it with `PromModel/Labels/LabelSet.lean` (C39) later.

  Strings are Lean `String`s, i.e. valid UTF-8 (Prometheus label names/values must be valid UTF-8;
  the generator stays inside).  Go's `<` on strings is byte-wise; `strLt` implements exactly that
  on the UTF-8 bytes.

  Transcribed from the Go code (including quirks):
  * `Builder.Set` with an empty value is `Del`; `Del` never shrinks `del`, `Set` never removes from
    `del`; `Get` looks at `add` first, then `del`, then the base.
  * `Builder.Range` snapshots `add`/`del` first, visits base labels in name order (minus deleted /
    overridden ones), then the added labels in insertion order.
  * `labelmap` does **not** validate the produced label name (it can even be empty).
  * the `replace` fast path is taken only when the regex is *pointer-equal* to
    `DefaultRelabelConfig.Regex` (`Regex.isDefault`), not when it merely has the text `(.*)`.
-/
namespace Prom.Relabel

/-! ## Byte-wise string order (Go `<` on strings) -/

def bytesLt : List UInt8 → List UInt8 → Bool
  | [], [] => false
  | [], _ :: _ => true
  | _ :: _, [] => false
  | a :: as, b :: bs => if a < b then true else if b < a then false else bytesLt as bs

def strBytes (s : String) : List UInt8 := s.toUTF8.data.toList

/-- Go `a < b` on strings. -/
def strLt (a b : String) : Bool := bytesLt (strBytes a) (strBytes b)

/-! ## Labels and `labels.Builder` -/

structure Label where
  name : String
  value : String
  deriving DecidableEq, Repr, Inhabited

def insertLabel (l : Label) : List Label → List Label
  | [] => [l]
  | x :: xs => if strLt l.name x.name then l :: x :: xs else x :: insertLabel l xs

/-- Sort by name (insertion sort; names are distinct wherever the code relies on the order). -/
def sortLabels (ls : List Label) : List Label := ls.foldr insertLabel []

structure Builder where
  base : List Label
  del : List String
  add : List Label
  deriving Repr

def hasName (ls : List Label) (n : String) : Bool := ls.any (fun a => a.name == n)

/-- `labels.NewBuilder(base)` / `Reset`: empty-valued base labels are recorded as deleted. -/
def Builder.new (base : List Label) : Builder :=
  { base := base, del := (base.filter (fun l => l.value == "")).map (·.name), add := [] }

/-- `Builder.Del(n)`. (The Go loop removes while ranging; with distinct names in `add`, which
    `Set` maintains, that is a filter.) -/
def Builder.delete (b : Builder) (n : String) : Builder :=
  { b with add := b.add.filter (fun a => !(a.name == n)), del := b.del ++ [n] }

/-- `Builder.Set(n, v)`. -/
def Builder.set (b : Builder) (n v : String) : Builder :=
  if v == "" then b.delete n
  else if hasName b.add n then
    { b with add := b.add.map (fun a => if a.name == n then { a with value := v } else a) }
  else { b with add := b.add ++ [⟨n, v⟩] }

def baseGet (base : List Label) (n : String) : String :=
  match base.find? (fun l => l.name == n) with
  | some l => l.value
  | none => ""

/-- `Builder.Get(n)`. -/
def Builder.get (b : Builder) (n : String) : String :=
  match b.add.find? (fun a => a.name == n) with
  | some a => a.value
  | none => if b.del.contains n then "" else baseGet b.base n

/-- The sequence of labels `Builder.Range` visits (a snapshot: computed before any callback). -/
def Builder.range (b : Builder) : List Label :=
  b.base.filter (fun l => !(b.del.contains l.name) && !(hasName b.add l.name)) ++ b.add

/-- `Builder.Labels()`. -/
def Builder.labels (b : Builder) : List Label :=
  if b.del.isEmpty && b.add.isEmpty then b.base else sortLabels b.range

/-! ## Regular expressions: the generated class, leftmost-first with captures -/

inductive Re where
  | empty
  | chr (c : Char)
  | any
  | cls (neg : Bool) (items : List (Char × Char))
  | cat (a b : Re)
  | alt (a b : Re)
  | group (idx : Nat) (r : Re)
  | star (r : Re) (greedy : Bool)
  | plus (r : Re) (greedy : Bool)
  | opt (r : Re) (greedy : Bool)
  deriving Repr, Inhabited

abbrev Caps := List (Option (Nat × Nat))
/-- continuation: remaining input, position (in runes), captures -/
abbrev Kont := List Char → Nat → Caps → Option Caps

def orElse (a : Option Caps) (b : Unit → Option Caps) : Option Caps :=
  match a with
  | some x => some x
  | none => b ()

/-- Second and later iterations of a `*`/`+` loop: an iteration that consumes nothing dies
    (in Go's program the thread re-enters an already visited `(pc, pos)` state). -/
def loopRe (body : List Char → Nat → Caps → Kont → Option Caps) (greedy : Bool) (k : Kont) :
    Nat → List Char → Nat → Caps → Option Caps
  | 0, _, _, _ => none
  | fuel + 1, inp, p, c =>
    if greedy then
      orElse (body inp p c (fun inp' p' c' => if p' == p then none else loopRe body greedy k fuel inp' p' c'))
        (fun _ => k inp p c)
    else
      orElse (k inp p c)
        (fun _ => body inp p c (fun inp' p' c' => if p' == p then none else loopRe body greedy k fuel inp' p' c'))

def clsMatch (neg : Bool) (items : List (Char × Char)) (x : Char) : Bool :=
  (items.any fun (lo, hi) => lo ≤ x && x ≤ hi) != neg

/-- Backtracking matcher in continuation-passing style; alternatives are tried in Go's priority
    order (leftmost-first), so the first success is the match Go reports.
    `x*` with a body that matched empty in its *first* iteration exits the loop (Go compiles a
    nullable `x*` as `(x+)?`), later empty iterations die. Captures of earlier iterations persist. -/
def matchRe : Re → List Char → Nat → Caps → Kont → Option Caps
  | .empty, inp, p, c, k => k inp p c
  | .chr ch, inp, p, c, k =>
    match inp with
    | x :: rest => if x == ch then k rest (p + 1) c else none
    | [] => none
  | .any, inp, p, c, k =>
    match inp with
    | _ :: rest => k rest (p + 1) c
    | [] => none
  | .cls neg items, inp, p, c, k =>
    match inp with
    | x :: rest => if clsMatch neg items x then k rest (p + 1) c else none
    | [] => none
  | .cat a b, inp, p, c, k => matchRe a inp p c (fun inp' p' c' => matchRe b inp' p' c' k)
  | .alt a b, inp, p, c, k => orElse (matchRe a inp p c k) (fun _ => matchRe b inp p c k)
  | .group i r, inp, p, c, k => matchRe r inp p c (fun inp' p' c' => k inp' p' (c'.set i (some (p, p'))))
  | .opt r g, inp, p, c, k =>
    if g then orElse (matchRe r inp p c k) (fun _ => k inp p c)
    else orElse (k inp p c) (fun _ => matchRe r inp p c k)
  | .star r g, inp, p, c, k =>
    if g then
      orElse (matchRe r inp p c (fun inp' p' c' =>
          if p' == p then k inp' p' c' else loopRe (matchRe r) g k (inp'.length + 1) inp' p' c'))
        (fun _ => k inp p c)
    else
      orElse (k inp p c) (fun _ => matchRe r inp p c (fun inp' p' c' =>
          if p' == p then k inp' p' c' else loopRe (matchRe r) g k (inp'.length + 1) inp' p' c'))
  | .plus r g, inp, p, c, k =>
    matchRe r inp p c (fun inp' p' c' =>
      if p' == p then k inp' p' c' else loopRe (matchRe r) g k (inp'.length + 1) inp' p' c')

/-- A compiled regex of the class: AST, number of capture groups, `SubexpNames()` (index 0 = ""). -/
structure CRegex where
  re : Re
  ngroups : Nat
  names : List String
  deriving Repr, Inhabited

/-- `FindStringSubmatch` of `^(?s:re)$`: `none` = no match, else the submatches (index 0 = whole
    match, unmatched groups = ""). -/
def CRegex.run (r : CRegex) (s : String) : Option (List String) :=
  let inp := s.toList
  match matchRe r.re inp 0 (List.replicate (r.ngroups + 1) none)
      (fun rest p c => if rest.isEmpty then some (c.set 0 (some (0, p))) else none) with
  | none => none
  | some caps => some (caps.map fun
      | none => ""
      | some (a, b) => String.ofList ((inp.drop a).take (b - a)))

/-! ### Parser for the pattern class

  literals, `\`-escaped punctuation, `\w` `\d`, `.`, `[...]`/`[^...]` with single characters and
  ranges, `|`, `( )`, `(?: )`, `(?P<name> )`, `?` `*` `+` and their lazy forms. -/

structure PSt where
  n : Nat := 0
  names : List String := [""]

def isWordChar (c : Char) : Bool := c.isAlphanum || c == '_'

def wordItems : List (Char × Char) := [('0', '9'), ('A', 'Z'), ('_', '_'), ('a', 'z')]

def isSpecial (c : Char) : Bool := "\\.+*?()|[]{}^$".toList.contains c

def mkCat (a b : Re) : Re :=
  match b with
  | .empty => a
  | _ => .cat a b

/-- class items up to the closing bracket -/
def pClassItems : Nat → List Char → List (Char × Char) → Option (List (Char × Char) × List Char)
  | 0, _, _ => none
  | _ + 1, [], _ => none
  | _ + 1, ']' :: cs, acc => if acc.isEmpty then none else some (acc.reverse, cs)
  | f + 1, '\\' :: c :: cs, acc =>
    if c == 'w' then pClassItems f cs (wordItems.reverse ++ acc)
    else if c == 'd' then pClassItems f cs (('0', '9') :: acc)
    else if isSpecial c || c == '-' then pClassItems f cs ((c, c) :: acc) else none
  | f + 1, lo :: '-' :: hi :: cs, acc =>
    if hi == ']' then pClassItems f ('-' :: hi :: cs) ((lo, lo) :: acc)
    else if lo == '[' || lo == '\\' || hi == '\\' || hi == '[' then none
    else if lo ≤ hi then pClassItems f cs ((lo, hi) :: acc) else none
  | f + 1, c :: cs, acc =>
    if c == '[' || c == '\\' then none else pClassItems f cs ((c, c) :: acc)

def pQuant (a : Re) (cs : List Char) : Re × List Char :=
  match cs with
  | '*' :: '?' :: cs => (.star a false, cs)
  | '*' :: cs => (.star a true, cs)
  | '+' :: '?' :: cs => (.plus a false, cs)
  | '+' :: cs => (.plus a true, cs)
  | '?' :: '?' :: cs => (.opt a false, cs)
  | '?' :: cs => (.opt a true, cs)
  | _ => (a, cs)

mutual
def pAlt : Nat → List Char → PSt → Option (Re × List Char × PSt)
  | 0, _, _ => none
  | f + 1, cs, st =>
    match pCat f cs st with
    | none => none
    | some (a, cs, st) =>
      match cs with
      | '|' :: cs' =>
        match pAlt f cs' st with
        | none => none
        | some (b, cs, st) => some (.alt a b, cs, st)
      | _ => some (a, cs, st)
def pCat : Nat → List Char → PSt → Option (Re × List Char × PSt)
  | 0, _, _ => none
  | f + 1, cs, st =>
    match cs with
    | [] => some (.empty, [], st)
    | '|' :: _ => some (.empty, cs, st)
    | ')' :: _ => some (.empty, cs, st)
    | _ =>
      match pAtom f cs st with
      | none => none
      | some (a, cs, st) =>
        let (a, cs) := pQuant a cs
        match cs with
        | '*' :: _ => none
        | '+' :: _ => none
        | '?' :: _ => none
        | _ =>
          match pCat f cs st with
          | none => none
          | some (b, cs, st) => some (mkCat a b, cs, st)
def pAtom : Nat → List Char → PSt → Option (Re × List Char × PSt)
  | 0, _, _ => none
  | f + 1, cs, st =>
    match cs with
    | '(' :: '?' :: ':' :: cs =>
      match pAlt f cs st with
      | some (r, ')' :: cs, st) => some (r, cs, st)
      | _ => none
    | '(' :: '?' :: 'P' :: '<' :: cs =>
      let name := cs.takeWhile isWordChar
      match cs.dropWhile isWordChar with
      | '>' :: cs =>
        if name.isEmpty then none else
        let idx := st.n + 1
        match pAlt f cs { n := idx, names := st.names ++ [String.ofList name] } with
        | some (r, ')' :: cs, st) => some (.group idx r, cs, st)
        | _ => none
      | _ => none
    | '(' :: '?' :: _ => none
    | '(' :: cs =>
      let idx := st.n + 1
      match pAlt f cs { n := idx, names := st.names ++ [""] } with
      | some (r, ')' :: cs, st) => some (.group idx r, cs, st)
      | _ => none
    | '[' :: '^' :: cs =>
      match pClassItems f cs [] with
      | some (items, cs) => some (.cls true items, cs, st)
      | none => none
    | '[' :: cs =>
      match pClassItems f cs [] with
      | some (items, cs) => some (.cls false items, cs, st)
      | none => none
    | '.' :: cs => some (.any, cs, st)
    | '\\' :: c :: cs =>
      if c == 'w' then some (.cls false wordItems, cs, st)
      else if c == 'd' then some (.cls false [('0', '9')], cs, st)
      else if isSpecial c then some (.chr c, cs, st) else none
    | c :: cs => if isSpecial c then none else some (.chr c, cs, st)
    | [] => none
end

/-- can match the empty string -/
def Re.nullable : Re → Bool
  | .empty => true
  | .chr _ => false
  | .any => false
  | .cls _ _ => false
  | .cat a b => a.nullable && b.nullable
  | .alt a b => a.nullable || b.nullable
  | .group _ r => r.nullable
  | .star _ _ => true
  | .plus r _ => r.nullable
  | .opt _ _ => true

/-- Class restriction: the body of every `*`/`+` loop consumes at least one character.
    (With a nullable loop body Go's result depends on which program state of an *inner* loop is
    re-entered at the same position, i.e. on the compiled program, not on the syntax tree alone:
    `(o[a-z]?|.*?)*` on "rac" captures "rac", a tree-level backtracker captures "c".) -/
def Re.loopsOk : Re → Bool
  | .cat a b => a.loopsOk && b.loopsOk
  | .alt a b => a.loopsOk && b.loopsOk
  | .group _ r => r.loopsOk
  | .star r _ => !r.nullable && r.loopsOk
  | .plus r _ => !r.nullable && r.loopsOk
  | .opt r _ => r.loopsOk
  | _ => true

/-- Parse a pattern of the class; `none` = outside the class (or not a valid regex). -/
def compile? (pat : String) : Option CRegex :=
  let cs := pat.toList
  match pAlt (2 * cs.length + 4) cs {} with
  | some (r, [], st) => if r.loopsOk then some { re := r, ngroups := st.n, names := st.names } else none
  | _ => none

/-! ## Template expansion (`regexp.Expand`) -/

/-- `extract`: the name after a `$` (`name` or `{name}`) and the rest. Letters/digits are ASCII
    here (Go: Unicode letters/digits; the generator keeps templates inside ASCII + symbols). -/
def extract (t : List Char) : Option (List Char × List Char) :=
  match t with
  | [] => none
  | '{' :: t' =>
    let name := t'.takeWhile isWordChar
    if name.isEmpty then none else
    match t'.dropWhile isWordChar with
    | '}' :: r => some (name, r)
    | _ => none
  | _ =>
    let name := t.takeWhile isWordChar
    if name.isEmpty then none else some (name, t.dropWhile isWordChar)

/-- The number a name denotes, as Go parses it (`none` = treat as a group name): only digits, no
    leading zero unless it is "0", and the running value must stay below 10^8 before each digit. -/
def nameNum (name : List Char) : Option Nat :=
  if name.length > 1 && name.head? == some '0' then none else
  name.foldl (fun acc ch =>
    match acc with
    | none => none
    | some n => if !ch.isDigit || n ≥ 100000000 then none else some (n * 10 + (ch.toNat - 48))) (some 0)

def groupValue (names : List String) (caps : List String) (name : List Char) : List Char :=
  match nameNum name with
  | some n => (caps.getD n "").toList
  | none =>
    match (names.zip caps).find? (fun nc => nc.1 == String.ofList name) with
    | some nc => nc.2.toList
    | none => []

def expandAux (names : List String) (caps : List String) : Nat → List Char → List Char
  | 0, t => t
  | _ + 1, [] => []
  | f + 1, c :: t =>
    if c != '$' then c :: expandAux names caps f t
    else match t with
      | '$' :: t' => '$' :: expandAux names caps f t'
      | _ =>
        match extract t with
        | none => '$' :: expandAux names caps f t
        | some (name, rest) => groupValue names caps name ++ expandAux names caps f rest

/-- `re.ExpandString(nil, template, src, match)` given the submatch strings. -/
def expand (names : List String) (caps : List String) (template : String) : String :=
  String.ofList (expandAux names caps template.length template.toList)

/-- `varInRegexTemplate` -/
def hasVar (t : String) : Bool := t.toList.contains '$'

/-! ## MD5 (executable only; no theorems) -/

def md5S : Array UInt32 := #[
  7, 12, 17, 22, 7, 12, 17, 22, 7, 12, 17, 22, 7, 12, 17, 22,
  5, 9, 14, 20, 5, 9, 14, 20, 5, 9, 14, 20, 5, 9, 14, 20,
  4, 11, 16, 23, 4, 11, 16, 23, 4, 11, 16, 23, 4, 11, 16, 23,
  6, 10, 15, 21, 6, 10, 15, 21, 6, 10, 15, 21, 6, 10, 15, 21]

def md5K : Array UInt32 := #[
  0xd76aa478, 0xe8c7b756, 0x242070db, 0xc1bdceee, 0xf57c0faf, 0x4787c62a, 0xa8304613, 0xfd469501,
  0x698098d8, 0x8b44f7af, 0xffff5bb1, 0x895cd7be, 0x6b901122, 0xfd987193, 0xa679438e, 0x49b40821,
  0xf61e2562, 0xc040b340, 0x265e5a51, 0xe9b6c7aa, 0xd62f105d, 0x02441453, 0xd8a1e681, 0xe7d3fbc8,
  0x21e1cde6, 0xc33707d6, 0xf4d50d87, 0x455a14ed, 0xa9e3e905, 0xfcefa3f8, 0x676f02d9, 0x8d2a4c8a,
  0xfffa3942, 0x8771f681, 0x6d9d6122, 0xfde5380c, 0xa4beea44, 0x4bdecfa9, 0xf6bb4b60, 0xbebfbc70,
  0x289b7ec6, 0xeaa127fa, 0xd4ef3085, 0x04881d05, 0xd9d4d039, 0xe6db99e5, 0x1fa27cf8, 0xc4ac5665,
  0xf4292244, 0x432aff97, 0xab9423a7, 0xfc93a039, 0x655b59c3, 0x8f0ccc92, 0xffeff47d, 0x85845dd1,
  0x6fa87e4f, 0xfe2ce6e0, 0xa3014314, 0x4e0811a1, 0xf7537e82, 0xbd3af235, 0x2ad7d2bb, 0xeb86d391]

def rotl32 (x : UInt32) (n : UInt32) : UInt32 := (x <<< n) ||| (x >>> (32 - n))

structure Md5St where
  a : UInt32
  b : UInt32
  c : UInt32
  d : UInt32

def md5Block (st : Md5St) (m : Array UInt32) : Md5St :=
  let r := (List.range 64).foldl (fun (s : Md5St) i =>
    let (f, g) :=
      if i < 16 then ((s.b &&& s.c) ||| (~~~s.b &&& s.d), i)
      else if i < 32 then ((s.d &&& s.b) ||| (~~~s.d &&& s.c), (5 * i + 1) % 16)
      else if i < 48 then (s.b ^^^ s.c ^^^ s.d, (3 * i + 5) % 16)
      else (s.c ^^^ (s.b ||| ~~~s.d), (7 * i) % 16)
    let f2 := f + s.a + md5K[i]! + m[g]!
    { a := s.d, b := s.b + rotl32 f2 md5S[i]!, c := s.b, d := s.c }) st
  { a := st.a + r.a, b := st.b + r.b, c := st.c + r.c, d := st.d + r.d }

def le32 (b0 b1 b2 b3 : UInt8) : UInt32 :=
  b0.toUInt32 ||| (b1.toUInt32 <<< 8) ||| (b2.toUInt32 <<< 16) ||| (b3.toUInt32 <<< 24)

def wordsOf : List UInt8 → List UInt32
  | b0 :: b1 :: b2 :: b3 :: rest => le32 b0 b1 b2 b3 :: wordsOf rest
  | _ => []

def chunks16 : Nat → List UInt32 → List (Array UInt32)
  | 0, _ => []
  | f + 1, ws => if ws.length < 16 then [] else (ws.take 16).toArray :: chunks16 f (ws.drop 16)

def md5Pad (msg : List UInt8) : List UInt8 :=
  let n := msg.length
  let zeros := (55 + 64 - n % 64) % 64
  let bits := n * 8
  msg ++ [(0x80 : UInt8)] ++ List.replicate zeros (0 : UInt8) ++ (List.range 8).map (fun i => UInt8.ofNat ((bits >>> (8 * i)) % 256))

def md5State (msg : List UInt8) : Md5St :=
  let ws := wordsOf (md5Pad msg)
  (chunks16 (ws.length + 1) ws).foldl md5Block ⟨0x67452301, 0xefcdab89, 0x98badcfe, 0x10325476⟩

def bswap32 (x : UInt32) : Nat :=
  let n := x.toNat
  (n % 256) * 16777216 + (n / 256 % 256) * 65536 + (n / 65536 % 256) * 256 + (n / 16777216 % 256)

/-- `binary.BigEndian.Uint64(md5.Sum(val)[8:])` -/
def md5Last8 (s : String) : Nat :=
  let st := md5State (strBytes s)
  bswap32 st.c * 4294967296 + bswap32 st.d

def md5Hex (s : String) : String :=
  let st := md5State (strBytes s)
  let h (x : UInt32) : String :=
    let n := bswap32 x
    String.ofList ((List.range 8).map fun i =>
      let d := (n >>> (4 * (7 - i))) % 16
      if d < 10 then Char.ofNat (48 + d) else Char.ofNat (87 + d))
  h st.a ++ h st.b ++ h st.c ++ h st.d

/-! ## Case mapping and name validation -/

/-- `unicode.ToLower` on ASCII and Latin-1 (the generator's alphabet); identity elsewhere. -/
def lowerChar (c : Char) : Char :=
  let n := c.toNat
  if 65 ≤ n && n ≤ 90 then Char.ofNat (n + 32)
  else if 0xC0 ≤ n && n ≤ 0xDE && n != 0xD7 then Char.ofNat (n + 32)
  else c

def upperChar (c : Char) : Char :=
  let n := c.toNat
  if 97 ≤ n && n ≤ 122 then Char.ofNat (n - 32)
  else if 0xE0 ≤ n && n ≤ 0xFE && n != 0xF7 then Char.ofNat (n - 32)
  else c

def toLower (s : String) : String := String.ofList (s.toList.map lowerChar)
def toUpper (s : String) : String := String.ofList (s.toList.map upperChar)

def isLegacyFirst (c : Char) : Bool :=
  ('a' ≤ c && c ≤ 'z') || ('A' ≤ c && c ≤ 'Z') || c == '_'
def isLegacyRest (c : Char) : Bool := isLegacyFirst c || ('0' ≤ c && c ≤ '9')

/-- `model.LegacyValidation.IsValidLabelName` -/
def legacyValid (s : String) : Bool :=
  match s.toList with
  | [] => false
  | c :: cs => isLegacyFirst c && cs.all isLegacyRest

/-- `scheme.IsValidLabelName`: `utf8 = true` ↦ non-empty (a Lean `String` is valid UTF-8). -/
def validName (utf8 : Bool) (s : String) : Bool :=
  if utf8 then !s.isEmpty else legacyValid s

/-- `relabelTargetLegacy = ^(?:(?:[a-zA-Z_]|\$(?:\{\w+\}|\w+))+\w*)+$`, i.e. a non-empty sequence of
    items `[a-zA-Z_]`, `$\w+`, `${\w+}`, `\w` whose first item is not a bare digit. -/
def legacyTargetRest : Nat → List Char → Bool
  | 0, _ => false
  | _ + 1, [] => true
  | f + 1, '$' :: '{' :: cs =>
    let name := cs.takeWhile isLegacyRest
    !name.isEmpty && (match cs.dropWhile isLegacyRest with
      | '}' :: r => legacyTargetRest f r
      | _ => false)
  | f + 1, '$' :: c :: cs => isLegacyRest c && legacyTargetRest f cs
  | f + 1, c :: cs => isLegacyRest c && legacyTargetRest f cs

def legacyTargetOk (s : String) : Bool :=
  match s.toList with
  | [] => false
  | c :: cs => (isLegacyFirst c || c == '$') && legacyTargetRest (cs.length + 2) (c :: cs)

/-! ## Configs, `Validate`, `relabel`, `ProcessBuilder` -/

inductive Action where
  | replace | keep | drop | keepequal | dropequal | hashmod
  | labelmap | labeldrop | labelkeep | lowercase | uppercase
  deriving DecidableEq, Repr, Inhabited

/-- The regex of a rule as the model sees it: its anchored submatch function, its group names and
    whether it *is* `DefaultRelabelConfig.Regex` (pointer equality in Go). -/
structure Regex where
  run : String → Option (List String)
  names : List String
  isDefault : Bool

structure Config where
  action : Action
  sourceLabels : List String
  /-- `SourceLabels == nil` (only `Validate` of labeldrop/labelkeep looks at it) -/
  sourceNil : Bool := false
  separator : String
  regex : Regex
  modulus : Nat
  targetLabel : String
  replacement : String
  utf8 : Bool

/-- `Config.Validate` (for a config whose action is one of the 11 and whose scheme is set). -/
def Config.validate (c : Config) : Bool :=
  let a := c.action
  let eqAct := a == .lowercase || a == .uppercase || a == .keepequal || a == .dropequal
  let okVar (v : String) : Bool := if c.utf8 then validName true v else legacyTargetOk v
  !(c.modulus == 0 && a == .hashmod)
  && !((a == .replace || a == .hashmod || eqAct) && c.targetLabel == "")
  && !(a == .replace && !hasVar c.targetLabel && !validName c.utf8 c.targetLabel)
  && !(a == .replace && hasVar c.targetLabel && !okVar c.targetLabel)
  && !(eqAct && !validName c.utf8 c.targetLabel)
  && !(eqAct && c.replacement != "$1")
  && !(a == .labelmap && !okVar c.replacement)
  && !(a == .hashmod && !validName c.utf8 c.targetLabel)
  && !((a == .dropequal || a == .keepequal) &&
        (!c.regex.isDefault || c.modulus != 0 || c.separator != ";" || c.replacement != "$1"))
  && !((a == .labeldrop || a == .labelkeep) &&
        (!c.sourceNil || c.targetLabel != "" || c.modulus != 0 || c.separator != ";" || c.replacement != "$1"))

/-- The source label values joined with the separator. -/
def joinVals (c : Config) (b : Builder) : String :=
  c.separator.intercalate (c.sourceLabels.map b.get)

/-- The general path of `replace`. -/
def replaceGeneral (c : Config) (b : Builder) (val : String) : Builder :=
  match c.regex.run val with
  | none => b
  | some caps =>
    let target := expand c.regex.names caps c.targetLabel
    if !validName c.utf8 target then b
    else
      let res := expand c.regex.names caps c.replacement
      if res == "" then b.delete target else b.set target res

/-- Condition of the `replace` fast path. -/
def fastPath (c : Config) (val : String) : Bool :=
  val == "" && c.regex.isDefault && !hasVar c.targetLabel && !hasVar c.replacement

def replaceStep (c : Config) (b : Builder) (val : String) : Builder :=
  if fastPath c val then b.set c.targetLabel c.replacement else replaceGeneral c b val

def labelMapStep (c : Config) (acc : Builder) (l : Label) : Builder :=
  match c.regex.run l.name with
  | some caps => acc.set (expand c.regex.names caps c.replacement) l.value
  | none => acc

def labelDropStep (c : Config) (acc : Builder) (l : Label) : Builder :=
  if (c.regex.run l.name).isSome then acc.delete l.name else acc

def labelKeepStep (c : Config) (acc : Builder) (l : Label) : Builder :=
  if (c.regex.run l.name).isSome then acc else acc.delete l.name

/-- `relabel(cfg, lb)`: (keep?, builder afterwards). -/
def relabel (c : Config) (b : Builder) : Bool × Builder :=
  let val := joinVals c b
  match c.action with
  | .drop => ((c.regex.run val).isNone, b)
  | .keep => ((c.regex.run val).isSome, b)
  | .dropequal => (b.get c.targetLabel != val, b)
  | .keepequal => (b.get c.targetLabel == val, b)
  | .replace => (true, replaceStep c b val)
  | .lowercase => (true, b.set c.targetLabel (toLower val))
  | .uppercase => (true, b.set c.targetLabel (toUpper val))
  | .hashmod => (true, b.set c.targetLabel (toString (md5Last8 val % c.modulus)))
  | .labelmap => (true, b.range.foldl (labelMapStep c) b)
  | .labeldrop => (true, b.range.foldl (labelDropStep c) b)
  | .labelkeep => (true, b.range.foldl (labelKeepStep c) b)

/-- `ProcessBuilder(lb, cfgs...)`. -/
def process : List Config → Builder → Bool × Builder
  | [], b => (true, b)
  | c :: cs, b =>
    let r := relabel c b
    if r.1 then process cs r.2 else (false, r.2)

/-- The `Regex` of a compiled pattern of the class. -/
def CRegex.toRegex (r : CRegex) (isDefault : Bool) : Regex :=
  { run := r.run, names := r.names, isDefault := isDefault }

end Prom.Relabel
