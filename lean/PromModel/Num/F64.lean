/-
  IEEE-754 binary64 ⇄ exact rationals (core Lean only; Lean `Float` is never used).

  `decode bits`     : the exact value of a bit pattern (NaN / ±Inf / finite rational; −0 ↦ 0)
  `f64ToRat bits`   : `some q` for finite doubles
  `roundBits q`     : the bit pattern of the double nearest to `q` (round-to-nearest, ties-to-even;
                      overflow ↦ ±Inf), i.e. what one correctly rounded IEEE operation returns
  `round q`         : `roundBits` read back as a rational (identity on overflow — callers keep values small)
-/
namespace Prom.F64

/-- `2^e` for an integer exponent. -/
def pow2 (e : Int) : Rat :=
  if e ≥ 0 then (((2 : Nat) ^ e.toNat : Nat) : Rat) else 1 / (((2 : Nat) ^ (-e).toNat : Nat) : Rat)

inductive Cls where
  | nan | posInf | negInf
  | fin (q : Rat)
  deriving Repr, BEq, Inhabited

def decode (bits : Nat) : Cls :=
  let sign : Nat := bits / 2 ^ 63 % 2
  let e : Nat := bits / 2 ^ 52 % 2048
  let m : Nat := bits % 2 ^ 52
  if e = 2047 then (if m ≠ 0 then .nan else if sign = 1 then .negInf else .posInf)
  else
    let mag : Rat :=
      if e = 0 then ((m : Nat) : Rat) * pow2 (-1074)
      else (((2 ^ 52 + m : Nat) : Nat) : Rat) * pow2 ((e : Int) - 1075)
    .fin (if sign = 1 then -mag else mag)

def f64ToRat (bits : Nat) : Option Rat :=
  match decode bits with
  | .fin q => some q
  | _ => none

def posInfBits : Nat := 2047 * 2 ^ 52
def negInfBits : Nat := 2 ^ 63 + 2047 * 2 ^ 52

/-- Bits of the double nearest to `q` (ties to even). -/
def roundBits (q : Rat) : Nat :=
  if q = 0 then 0 else
  let s : Nat := if q < 0 then 2 ^ 63 else 0
  let a : Rat := if q < 0 then -q else q
  let num := a.num.natAbs
  let den := a.den
  -- 2^(e0-1) < a < 2^(e0+1)
  let e0 : Int := (Nat.log2 num : Int) - (Nat.log2 den : Int)
  let e : Int := if pow2 e0 ≤ a then e0 else e0 - 1
  let qe : Int := if e - 52 < -1074 then -1074 else e - 52
  let x : Rat := a / pow2 qe
  let fl : Nat := x.floor.toNat
  let rem : Rat := x - (fl : Rat)
  let half : Rat := 1 / 2
  let m : Nat := if rem > half then fl + 1 else if rem < half then fl else if fl % 2 = 0 then fl else fl + 1
  let body : Nat := (qe + 1074).toNat * 2 ^ 52 + m
  if body ≥ 2047 * 2 ^ 52 then s + 2047 * 2 ^ 52 else s + body

/-- One correctly rounded operation result, as an exact rational. -/
def round (q : Rat) : Rat :=
  match f64ToRat (roundBits q) with
  | some r => r
  | none => q

/-- The double constant `1.1`. -/
def c11Bits : Nat := 0x3FF199999999999A

end Prom.F64
