/-
  IEEE-754 binary64 over exact rationals (core Lean only, no `Float`).

  * `f64ToRat : Nat → Option Rat` decodes the bit pattern of a *finite* double exactly.
  * `F64` is a bit pattern; `F64.add/sub/mul/div` are the correctly rounded (round-to-nearest-even)
    IEEE operations, defined as `round (exact rational result)`, with the IEEE rules for signed zeros,
    infinities and NaN.  Go on amd64 compiles `+ - * /` on float64 to single SSE2 instructions
    (no fused multiply-add, no extended precision), so these are bit-exact with the Go code; the
    `histfn` suite re-checks that on random bit patterns on every run (`fop` lines).
  * every NaN is represented by the one canonical pattern `7ff8000000000001` (`math.NaN()`); the
    harness canonicalises NaN outputs the same way.
-/
namespace Prom.F64Q

def signBit : Nat := 2 ^ 63
def expInf : Nat := 0x7FF0000000000000
def nanBits : Nat := 0x7FF8000000000001
def staleNaNBits : Nat := 0x7FF0000000000002

/-- Exact value of a finite double given by its 64-bit pattern; `none` for ±Inf and NaN. -/
def f64ToRat (bits : Nat) : Option Rat :=
  let s : Nat := bits / 2 ^ 63 % 2
  let e : Nat := bits / 2 ^ 52 % 2048
  let m : Nat := bits % 2 ^ 52
  if e = 2047 then none
  else
    let mag : Rat :=
      if e = 0 then mkRat (m : Int) (2 ^ 1074)
      else if e ≥ 1075 then (((2 ^ 52 + m) * 2 ^ (e - 1075) : Nat) : Rat)
      else mkRat ((2 ^ 52 + m : Nat) : Int) (2 ^ (1075 - e))
    some (if s = 1 then -mag else mag)

/-- `n / d` rounded to the nearest integer, ties to even (`d > 0`). -/
def rneDiv (n d : Nat) : Nat :=
  let q := n / d
  let r := n % d
  if 2 * r < d then q else if 2 * r > d then q + 1 else q + q % 2

/-- Bit pattern of the double nearest (ties-to-even) to `±a` for a rational magnitude `a ≥ 0`;
    overflows to ±Inf, underflows gradually to (signed) zero. -/
def ofMag (neg : Bool) (a : Rat) : Nat :=
  let sign := if neg then signBit else 0
  if a.num ≤ 0 then sign
  else
    let n := a.num.toNat
    let d := a.den
    let e0 : Int := (Nat.log2 n : Int) - (Nat.log2 d : Int)
    -- 2^(e0-1) < n/d < 2^(e0+1); decide whether n/d ≥ 2^e0
    let ge : Bool := if e0 ≥ 0 then decide (n ≥ d * 2 ^ e0.toNat) else decide (n * 2 ^ (-e0).toNat ≥ d)
    let e : Int := if ge then e0 else e0 - 1
    let E : Int := if e < -1022 then -1022 else e
    if E > 1023 then sign + expInf
    else
      let shift : Int := E - 52
      let M : Nat := if shift ≥ 0 then rneDiv n (d * 2 ^ shift.toNat) else rneDiv (n * 2 ^ (-shift).toNat) d
      let bits := (E + 1022).toNat * 2 ^ 52 + M
      if bits ≥ expInf then sign + expInf else sign + bits

/-- A double, as its bit pattern (always `< 2^64`; every NaN is `nanBits`, except inputs). -/
structure F64 where
  bits : Nat
  deriving DecidableEq, Repr, Inhabited

namespace F64

def isNaN (x : F64) : Bool := x.bits / 2 ^ 52 % 2048 = 2047 && x.bits % 2 ^ 52 ≠ 0
def isInf (x : F64) : Bool := x.bits % 2 ^ 63 = expInf
def neg? (x : F64) : Bool := x.bits / 2 ^ 63 % 2 = 1
def nan : F64 := ⟨nanBits⟩
def pinf : F64 := ⟨expInf⟩
def ninf : F64 := ⟨signBit + expInf⟩
def zero : F64 := ⟨0⟩
def one : F64 := ⟨0x3FF0000000000000⟩
def half : F64 := ⟨0x3FE0000000000000⟩
def maxFloat : F64 := ⟨0x7FEFFFFFFFFFFFFF⟩
def minNormal : F64 := ⟨0x0010000000000000⟩
/-- `1e-12` as Go parses it. -/
def tol : F64 := ⟨0x3D719799812DEA11⟩
def inf (neg : Bool) : F64 := if neg then ninf else pinf
def szero (neg : Bool) : F64 := if neg then ⟨signBit⟩ else ⟨0⟩

/-- Exact value of a finite double (0 for non-finite; callers test `isNaN`/`isInf` first). -/
def toRat (x : F64) : Rat := (f64ToRat x.bits).getD 0

def isZero (x : F64) : Bool := x.bits % 2 ^ 63 = 0

def ofRat (r : Rat) : F64 := ⟨ofMag (decide (r < 0)) (if r < 0 then -r else r)⟩

def negate (x : F64) : F64 :=
  if x.isNaN then nan else if x.neg? then ⟨x.bits - signBit⟩ else ⟨x.bits + signBit⟩

def abs (x : F64) : F64 := if x.isNaN then nan else ⟨x.bits % 2 ^ 63⟩

def add (x y : F64) : F64 :=
  if x.isNaN || y.isNaN then nan
  else if x.isInf then (if y.isInf && x.neg? != y.neg? then nan else x)
  else if y.isInf then y
  else
    let r := x.toRat + y.toRat
    if r = 0 then szero (x.neg? && y.neg?) else ofRat r

def sub (x y : F64) : F64 := add x (negate y)

def mul (x y : F64) : F64 :=
  if x.isNaN || y.isNaN then nan
  else
    let s := x.neg? != y.neg?
    if x.isInf || y.isInf then (if x.isZero || y.isZero then nan else inf s)
    else
      let a := x.toRat * y.toRat
      ⟨ofMag s (if a < 0 then -a else a)⟩

def div (x y : F64) : F64 :=
  if x.isNaN || y.isNaN then nan
  else
    let s := x.neg? != y.neg?
    if x.isInf then (if y.isInf then nan else inf s)
    else if y.isInf then szero s
    else if y.isZero then (if x.isZero then nan else inf s)
    else
      let a := x.toRat / y.toRat
      ⟨ofMag s (if a < 0 then -a else a)⟩

/-- Total order key of a non-NaN double: −Inf ↦ (0,_), finite ↦ (1, value), +Inf ↦ (2,_). -/
def lt (x y : F64) : Bool :=
  if x.isNaN || y.isNaN then false
  else if x.isInf then (x.neg? && !(y.isInf && y.neg?))
  else if y.isInf then !y.neg?
  else decide (x.toRat < y.toRat)

def beq (x y : F64) : Bool :=
  if x.isNaN || y.isNaN then false
  else if x.isInf || y.isInf then x.bits = y.bits
  else decide (x.toRat = y.toRat)

def le (x y : F64) : Bool := lt x y || beq x y

def min (x y : F64) : F64 :=
  -- math.Min: -Inf wins even over NaN; then NaN if either is NaN; -0 < +0
  if x.bits = ninf.bits || y.bits = ninf.bits then ninf
  else if x.isNaN || y.isNaN then nan
  else if x.isZero && y.isZero then (if x.neg? then x else y)
  else if lt x y then x else y

def isStaleNaN (x : F64) : Bool := x.bits = staleNaNBits

end F64

end Prom.F64Q
