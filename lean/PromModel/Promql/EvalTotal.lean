import PromModel.Promql.Functions
import PromModel.Promql.RangeEval
/-
  C33 — promql/engine.go `evaluator.eval`: a TYPED, TOTAL evaluator with every partial operation explicit.

  `evalT K cfg env e t : Except EvalErr Value` is the instant semantics of a PromQL tree `e` at time `t` over the
  storage content `env`.  `EvalErr = user kind | internal`: `user` are the errors raised with `ev.error/ev.errorf`
  (user-facing), `internal` stands for a Go runtime panic converted by `evaluator.recover` into
  "unexpected error: …" or one of the engine's own impossible-branch panics:

    * `panic(fmt.Errorf("unhandled expression of type: %T"))` at the end of `eval`  (nil child, mixed operand kinds of a
      binary expression that fit none of the four scalar/vector cases),
    * failed type assertions `val.(Matrix)`, `e.Param.(*parser.StringLiteral)`, `stringFromArg`, `vals[i].(Vector)`,
      `evalVals[j][0].Floats[step]`, `arg.(*parser.MatrixSelector)`,
    * `FunctionCalls[name] == nil` ("unexpected nil implementation"), argument index out of range in a function body,
    * "operator %q not allowed for Scalar operations" / "… for operations between Vectors",
      "set operations must only use many-to-many matching", "many-to-many only allowed for set operators",
      "expected aggregation operator but got …" (absent parameter of a parameterised aggregation = nil dereference).

  Value types are scalar | vector | matrix | string; `typeOf` is the parser's `checkAST` (argument counts and types from
  the function table `Prom.Promql.functionTable`, aggregation parameter types, binary operator operand / `bool` /
  matching constraints, set operators only between vectors) over this tree type; `HasType e τ := typeOf e = some τ`.

  Sample values are an ABSTRACT type `ν` (floats, native histograms, stale markers, NaN, ±Inf are all just elements of
  `ν`) and every numeric / string kernel (`vectorElemBinop`, the function bodies of promql/functions.go, aggregation
  folds, `regexp`) is a field of the law-free record `Kernel ν`.  Theorems therefore hold for ALL data and ALL
  behaviours of the kernels, including kernels that raise user errors; what is concrete in the model is the SHAPE
  machinery where the engine's type dispatch lives: node dispatch, argument evaluation and unwrapping of parentheses
  around parameters (`unwrapParenExpr`), selectors with lookback / staleness / offset / `@`, range windows,
  subqueries on the aligned grid, vector matching with its cardinality errors, grouping, duplicate-labelset checks.

  Partial by nature (DESIGN §7 C33): nil dereferences inside kernels, slice aliasing through pools and data races live in
  the Go runtime and are reachable only by the differential suite `promqltotal`.
  Deliberately stricter than the Go code (documented): an aggregation / subquery / unary minus over a MATRIX-valued
  operand is `internal` here (the Go representation would silently treat the multi-point matrix as a vector).
-/
namespace Prom.EvalTotal
open Prom.Promql (VT FuncSig functionTable)
open Prom.RangeEval (AtMod Cfg refTime multiplesIn subStep)

abbrev Labels := List (String × String)

def nameLabel : String := "__name__"

def Labels.get (l : Labels) (n : String) : String := ((l.find? fun p => p.1 == n).map (·.2)).getD ""
def Labels.del (l : Labels) (ns : List String) : Labels := l.filter fun p => !ns.contains p.1
def Labels.keep (l : Labels) (ns : List String) : Labels := l.filter fun p => ns.contains p.1
/-- `DropReserved(schema.IsMetadataLabel)` -/
def Labels.dropName (l : Labels) : Labels := l.del [nameLabel, "__type__", "__unit__"]
/-- `Builder.Set` on sorted labels (an empty value deletes). -/
def Labels.set (l : Labels) (n v : String) : Labels :=
  let l' := l.del [n]
  if v == "" then l' else (l'.filter fun p => p.1 < n) ++ [(n, v)] ++ (l'.filter fun p => !(p.1 < n))

structure Sample (ν : Type) where
  lbls : Labels
  v : ν

structure Series (ν : Type) where
  lbls : Labels
  pts : List (Int × ν)

inductive Value (ν : Type) where
  | scalar (x : ν)
  | vector (v : List (Sample ν))
  | matrix (m : List (Series ν))
  | string (s : String)

def Value.vt {ν} : Value ν → VT
  | .scalar _ => .scalar
  | .vector _ => .vector
  | .matrix _ => .matrix
  | .string _ => .string

inductive EvalErr where
  | user (kind : String)
  | internal
  deriving DecidableEq, Repr

abbrev Env (ν : Type) := List (Series ν)

/-! ### syntax -/

structure Matcher where
  name : String
  neg : Bool
  re : Bool
  val : String
  deriving Repr, DecidableEq

structure Sel where
  name : String
  ms : List Matcher
  off : Int
  atm : AtMod
  deriving Repr, DecidableEq

inductive BinOp where
  | add | sub | mul | div | mod | pow | atan2
  | eql | neq | lte | lss | gte | gtr | trimUpper | trimLower
  | land | lor | lunless
  deriving Repr, DecidableEq

def BinOp.isComparison : BinOp → Bool
  | .eql | .neq | .lte | .lss | .gte | .gtr => true
  | _ => false

def BinOp.isSet : BinOp → Bool
  | .land | .lor | .lunless => true
  | _ => false

/-- `changesMetricSchema` -/
def BinOp.changesSchema : BinOp → Bool
  | .add | .sub | .mul | .div | .mod | .pow | .atan2 => true
  | _ => false

inductive Card where
  | oneToOne | manyToOne | oneToMany | manyToMany
  deriving Repr, DecidableEq

structure VM where
  card : Card := .oneToOne
  on : Bool := false
  labels : List String := []
  incl : List String := []
  fillL : Option UInt64 := none
  fillR : Option UInt64 := none
  deriving Repr, DecidableEq

inductive AggOp where
  | sum | avg | min | max | count | group | stddev | stdvar
  | topk | bottomk | quantile | countValues | limitk | limitRatio
  deriving Repr, DecidableEq

inductive ParamKind where
  | none | scalar | string
  deriving Repr, DecidableEq

def AggOp.paramKind : AggOp → ParamKind
  | .topk | .bottomk | .quantile | .limitk | .limitRatio => .scalar
  | .countValues => .string
  | _ => .none

/-- `Expr.nil` is a Go nil child (absent aggregation parameter). -/
inductive Expr where
  | nil
  | num (bits : UInt64)
  | str (s : String)
  | sel (s : Sel)
  | msel (s : Sel) (range : Int)
  | subq (e : Expr) (range step off : Int) (atm : AtMod)
  | call (fn : String) (args : List Expr)
  | agg (op : AggOp) (without : Bool) (ls : List String) (param e : Expr)
  | bin (op : BinOp) (bool : Bool) (vm : VM) (l r : Expr)
  | neg (e : Expr)
  | paren (e : Expr)
  deriving Repr

/-- `unwrapParenExpr` -/
def stripParen : Expr → Expr
  | .paren e => stripParen e
  | e => e

/-! ### the function table and `checkAST` -/

def sigOf (fn : String) : Option FuncSig := functionTable.find? fun f => f.name == fn

def nthOrLast (xs : List VT) (i : Nat) : Option VT :=
  if i < xs.length then xs[i]? else xs.getLast?

/-- argument count against the signature (`Variadic`: 0 fixed, k > 0 up to k optional, < 0 unbounded) -/
def arityOk (sig : FuncSig) (n : Nat) : Bool :=
  let nargs := sig.args.length
  if sig.variadic == 0 then nargs == n
  else if nargs - 1 > n then false
  else if sig.variadic > 0 && nargs - 1 + sig.variadic.toNat < n then false
  else true

/-- each argument has the declared type (the last declared type repeats for variadic arguments) -/
def argTypesOk (tys : List VT) : Nat → List (Option VT) → Bool
  | _, [] => true
  | i, a :: rest => a.isSome && a == nthOrLast tys i && argTypesOk tys (i + 1) rest

/-- `checkAST` for a binary expression whose operands have types `lt`, `rt` -/
def binType (op : BinOp) (b : Bool) (vm : VM) (lt rt : VT) : Option VT :=
  if (lt != .scalar && lt != .vector) || (rt != .scalar && rt != .vector) then none
  else if b && !op.isComparison then none
  else if op.isComparison && !b && lt == .scalar && rt == .scalar then none
  else if vm.on && vm.labels.any (fun l1 => vm.incl.contains l1) then none
  else if lt == .vector && rt == .vector then
    if op.isSet then
      (if vm.card == .manyToMany && vm.fillL.isNone && vm.fillR.isNone then some .vector else none)
    else (if vm.card == .manyToMany then none else some .vector)
  else
    if op.isSet || !vm.labels.isEmpty || vm.fillL.isSome || vm.fillR.isSome || vm.card != .oneToOne then none
    else if lt == .scalar && rt == .scalar then some .scalar else some .vector

mutual
/-- `checkAST` as a type-inference function: `none` = a type error is reported. -/
def typeOf : Expr → Option VT
  | .nil => none
  | .num _ => some .scalar
  | .str _ => some .string
  | .sel _ => some .vector
  | .msel _ r => if 0 < r then some .matrix else none
  | .subq e r st _ _ => if typeOf e == some .vector && 0 < r && 0 ≤ st then some .matrix else none
  | .paren e => typeOf e
  | .neg e =>
    match typeOf e with
    | some .scalar => some .scalar
    | some .vector => some .vector
    | _ => none
  | .agg op _ _ p e =>
    if typeOf e != some .vector then none
    else match op.paramKind with
      | .none => (match p with | .nil => some .vector | _ => none)
      | .scalar => if typeOf p == some .scalar then some .vector else none
      | .string => if typeOf p == some .string then some .vector else none
  | .bin op b vm l r =>
    match typeOf l, typeOf r with
    | some lt, some rt => binType op b vm lt rt
    | _, _ => none
  | .call fn args =>
    match sigOf fn with
    | none => none
    | some sig => if arityOk sig args.length && argTypesOk sig.args 0 (typesOf args) then some sig.ret else none

def typesOf : List Expr → List (Option VT)
  | [] => []
  | a :: rest => typeOf a :: typesOf rest
end

def HasType (e : Expr) (τ : VT) : Prop := typeOf e = some τ

/-! ### kernels -/

/-- Everything the evaluator delegates: values, arithmetic, function bodies, aggregation folds, regular
    expressions.  No laws are assumed.  An `Except String` result may raise a USER error of that kind. -/
structure Kernel (ν : Type) where
  lit : UInt64 → ν
  ofTime : Int → ν
  isStale : ν → Bool
  neg : ν → ν
  reMatch : String → String → Bool
  validLabel : String → Bool
  scalarBin : BinOp → ν → ν → ν
  /-- `vectorElemBinop`: value and keep flag; `none` = incompatible operand kinds (annotation, element dropped) -/
  elemBin : BinOp → ν → ν → Except String (Option (ν × Bool))
  boolVal : Bool → ν
  scalarFn : String → List ν → Int → ν
  toScalar : List ν → ν
  instFn : String → List ν → Int → ν → Option ν
  rangeFn : String → List ν → List (Int × ν) → Int → Except String (Option ν)
  vecFn : String → List String → List ν → List (List (Sample ν)) → Int → Except String (List (Sample ν))
  aggGroup : AggOp → Option ν → List ν → Option ν
  paramK : ν → Except String Nat
  paramRatio : ν → Except String ν
  pickK : AggOp → Nat → List (Sample ν) → List (Sample ν)
  pickRatio : ν → Sample ν → Bool
  valueLabel : ν → String

section
variable {ν : Type} (K : Kernel ν)

/-- `List.mapM` / `filterMapM` / `foldlM` in `Except`, written by structural recursion -/
def mapE {α β ε} (f : α → Except ε β) : List α → Except ε (List β)
  | [] => .ok []
  | a :: as =>
    match f a with
    | .error e => .error e
    | .ok b =>
      match mapE f as with
      | .error e => .error e
      | .ok bs => .ok (b :: bs)

def filterMapE {α β ε} (f : α → Except ε (Option β)) : List α → Except ε (List β)
  | [] => .ok []
  | a :: as =>
    match f a with
    | .error e => .error e
    | .ok b =>
      match filterMapE f as with
      | .error e => .error e
      | .ok bs => .ok (match b with | some x => x :: bs | none => bs)

def foldlE {α σ ε} (f : σ → α → Except ε σ) : σ → List α → Except ε σ
  | s, [] => .ok s
  | s, a :: as =>
    match f s a with
    | .error e => .error e
    | .ok s' => foldlE f s' as

def liftU {α} : Except String α → Except EvalErr α
  | .ok a => .ok a
  | .error k => .error (.user k)

/-! ### selectors, windows -/

def Matcher.ok (m : Matcher) (l : Labels) : Bool :=
  let hit := if m.re then K.reMatch m.val (l.get m.name) else l.get m.name == m.val
  if m.neg then !hit else hit

def Sel.matches (s : Sel) (l : Labels) : Bool :=
  (s.name == "" || l.get nameLabel == s.name) && s.ms.all (fun m => Matcher.ok K m l)

def selSeries (env : Env ν) (s : Sel) : List (Series ν) := env.filter fun ser => Sel.matches K s ser.lbls

/-- `vectorSelectorSingle`: the latest sample at or before the reference time, newer than `rt − lookback`, not stale -/
def instantSample (lookback : Int) (xs : List (Int × ν)) (rt : Int) : Option (Int × ν) :=
  match (xs.filter fun p => p.1 ≤ rt).getLast? with
  | some p => if rt - lookback < p.1 && !K.isStale p.2 then some p else none
  | none => none

def selVec (cfg : Cfg) (env : Env ν) (s : Sel) (t : Int) : List (Sample ν) :=
  (selSeries K env s).filterMap fun ser =>
    (instantSample K cfg.lookback ser.pts (refTime cfg s.atm s.off t)).map fun p => ⟨ser.lbls, p.2⟩

/-- `timestamp(<vector selector>)` -/
def selVecTs (cfg : Cfg) (env : Env ν) (s : Sel) (t : Int) : List (Sample ν) :=
  (selSeries K env s).filterMap fun ser =>
    (instantSample K cfg.lookback ser.pts (refTime cfg s.atm s.off t)).map fun p => ⟨ser.lbls.dropName, K.ofTime p.1⟩

def window (xs : List (Int × ν)) (mint maxt : Int) : List (Int × ν) :=
  xs.filter fun p => mint < p.1 && p.1 ≤ maxt && !K.isStale p.2

def mselMat (cfg : Cfg) (env : Env ν) (s : Sel) (r : Int) (t : Int) : List (Series ν) :=
  let rt := refTime cfg s.atm s.off t
  (selSeries K env s).filterMap fun ser =>
    let w := window K ser.pts (rt - r) rt
    if w.isEmpty then none else some ⟨ser.lbls, w⟩

/-- `Vector.ContainsSameLabelset` -/
def hasDup : List (Sample ν) → Bool
  | [] => false
  | s :: rest => rest.any (fun x => x.lbls == s.lbls) || hasDup rest

def checkDup (out : List (Sample ν)) : Except EvalErr (List (Sample ν)) :=
  if hasDup out then .error (.user "duplicate-labelset") else .ok out

/-- The child result of a subquery as a matrix: one series per label set, points in step order. -/
def assemble (pts : List (Int × List (Sample ν))) : List (Series ν) :=
  let elems : List (Labels × (Int × ν)) := pts.flatMap fun p => p.2.map fun e => (e.lbls, (p.1, e.v))
  ((elems.map (·.1)).eraseDups).map fun k => ⟨k, (elems.filter fun x => x.1 == k).map (·.2)⟩

/-- What the engine's uniform Matrix representation does with a scalar operand: one sample without labels. -/
def asVector : Value ν → Except EvalErr (List (Sample ν))
  | .scalar x => .ok [⟨[], x⟩]
  | .vector v => .ok v
  | _ => .error .internal

/-! ### unary minus -/

def evalNeg : Value ν → Except EvalErr (Value ν)
  | .scalar x => .ok (.scalar (K.neg x))
  | .vector v => (checkDup (v.map fun s => ⟨s.lbls.dropName, K.neg s.v⟩)).map .vector
  | _ => .error .internal

/-! ### binary operators -/

def sigLabels (vm : VM) (l : Labels) : Labels :=
  if vm.on then l.keep vm.labels else l.del (nameLabel :: vm.labels)

/-- `resultMetric` -/
def resultMetric (lhs rhs : Labels) (op : BinOp) (vm : VM) (dropName : Bool) : Labels :=
  let lb := if dropName || op.changesSchema then lhs.dropName else lhs
  let lb := if vm.card == .oneToOne then (if vm.on then lb.keep vm.labels else lb.del vm.labels) else lb
  vm.incl.foldl (fun lb ln => lb.set ln (rhs.get ln)) lb

def vecScalar (op : BinOp) (b swap : Bool) (v : List (Sample ν)) (s : ν) : Except EvalErr (List (Sample ν)) := do
  let out ← filterMapE (fun (e : Sample ν) => do
    let r ← liftU (if swap then K.elemBin op s e.v else K.elemBin op e.v s)
    match r with
    | none => pure none
    | some (val, keep) =>
      let val := if op.isComparison && swap then e.v else val
      if b then pure (some (⟨e.lbls.dropName, K.boolVal keep⟩ : Sample ν))
      else if keep then pure (some ⟨if op.changesSchema then e.lbls.dropName else e.lbls, val⟩)
      else pure none) v
  checkDup out

structure BinState (ν : Type) where
  matched : List (Labels × List Labels) := []
  out : List (Sample ν) := []

def lookupSig {α} (sig : Labels) : List (Labels × α) → Option α
  | [] => none
  | (k, v) :: rest => if k == sig then some v else lookupSig sig rest

def markSig (sig metric : Labels) : List (Labels × List Labels) → List (Labels × List Labels)
  | [] => [(sig, [metric])]
  | (k, ms) :: rest => if k == sig then (k, ms ++ [metric]) :: rest else (k, ms) :: markSig sig metric rest

/-- the closure `doBinOp` of `VectorBinop` (`ls` = the "many"-side sample after the sidedness swap) -/
def doBinOp (op : BinOp) (b : Bool) (vm : VM) (st : BinState ν) (ls rs : Sample ν) (sig : Labels) :
    Except EvalErr (BinState ν) := do
  let r ← liftU (if vm.card == .oneToMany then K.elemBin op rs.v ls.v else K.elemBin op ls.v rs.v)
  match r with
  | none => pure st
  | some (val, keep) =>
    let val := if b then K.boolVal keep else val
    let metric := resultMetric ls.lbls rs.lbls op vm b
    let prior := (lookupSig sig st.matched).getD []
    if vm.card == .oneToOne && !prior.isEmpty then .error (.user "multiple-matches")
    else if vm.card != .oneToOne && prior.contains metric then .error (.user "multiple-matches")
    else
      let st := { st with matched := markSig sig metric st.matched }
      if !keep && !b then pure st else pure { st with out := st.out ++ [⟨metric, val⟩] }

def buildRightSigs (sigf : Labels → Labels) :
    List (Sample ν) → List (Labels × Sample ν) → Except EvalErr (List (Labels × Sample ν))
  | [], acc => .ok acc
  | rs :: rest, acc =>
    let sig := sigf rs.lbls
    if (lookupSig sig acc).isSome then .error (.user "dup-match-group")
    else buildRightSigs sigf rest (acc ++ [(sig, rs)])

/-- "for all lhs samples, find the rhs sample (or the fill value)" -/
def vvLeft (op : BinOp) (b : Bool) (vm : VM) (rightSigs : List (Labels × Sample ν)) (fillR : Option UInt64)
    (lhs : List (Sample ν)) : Except EvalErr (BinState ν) :=
  foldlE (fun (st : BinState ν) (ls : Sample ν) =>
      match lookupSig (sigLabels vm ls.lbls) rightSigs with
      | some rs => doBinOp K op b vm st ls rs (sigLabels vm ls.lbls)
      | none =>
        match fillR with
        | none => .ok st
        | some fill => doBinOp K op b vm st ls ⟨sigLabels vm ls.lbls, K.lit fill⟩ (sigLabels vm ls.lbls))
    ({} : BinState ν) lhs

/-- unmatched rhs samples with a fill value for the lhs -/
def vvRight (op : BinOp) (b : Bool) (vm : VM) (fillL : Option UInt64) (st : BinState ν)
    (rhs : List (Sample ν)) : Except EvalErr (BinState ν) :=
  match fillL with
  | none => .ok st
  | some fill =>
    foldlE (fun (st : BinState ν) (rs : Sample ν) =>
        if !((lookupSig (sigLabels vm rs.lbls) st.matched).getD []).isEmpty then .ok st
        else doBinOp K op b vm st ⟨sigLabels vm rs.lbls, K.lit fill⟩ rs (sigLabels vm rs.lbls))
      st rhs

/-- `VectorBinop` after the sidedness swap (`lhs` = the "many" side) -/
def vecVecCore (op : BinOp) (b : Bool) (vm : VM) (lhs rhs : List (Sample ν)) (fillL fillR : Option UInt64) :
    Except EvalErr (List (Sample ν)) :=
  buildRightSigs (sigLabels vm) rhs [] >>= fun rightSigs =>
  vvLeft K op b vm rightSigs fillR lhs >>= fun st =>
  vvRight K op b vm fillL st rhs >>= fun st =>
  checkDup st.out

/-- `VectorBinop` (cardinality ≠ many-to-many) -/
def vecVec (op : BinOp) (b : Bool) (vm : VM) (lhs rhs : List (Sample ν)) : Except EvalErr (List (Sample ν)) :=
  if (lhs.isEmpty && rhs.isEmpty) || ((lhs.isEmpty || rhs.isEmpty) && vm.fillR.isNone && vm.fillL.isNone) then .ok []
  else if vm.card == .oneToMany then vecVecCore K op b vm rhs lhs vm.fillR vm.fillL
  else vecVecCore K op b vm lhs rhs vm.fillL vm.fillR

/-- `VectorAnd` / `VectorOr` / `VectorUnless` -/
def vecSet (op : BinOp) (vm : VM) (lhs rhs : List (Sample ν)) : Except EvalErr (List (Sample ν)) :=
  let sigf := sigLabels vm
  let lsigs := lhs.map fun s => sigf s.lbls
  let rsigs := rhs.map fun s => sigf s.lbls
  match op with
  | .land => checkDup (lhs.filter fun s => rsigs.contains (sigf s.lbls))
  | .lor => checkDup (lhs ++ rhs.filter fun s => !lsigs.contains (sigf s.lbls))
  | .lunless => checkDup (lhs.filter fun s => !rsigs.contains (sigf s.lbls))
  | _ => .error .internal   -- unreachable: callers dispatch on `op.isSet`

/-- the `*parser.BinaryExpr` case of `eval`: dispatch on the operand kinds -/
def evalBin (op : BinOp) (b : Bool) (vm : VM) : Value ν → Value ν → Except EvalErr (Value ν)
  | .scalar x, .scalar y =>
    if op.isSet then .error .internal            -- "operator %q not allowed for Scalar operations"
    else .ok (.scalar (K.scalarBin op x y))
  | .vector v, .scalar s =>
    if op.isSet then .error .internal            -- "operator %q not allowed for operations between Vectors"
    else (vecScalar K op b false v s).map .vector
  | .scalar s, .vector v =>
    if op.isSet then .error .internal
    else (vecScalar K op b true v s).map .vector
  | .vector l, .vector r =>
    if op.isSet then
      if vm.card != .manyToMany then .error .internal   -- "set operations must only use many-to-many matching"
      else (vecSet op vm l r).map .vector
    else if vm.card == .manyToMany then .error .internal   -- "many-to-many only allowed for set operators"
    else (vecVec K op b vm l r).map .vector
  | _, _ => .error .internal                      -- "unhandled expression of type"

/-! ### aggregations -/

def groupKey (without : Bool) (ls : List String) (l : Labels) : Labels :=
  if without then l.del (nameLabel :: ls) else l.keep ls

def groupsOf (without : Bool) (ls : List String) (v : List (Sample ν)) : List (Labels × List (Sample ν)) :=
  ((v.map fun e => groupKey without ls e.lbls).eraseDups).map fun k =>
    (k, v.filter fun e => groupKey without ls e.lbls == k)

/-- `rangeEvalAgg` / `aggregation` / `aggregationK` / `aggregationCountValues` for one step. `pv` = the evaluated
    scalar parameter, `ps` = the string parameter. -/
def evalAgg (op : AggOp) (without : Bool) (ls : List String) (pv : Option ν) (ps : Option String)
    (v : List (Sample ν)) : Except EvalErr (List (Sample ν)) :=
  match op with
  | .topk | .bottomk | .limitk =>
    match pv with
    | none => .error .internal                     -- nil parameter
    | some p => do
      let k ← liftU (K.paramK p)
      if k < 1 then pure []
      else pure ((groupsOf without ls v).flatMap fun g => K.pickK op k g.2)
  | .limitRatio =>
    match pv with
    | none => .error .internal
    | some p => do
      let r ← liftU (K.paramRatio p)
      pure (v.filter fun s => K.pickRatio r s)
  | .quantile =>
    match pv with
    | none => .error .internal
    | some p => pure ((groupsOf without ls v).filterMap fun g => (K.aggGroup op (some p) (g.2.map (·.v))).map fun x => ⟨g.1, x⟩)
  | .countValues =>
    match ps with
    | none => .error .internal                     -- `e.Param.(*parser.StringLiteral)`
    | some lbl =>
      if !K.validLabel lbl then .error (.user "invalid-label")
      else
        let v' := v.map fun s => (⟨(groupKey without ls s.lbls).set lbl (K.valueLabel s.v), s.v⟩ : Sample ν)
        pure (((v'.map (·.lbls)).eraseDups).filterMap fun k =>
          (K.aggGroup .count none ((v'.filter fun s => s.lbls == k).map (·.v))).map fun x => ⟨k, x⟩)
  | _ => pure ((groupsOf without ls v).filterMap fun g => (K.aggGroup op none (g.2.map (·.v))).map fun x => ⟨g.1, x⟩)

/-! ### function calls -/

def scalarsOf : List (Value ν) → List ν
  | [] => []
  | .scalar x :: rest => x :: scalarsOf rest
  | _ :: rest => scalarsOf rest

def vectorsOf : List (Value ν) → List (List (Sample ν))
  | [] => []
  | .vector v :: rest => v :: vectorsOf rest
  | _ :: rest => vectorsOf rest

def firstMatrix : List (Value ν) → Option (List (Series ν))
  | [] => none
  | .matrix m :: _ => some m
  | _ :: rest => firstMatrix rest

/-- the string literal at an argument position, after `unwrapParenExpr` (`stringFromArg`) -/
def strArg? (a : Expr) : Option String :=
  match stripParen a with
  | .str s => some s
  | _ => none

/-- string literals of the arguments whose VALUE is a string; `none` when one of them is not a literal node -/
def strLits : List Expr → List (Value ν) → Option (List String)
  | a :: as, .string _ :: vs => do
    let s ← strArg? a
    let rest ← strLits as vs
    pure (s :: rest)
  | _ :: as, _ :: vs => strLits as vs
  | _, _ => some []

def keepsName (fn : String) : Bool :=
  fn == "last_over_time" || fn == "first_over_time"

/-- instant functions that keep the metric name -/
def instKeepsName (fn : String) : Bool :=
  fn == "sort" || fn == "sort_desc"

/-- A call whose values matched the signature. -/
def applyFn (sig : FuncSig) (fn : String) (args : List Expr) (vals : List (Value ν)) (t : Int) :
    Except EvalErr (Value ν) :=
  match sig.ret with
  | .scalar =>
    match fn, vals with
    | "scalar", [.vector v] => .ok (.scalar (K.toScalar (v.map (·.v))))
    | _, _ => .ok (.scalar (K.scalarFn fn (scalarsOf vals) t))
  | .vector =>
    match firstMatrix vals with
    | some m => do
      -- functions over a range vector: one output sample per series with a result
      let out ← filterMapE (fun (ser : Series ν) => do
        let r ← liftU (K.rangeFn fn (scalarsOf vals) ser.pts t)
        pure (r.map fun x => (⟨if keepsName fn then ser.lbls else ser.lbls.dropName, x⟩ : Sample ν))) m
      if fn == "absent_over_time" then
        pure (.vector (if m.isEmpty then [⟨[], K.boolVal true⟩] else []))
      else (checkDup out).map .vector
    | none =>
      match strLits args vals with
      | none => .error .internal                  -- `stringFromArg`: argument is not a *parser.StringLiteral
      | some strs =>
        match fn, vals with
        | "vector", [.scalar x] => .ok (.vector [⟨[], x⟩])
        | "absent", [.vector v] => .ok (.vector (if v.isEmpty then [⟨[], K.boolVal true⟩] else []))
        | _, _ =>
          match strs, vectorsOf vals with
          | [], [v] =>
            -- element-wise instant function with scalar parameters
            (checkDup (v.filterMap fun s =>
              (K.instFn fn (scalarsOf vals) t s.v).map fun x =>
                ⟨if instKeepsName fn then s.lbls else s.lbls.dropName, x⟩)).map .vector
          | _, vs => do
            let out ← liftU (K.vecFn fn strs (scalarsOf vals) vs t)
            (checkDup out).map .vector
  | _ => .error .internal                          -- no function returns a matrix or a string

/-- the values have exactly the declared argument types (what the type assertions in the function bodies need) -/
def valsMatch (sig : FuncSig) (vals : List (Value ν)) : Bool :=
  arityOk sig vals.length && argTypesOk sig.args 0 (vals.map fun v => some v.vt)

/-! ### the evaluator -/

/-- `timestamp(<vector selector>)` is evaluated on the selector's samples, not on an evaluated argument -/
def tsSel? (fn : String) (args : List Expr) : Option Sel :=
  if fn == "timestamp" then
    match args with
    | [a] => (match stripParen a with | .sel s => some s | _ => none)
    | _ => none
  else none

mutual
def evalT (cfg : Cfg) (env : Env ν) : Expr → Int → Except EvalErr (Value ν)
  | .nil, _ => .error .internal                    -- nil dereference / "unhandled expression of type"
  | .num b, _ => .ok (.scalar (K.lit b))
  | .str s, _ => .ok (.string s)
  | .sel s, t => (checkDup (selVec K cfg env s t)).map .vector
  | .msel s r, t => .ok (.matrix (mselMat K cfg env s r t))
  | .paren e, t => evalT cfg env e t
  | .neg e, t => do
    let v ← evalT cfg env e t
    evalNeg K v
  | .subq e r st off atm, t => do
    let rt := refTime cfg atm off t
    let grid := multiplesIn (rt - r) rt (subStep cfg st)
    let pts ← mapE (fun (t' : Int) => do
      let v ← evalT cfg env e t'
      let xs ← asVector v
      pure (t', xs)) grid
    pure (.matrix (assemble pts))
  | .agg op wo ls p e, t => do
    let v ← evalT cfg env e t
    let xs ← asVector v
    match op.paramKind with
    | .none => (evalAgg K op wo ls none none xs).map .vector
    | .scalar => do
      let pv ← evalT cfg env p t
      match pv with
      | .scalar x => (evalAgg K op wo ls (some x) none xs).map .vector
      | _ => .error .internal                      -- `newFParams`: the parameter is not a one-sample-per-step scalar
    | .string => (evalAgg K op wo ls none (strArg? p) xs).map .vector
  | .bin op b vm l r, t => do
    let lv ← evalT cfg env l t
    let rv ← evalT cfg env r t
    evalBin K op b vm lv rv
  | .call fn args, t =>
    match sigOf fn with
    | none => .error .internal                     -- "unexpected nil implementation for function"
    | some sig =>
      match tsSel? fn args with
      | some s => (checkDup (selVecTs K cfg env s t)).map .vector   -- `rangeEvalTimestampFunctionOverVectorSelector`
      | none => do
        let vals ← evalArgs cfg env args t
        if valsMatch sig vals then applyFn K sig fn args vals t else .error .internal

def evalArgs (cfg : Cfg) (env : Env ν) : List Expr → Int → Except EvalErr (List (Value ν))
  | [], _ => .ok []
  | a :: rest, t => do
    let v ← evalT cfg env a t
    let vs ← evalArgs cfg env rest t
    pure (v :: vs)
end

end

end Prom.EvalTotal
