/-
  C27 — promql/engine.go: instant semantics of a CORE PromQL expression language (`evalAt`) and the
  engine's range-query STRATEGY (`evalRange`): all steps in one pass, per-step vectors cut out of the
  children's results, `PreprocessExpr`'s step-invariant wrapping (`preprocess`, `StepInvariantExpr`
  evaluated once and replicated), `matrixIterSlice`'s window reuse across steps (`slide`), subqueries
  evaluated once on an aligned grid by a child evaluator (`subqueryTimeRange`) and then windowed.

  Core language: number literals, `time()`, vector selectors with equality / inequality matchers,
  `offset` and `@ <t>` / `@ start()` / `@ end()`, `count/sum/min/max/last_over_time` over a matrix
  selector or a subquery, arithmetic / comparison binary operators (vector-vector one-to-one on all
  labels, vector-scalar, scalar-scalar; `bool`), aggregations `sum/min/max/count` `by`/`without`, and
  `topk(1, ·)` (the order-sensitive one, finding F12).

  Values are exact rationals (float samples of the generated data are dyadic; the suite compares up to
  the documented 2^-40 echo tolerance). Sample values never are NaN/±Inf in the core fragment; a
  staleness marker is the flag `stale`.

  Abstractions (covered by the differential only): the memoized / buffered series iterators are "all
  samples with T ≤ the sought time are available"; pooling, sample limits and statistics are absent;
  the engine's series-major loops are written step-major (the series are independent). The per-step
  input order of vectors that the engine rebuilds from a Go map is the explicit parameter `ord`.
-/
namespace Prom.RangeEval

abbrev Labels := List (String × String)

structure Sample where
  t : Int
  v : Rat
  stale : Bool := false
  deriving Repr, BEq, DecidableEq, Inhabited

structure Series where
  lbls : Labels
  samples : List Sample
  deriving Repr, BEq, DecidableEq, Inhabited

/-- storage content, in the storage's (sorted) series order -/
abbrev Env := List Series

structure Elem where
  lbls : Labels
  v : Rat
  deriving Repr, BEq, DecidableEq, Inhabited

abbrev Vector := List Elem

inductive Value where
  | scalar (x : Rat)
  | vector (v : Vector)
  deriving Repr, BEq, DecidableEq, Inhabited

def Value.toVec : Value → Vector
  | .scalar _ => []
  | .vector v => v

/-! ### expressions -/

inductive AtMod where
  | none
  | fixed (t : Int)
  | start
  | end_
  deriving Repr, BEq, DecidableEq, Inhabited

def AtMod.isSet : AtMod → Bool
  | .none => false
  | _ => true

structure Matcher where
  name : String
  neg : Bool
  val : String
  deriving Repr, BEq, DecidableEq, Inhabited

structure Sel where
  name : String
  ms : List Matcher
  off : Int
  atm : AtMod
  deriving Repr, BEq, DecidableEq, Inhabited

inductive OverFn where
  | count | sum | min | max | last
  deriving Repr, BEq, DecidableEq, Inhabited

inductive BinOp where
  | add | sub | mul | eq | ne | gt | lt | ge | le
  deriving Repr, BEq, DecidableEq, Inhabited

inductive AggOp where
  | sum | min | max | count | topk1
  deriving Repr, BEq, DecidableEq, Inhabited

inductive Expr where
  | num (x : Rat)
  | time
  | sel (s : Sel)
  | overSel (f : OverFn) (s : Sel) (range : Int)
  | overSub (f : OverFn) (e : Expr) (range step off : Int) (atm : AtMod)
  | bin (op : BinOp) (bool : Bool) (l r : Expr)
  | agg (op : AggOp) (without : Bool) (ls : List String) (e : Expr)
  /-- `parser.StepInvariantExpr`, inserted by `preprocess` only -/
  | stepInv (e : Expr)
  deriving Repr, BEq, DecidableEq, Inhabited

/-- Query context: lookback delta, default subquery step (`NoStepSubqueryIntervalFn`), and the query's
    own start / end (what `@ start()` / `@ end()` resolve to; equal for an instant query). -/
structure Cfg where
  lookback : Int
  defStep : Int
  qs : Int
  qe : Int
  deriving Repr, BEq, DecidableEq, Inhabited

/-! ### selectors -/

def nameLabel : String := "__name__"

def dropName (l : Labels) : Labels := l.filter fun p => p.1 != nameLabel

def getLabel (l : Labels) (n : String) : String :=
  match l.find? (fun p => p.1 == n) with
  | some p => p.2
  | none => ""

def Matcher.ok (m : Matcher) (l : Labels) : Bool :=
  if m.neg then getLabel l m.name != m.val else getLabel l m.name == m.val

def Sel.matches (s : Sel) (l : Labels) : Bool :=
  getLabel l nameLabel == s.name && s.ms.all (·.ok l)

def selSeries (env : Env) (s : Sel) : List Series := env.filter fun ser => s.matches ser.lbls

/-- `@` resolution (`PreprocessExpr` + `setOffsetForAtModifier`) and `offset`: the reference time of a
    selector or subquery evaluated at `t`. -/
def refTime (cfg : Cfg) (at_ : AtMod) (off : Int) (t : Int) : Int :=
  (match at_ with
   | .none => t
   | .fixed a => a
   | .start => cfg.qs
   | .end_ => cfg.qe) - off

/-- `vectorSelectorSingle`: the latest sample at or before the reference time, if it is newer than
    `refTime − lookback` and not a staleness marker. -/
def instantSample (lookback : Int) (xs : List Sample) (rt : Int) : Option Rat :=
  match (xs.filter fun s => s.t ≤ rt).getLast? with
  | some s => if rt - lookback < s.t && !s.stale then some s.v else none
  | none => none

def selVec (cfg : Cfg) (env : Env) (s : Sel) (t : Int) : Vector :=
  (selSeries env s).filterMap fun ser =>
    (instantSample cfg.lookback ser.samples (refTime cfg s.atm s.off t)).map fun v => ⟨ser.lbls, v⟩

/-! ### range windows -/

/-- The window of a matrix selector computed from scratch: non-stale samples with `mint < T ≤ maxt`. -/
def fresh (xs : List Sample) (mint maxt : Int) : List Sample :=
  xs.filter fun s => mint < s.t && s.t ≤ maxt && !s.stale

/-- `matrixIterSlice` with a non-empty previous window: if the previous window's last sample is newer
    than `mint`, drop the prefix `T ≤ mint`, keep the rest, and append only samples newer than the last
    kept one; otherwise start from scratch. -/
def slide (prev : List Sample) (xs : List Sample) (mint maxt : Int) : List Sample :=
  match prev.getLast? with
  | some l =>
    if mint < l.t then
      prev.dropWhile (fun s => s.t ≤ mint) ++ xs.filter fun s => l.t < s.t && s.t ≤ maxt && !s.stale
    else fresh xs mint maxt
  | none => fresh xs mint maxt

def sumRat (l : List Rat) : Rat := l.foldl (· + ·) 0

def minRat : List Rat → Option Rat
  | [] => none
  | x :: xs => some (xs.foldl (fun m y => if y < m then y else m) x)

def maxRat : List Rat → Option Rat
  | [] => none
  | x :: xs => some (xs.foldl (fun m y => if m < y then y else m) x)

/-- A `*_over_time` function on one window; an empty window yields no output sample. -/
def applyOver (f : OverFn) (w : List Sample) : Option Rat :=
  if w.isEmpty then none else
  match f with
  | .count => some (w.length : Rat)
  | .sum => some (sumRat (w.map (·.v)))
  | .min => minRat (w.map (·.v))
  | .max => maxRat (w.map (·.v))
  | .last => w.getLast?.map (·.v)

/-- `last_over_time` keeps the metric name, every other range function drops it. -/
def OverFn.keepsName : OverFn → Bool
  | .last => true
  | _ => false

def outLbls (f : OverFn) (l : Labels) : Labels := if f.keepsName then l else dropName l

/-- One step of a range-function call: one output element per series with a non-empty window. -/
def mkVec (f : OverFn) (sers : List Series) (ws : List (List Sample)) : Vector :=
  (sers.zip ws).filterMap fun p => (applyOver f p.2).map fun v => ⟨outLbls f p.1.lbls, v⟩

/-- Instant semantics of a range-function call at window `(mint, maxt]`. -/
def overAt (f : OverFn) (sers : List Series) (mint maxt : Int) : Vector :=
  mkVec f sers (sers.map fun ser => fresh ser.samples mint maxt)

/-- The engine's loop over steps with the windows of the previous step carried along
    (`refetch = false`: an `@` modifier fixes the window, it is computed at the first step only). -/
def overRange (f : OverFn) (sers : List Series) (refetch : Bool) :
    List (List Sample) → Bool → List (Int × Int) → List Vector
  | _, _, [] => []
  | prevs, first, b :: rest =>
    let ws := if first || refetch then List.zipWith (fun ser prev => slide prev ser.samples b.1 b.2) sers prevs else prevs
    mkVec f sers ws :: overRange f sers refetch ws false rest

/-! ### binary operators -/

def BinOp.isCmp : BinOp → Bool
  | .add | .sub | .mul => false
  | _ => true

def BinOp.arith : BinOp → Rat → Rat → Rat
  | .add, a, b => a + b
  | .sub, a, b => a - b
  | .mul, a, b => a * b
  | _, a, _ => a

def BinOp.cmp : BinOp → Rat → Rat → Bool
  | .eq, a, b => a == b
  | .ne, a, b => a != b
  | .gt, a, b => b < a
  | .lt, a, b => a < b
  | .ge, a, b => b ≤ a
  | .le, a, b => a ≤ b
  | _, _, _ => false

def b2r (b : Bool) : Rat := if b then 1 else 0

/-- `scalarBinop` -/
def scalarBin (op : BinOp) (a b : Rat) : Rat :=
  if op.isCmp then b2r (op.cmp a b) else op.arith a b

/-- One element of `VectorscalarBinop` / `VectorBinop`: `l`, `r` are the operands in source order, `keepV`
    the value kept by a filtering comparison (the vector side's / the left side's). -/
def elemBin (op : BinOp) (bool : Bool) (lbls : Labels) (l r keepV : Rat) : Option Elem :=
  if op.isCmp then
    if bool then some ⟨dropName lbls, b2r (op.cmp l r)⟩
    else if op.cmp l r then some ⟨lbls, keepV⟩ else none
  else some ⟨dropName lbls, op.arith l r⟩

def vecScalar (op : BinOp) (bool : Bool) (swap : Bool) (v : Vector) (s : Rat) : Vector :=
  v.filterMap fun e => if swap then elemBin op bool e.lbls s e.v e.v else elemBin op bool e.lbls e.v s e.v

/-- One-to-one matching on all labels except the metric name; output in left-hand-side order. -/
def vecVec (op : BinOp) (bool : Bool) (l r : Vector) : Vector :=
  l.filterMap fun e =>
    match r.find? (fun x => dropName x.lbls == dropName e.lbls) with
    | some x => elemBin op bool e.lbls e.v x.v e.v
    | none => none

def binop (op : BinOp) (bool : Bool) : Value → Value → Value
  | .scalar a, .scalar b => .scalar (scalarBin op a b)
  | .vector v, .scalar s => .vector (vecScalar op bool false v s)
  | .scalar s, .vector v => .vector (vecScalar op bool true v s)
  | .vector l, .vector r => .vector (vecVec op bool l r)

/-! ### aggregations -/

def groupKey (without : Bool) (ls : List String) (l : Labels) : Labels :=
  if without then l.filter fun p => p.1 != nameLabel && !ls.contains p.1
  else l.filter fun p => ls.contains p.1

/-- The first element with the greatest value (`topk(1, ·)`: the heap keeps the earlier one on a tie). -/
def firstMax : Vector → Option Elem
  | [] => none
  | e :: es => some (es.foldl (fun m x => if m.v < x.v then x else m) e)

def aggGroup (op : AggOp) (k : Labels) (g : Vector) : Option Elem :=
  match op with
  | .sum => some ⟨k, sumRat (g.map (·.v))⟩
  | .count => some ⟨k, (g.length : Rat)⟩
  | .min => (minRat (g.map (·.v))).map fun v => ⟨k, v⟩
  | .max => (maxRat (g.map (·.v))).map fun v => ⟨k, v⟩
  | .topk1 => firstMax g

/-- Groups in order of first appearance; each group folded in input order. -/
def aggregate (op : AggOp) (without : Bool) (ls : List String) (v : Vector) : Vector :=
  ((v.map fun e => groupKey without ls e.lbls).eraseDups).filterMap fun k =>
    aggGroup op k (v.filter fun e => groupKey without ls e.lbls == k)

def aggV (op : AggOp) (without : Bool) (ls : List String) (x : Value) : Value :=
  .vector (aggregate op without ls x.toVec)

/-! ### subqueries -/

/-- `subqueryTimeRange`: the first multiple of `step` strictly after `x` (Go's truncating division). -/
def firstMultipleAfter (x step : Int) : Int :=
  let s := step * (x.tdiv step)
  if s ≤ x then s + step else s

/-- The child evaluator's steps: multiples of `step` in `(lo, hi]`. -/
def multiplesIn (lo hi step : Int) : List Int :=
  let a := firstMultipleAfter lo step
  (List.range ((hi - a) / step + 1).toNat).map fun (k : Nat) => a + (k : Int) * step

/-- The child result as a matrix: one series per label set, points in step order. -/
def assemble (pts : List (Int × Value)) : List Series :=
  let elems : List (Labels × Sample) := pts.flatMap fun p => p.2.toVec.map fun e => (e.lbls, ⟨p.1, e.v, false⟩)
  ((elems.map (·.1)).eraseDups).map fun k => ⟨k, (elems.filter fun x => x.1 == k).map (·.2)⟩

def subStep (cfg : Cfg) (st : Int) : Int := if st = 0 then cfg.defStep else st

/-! ### instant semantics -/

def evalAt (cfg : Cfg) (env : Env) : Expr → Int → Value
  | .num x, _ => .scalar x
  | .time, t => .scalar ((t : Rat) / 1000)
  | .sel s, t => .vector (selVec cfg env s t)
  | .overSel f s r, t =>
    let rt := refTime cfg s.atm s.off t
    .vector (overAt f (selSeries env s) (rt - r) rt)
  | .overSub f e r st off at_, t =>
    let rt := refTime cfg at_ off t
    let grid := multiplesIn (rt - r) rt (subStep cfg st)
    .vector (overAt f (assemble (grid.map fun t' => (t', evalAt cfg env e t'))) (rt - r) rt)
  | .bin op b l r, t => binop op b (evalAt cfg env l t) (evalAt cfg env r t)
  | .agg op wo ls e, t => aggV op wo ls (evalAt cfg env e t)
  | .stepInv e, t => evalAt cfg env e t

/-! ### the engine's strategy -/

/-- Apply the per-step input order to a node's output (only `rangeEval`-produced nodes are rebuilt
    from a Go map). -/
def reorder (ord : Vector → Vector) : Value → Value
  | .scalar x => .scalar x
  | .vector v => .vector (ord v)

/-- All steps `ts` (nondecreasing) in one pass. -/
def evalRange (ord : Vector → Vector) (cfg : Cfg) (env : Env) : Expr → List Int → List Value
  | .num x, ts => ts.map fun _ => .scalar x
  | .time, ts => ts.map fun (t : Int) => .scalar ((t : Rat) / 1000)
  | .sel s, ts => ts.map fun t => .vector (selVec cfg env s t)
  | .overSel f s r, ts =>
    let sers := selSeries env s
    (overRange f sers (!s.atm.isSet) (sers.map fun _ => []) true
      (ts.map fun t => (refTime cfg s.atm s.off t - r, refTime cfg s.atm s.off t))).map .vector
  | .overSub f e r st off at_, ts =>
    match ts with
    | [] => []
    | t0 :: _ =>
      let rt0 := refTime cfg at_ off t0
      let grid := multiplesIn (rt0 - r) (rt0 + (ts.getLast?.getD t0 - t0)) (subStep cfg st)
      let sers := assemble (grid.zip (evalRange ord cfg env e grid))
      (overRange f sers (!at_.isSet) (sers.map fun _ => []) true
        (ts.map fun t => (refTime cfg at_ off t - r, refTime cfg at_ off t))).map .vector
  | .bin op b l r, ts =>
    (List.zipWith (binop op b) (evalRange ord cfg env l ts) (evalRange ord cfg env r ts)).map (reorder ord)
  | .agg op wo ls e, ts => ((evalRange ord cfg env e ts).map (aggV op wo ls)).map (reorder ord)
  | .stepInv e, ts =>
    match ts with
    | [] => []
    | t0 :: _ =>
      match evalRange ord cfg env e [t0] with
      | [v] => ts.map fun _ => v
      | _ => []

/-! ### PreprocessExpr -/

/-- `preprocessExprHelper`'s `isStepInvariant`. -/
def stepInvariant : Expr → Bool
  | .num _ => true
  | .time => false
  | .sel s => s.atm.isSet
  | .overSel _ s _ => s.atm.isSet
  | .overSub _ _ _ _ _ at_ => at_.isSet
  | .bin _ _ l r => stepInvariant l && stepInvariant r
  | .agg _ _ _ e => stepInvariant e
  | .stepInv e => stepInvariant e

/-- `preprocessExprHelper`'s `shouldWrap`: literals are never wrapped. -/
def shouldWrap : Expr → Bool
  | .num _ => false
  | .agg _ _ _ e => shouldWrap e
  | .stepInv _ => false
  | e => stepInvariant e

/-- The rewriting below the root: wrap the maximal step-invariant subtrees, and the inside of every
    subquery whose inner expression is step invariant. -/
def pp : Expr → Expr
  | .overSub f e r st off at_ =>
    .overSub f (if stepInvariant e then .stepInv (pp e) else pp e) r st off at_
  | .bin op b l r =>
    if stepInvariant l && stepInvariant r then .bin op b (pp l) (pp r)
    else .bin op b (if shouldWrap l then .stepInv (pp l) else pp l) (if shouldWrap r then .stepInv (pp r) else pp r)
  | .agg op wo ls e => .agg op wo ls (pp e)
  | .stepInv e => .stepInv (pp e)
  | e => e

def preprocess (e : Expr) : Expr := if shouldWrap e then .stepInv (pp e) else pp e

/-- The step times of a range query. -/
def stepTimes (start end_ step : Int) : List Int :=
  (List.range ((end_ - start) / step + 1).toNat).map fun (k : Nat) => start + (k : Int) * step

/-- A range query as the engine runs it: preprocess, then evaluate all steps in one pass. -/
def rangeQuery (ord : Vector → Vector) (lookback defStep : Int) (env : Env) (e : Expr) (start end_ step : Int) : List Value :=
  evalRange ord ⟨lookback, defStep, start, end_⟩ env (preprocess e) (stepTimes start end_ step)

/-- An instant query at `t` (the query's start and end are both `t`). -/
def instantQuery (lookback defStep : Int) (env : Env) (e : Expr) (t : Int) : Value :=
  evalAt ⟨lookback, defStep, t, t⟩ env e t

/-! ### syntactic side conditions -/

def AtMod.mentionsRange : AtMod → Bool
  | .start | .end_ => true
  | _ => false

/-- The expression refers to the query range (`@ start()` / `@ end()`; `start()`/`end()`/`range()`/`step()` are
    not part of the core language). -/
def mentionsQueryRange : Expr → Bool
  | .num _ | .time => false
  | .sel s => s.atm.mentionsRange
  | .overSel _ s _ => s.atm.mentionsRange
  | .overSub _ e _ _ _ at_ => at_.mentionsRange || mentionsQueryRange e
  | .bin _ _ l r => mentionsQueryRange l || mentionsQueryRange r
  | .agg _ _ _ e => mentionsQueryRange e
  | .stepInv e => mentionsQueryRange e

def hasSubquery : Expr → Bool
  | .overSub .. => true
  | .bin _ _ l r => hasSubquery l || hasSubquery r
  | .agg _ _ _ e => hasSubquery e
  | .stepInv e => hasSubquery e
  | _ => false

/-- Ranges are non-negative (the parser rejects negative durations). -/
def rangesOk : Expr → Bool
  | .overSel _ _ r => 0 ≤ r
  | .overSub _ e r _ _ _ => 0 ≤ r && rangesOk e
  | .bin _ _ l r => rangesOk l && rangesOk r
  | .agg _ _ _ e => rangesOk e
  | .stepInv e => rangesOk e
  | _ => true

/-- Every `StepInvariantExpr` wraps a step-invariant expression (what `preprocess` guarantees). -/
def wrapOk : Expr → Bool
  | .stepInv e => stepInvariant e && wrapOk e
  | .overSub _ e _ _ _ _ => wrapOk e
  | .bin _ _ l r => wrapOk l && wrapOk r
  | .agg _ _ _ e => wrapOk e
  | _ => true

/-- Sample timestamps strictly increase within every series. -/
def envSorted (env : Env) : Prop := ∀ ser ∈ env, ser.samples.Pairwise (fun a b => a.t < b.t)

end Prom.RangeEval
