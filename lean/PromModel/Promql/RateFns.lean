import PromModel.Num.F64
/-
  C30 — promql/functions.go: `extrapolatedRate` (rate / increase / delta), `instantValue`
  (irate / idelta), `funcResets`, `funcChanges`, `isStartTimestampReset`, `checkStartTimeOverlap`.
  Float samples only (the native-histogram paths are C31's).

  All arithmetic goes through an `Arith` record: `rnd` is applied after every floating-point
  operation and `c11` is the constant `1.1`.
    * `Arith.exact`  (`rnd = id`, `c11 = 11/10`)                      — the model the theorems are about;
    * `Arith.f64`    (`rnd = F64.round`, `c11 =` the double `1.1`)     — bit-for-bit what the Go code
      computes on amd64 for finite inputs; this instance is what the correspondence suite diffs
      against the engine's output.

  Second half: the *documented* algorithm (docs/querying/functions.md + the explanatory comments in
  `extrapolatedRate`), written independently as a specification over exact rationals.
-/
namespace Prom.RateFns

structure Arith where
  rnd : Rat → Rat
  c11 : Rat

namespace Arith
def exact : Arith := ⟨id, 11 / 10⟩
def f64 : Arith := ⟨F64.round, (F64.f64ToRat F64.c11Bits).getD 0⟩
variable (A : Arith)
def add (a b : Rat) : Rat := A.rnd (a + b)
def sub (a b : Rat) : Rat := A.rnd (a - b)
def mul (a b : Rat) : Rat := A.rnd (a * b)
def div (a b : Rat) : Rat := A.rnd (a / b)
/-- `float64(int64)` -/
def ofInt (i : Int) : Rat := A.rnd (i : Rat)
end Arith

/-- One float sample of the window together with its start timestamp (`0` = unknown). -/
structure Sample where
  t  : Int
  v  : Rat
  st : Int := 0
  deriving Repr, BEq, Inhabited

/-- functions.go `isStartTimestampReset`. -/
def isStartTimestampReset (prevST prevT currST currT : Int) : Bool :=
  if currST = 0 ∨ currST ≥ currT then false
  else if currST < prevT then false
  else if currST > prevT then true
  else if prevST > prevT then false
  else prevST ≠ 0 ∧ prevST ≠ prevT

/-- functions.go `checkStartTimeOverlap`. -/
def checkStartTimeOverlap (prevST prevT currST : Int) : Bool :=
  currST ≠ 0 ∧ currST < prevT ∧ currST ≠ prevST

/-- The reset test of the counter-correction loop for one consecutive pair. -/
def pairReset (prev cur : Sample) : Bool :=
  cur.v < prev.v || isStartTimestampReset prev.st prev.t cur.st cur.t

/-- The `for i, currPoint := range samples.Floats[1:]` loop: `resultFloat += prevPoint.F` on every reset. -/
def correctionLoop (A : Arith) : List Sample → Rat → Rat
  | prev :: cur :: rest, acc =>
    correctionLoop A (cur :: rest) (if pairReset prev cur then A.add acc prev.v else acc)
  | _, acc => acc

/-- Whether the loop adds the start-time-overlap warning. -/
def overlapWarned : List Sample → Bool
  | prev :: cur :: rest => checkStartTimeOverlap prev.st prev.t cur.st || overlapWarned (cur :: rest)
  | _ => false

/-- `time.Duration.Seconds()` for a millisecond-granular range: `float64(sec) + float64(nsec)/1e9`. -/
def rangeSeconds (A : Arith) (rangeMs : Int) : Rat :=
  A.add (A.ofInt (rangeMs / 1000)) (A.div (A.ofInt (rangeMs % 1000 * 1000000)) 1000000000)

/-- The samples the matrix selector hands to the function: left-open, right-closed window. -/
def window (rangeStart rangeEnd : Int) (ss : List Sample) : List Sample :=
  ss.filter fun s => rangeStart < s.t ∧ s.t ≤ rangeEnd

/--
  `extrapolatedRate`, float path, transcribed statement by statement.
  `w` = the samples inside the window (start timestamps already zeroed when the engine does not
  track them); `none` = no output sample.
-/
def extrapolatedRate (A : Arith) (isCounter isRate : Bool) (rangeStart rangeEnd rangeMs : Int)
    (w : List Sample) : Option Rat :=
  match w with
  | [] => none
  | first :: rest =>
    let last := (first :: rest).getLast (by simp)
    let n1 : Int := rest.length
    let firstT := first.t
    let lastT := last.t
    let result0 := A.sub last.v first.v
    let result1 := if isCounter then correctionLoop A (first :: rest) result0 else result0
    let st0 : Int := if isCounter then first.st else 0   -- `startTimestamps` is only set for counters
    let durationToStart := A.div (A.ofInt (firstT - rangeStart)) 1000
    let durationToEnd := A.div (A.ofInt (rangeEnd - lastT)) 1000
    let sampledInterval := A.div (A.ofInt (lastT - firstT)) 1000
    let avg := if n1 > 0 then A.div sampledInterval (A.ofInt n1) else 0
    let thr := A.mul avg A.c11
    let finish (result durationToStart sampledInterval : Rat) : Option Rat :=
      let durationToEnd := if durationToEnd ≥ thr then A.div avg 2 else durationToEnd
      let factor := if sampledInterval ≠ 0
        then A.div (A.add (A.add sampledInterval durationToStart) durationToEnd) sampledInterval else 1
      let factor := if isRate then A.div factor (rangeSeconds A rangeMs) else factor
      some (A.mul result factor)
    if isCounter ∧ st0 ≠ 0 ∧ st0 > rangeStart ∧ st0 < firstT then
      finish (A.add result1 first.v) 0 (A.div (A.ofInt (lastT - st0)) 1000)
    else if n1 = 0 then none
    else
      let durationToStart := if durationToStart ≥ thr then A.div avg 2 else durationToStart
      let durationToStart :=
        if isCounter then
          let durationToZero :=
            if result1 > 0 ∧ first.v ≥ 0 then A.mul sampledInterval (A.div first.v result1)
            else durationToStart
          if durationToZero < durationToStart then durationToZero else durationToStart
        else durationToStart
      finish result1 durationToStart sampledInterval

/-- The last two elements of a list. -/
def lastTwo : List Sample → Option (Sample × Sample)
  | [] => none
  | [_] => none
  | [a, b] => some (a, b)
  | _ :: b :: c :: rest => lastTwo (b :: c :: rest)

/-- `instantValue`, float path. -/
def instantValue (A : Arith) (isRate : Bool) (w : List Sample) : Option Rat :=
  match lastTwo w with
  | none => none
  | some (s0, s1) =>
    let sampledInterval := s1.t - s0.t
    if sampledInterval = 0 then none
    else
      let r :=
        if !isRate || !(s1.v < s0.v || isStartTimestampReset s0.st s0.t s1.st s1.t)
        then A.sub s1.v s0.v else s1.v
      some (if isRate then A.div r (A.div (A.ofInt sampledInterval) 1000) else r)

/-! ### resets / changes: values may be NaN / ±Inf -/

/-- A float sample value for the comparison-only functions. -/
abbrev FV := F64.Cls

def FV.lt : FV → FV → Bool
  | .nan, _ | _, .nan => false
  | .fin a, .fin b => a < b
  | .negInf, .negInf => false
  | .negInf, _ => true
  | _, .negInf => false
  | .posInf, _ => false
  | .fin _, .posInf => true

/-- IEEE `==`. -/
def FV.eq : FV → FV → Bool
  | .nan, _ | _, .nan => false
  | .fin a, .fin b => a = b
  | .posInf, .posInf => true
  | .negInf, .negInf => true
  | _, _ => false

def FV.isNaN : FV → Bool
  | .nan => true
  | _ => false

structure FSample where
  t  : Int
  v  : FV
  st : Int := 0
  deriving Inhabited

/-- `funcResets` float path: `none` for an empty window. -/
def resetsFrom : List FSample → Nat
  | prev :: cur :: rest =>
    (if FV.lt cur.v prev.v || isStartTimestampReset prev.st prev.t cur.st cur.t then 1 else 0)
      + resetsFrom (cur :: rest)
  | _ => 0

def resets (w : List FSample) : Option Nat := if w.isEmpty then none else some (resetsFrom w)

/-- `funcChanges` float path: `cur != prev && !(isNaN cur && isNaN prev)`. -/
def changesFrom : List FSample → Nat
  | prev :: cur :: rest =>
    (if !(FV.eq cur.v prev.v) && !(cur.v.isNaN && prev.v.isNaN) then 1 else 0) + changesFrom (cur :: rest)
  | _ => 0

def changes (w : List FSample) : Option Nat := if w.isEmpty then none else some (changesFrom w)

/-! ## The documented algorithm (specification, exact rationals) -/
namespace Doc

/-- "Any decrease in the value between two consecutive float samples is interpreted as a counter
    reset" — plus, with start timestamps, a new start timestamp after the previous sample. -/
def isReset (prev cur : Sample) : Bool :=
  cur.v < prev.v || isStartTimestampReset prev.st prev.t cur.st cur.t

/-- Increase of a counter between two consecutive samples: after a reset the counter restarted
    from zero, so the whole current value is new. -/
def stepIncrease (prev cur : Sample) : Rat := if isReset prev cur then cur.v else cur.v - prev.v

/-- "Breaks in monotonicity are automatically adjusted for": the increase over the samples is the
    sum of the per-step increases. -/
def rawIncrease : List Sample → Rat
  | prev :: cur :: rest => stepIncrease prev cur + rawIncrease (cur :: rest)
  | _ => 0

/-- "the difference between the first and last value" (`delta`). -/
def rawDelta : List Sample → Rat
  | [] => 0
  | first :: rest => ((first :: rest).getLast (by simp)).v - first.v

/-- "If samples are close enough to the boundary (up to 10% more than the average duration between
    samples) we extrapolate all the way to the boundary, otherwise by half an average interval." -/
def limitExtrapolation (c11 avg d : Rat) : Rat := if d ≥ avg * c11 then avg / 2 else d

structure Pieces where
  raw      : Rat   -- increase (counters, reset-corrected) or difference (gauges) over the samples
  sampled  : Rat   -- seconds covered by `raw`
  extStart : Rat   -- seconds of extrapolation towards the window start
  extEnd   : Rat   -- seconds of extrapolation towards the window end
  deriving Repr

/-- The pieces of the documented computation; `none` = the element is dropped.
    `c11` is the "10% more" factor (`11/10`; a parameter only so that the judge can probe both
    sides of an exact tie, where binary64 rounding of `1.1 * avg` decides). -/
def piecesC (c11 : Rat) (isCounter : Bool) (rangeStart rangeEnd : Int) (w : List Sample) : Option Pieces :=
  match w with
  | [] => none
  | first :: rest =>
    let last := (first :: rest).getLast (by simp)
    let n1 : Rat := (rest.length : Int)
    let raw := if isCounter then rawIncrease (first :: rest) else rawDelta (first :: rest)
    let sampled : Rat := ((last.t - first.t : Int) : Rat) / 1000
    let avg : Rat := if (rest.length : Int) > 0 then sampled / n1 else 0
    let toStart : Rat := ((first.t - rangeStart : Int) : Rat) / 1000
    let toEnd : Rat := ((rangeEnd - last.t : Int) : Rat) / 1000
    if isCounter ∧ first.st ≠ 0 ∧ rangeStart < first.st ∧ first.st < first.t then
      -- the counter is known to have been zero at its start timestamp, inside the window:
      -- use that point instead of extrapolating to the left
      some { raw := raw + first.v, sampled := ((last.t - first.st : Int) : Rat) / 1000,
             extStart := 0, extEnd := limitExtrapolation c11 avg toEnd }
    else if (rest.length : Int) = 0 then none
    else
      let extStart := limitExtrapolation c11 avg toStart
      -- "Counters cannot be negative": never extrapolate beyond the counter's zero point
      let extStart :=
        if isCounter ∧ raw > 0 ∧ first.v ≥ 0 then
          let toZero := sampled * (first.v / raw)
          if toZero < extStart then toZero else extStart
        else extStart
      some { raw := raw, sampled := sampled, extStart := extStart, extEnd := limitExtrapolation c11 avg toEnd }

def pieces := piecesC (11 / 10)

def Pieces.increase (p : Pieces) : Rat :=
  if p.sampled ≠ 0 then p.raw * ((p.sampled + p.extStart + p.extEnd) / p.sampled) else p.raw

/-- `increase` / `delta` as documented. -/
def increase (isCounter : Bool) (rangeStart rangeEnd : Int) (w : List Sample) : Option Rat :=
  (pieces isCounter rangeStart rangeEnd w).map Pieces.increase

/-- `rate`: "increase is syntactic sugar for rate(v) multiplied by the number of seconds under the
    specified time range window". -/
def rate (rangeStart rangeEnd rangeMs : Int) (w : List Sample) : Option Rat :=
  (increase true rangeStart rangeEnd w).map (· / ((rangeMs : Rat) / 1000))

/-- `idelta`: "the difference between the last two samples". -/
def idelta (w : List Sample) : Option Rat :=
  match w.reverse with
  | s1 :: s0 :: _ => some (s1.v - s0.v)
  | _ => none

/-- `irate`: "per-second instant rate of increase based on the last two data points", resets adjusted. -/
def irate (w : List Sample) : Option Rat :=
  match w.reverse with
  | s1 :: s0 :: _ => some (stepIncrease s0 s1 / (((s1.t - s0.t : Int) : Rat) / 1000))
  | _ => none

end Doc

end Prom.RateFns
