import PromModel.Promql.Lexical
/-
  PromQL AST (promql/parser/ast.go) without source positions (property C26).
  `Expr.nil` stands for a Go nil child (absent aggregation parameter, absent offset expression, …).
-/
namespace Prom.Promql
open F64Q

inductive MatchType | eq | ne | re | nre
deriving DecidableEq, Repr, Inhabited

def MatchType.text : MatchType → Bytes
  | .eq => bs "=" | .ne => bs "!=" | .re => bs "=~" | .nre => bs "!~"

structure Matcher where
  typ : MatchType
  name : Bytes
  value : Bytes
deriving DecidableEq, Repr, Inhabited

/-- `@` modifier of a selector or subquery. -/
inductive AtMod | none | ts (ms : Int) | start | end_
deriving DecidableEq, Repr, Inhabited

/-- anchored / smoothed flags of a vector selector (`both` is never accepted by the parser). -/
inductive Ext | none | anchored | smoothed | both
deriving DecidableEq, Repr, Inhabited

/-- Binary operators. -/
inductive BinOp
  | add | sub | mul | div | mod | pow | atan2
  | eqlc | neq | lte | lss | gte | gtr | trimUpper | trimLower
  | land | lor | lunless
deriving DecidableEq, Repr, Inhabited

def BinOp.text : BinOp → Bytes
  | .add => bs "+" | .sub => bs "-" | .mul => bs "*" | .div => bs "/" | .mod => bs "%" | .pow => bs "^"
  | .atan2 => bs "atan2" | .eqlc => bs "==" | .neq => bs "!=" | .lte => bs "<=" | .lss => bs "<"
  | .gte => bs ">=" | .gtr => bs ">" | .trimUpper => bs "</" | .trimLower => bs ">/"
  | .land => bs "and" | .lor => bs "or" | .lunless => bs "unless"

def BinOp.all : List BinOp :=
  [.add, .sub, .mul, .div, .mod, .pow, .atan2, .eqlc, .neq, .lte, .lss, .gte, .gtr, .trimUpper, .trimLower, .land, .lor, .lunless]

def BinOp.isComparison : BinOp → Bool
  | .eqlc | .neq | .lte | .lss | .gte | .gtr => true
  | _ => false

def BinOp.isSet : BinOp → Bool
  | .land | .lor | .lunless => true
  | _ => false

/-- yacc precedence level (higher binds tighter) and right-associativity. -/
def BinOp.prec : BinOp → Nat
  | .lor => 1
  | .land | .lunless => 2
  | .eqlc | .gte | .gtr | .lss | .lte | .neq | .trimUpper | .trimLower => 3
  | .add | .sub => 4
  | .mul | .div | .mod | .atan2 => 5
  | .pow => 6

def BinOp.rightAssoc : BinOp → Bool
  | .pow => true
  | _ => false

/-- Operators of duration expressions. -/
inductive DurOp | add | sub | mul | div | mod | pow | step | range | minOf | maxOf
deriving DecidableEq, Repr, Inhabited

def DurOp.text : DurOp → Bytes
  | .add => bs "+" | .sub => bs "-" | .mul => bs "*" | .div => bs "/" | .mod => bs "%" | .pow => bs "^"
  | .step => bs "step" | .range => bs "range" | .minOf => bs "min_of" | .maxOf => bs "max_of"

def DurOp.all : List DurOp := [.add, .sub, .mul, .div, .mod, .pow, .step, .range, .minOf, .maxOf]

/-- VectorMatching (Card: 0 one-to-one, 1 many-to-one, 2 one-to-many, 3 many-to-many). -/
structure VM where
  card : Nat
  on : Bool
  labels : List Bytes
  incl : List Bytes
  fillL : Option F64
  fillR : Option F64
deriving DecidableEq, Repr, Inhabited

inductive Expr
  | nil
  | num (v : F64) (dur : Bool)
  | str (v : Bytes)
  | vs (name : Bytes) (ms : List Matcher) (off : Int) (offe : Expr) (atm : AtMod) (ext : Ext)
  | mat (sel : Expr) (range : Int) (rangeE : Expr)
  | sub (e : Expr) (range : Int) (rangeE : Expr) (step : Int) (stepE : Expr) (off : Int) (offe : Expr) (atm : AtMod)
  | call (fn : Bytes) (args : List Expr)
  | agg (op : Bytes) (without : Bool) (grouping : List Bytes) (param : Expr) (e : Expr)
  | bin (op : BinOp) (bool : Bool) (vm : Option VM) (l r : Expr)
  | un (neg : Bool) (e : Expr)
  | paren (e : Expr)
  | stepinv (e : Expr)
  | dur (op : DurOp) (wrapped : Bool) (l r : Expr)
deriving Repr, Inhabited

def Expr.isNil : Expr → Bool
  | .nil => true
  | _ => false

/-- Value types of checkAST. -/
inductive VT | none | scalar | vector | matrix | string
deriving DecidableEq, Repr, Inhabited

structure FuncSig where
  name : String
  args : List VT
  variadic : Int
  ret : VT
  experimental : Bool

end Prom.Promql
