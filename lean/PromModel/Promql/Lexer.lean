import PromModel.Promql.Ast
/-
  The PromQL lexer (promql/parser/lex.go, expression mode only: no series descriptions / histograms),
  transcribed as a state machine over bytes (property C26).  States: `stmt` (lexStatements), `braces`
  (lexInsideBraces), `durexpr` (lexDurationExpr); flags `bracketOpen`, `parenDepth`.
  `lex` returns every token up to end of input, or `none` when the Go lexer emits an ERROR item
  (the parser then always reports a parse error).  Comments are dropped (parser.Lex skips them).
-/
namespace Prom.Promql

/-- Keyword tokens other than the word operators and/or/unless/atan2. -/
inductive Kw
  | agg        -- one of the 14 aggregation operators (the lower-cased text names it)
  | bool | by | groupLeft | groupRight | fill | fillLeft | fillRight | ignoring | offset
  | smoothed | anchored | on | without | start | end_ | step | range | maxOf | minOf
deriving DecidableEq, Repr, Inhabited

inductive Tok
  | lparen | rparen | lbrace | rbrace | lbracket | rbracket | comma | colon | eql | at
  | eqlRegex | neqRegex
  | op (o : BinOp) (text : Bytes)
  | number (text : Bytes)
  | duration (text : Bytes)
  | string (text : Bytes)
  | ident (text : Bytes)
  | metricIdent (text : Bytes)
  | kw (k : Kw) (text : Bytes)
deriving DecidableEq, Repr, Inhabited

def aggWords : List Bytes :=
  [bs "sum", bs "avg", bs "count", bs "min", bs "max", bs "group", bs "stddev", bs "stdvar", bs "topk",
   bs "bottomk", bs "count_values", bs "quantile", bs "limitk", bs "limit_ratio"]

/-- the `key` table of lex.go applied to a lower-cased word. -/
def keywordOf (lw : Bytes) (orig : Bytes) : Option Tok :=
  if lw = bs "and" then some (.op .land orig)
  else if lw = bs "or" then some (.op .lor orig)
  else if lw = bs "unless" then some (.op .lunless orig)
  else if lw = bs "atan2" then some (.op .atan2 orig)
  else if aggWords.contains lw then some (.kw .agg orig)
  else if lw = bs "offset" then some (.kw .offset orig)
  else if lw = bs "smoothed" then some (.kw .smoothed orig)
  else if lw = bs "anchored" then some (.kw .anchored orig)
  else if lw = bs "by" then some (.kw .by orig)
  else if lw = bs "without" then some (.kw .without orig)
  else if lw = bs "on" then some (.kw .on orig)
  else if lw = bs "ignoring" then some (.kw .ignoring orig)
  else if lw = bs "group_left" then some (.kw .groupLeft orig)
  else if lw = bs "group_right" then some (.kw .groupRight orig)
  else if lw = bs "fill" then some (.kw .fill orig)
  else if lw = bs "fill_left" then some (.kw .fillLeft orig)
  else if lw = bs "fill_right" then some (.kw .fillRight orig)
  else if lw = bs "bool" then some (.kw .bool orig)
  else if lw = bs "start" then some (.kw .start orig)
  else if lw = bs "end" then some (.kw .end_ orig)
  else if lw = bs "step" then some (.kw .step orig)
  else if lw = bs "range" then some (.kw .range orig)
  else if lw = bs "max_of" then some (.kw .maxOf orig)
  else if lw = bs "min_of" then some (.kw .minOf orig)
  else if lw = bs "inf" || lw = bs "nan" then some (.number orig)
  else none

/-! ### numbers and durations -/

def inSet (set : Bytes) (c : UInt8) : Bool := set.contains c

def decDigits : Bytes := bs "0123456789"
def hexDigits : Bytes := bs "0123456789abcdefABCDEF"

/-- The loop of `scanNumber` (fuel = remaining length + 1): returns `(ok, consumed-so-far reversed, rest)`.
    `ok = false` means scanNumber returned false at that point (with the characters consumed so far). -/
def scanNumLoop (hex : Bool) : Nat → Bool → Bool → Bytes → Bytes → Bool × Bytes × Bytes
  | 0, _, _, acc, s => (false, acc, s)
  | fuel + 1, dotC, expC, acc, s =>
    let digits := if hex then hexDigits else decDigits
    match s with
    | [] => (true, acc, s)
    | c :: tl =>
      if !(inSet digits c || c == 46 || c == 95 || c == 101 || c == 69) then (true, acc, s)
      else if c == 46 && dotC then (false, c :: acc, tl)
      else if (c == 101 || c == 69) && expC then (false, c :: acc, tl)
      else if c == 46 then
        match tl with
        | d :: tl' => if d == 95 || d == 46 then (false, d :: c :: acc, tl') else
            if hex then (false, c :: acc, tl) else scanNumLoop hex fuel true expC (c :: acc) tl
        | [] => if hex then (false, c :: acc, tl) else scanNumLoop hex fuel true expC (c :: acc) tl
      else if c == 101 || c == 69 then
        let (acc1, tl1) := match tl with
          | sg :: tl' => if sg == 43 || sg == 45 then (sg :: c :: acc, tl') else (c :: acc, tl)
          | [] => (c :: acc, tl)
        match tl1 with
        | [] => (false, acc1, tl1)
        | d :: tl' => if d == 46 || d == 95 || d == 101 || d == 69 then (false, d :: acc1, tl') else scanNumLoop hex fuel dotC true acc1 tl1
      else if c == 95 then
        match tl with
        | [] => (false, c :: acc, tl)
        | d :: tl' => if d == 46 || d == 95 || d == 101 || d == 69 then (false, d :: c :: acc, tl') else scanNumLoop hex fuel dotC expC (c :: acc) tl
      else
        -- acceptRun(digitPattern)
        let run := s.takeWhile (inSet digits)
        scanNumLoop hex fuel dotC expC (run.reverse ++ acc) (s.dropWhile (inSet digits))

/-- `scanNumber`: `(ok, consumed reversed, rest)`. -/
def scanNumber (s : Bytes) : Bool × Bytes × Bytes :=
  -- optional 0x / 0X prefix
  let (hex, acc0, s0) : Bool × Bytes × Bytes :=
    match s with
    | 48 :: x :: tl =>
      if x == 120 || x == 88 then
        (match tl with
         | 95 :: tl' => (true, [95, x, 48], tl')
         | _ => (true, [x, 48], tl))
      else (false, [48], x :: tl)
    | 48 :: [] => (false, [48], [])
    | _ => (false, [], s)
  let digits := if hex then hexDigits else decDigits
  let (acc1, s1) := match s0 with
    | 46 :: tl => ([46] ++ acc0, tl)
    | _ => (acc0, s0)
  let (acc2, s2) := match s1 with
    | c :: tl => if inSet digits c then (c :: acc1, tl) else (acc1, s1)
    | [] => (acc1, s1)
  let (ok, acc3, s3) := scanNumLoop hex (s2.length + 1) false false acc2 s2
  if !ok then (false, acc3, s3)
  else if acc3.isEmpty then (false, acc3, s3)
  else match s3 with
    | c :: _ => if isAlnumB c then (false, acc3, s3) else (true, acc3, s3)
    | [] => (true, acc3, s3)

/-- the digit-unit repetition of `acceptRemainingDuration` (after the first unit). -/
def durTail : Nat → Bytes → Bytes → Option (Bytes × Bytes)
  | 0, _, _ => none
  | fuel + 1, acc, s =>
    match s with
    | c :: _ =>
      if isDigitB c then
        let run := s.takeWhile isDigitB
        let s1 := s.dropWhile isDigitB
        match s1 with
        | u :: tl =>
          if inSet (bs "smhdw") u then
            (match tl with
             | 115 :: tl' => durTail fuel ([115, u] ++ run.reverse ++ acc) tl'
             | _ => durTail fuel (u :: (run.reverse ++ acc)) tl)
          else none
        | [] => none
      else if isAlnumB c then none else some (acc, s)
    | [] => some (acc, s)

/-- `acceptRemainingDuration` from the position where `scanNumber` stopped. -/
def acceptRemainingDuration (acc : Bytes) (s : Bytes) : Option (Bytes × Bytes) :=
  match s with
  | u :: tl =>
    if inSet (bs "smhdwy") u then
      match tl with
      | 115 :: tl' => durTail (tl'.length + 1) ([115, u] ++ acc) tl'
      | _ => durTail (tl.length + 1) (u :: acc) tl
    else none
  | [] => none

/-- `lexNumberOrDuration`. -/
def lexNumberOrDuration (s : Bytes) : Option (Tok × Bytes) :=
  let (ok, acc, rest) := scanNumber s
  if ok then some (.number acc.reverse, rest)
  else match acceptRemainingDuration acc rest with
    | some (acc', rest') => some (.duration acc'.reverse, rest')
    | none => none

/-! ### strings -/

/-- `lexEscape` after the backslash: consumed bytes (reversed onto acc) and rest, `none` on error. -/
def lexEscape (q : UInt8) (acc : Bytes) (s : Bytes) : Option (Bytes × Bytes) :=
  match s with
  | [] => none
  | c :: tl =>
    if inSet (bs "abfnrtv\\") c || c == q then some (c :: acc, tl)
    else if 48 ≤ c && c ≤ 55 then
      match tl with
      | d1 :: d2 :: tl' =>
        if 48 ≤ d1 && d1 ≤ 55 && 48 ≤ d2 && d2 ≤ 55 then
          let v := (c.toNat - 48) * 64 + (d1.toNat - 48) * 8 + (d2.toNat - 48)
          if v > 255 then none else some ([d2, d1, c] ++ acc, tl')
        else none
      | _ => none
    else if c == 120 then
      match hexRun? 2 tl with
      | some (_, tl') => some ((tl.take 2).reverse ++ (c :: acc), tl')
      | none => none
    else if c == 117 then
      match hexRun? 4 tl with
      | some (v, tl') => if 0xD800 ≤ v && v < 0xE000 then none else some ((tl.take 4).reverse ++ (c :: acc), tl')
      | none => none
    else if c == 85 then
      match hexRun? 8 tl with
      | some (v, tl') => if v > 0x10FFFF || (0xD800 ≤ v && v < 0xE000) then none else some ((tl.take 8).reverse ++ (c :: acc), tl')
      | none => none
    else none

/-- `lexString` (quote `"` or `'`): body scanning; returns the token text including both quotes. -/
def lexStringBody (q : UInt8) : Nat → Bytes → Bytes → Option (Bytes × Bytes)
  | 0, _, _ => none
  | fuel + 1, acc, s =>
    match s with
    | [] => none
    | c :: tl =>
      if c == 92 then
        match lexEscape q (c :: acc) tl with
        | some (acc', tl') => lexStringBody q fuel acc' tl'
        | none => none
      else if c == 10 then none
      else if c == q then some ((c :: acc).reverse, tl)
      else if c < 0x80 then lexStringBody q fuel (c :: acc) tl
      else
        let (r, w) := decodeRune s
        if r == 0xFFFD then none   -- invalid UTF-8, and also a literal U+FFFD (utf8.RuneError)
        else lexStringBody q fuel ((s.take w).reverse ++ acc) (s.drop w)

def lexRawBody : Nat → Bytes → Bytes → Option (Bytes × Bytes)
  | 0, _, _ => none
  | fuel + 1, acc, s =>
    match s with
    | [] => none
    | c :: tl =>
      if c == 96 then some ((c :: acc).reverse, tl)
      else if c < 0x80 then lexRawBody fuel (c :: acc) tl
      else
        let (r, w) := decodeRune s
        if r == 0xFFFD then none else lexRawBody fuel ((s.take w).reverse ++ acc) (s.drop w)

def lexStringTok (q : UInt8) (rest : Bytes) : Option (Tok × Bytes) :=
  if q == 96 then (lexRawBody (rest.length + 1) [96] rest).map fun (t, r) => (.string t, r)
  else (lexStringBody q (rest.length + 1) [q] rest).map fun (t, r) => (.string t, r)

/-! ### the state machine -/

inductive LexMode | stmt | braces | durexpr
deriving DecidableEq, Repr

structure LexState where
  mode : LexMode := .stmt
  braceOpen : Bool := false
  bracketOpen : Bool := false
  parenDepth : Int := 0
  gotDuration : Bool := false   -- set by the first number lexed inside brackets, never reset
deriving Repr

def skipSpacesB (s : Bytes) : Bytes := s.dropWhile isSpaceB

def skipComment (s : Bytes) : Bytes := s.dropWhile (fun c => c != 13 && c != 10)

/-- next non-space byte is `(` (`peekFollowedByLeftParen`). -/
def followedByLParen (s : Bytes) : Bool :=
  match skipSpacesB s with
  | 40 :: _ => true
  | _ => false

def durationKeyword (w : Bytes) : Option Tok :=
  let lw := lowerBs w
  if lw = bs "step" then some (.kw .step w)
  else if lw = bs "range" then some (.kw .range w)
  else if lw = bs "max_of" then some (.kw .maxOf w)
  else if lw = bs "min_of" then some (.kw .minOf w)
  else none

def isDurKwStart (c : UInt8) : Bool := let l := lowerB c; l == 115 || l == 114 || l == 109

/-- One step: `none` = lexer error, `some (none, …)` = nothing emitted (space/comment), else a token. -/
def lexStep (st : LexState) (s : Bytes) : Option (Option Tok × LexState × Bytes) :=
  match s with
  | [] => none
  | c :: tl =>
    if st.braceOpen && st.mode != .durexpr then
      -- lexInsideBraces (lexStatements dispatches to it whenever braceOpen)
      if c == 35 then some (none, st, skipComment s)
      else if isSpaceB c then some (none, st, skipSpacesB tl)
      else if isAlphaB c then
        let w := s.takeWhile isAlnumB
        some (some (.ident w), st, s.dropWhile isAlnumB)
      else if c == 44 then some (some .comma, st, tl)
      else if c == 34 || c == 39 || c == 96 then
        (lexStringTok c tl).map fun (t, r) => (some t, st, r)
      else if c == 61 then
        match tl with
        | 126 :: tl' => some (some .eqlRegex, st, tl')
        | _ => some (some .eql, st, tl)
      else if c == 33 then
        match tl with
        | 126 :: tl' => some (some .neqRegex, st, tl')
        | 61 :: tl' => some (some (.op .neq (bs "!=")), st, tl')
        | _ => none
      else if c == 125 then some (some .rbrace, { st with braceOpen := false }, tl)
      else none
    else if st.mode == .durexpr then
      if c == 93 then some (some .rbracket, { st with mode := .stmt, bracketOpen := false }, tl)
      else if c == 58 then (if st.gotDuration then some (some .colon, st, tl) else none)
      else if c == 40 then some (some .lparen, { st with parenDepth := st.parenDepth + 1 }, tl)
      else if c == 41 then
        if st.parenDepth - 1 < 0 then none else some (some .rparen, { st with parenDepth := st.parenDepth - 1 }, tl)
      else if isSpaceB c then some (none, st, skipSpacesB tl)
      else if c == 43 then some (some (.op .add [c]), st, tl)
      else if c == 45 then some (some (.op .sub [c]), st, tl)
      else if c == 42 then some (some (.op .mul [c]), st, tl)
      else if c == 47 then some (some (.op .div [c]), st, tl)
      else if c == 37 then some (some (.op .mod [c]), st, tl)
      else if c == 94 then some (some (.op .pow [c]), st, tl)
      else if c == 44 then some (some .comma, st, tl)
      else if isDurKwStart c then
        let w := s.takeWhile isAlphaB
        (durationKeyword w).map fun t => (some t, st, s.dropWhile isAlphaB)
      else if isDigitB c || (c == 46 && (match tl with | d :: _ => isDigitB d | [] => false)) then
        (lexNumberOrDuration s).map fun (t, r) => (some t, { st with mode := .stmt, gotDuration := true }, r)
      else none
    else
      -- lexStatements
      if c == 35 then some (none, st, skipComment s)
      else if c == 44 then some (some .comma, st, tl)
      else if isSpaceB c then some (none, st, skipSpacesB tl)
      else if c == 42 then some (some (.op .mul [c]), st, tl)
      else if c == 47 then some (some (.op .div [c]), st, tl)
      else if c == 37 then some (some (.op .mod [c]), st, tl)
      else if c == 43 then some (some (.op .add [c]), st, tl)
      else if c == 45 then some (some (.op .sub [c]), st, tl)
      else if c == 94 then some (some (.op .pow [c]), st, tl)
      else if c == 61 then
        match tl with
        | 61 :: tl' => some (some (.op .eqlc (bs "==")), st, tl')
        | 126 :: _ => none
        | _ => some (some .eql, st, tl)
      else if c == 33 then
        match tl with
        | 61 :: tl' => some (some (.op .neq (bs "!=")), st, tl')
        | _ => none
      else if c == 60 then
        match tl with
        | 61 :: tl' => some (some (.op .lte (bs "<=")), st, tl')
        | 47 :: tl' => some (some (.op .trimUpper (bs "</")), st, tl')
        | _ => some (some (.op .lss (bs "<")), st, tl)
      else if c == 62 then
        match tl with
        | 61 :: tl' => some (some (.op .gte (bs ">=")), st, tl')
        | 47 :: tl' => some (some (.op .trimLower (bs ">/")), st, tl')
        | _ => some (some (.op .gtr (bs ">")), st, tl)
      else if isDigitB c || (c == 46 && (match tl with | d :: _ => isDigitB d | [] => false)) then
        (lexNumberOrDuration s).map fun (t, r) => (some t, st, r)
      else if c == 34 || c == 39 || c == 96 then
        (lexStringTok c tl).map fun (t, r) => (some t, st, r)
      else if isAlphaB c || c == 58 then
        if !st.bracketOpen then
          let w := s.takeWhile (fun c => isAlnumB c || c == 58)
          let rest := s.dropWhile (fun c => isAlnumB c || c == 58)
          match keywordOf (lowerBs w) w with
          | some (.kw k t) =>
            if (k == .fill || k == .fillLeft || k == .fillRight) && !followedByLParen rest then some (some (.ident w), st, rest)
            else some (some (.kw k t), st, rest)
          | some t => some (some t, st, rest)
          | none => if w.contains 58 then some (some (.metricIdent w), st, rest) else some (some (.ident w), st, rest)
        else if c == 58 then some (some .colon, st, tl)
        else if isDurKwStart c then
          let w := s.takeWhile isAlphaB
          (durationKeyword w).map fun t => (some t, st, s.dropWhile isAlphaB)
        else none
      else if c == 40 then some (some .lparen, { st with parenDepth := st.parenDepth + 1 }, tl)
      else if c == 41 then
        if st.parenDepth - 1 < 0 then none else some (some .rparen, { st with parenDepth := st.parenDepth - 1 }, tl)
      else if c == 123 then some (some .lbrace, { st with braceOpen := true }, tl)
      else if c == 91 then
        if st.bracketOpen then none
        else some (some .lbracket, { st with bracketOpen := true, mode := .durexpr }, skipSpacesB tl)
      else if c == 93 then
        if !st.bracketOpen then none else some (some .rbracket, { st with bracketOpen := false }, tl)
      else if c == 64 then some (some .at, st, tl)
      else none

/-- Run the lexer to the end of the input (every step consumes at least one byte). -/
def lexLoop : Nat → LexState → Bytes → List Tok → Option (List Tok)
  | 0, _, _, _ => none
  | fuel + 1, st, s, acc =>
    match s with
    | [] =>
      -- end of input: lexStatements checks the open parenthesis / bracket, lexInsideBraces and
      -- lexDurationExpr report an error
      if st.braceOpen || st.mode == .durexpr then none
      else if st.parenDepth != 0 then none
      else if st.bracketOpen then none
      else some acc.reverse
    | _ =>
      match lexStep st s with
      | none => none
      | some (none, st', s') => lexLoop fuel st' s' acc
      | some (some t, st', s') => lexLoop fuel st' s' (t :: acc)

def lex (s : Bytes) : Option (List Tok) := lexLoop (s.length + 1) {} s []

end Prom.Promql
